#!/bin/sh
# Build the framework from files on disk only (offline): Lean model + theorems + driver, Rust harnesses,
# generated-program crates (warm caches; every check rebuilds what it needs from /repo anyway).
set -e
cd "$(dirname "$0")"
V="$PWD"
export CARGO_NET_OFFLINE=true
mkdir -p .build evidence replays
python3 translators/extract_clean_pairs.py
python3 translators/extract_codec_tags.py
python3 translators/extract_serde_attrs.py
python3 translators/extract_impl_tables.py
python3 translators/extract_typestate.py
python3 translators/extract_ident_rule.py
# the schema translator needs the schema harness built first
cp /repo/Cargo.lock harness/schema/Cargo.lock 2>/dev/null || true
(cd harness/schema && CARGO_TARGET_DIR="$V/.build/sch" cargo build --offline --quiet && CARGO_TARGET_DIR="$V/.build/sch-bv" cargo build --offline --quiet --features bitvec)
"$V/.build/sch/debug/sch" schema > "$V/.build/schema.json"
python3 translators/schema_to_lean.py "$V/.build/schema.json"
(cd lean && lake build SIM driver)
for p in lean/SIM/Props/*.lean; do m=$(basename "$p" .lean); (cd lean && lake build "SIM.Props.$m") ; done
cp /repo/Cargo.lock harness/rt/Cargo.lock 2>/dev/null || true
(cd harness/rt && CARGO_TARGET_DIR="$V/.build/rt" cargo build --offline --quiet && CARGO_TARGET_DIR="$V/.build/rt-docs" cargo build --offline --quiet --features docs && CARGO_TARGET_DIR="$V/.build/rt-min" cargo build --offline --quiet --no-default-features)
python3 harness/gen/gen_std.py --seed 1 --n 20 --out harness/progs/pg/src/gen_std.rs 2>/dev/null
python3 harness/gen/gen_derive.py --seed 1 --n 10 --out harness/progs/pg/src/gen_derive.rs 2>/dev/null
cp /repo/Cargo.lock harness/progs/pg/Cargo.lock 2>/dev/null || true
(cd harness/progs/pg && CARGO_TARGET_DIR="$V/.build/pg" cargo build --offline --quiet && CARGO_TARGET_DIR="$V/.build/pg-docs" cargo build --offline --quiet --features docs)
cp /repo/Cargo.lock harness/progs/ng/Cargo.lock 2>/dev/null || true
mkdir -p harness/progs/ng/src/bin
(cd harness/progs/ng && CARGO_TARGET_DIR="$V/.build/ng" cargo check --offline --lib --quiet)
echo setup-ok
