#!/bin/sh
# Build the framework from files on disk only (offline): Lean model + theorems + driver, Rust harness.
set -e
cd "$(dirname "$0")"
export CARGO_NET_OFFLINE=true
mkdir -p .build evidence replays
(cd lean && lake build SIM driver)
cp /repo/Cargo.lock harness/rt/Cargo.lock 2>/dev/null || true
(cd harness/rt && cargo build --offline --quiet)
echo setup-ok
