//! Schema harness (C19): built with scale-info's `schema` feature.
//!   sch schema            prints the JSON Schema generated for PortableRegistry (one line)
//!   sch docs --seed S --n N   prints generated registries: `doc <k> <wf 0|1> <json text>` one per line
#[path = "../../rt/src/gen.rs"]
mod gen;
#[path = "../../rt/src/proto.rs"]
mod proto;

fn main() {
    let args: Vec<String> = std::env::args().collect();
    match args.get(1).map(|s| s.as_str()) {
        Some("schema") => {
            let s = schemars::schema_for!(scale_info::PortableRegistry);
            println!("{}", serde_json::to_string(&s).unwrap());
        }
        Some("docs") => {
            let mut seed = 1u64;
            let mut n = 100u64;
            let mut i = 2;
            while i + 1 < args.len() {
                match args[i].as_str() {
                    "--seed" => seed = args[i + 1].parse().unwrap(),
                    "--n" => n = args[i + 1].parse().unwrap(),
                    _ => {}
                }
                i += 2;
            }
            let mut r = gen::Rng::new(seed);
            for k in 0..n {
                let size = match r.below(8) {
                    0 => 0,
                    1..=5 => r.range(1, 4),
                    _ => r.range(4, 10),
                } as u32;
                let wf = k % 2 == 1;
                let reg = if wf { gen::wf_registry(&mut r, size) } else { gen::wild_registry(&mut r, size) };
                println!("doc {} {} {} ;; {}", k, wf as u8, proto::pregistry(&reg), serde_json::to_string(&reg).unwrap());
            }
        }
        _ => {
            eprintln!("usage: sch schema | docs --seed S --n N");
            std::process::exit(2)
        }
    }
}
