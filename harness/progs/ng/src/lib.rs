// bins are generated into src/bin by harness/gen/gen_neg.py
