//! Generated-program harness: the type corpora and declarations in gen_*.rs are produced by
//! /verif/harness/gen/*.py on every run; this file only walks them and prints case lines.
#![allow(unused, non_camel_case_types, clippy::all)]
#![recursion_limit = "1024"]
#[path = "../../../rt/src/proto.rs"]
mod proto;
mod gen_std;
mod gen_derive;

use proto::*;
use scale_info::{form::PortableForm, Field, MetaType, Path, PortableRegistry, Registry, Type, TypeDef, TypeParameter, Variant};
use std::hash::{Hash, Hasher};
use std::io::Write;

pub fn hash_of(m: &MetaType) -> u64 {
    let mut h = std::collections::hash_map::DefaultHasher::new();
    m.hash(&mut h);
    h.finish()
}

/// index of the first table entry with an equal MetaType (same declared identity)
pub fn index_of(table: &[(MetaType, &'static str)], m: &MetaType) -> u32 {
    table.iter().position(|(x, _)| x == m).map(|i| i as u32).unwrap_or(999_999)
}

/// a `Type<MetaForm>` in the portable text form, references = table indices
pub fn meta_ty_to_indexed(t: &Type, table: &[(MetaType, &'static str)]) -> Type<PortableForm> {
    use scale_info::*;
    let ix = |m: &MetaType| -> <PortableForm as scale_info::form::Form>::Type { index_of(table, m).into() };
    let fld = |f: &Field| {
        Field::<PortableForm>::new(
            f.name.map(|s| s.to_string()),
            ix(&f.ty),
            f.type_name.map(|s| s.to_string()),
            f.docs.iter().map(|s| s.to_string()).collect(),
        )
    };
    let def: TypeDef<PortableForm> = match &t.type_def {
        TypeDef::Composite(c) => TypeDefComposite::new(c.fields.iter().map(fld).collect::<Vec<_>>()).into(),
        TypeDef::Variant(v) => TypeDefVariant::new(
            v.variants
                .iter()
                .map(|v| {
                    Variant::<PortableForm>::new(
                        v.name.to_string(),
                        v.fields.iter().map(fld).collect(),
                        v.index,
                        v.docs.iter().map(|s| s.to_string()).collect(),
                    )
                })
                .collect::<Vec<_>>(),
        )
        .into(),
        TypeDef::Sequence(s) => TypeDefSequence::new(ix(&s.type_param)).into(),
        TypeDef::Array(a) => TypeDefArray::new(a.len, ix(&a.type_param)).into(),
        TypeDef::Tuple(tu) => TypeDefTuple::new_portable(tu.fields.iter().map(|m| ix(m)).collect::<Vec<_>>()).into(),
        TypeDef::Primitive(p) => p.clone().into(),
        TypeDef::Compact(c) => TypeDefCompact::new(ix(&c.type_param)).into(),
        TypeDef::BitSequence(b) => TypeDefBitSequence::new_portable(ix(&b.bit_store_type), ix(&b.bit_order_type)).into(),
    };
    Type::new(
        Path::from_segments_unchecked(t.path.segments.iter().map(|s| s.to_string())),
        t.type_params
            .iter()
            .map(|p| TypeParameter::new_portable(p.name.to_string(), p.ty.as_ref().map(|m| ix(m))))
            .collect::<Vec<_>>(),
        def,
        t.docs.iter().map(|s| s.to_string()).collect(),
    )
}

fn refs_of(t: &Type<PortableForm>) -> Vec<u32> {
    let mut v: Vec<u32> = t.type_params.iter().filter_map(|p| p.ty.map(|x| x.id)).collect();
    match &t.type_def {
        TypeDef::Composite(c) => v.extend(c.fields.iter().map(|f| f.ty.id)),
        TypeDef::Variant(vs) => v.extend(vs.variants.iter().flat_map(|x| x.fields.iter().map(|f| f.ty.id))),
        TypeDef::Sequence(s) => v.push(s.type_param.id),
        TypeDef::Array(a) => v.push(a.type_param.id),
        TypeDef::Tuple(tu) => v.extend(tu.fields.iter().map(|x| x.id)),
        TypeDef::Primitive(_) => {}
        TypeDef::Compact(c) => v.push(c.type_param.id),
        TypeDef::BitSequence(b) => {
            v.push(b.bit_store_type.id);
            v.push(b.bit_order_type.id)
        }
    }
    v
}

/// `type_info()` of `m` with table-index references, followed by the (index, expression) map of the references used
pub fn tinfo_text(m: &MetaType, table: &[(MetaType, &'static str)]) -> String {
    let t = meta_ty_to_indexed(&m.type_info(), table);
    let mut rs = refs_of(&t);
    rs.sort();
    rs.dedup();
    let map = plist(&rs, |x| format!("{} {}", x, table.get(*x as usize).map(|e| e.1).unwrap_or("missing")));
    format!("{} {}", pty(&t), map)
}

fn main() {
    let args: Vec<String> = std::env::args().collect();
    let mode = args.get(1).map(|s| s.as_str()).unwrap_or("");
    let stdout = std::io::stdout();
    let mut w = std::io::BufWriter::new(stdout.lock());
    let docs = cfg!(feature = "docs") as u8;
    match mode {
        "std" => {
            let mut emit = |s: String| {
                writeln!(w, "{}", s).unwrap();
            };
            gen_std::std_cases(&mut emit);
        }
        "twins" => {
            // distinct Rust types that cannot be told apart by name: `core::any::type_name` is the same for both of each pair
            // (two closures of one function; two anonymous const blocks). Identity is the type, not its spelling.
            fn closures() -> (scale_info::MetaType, scale_info::MetaType) {
                let a = || {
                    #[derive(scale_info::TypeInfo)]
                    struct Twin(u8);
                    scale_info::MetaType::new::<Twin>()
                };
                let b = || {
                    #[derive(scale_info::TypeInfo)]
                    struct Twin(u16, bool);
                    scale_info::MetaType::new::<Twin>()
                };
                (a(), b())
            }
            let (a, b) = closures();
            for (k, order) in [[a, b], [b, a]].iter().enumerate() {
                let mut reg = scale_info::Registry::new();
                let ia = reg.register_type(&order[0]).id;
                let ib = reg.register_type(&order[1]).id;
                let n_before = reg.types().count();
                let ia2 = reg.register_type(&order[0]).id;
                let pr: scale_info::PortableRegistry = reg.into();
                let fields = |i: u32| match &pr.resolve(i).map(|t| t.type_def.clone()) {
                    Some(scale_info::TypeDef::Composite(c)) => c.fields.len() as i64,
                    _ => -1,
                };
                writeln!(
                    w,
                    "twins {} {} {} {} {} {} {} {} {}",
                    k,
                    ia,
                    ib,
                    ia2,
                    n_before,
                    pr.types.len(),
                    fields(ia),
                    fields(ib),
                    (a == b) as u8
                )
                .unwrap();
            }
        }
        "stdall" => {
            let mut emit = |s: String| {
                writeln!(w, "{}", s).unwrap();
            };
            gen_std::stdall_case(&mut emit);
        }
        "derive" => {
            let table = gen_derive::table();
            let mut emit = |s: String| {
                writeln!(w, "{}", s).unwrap();
            };
            gen_derive::derive_cases(&table, &mut emit);
        }
        "meta" => {
            // built-in corpus + every type of the derive corpus (user types declare Identity = Self)
            let mut table = gen_std::table();
            for e in gen_derive::table() {
                if !table.iter().any(|x| x.1 == e.1) {
                    table.push(e);
                }
            }
            let mut k = 0u64;
            // every definition is taken once up front; the comparisons below evaluate `type_info()` again, much later and after
            // many other identities were resolved (a definition is a function of the identity, whenever it is asked for)
            let first: Vec<scale_info::Type> = table.iter().map(|e| e.0.type_info()).collect();
            for i in 0..table.len() {
                let info_i = &first[i];
                for j in i..table.len() {
                    let (a, b) = (&table[i].0, &table[j].0);
                    let eq = a == b;
                    let cmp_eq = a.cmp(b) == std::cmp::Ordering::Equal && b.cmp(a) == std::cmp::Ordering::Equal;
                    let anti = (a.cmp(b) == std::cmp::Ordering::Less) == (b.cmp(a) == std::cmp::Ordering::Greater);
                    let hash_eq = hash_of(a) == hash_of(b);
                    let tid_eq = a.type_id() == b.type_id();
                    // definitions are compared only when needed (equal identity), to keep the run short
                    let info_eq = if eq || (i + j) % 7 == 0 { (*info_i == table[j].0.type_info()) as u8 } else { 2 };
                    let c = a.cmp(b);
                    let pc = a.partial_cmp(b) == Some(c)
                        && b.partial_cmp(a) == Some(c.reverse())
                        && (a < b) == (c == std::cmp::Ordering::Less)
                        && (a <= b) == (c != std::cmp::Ordering::Greater)
                        && (a > b) == (c == std::cmp::Ordering::Greater)
                        && (a >= b) == (c != std::cmp::Ordering::Less);
                    writeln!(
                        w,
                        "meta {} {} {} {} {} {} {} {} {} {}",
                        k, table[i].1, table[j].1, eq as u8, cmp_eq as u8, anti as u8, hash_eq as u8, tid_eq as u8, info_eq, pc as u8
                    )
                    .unwrap();
                    k += 1;
                }
            }
        }
        "tinfo" => {
            let table = gen_std::table();
            for (i, (m, proto)) in table.iter().enumerate() {
                let t = meta_ty_to_indexed(&m.type_info(), &table);
                let mut rs = refs_of(&t);
                rs.sort();
                rs.dedup();
                let map = plist(&rs, |x| {
                    format!("{} {}", x, table.get(*x as usize).map(|e| e.1).unwrap_or("missing"))
                });
                writeln!(w, "tinfo {} {} {} {} {}", i, docs, proto, pty(&t), map).unwrap();
            }
        }
        _ => {
            eprintln!("usage: pg std|meta|tinfo");
            std::process::exit(2)
        }
    }
    w.flush().unwrap();
}
