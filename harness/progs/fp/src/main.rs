//! Fingerprint program (C15): registers every type of the generated corpus, each in a fresh registry and all
//! together, and prints the SCALE encoding of the resulting PortableRegistry. Built once per feature set.
#![allow(unused, non_camel_case_types, non_snake_case, clippy::all)]
#![recursion_limit = "1024"]
mod proto {
    pub fn hex(b: &[u8]) -> String {
        let mut s = String::with_capacity(1 + b.len() * 2);
        s.push('x');
        for x in b {
            s.push_str(&format!("{:02x}", x));
        }
        s
    }
    // the generated sources only need `hex` and `pregistry` in their value cases, which are compiled out here
    pub fn pregistry(_: &scale_info::PortableRegistry) -> String {
        String::new()
    }
}
mod gen_std;
mod gen_derive;
pub fn tinfo_text(_: &scale_info::MetaType, _: &[(scale_info::MetaType, &'static str)]) -> String {
    String::new()
}
use scale::Encode;
use scale_info::{PortableRegistry, Registry};

fn main() {
    let mut all = Registry::new();
    let mut k = 0usize;
    for table in [gen_std::table(), gen_derive::table()] {
        for (m, _) in table.iter() {
            let mut reg = Registry::new();
            reg.register_type(m);
            all.register_type(m);
            let pr: PortableRegistry = reg.into();
            println!("fp {} {}", k, proto::hex(&pr.encode()));
            k += 1;
        }
    }
    let pr: PortableRegistry = all.into();
    println!("fp all {}", proto::hex(&pr.encode()));
}
