//! Fingerprint program (C15): registers every type of the generated corpus, each in a fresh registry and all
//! together, and prints the SCALE encoding of the resulting PortableRegistry. Built once per feature set.
#![allow(unused, non_camel_case_types, non_snake_case, clippy::all)]
#![recursion_limit = "1024"]
mod proto {
    pub fn hex(b: &[u8]) -> String {
        let mut s = String::with_capacity(1 + b.len() * 2);
        s.push('x');
        for x in b {
            s.push_str(&format!("{:02x}", x));
        }
        s
    }
    // the generated sources only need `hex` and `pregistry` in their value cases, which are compiled out here
    pub fn pregistry(_: &scale_info::PortableRegistry) -> String {
        String::new()
    }
}
mod gen_std;
mod gen_derive;
pub fn tinfo_text(_: &scale_info::MetaType, _: &[(scale_info::MetaType, &'static str)]) -> String {
    String::new()
}
use scale::Encode;
use scale_info::{PortableRegistry, Registry};

fn main() {
    // a panic inside the library on one type is a result for that type (some feature sets may panic where others do not), not the end of the run
    std::panic::set_hook(Box::new(|_| {}));
    let mut all = Registry::new();
    let mut k = 0usize;
    for table in [gen_std::table(), gen_derive::table()] {
        for (m, name) in table.iter() {
            let one = std::panic::catch_unwind(|| {
                let mut reg = Registry::new();
                reg.register_type(m);
                let pr: PortableRegistry = reg.into();
                proto::hex(&pr.encode())
            });
            match one {
                Ok(h) => {
                    all.register_type(m);
                    println!("fp {} {}", k, h)
                }
                Err(_) => println!("fp {} panic {}", k, name),
            }
            k += 1;
        }
    }
    let pr: PortableRegistry = all.into();
    println!("fp all {}", proto::hex(&pr.encode()));
}
