//! Counting allocator: current and peak live bytes, so a decode's memory use can be observed.
use std::alloc::{GlobalAlloc, Layout, System};
use std::sync::atomic::{AtomicUsize, Ordering::Relaxed};

pub struct Counting;
static CUR: AtomicUsize = AtomicUsize::new(0);
static PEAK: AtomicUsize = AtomicUsize::new(0);

unsafe impl GlobalAlloc for Counting {
    unsafe fn alloc(&self, l: Layout) -> *mut u8 {
        let p = System.alloc(l);
        if !p.is_null() {
            let c = CUR.fetch_add(l.size(), Relaxed) + l.size();
            PEAK.fetch_max(c, Relaxed);
        }
        p
    }
    unsafe fn dealloc(&self, p: *mut u8, l: Layout) {
        CUR.fetch_sub(l.size(), Relaxed);
        System.dealloc(p, l)
    }
    unsafe fn realloc(&self, p: *mut u8, l: Layout, new: usize) -> *mut u8 {
        let q = System.realloc(p, l, new);
        if !q.is_null() {
            if new >= l.size() {
                let c = CUR.fetch_add(new - l.size(), Relaxed) + (new - l.size());
                PEAK.fetch_max(c, Relaxed);
            } else {
                CUR.fetch_sub(l.size() - new, Relaxed);
            }
        }
        q
    }
}
/// start a measurement: peak := current
pub fn reset() -> usize {
    let c = CUR.load(Relaxed);
    PEAK.store(c, Relaxed);
    c
}
/// bytes allocated above the level at `reset`
pub fn peak_since(base: usize) -> usize {
    PEAK.load(Relaxed).saturating_sub(base)
}
