//! Stream `retain` (C10, retain clause of C01): the real `PortableRegistry::retain`.
use crate::gen::{self, Rng};
use crate::proto::*;
use crate::Out;
use scale_info::{form::PortableForm, PortableRegistry, PortableType, Type};
use std::panic::{catch_unwind, AssertUnwindSafe};

pub fn run_retain(reg: &PortableRegistry, keep: &[u32], id: &str, out: &mut Out) {
    // the input goes out (flushed) before the call: if `retain` never returns, the orchestrator
    // kills the harness and finds the offending input in the last, unterminated line
    out.begin(&format!("retain {} {} {}", id, pregistry(reg), plist(keep, |x| x.to_string())));
    let mut r = reg.clone();
    let res = catch_unwind(AssertUnwindSafe(|| {
        let m = r.retain(|i| keep.contains(&i));
        (r, m)
    }));
    match res {
        Err(_) => out.end(" panic"),
        Ok((r2, m)) => {
            let pairs: Vec<(u32, u32)> = m.into_iter().collect();
            // retaining everything from the result once more (theorem C10canon.retain_canonical: the identity)
            let mut again = r2.clone();
            let canon = match catch_unwind(AssertUnwindSafe(|| {
                let m2 = again.retain(|_| true);
                (again, m2)
            })) {
                Err(_) => 2,
                Ok((r3, m2)) => (r3 == r2 && m2.len() == r2.types.len() && m2.iter().all(|(a, b)| a == b)) as u8,
            };
            out.end(&format!(" ok {} {} {}", pregistry(&r2), plist(&pairs, |(a, b)| format!("{} {}", a, b)), canon));
        }
    }
}

/// a well-formed registry with sparse, structured references: chains, small cycles, self loops,
/// nodes referenced only through a type parameter, skipped parameters before real ones
pub fn structured_registry(r: &mut Rng, n: u32) -> PortableRegistry {
    let local = r.chance(1, 2);
    let nn = n as u64;
    let types = (0..n)
        .map(|i| {
            let k = i as u64;
            let mut idf = |r: &mut Rng| -> u32 {
                if local {
                    let d = r.below(4);
                    (if r.chance(1, 4) { k.saturating_sub(d) } else { (k + d).min(nn - 1) }) as u32
                } else {
                    r.below(nn) as u32
                }
            };
            let mut t: Type<PortableForm> = gen::ty(r, &mut idf, false);
            if r.chance(1, 6) {
                // reachable only through a type parameter: primitive definition, parameters kept
                t.type_def = crate::proto::prim_of_tag(r.below(15) as u32).unwrap().into();
            }
            PortableType::new(i, t)
        })
        .collect();
    PortableRegistry { types }
}

pub fn retain(r: &mut Rng, n: u64, thorough: bool, out: &mut Out) {
    for case in 0..n {
        let size = match if gen::small() { 0 } else { 1 + r.below(10) } {
            0 => r.range(1, 5),
            1 => r.below(2),
            2..=5 => r.range(2, 8),
            6..=9 => r.range(8, 30),
            _ => r.range(30, if thorough { 64 } else { 40 }),
        } as u32;
        // sizes around powers of two (1 case in 16; the larger ones 1 in 100)
        let size = if gen::small() {
            size
        } else if r.chance(1, 100) {
            *r.pick(&[127u32, 128, 129, 255, 256, 257, 300])
        } else if r.chance(1, 16) {
            *r.pick(&[15u32, 16, 17, 18, 31, 32, 33, 34, 63, 64, 65, 66])
        } else {
            size
        };
        let reg = if r.chance(1, 3) { gen::wf_registry(r, size) } else { structured_registry(r, size) };
        let keep: Vec<u32> = match r.below(6) {
            0 => vec![],
            1 => (0..size).collect(),
            2 if size > 0 => vec![r.below(size as u64) as u32],
            3 if size > 0 => vec![size - 1],
            _ => (0..size).filter(|_| r.chance(1, 4)).collect(),
        };
        run_retain(&reg, &keep, &case.to_string(), out);
    }
}

pub fn replay_retain(line: &str, out: &mut Out) -> R<()> {
    let mut t = Toks::new(line);
    let _ = t.tok()?;
    let id = t.tok()?.to_string();
    let reg = t.registry()?;
    let keep = t.list(|s| s.u32())?;
    run_retain(&reg, &keep, &id, out);
    Ok(())
}
