//! Stream `codec` (C06, C07, C14, decode part of C01): the real SCALE Encode/Decode of PortableRegistry.
use crate::gen::{self, Rng};
use crate::proto::*;
use crate::{alloc, Out};
use scale::{Decode, Encode};
use scale_info::{
    form::PortableForm, Field, Path, PortableRegistry, PortableType, Type, TypeDefComposite, TypeDefPrimitive, TypeDefTuple, TypeDefVariant,
    TypeParameter, Variant,
};
use std::collections::HashMap;
use std::panic::{catch_unwind, AssertUnwindSafe};

pub fn run_enc(reg: &PortableRegistry) -> (Vec<u8>, String) {
    let bytes = reg.encode();
    let again = reg.encode();
    let det = bytes == again;
    let mut inp = &bytes[..];
    let back = catch_unwind(AssertUnwindSafe(|| PortableRegistry::decode(&mut inp)));
    let rt = match back {
        Ok(Ok(r)) => r == *reg && inp.is_empty(),
        _ => false,
    };
    let s = format!("enc {} {} {} {}", pregistry(reg), hex(&bytes), rt as u8, det as u8);
    (bytes, s)
}

pub fn run_dec(bytes: &[u8]) -> String {
    let mut inp = &bytes[..];
    let base = alloc::reset();
    let res = catch_unwind(AssertUnwindSafe(|| PortableRegistry::decode(&mut inp)));
    let peak = alloc::peak_since(base);
    match res {
        Err(_) => format!("dec {} panic", hex(bytes)),
        Ok(Err(_)) => format!("dec {} err {}", hex(bytes), peak),
        Ok(Ok(r)) => {
            let consumed = bytes.len() - inp.len();
            let reenc = r.encode() == bytes[..consumed];
            let n = r.types.len() as u32;
            let oob = catch_unwind(AssertUnwindSafe(|| {
                r.resolve(n).is_none() && r.resolve(u32::MAX).is_none() && r.resolve(n.wrapping_add(7)).is_none()
            }))
            .unwrap_or(false);
            format!(
                "dec {} ok {} {} {} {} {}",
                hex(bytes),
                pregistry(&r),
                inp.len(),
                reenc as u8,
                oob as u8,
                peak
            )
        }
    }
}

fn compact(n: u32) -> Vec<u8> {
    scale::Compact(n).encode()
}

pub fn mutate(r: &mut Rng, b: &[u8]) -> Vec<u8> {
    let mut v = b.to_vec();
    match r.below(9) {
        0 => {
            // truncate
            let k = r.below(v.len() as u64 + 1) as usize;
            v.truncate(k);
        }
        1 | 2 => {
            // bit flip
            if !v.is_empty() {
                let i = r.below(v.len() as u64) as usize;
                v[i] ^= 1 << r.below(8);
            }
        }
        3 => {
            // insert a byte
            let i = r.below(v.len() as u64 + 1) as usize;
            v.insert(i, r.next() as u8);
        }
        4 => {
            // corrupt the leading length field with a large / boundary value
            let big = *r.pick(&[
                63u32, 64, 16383, 16384, 0x2AAA_AAAB, 0x5555_5556, 0x8000_0000, u32::MAX, (1 << 30) - 1, 1 << 30, 1_000_000,
            ]);
            let mut inp = &b[..];
            if scale::Compact::<u32>::decode(&mut inp).is_ok() {
                v = compact(big);
                v.extend_from_slice(inp);
            }
        }
        5 => {
            // overwrite a random position with a non-canonical / big compact
            if !v.is_empty() {
                let i = r.below(v.len() as u64) as usize;
                let pat: &[u8] = *r.pick(&[
                    &[0x01u8, 0x00][..],
                    &[0x02, 0x00, 0x00, 0x00],
                    &[0x03, 0x00, 0x00, 0x00, 0x00],
                    &[0x07, 0xff, 0xff, 0xff, 0xff, 0xff],
                    &[0xfd, 0xff],
                    &[0xfe, 0xff, 0xff, 0xff],
                    &[0x03, 0xff, 0xff, 0xff, 0xff],
                    &[0xff],
                ]);
                v.splice(i..(i + 1).min(v.len()), pat.iter().copied());
            }
        }
        6 => {
            // append trailing bytes (decoder must leave them)
            let k = r.range(1, 4);
            for _ in 0..k {
                v.push(r.next() as u8);
            }
        }
        7 => {
            // delete a byte
            if !v.is_empty() {
                let i = r.below(v.len() as u64) as usize;
                v.remove(i);
            }
        }
        _ => {
            // set a byte
            if !v.is_empty() {
                let i = r.below(v.len() as u64) as usize;
                v[i] = *r.pick(&[0u8, 1, 2, 3, 4, 7, 8, 14, 15, 0x80, 0xc0, 0xff]);
            }
        }
    }
    v
}

pub fn codec(r: &mut Rng, n: u64, thorough: bool, out: &mut Out) {
    let mut case = 0u64;
    let mut seen: HashMap<Vec<u8>, String> = HashMap::new();
    for i in 0..n {
        let size = match if gen::small() { r.below(4) } else { 4 + r.below(10) } {
            0..=3 if gen::small() => r.below(3),
            4 => 0,
            5..=9 => r.range(1, 4),
            10..=12 => r.range(4, 12),
            _ => *r.pick(&[63u64, 64, 65]),
        } as u32;
        let reg = if i % 7 == 3 {
            gen::tiny_registry(r, size.max(1) * 3)
        } else if i % 2 == 0 {
            gen::wild_registry(r, size)
        } else {
            gen::wf_registry(r, size)
        };
        let (bytes, s) = run_enc(&reg);
        out.line(&format!("codec {} {}", case, s));
        case += 1;
        // injectivity: two different registries must not share an encoding
        let key = pregistry(&reg);
        if let Some(prev) = seen.get(&bytes) {
            if *prev != key {
                out.line(&format!("codec {} coll {} {}", case, prev, key));
                case += 1;
            }
        } else if seen.len() < 50_000 {
            seen.insert(bytes.clone(), key);
        }
        if bytes.len() <= 400 {
            let muts = if thorough { 12 } else { 6 };
            for _ in 0..muts {
                let mut m = mutate(r, &bytes);
                if r.chance(1, 4) {
                    m = mutate(r, &m);
                }
                out.line(&format!("codec {} {}", case, run_dec(&m)));
                case += 1;
            }
            if bytes.len() <= 60 && (thorough || i % 8 == 0) {
                // every truncation
                for k in 0..bytes.len() {
                    out.line(&format!("codec {} {}", case, run_dec(&bytes[..k])));
                    case += 1;
                }
            }
        }
        if bytes.len() > 400 && bytes.len() < 100_000 {
            // too long to mutate: still decode the exact bytes (and one truncation) so that the decoder comparison
            // sees the long-list shapes as well
            out.line(&format!("codec {} {}", case, run_dec(&bytes)));
            case += 1;
            let k = r.below(bytes.len() as u64) as usize;
            out.line(&format!("codec {} {}", case, run_dec(&bytes[..k])));
            case += 1;
        }
        if i % 4 == 0 {
            let k = r.below(24) as usize;
            let rnd: Vec<u8> = (0..k).map(|_| if r.chance(1, 2) { r.below(16) as u8 } else { r.next() as u8 }).collect();
            out.line(&format!("codec {} {}", case, run_dec(&rnd)));
            case += 1;
        }
    }
    if !gen::small() {
        // every kind of list with 255 / 256 / 257 elements (the u8 range), whatever the random stream did
        for len in [255usize, 256, 257] {
            let p0 = || Path::from_segments_unchecked(Vec::<String>::new());
            let vs: Vec<Variant<PortableForm>> =
                (0..len).map(|i| Variant::new(format!("V{i}"), Vec::<Field<PortableForm>>::new(), (i % 256) as u8, Vec::<String>::new())).collect();
            let fs: Vec<Field<PortableForm>> = (0..len).map(|i| Field::new(None, ((i % 2) as u32).into(), None, Vec::<String>::new())).collect();
            let ps: Vec<TypeParameter<PortableForm>> =
                (0..len).map(|i| TypeParameter::new_portable(format!("P{i}"), if i % 2 == 0 { Some(0u32.into()) } else { None })).collect();
            let segs: Vec<String> = (0..len).map(|i| format!("m{i}")).collect();
            let reg = PortableRegistry {
                types: vec![
                    PortableType::new(0, Type::new(p0(), Vec::new(), TypeDefVariant::new(vs), Vec::new())),
                    PortableType::new(1, Type::new(p0(), Vec::new(), TypeDefComposite::new(fs), Vec::new())),
                    PortableType::new(2, Type::new(Path::from_segments_unchecked(segs), ps, TypeDefPrimitive::U8, Vec::new())),
                ],
            };
            let (bytes, s) = run_enc(&reg);
            out.line(&format!("codec {} {}", case, s));
            case += 1;
            out.line(&format!("codec {} {}", case, run_dec(&bytes)));
            case += 1;
        }
        // registries of many entries (around 1024 and 4096), smallest possible entries, the last one referring to the first
        for n in [1023u32, 1024, 1025, 1100, 4096, 4097] {
            let types: Vec<PortableType> = (0..n)
                .map(|i| {
                    let d: scale_info::TypeDef<PortableForm> = if i == 0 {
                        TypeDefPrimitive::U8.into()
                    } else {
                        scale_info::TypeDefSequence::new((if i % 2 == 0 { n - 1 } else { i - 1 }).into()).into()
                    };
                    PortableType::new(i, Type::new(Path::from_segments_unchecked(Vec::<String>::new()), Vec::new(), d, Vec::new()))
                })
                .collect();
            let reg = PortableRegistry { types };
            let (bytes, s) = run_enc(&reg);
            out.line(&format!("codec {} {}", case, s));
            case += 1;
            out.line(&format!("codec {} {}", case, run_dec(&bytes)));
            case += 1;
        }
        // hand-written bytes: neighbouring strings that are not UTF-8 one by one although their bytes, joined, are (a character
        // cut between two path segments / two doc lines), and the whole character in one string for comparison
        for ch in ["\u{e9}", "\u{20ac}", "\u{1f600}", "a\u{e9}b"] {
            let b = ch.as_bytes();
            for k in 0..=b.len() {
                let strs = |v: &mut Vec<u8>| {
                    if k == 0 || k == b.len() {
                        v.extend(compact(1));
                        v.extend(compact(b.len() as u32));
                        v.extend_from_slice(b);
                    } else {
                        v.extend(compact(2));
                        v.extend(compact(k as u32));
                        v.extend_from_slice(&b[..k]);
                        v.extend(compact((b.len() - k) as u32));
                        v.extend_from_slice(&b[k..]);
                    }
                };
                // one entry, id 0: path, no parameters, primitive u8, docs
                let mut in_path = vec![];
                in_path.extend(compact(1));
                in_path.extend(compact(0));
                strs(&mut in_path);
                in_path.extend([0u8, 5, 3, 0]);
                let mut in_docs = vec![];
                in_docs.extend(compact(1));
                in_docs.extend(compact(0));
                in_docs.extend([0u8, 0, 5, 3]);
                strs(&mut in_docs);
                for bytes in [in_path, in_docs] {
                    out.line(&format!("codec {} {}", case, run_dec(&bytes)));
                    case += 1;
                }
            }
        }
        // list lengths at the 2-byte / 4-byte compact boundary (cheap elements)
        for len in [16383usize, 16384] {
            let tup = TypeDefTuple::new_portable((0..len).map(|k| ((k % 3) as u32).into()).collect::<Vec<_>>());
            let docs: Vec<String> = (0..len).map(|_| String::new()).collect();
            let reg = PortableRegistry {
                types: vec![
                    PortableType::new(0, Type::new(Path::from_segments_unchecked(Vec::<String>::new()), Vec::new(), tup, Vec::new())),
                    PortableType::new(
                        1,
                        Type::new(Path::from_segments_unchecked(Vec::<String>::new()), Vec::new(), TypeDefPrimitive::U8, docs),
                    ),
                ],
            };
            out.line(&format!("codec {} {}", case, run_enc(&reg).1));
            case += 1;
        }
    }
}

pub fn replay_codec(line: &str, out: &mut Out) -> R<()> {
    let mut t = Toks::new(line);
    let _ = t.tok()?;
    let id = t.tok()?.to_string();
    match t.tok()? {
        "enc" => {
            let reg = t.registry()?;
            out.line(&format!("codec {} {}", id, run_enc(&reg).1));
        }
        "dec" => {
            let b = t.bytes()?;
            out.line(&format!("codec {} {}", id, run_dec(&b)));
        }
        "coll" => {
            let a = t.registry()?;
            let b = t.registry()?;
            if a != b && a.encode() == b.encode() {
                out.line(&format!("codec {} coll {} {}", id, pregistry(&a), pregistry(&b)));
            } else {
                out.line(&format!("codec {} {}", id, run_enc(&a).1));
            }
        }
        x => return Err(format!("codec kind {x}")),
    }
    Ok(())
}
