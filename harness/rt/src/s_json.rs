//! Stream `json` (C08, JSON half of C14): serde_json::to_value / from_value of PortableRegistry.
use crate::gen::{self, Rng};
use crate::proto::*;
use crate::Out;
use scale_info::PortableRegistry;
use serde_json::{json, Map, Value};
use std::panic::{catch_unwind, AssertUnwindSafe};

pub fn pjson(v: &Value) -> String {
    match v {
        Value::Null => "n".into(),
        Value::Bool(true) => "t".into(),
        Value::Bool(false) => "f".into(),
        Value::Number(n) => match n.as_u64() {
            Some(u) if !n.is_f64() => format!("i {}", u),
            _ => "j".into(),
        },
        Value::String(s) => format!("s {}", pstr(s)),
        Value::Array(a) => format!("a {}", plist(a, pjson)),
        Value::Object(m) => {
            let mut s = format!("o {}", m.len());
            for (k, v) in m {
                s.push_str(&format!(" {} {}", pstr(k), pjson(v)));
            }
            s
        }
    }
}

pub fn parse_json(t: &mut Toks) -> R<Value> {
    Ok(match t.tok()? {
        "n" => Value::Null,
        "t" => Value::Bool(true),
        "f" => Value::Bool(false),
        "i" => json!(t.nat()?),
        "j" => json!(-1.5),
        "s" => Value::String(t.string()?),
        "a" => {
            let n = t.nat()?;
            let mut v = vec![];
            for _ in 0..n {
                v.push(parse_json(t)?);
            }
            Value::Array(v)
        }
        "o" => {
            let n = t.nat()?;
            let mut m = Map::new();
            for _ in 0..n {
                let k = t.string()?;
                m.insert(k, parse_json(t)?);
            }
            Value::Object(m)
        }
        x => return Err(format!("json tok {x}")),
    })
}

pub fn run_ser(reg: &PortableRegistry) -> (Value, String) {
    let v = serde_json::to_value(reg).expect("to_value");
    let back = catch_unwind(AssertUnwindSafe(|| serde_json::from_value::<PortableRegistry>(v.clone())));
    let rt = matches!(back, Ok(Ok(ref r)) if r == reg);
    // the text form must carry the same value
    let txt = serde_json::to_string(reg).expect("to_string");
    let rt2 = matches!(serde_json::from_str::<PortableRegistry>(&txt), Ok(ref r) if r == reg);
    let s = format!("ser {} {} {}", pregistry(reg), pjson(&v), (rt && rt2) as u8);
    (v, s)
}

/// serde's positional form of the whole registry: every struct as an array of its members in declaration order, every unit
/// variant as a one-member map (what `SIM.JsonM.posOfRegistry` writes; theorem `C08pos.toRegistry_posOfRegistry`)
pub fn positional(reg: &PortableRegistry) -> Value {
    use scale_info::{form::PortableForm, Field, TypeDef};
    fn opt(o: &Option<String>) -> Value {
        o.clone().map(Value::String).unwrap_or(Value::Null)
    }
    fn field(f: &Field<PortableForm>) -> Value {
        json!([opt(&f.name), f.ty.id, opt(&f.type_name), f.docs])
    }
    let types: Vec<Value> = reg
        .types
        .iter()
        .map(|p| {
            let t = &p.ty;
            let def = match &t.type_def {
                TypeDef::Composite(c) => json!({"composite": [c.fields.iter().map(field).collect::<Vec<_>>()]}),
                TypeDef::Variant(v) => json!({"variant": [v
                    .variants
                    .iter()
                    .map(|v| json!([v.name, v.fields.iter().map(field).collect::<Vec<_>>(), v.index, v.docs]))
                    .collect::<Vec<_>>()]}),
                TypeDef::Sequence(x) => json!({"sequence": [x.type_param.id]}),
                TypeDef::Array(x) => json!({"array": [x.len, x.type_param.id]}),
                TypeDef::Tuple(x) => json!({"tuple": x.fields.iter().map(|i| i.id).collect::<Vec<_>>()}),
                TypeDef::Primitive(x) => {
                    let name = serde_json::to_value(x).unwrap().as_str().unwrap().to_string();
                    let mut m = serde_json::Map::new();
                    m.insert(name, Value::Null);
                    json!({"primitive": Value::Object(m)})
                }
                TypeDef::Compact(x) => json!({"compact": [x.type_param.id]}),
                TypeDef::BitSequence(x) => json!({"bitsequence": [x.bit_store_type.id, x.bit_order_type.id]}),
            };
            let params: Vec<Value> = t.type_params.iter().map(|q| json!([q.name, q.ty.map(|i| i.id)])).collect();
            json!([p.id, [t.path.segments, params, def, t.docs]])
        })
        .collect();
    json!([types])
}
pub fn run_pos(reg: &PortableRegistry) -> String {
    let v = positional(reg);
    let res = catch_unwind(AssertUnwindSafe(|| serde_json::from_value::<PortableRegistry>(v.clone())));
    let obs = match res {
        Err(_) => "panic".to_string(),
        Ok(Err(_)) => "err".to_string(),
        Ok(Ok(r)) => format!("ok {}", pregistry(&r)),
    };
    format!("pos {} {} {}", pregistry(reg), pjson(&v), obs)
}

pub fn run_de(v: &Value) -> String {
    let res = catch_unwind(AssertUnwindSafe(|| serde_json::from_value::<PortableRegistry>(v.clone())));
    match res {
        Err(_) => format!("de {} panic", pjson(v)),
        Ok(Err(_)) => format!("de {} err", pjson(v)),
        Ok(Ok(r)) => format!("de {} ok {}", pjson(v), pregistry(&r)),
    }
}

/// paths to every node of a JSON value
fn nodes<'a>(v: &'a Value, path: &mut Vec<String>, out: &mut Vec<Vec<String>>) {
    out.push(path.clone());
    match v {
        Value::Array(a) => {
            for (i, x) in a.iter().enumerate() {
                path.push(i.to_string());
                nodes(x, path, out);
                path.pop();
            }
        }
        Value::Object(m) => {
            for (k, x) in m {
                path.push(k.clone());
                nodes(x, path, out);
                path.pop();
            }
        }
        _ => {}
    }
}
fn at<'a>(v: &'a mut Value, path: &[String]) -> &'a mut Value {
    let mut cur = v;
    for p in path {
        cur = match cur {
            Value::Array(a) => &mut a[p.parse::<usize>().unwrap()],
            Value::Object(m) => m.get_mut(p).unwrap(),
            _ => unreachable!(),
        };
    }
    cur
}

const KEYS: &[&str] = &[
    "types", "id", "type", "path", "params", "def", "docs", "name", "typeName", "index", "fields", "variants", "len",
    "composite", "variant", "sequence", "array", "tuple", "primitive", "compact", "bitsequence", "bit_store_type",
    "bit_order_type", "type_name", "bitSequence", "Composite", "extra", "ty",
];

pub fn mutate(r: &mut Rng, v: &Value) -> Value {
    let mut v = v.clone();
    let mut all = vec![];
    nodes(&v, &mut vec![], &mut all);
    let path = r.pick(&all).clone();
    let node = at(&mut v, &path);
    match r.below(13) {
        0 => *node = Value::Null,
        1 => {
            *node = r
                .pick(&[json!(0), json!(255), json!(256), json!(4294967295u64), json!(4294967296u64), json!(-1), json!(1.5), json!(1.0), json!("x"), json!(true), json!([]), json!({})])
                .clone()
        }
        2 | 3 => {
            // remove a member
            if let Value::Object(m) = node {
                if !m.is_empty() {
                    let ks: Vec<String> = m.keys().cloned().collect();
                    m.remove(r.pick(&ks));
                }
            }
        }
        4 | 5 => {
            // add a member (unknown key, or a known optional one with some value)
            if let Value::Object(m) = node {
                let k = *r.pick(KEYS);
                let val = r.pick(&[json!(null), json!([]), json!("s"), json!(3), json!({}), json!(["a"]), json!([{"type": 0}])]).clone();
                m.insert(k.to_string(), val);
            }
        }
        6 => {
            // rename a member
            if let Value::Object(m) = node {
                if !m.is_empty() {
                    let ks: Vec<String> = m.keys().cloned().collect();
                    let k = r.pick(&ks).clone();
                    let val = m.remove(&k).unwrap();
                    m.insert((*r.pick(KEYS)).to_string(), val);
                }
            }
        }
        7 => {
            // array: drop or duplicate an element
            if let Value::Array(a) = node {
                if !a.is_empty() {
                    let i = r.below(a.len() as u64) as usize;
                    if r.chance(1, 2) {
                        a.remove(i);
                    } else {
                        let x = a[i].clone();
                        a.push(x);
                    }
                }
            }
        }
        8 => {
            // string content
            if let Value::String(s) = node {
                *s = (*r.pick(&["", "bool", "u8", "U8", "é", "str", "i256", "u512"])).to_string();
            }
        }
        10 | 11 => {
            // serde's positional form of a struct: the members in declaration order, absent optional
            // ones filled in; sometimes truncated or with a surplus element
            if let Value::Object(m) = node {
                const ORDERS: &[&[&str]] = &[
                    &["types"],
                    &["id", "type"],
                    &["path", "params", "def", "docs"],
                    &["name", "type", "typeName", "docs"],
                    &["name", "fields", "index", "docs"],
                    &["name", "type"],
                    &["fields"],
                    &["variants"],
                    &["type"],
                    &["len", "type"],
                    &["bit_store_type", "bit_order_type"],
                ];
                let fits: Vec<&&[&str]> = ORDERS.iter().filter(|o| m.keys().all(|k| o.contains(&k.as_str()))).collect();
                if !fits.is_empty() {
                    let o = **r.pick(&fits);
                    let mut a: Vec<Value> = o
                        .iter()
                        .map(|k| match m.get(*k) {
                            Some(x) => x.clone(),
                            None => match *k {
                                "name" | "typeName" | "type" => Value::Null,
                                _ => json!([]),
                            },
                        })
                        .collect();
                    match r.below(6) {
                        0 => {
                            a.pop();
                        }
                        1 => {
                            let k = r.below(a.len() as u64 + 1) as usize;
                            a.truncate(k);
                        }
                        2 => a.push(r.pick(&[json!(null), json!([]), json!(0)]).clone()),
                        _ => {}
                    }
                    *node = Value::Array(a);
                }
            }
        }
        12 => {
            // a unit variant as a one-member map: {"u8": null}
            if let Value::String(s) = node {
                let k = s.clone();
                let val = r.pick(&[json!(null), json!(null), json!(0), json!([]), json!({})]).clone();
                let mut m = serde_json::Map::new();
                m.insert(k, val);
                if r.chance(1, 6) {
                    m.insert("u8".to_string(), Value::Null);
                }
                *node = Value::Object(m);
            }
        }
        _ => {
            // wrap in an array / replace an object by its values as an array (serde's positional form)
            let old = node.take();
            *node = match old {
                Value::Object(m) if r.chance(1, 2) => Value::Array(m.into_iter().map(|(_, v)| v).collect()),
                o => json!([o]),
            };
        }
    }
    v
}

pub fn json_stream(r: &mut Rng, n: u64, thorough: bool, out: &mut Out) {
    let mut case = 0u64;
    for i in 0..n {
        let size = if gen::small() {
            r.range(0, 2)
        } else {
            match r.below(8) {
                0 => 0,
                1..=5 => r.range(1, 4),
                _ if r.chance(1, 10) => *r.pick(&[16u64, 17, 32, 33, 65]),
                _ => r.range(4, 10),
            }
        } as u32;
        let reg = if i % 2 == 0 { gen::wild_registry(r, size) } else { gen::wf_registry(r, size) };
        let (v, s) = run_ser(&reg);
        out.line(&format!("json {} {}", case, s));
        case += 1;
        out.line(&format!("json {} {}", case, run_pos(&reg)));
        case += 1;
        let muts = if thorough { 10 } else { 5 };
        for _ in 0..muts {
            let mut m = mutate(r, &v);
            if r.chance(1, 3) {
                m = mutate(r, &m);
            }
            out.line(&format!("json {} {}", case, run_de(&m)));
            case += 1;
        }
    }
    if !gen::small() {
        // variant lists whose indices are not their positions (0 last, 0 in the middle, 255 first), and lists of 255 / 256 / 257
        // variants, fields, tuple members: the same in every run
        use scale_info::{form::PortableForm, Field, Path, PortableType, Type, TypeDefComposite, TypeDefTuple, TypeDefVariant, Variant};
        let p0 = || Path::from_segments_unchecked(Vec::<String>::new());
        let mut regs: Vec<PortableRegistry> = vec![];
        for idxs in [vec![1u8, 0], vec![5, 0, 3], vec![255, 0], vec![2, 1, 0], vec![0], vec![7]] {
            let vs: Vec<Variant<PortableForm>> = idxs
                .iter()
                .enumerate()
                .map(|(k, i)| Variant::new(format!("V{k}"), Vec::<Field<PortableForm>>::new(), *i, Vec::<String>::new()))
                .collect();
            regs.push(PortableRegistry { types: vec![PortableType::new(0, Type::new(p0(), Vec::new(), TypeDefVariant::new(vs), Vec::new()))] });
        }
        for len in [255usize, 256, 257] {
            let vs: Vec<Variant<PortableForm>> =
                (0..len).map(|i| Variant::new(format!("V{i}"), Vec::<Field<PortableForm>>::new(), (i % 256) as u8, Vec::<String>::new())).collect();
            let fs: Vec<Field<PortableForm>> = (0..len).map(|i| Field::new(None, ((i % 2) as u32).into(), None, Vec::<String>::new())).collect();
            regs.push(PortableRegistry {
                types: vec![
                    PortableType::new(0, Type::new(p0(), Vec::new(), TypeDefVariant::new(vs), Vec::new())),
                    PortableType::new(1, Type::new(p0(), Vec::new(), TypeDefComposite::new(fs), Vec::new())),
                    PortableType::new(
                        2,
                        Type::new(p0(), Vec::new(), TypeDefTuple::new_portable((0..len).map(|i| ((i % 3) as u32).into()).collect::<Vec<_>>()), Vec::new()),
                    ),
                ],
            });
        }
        for reg in regs {
            out.line(&format!("json f{} {}", case, run_ser(&reg).1));
            case += 1;
            out.line(&format!("json f{} {}", case, run_pos(&reg)));
            case += 1;
        }
    }
    // hand-written documents: optional members omitted / explicitly empty / null
    for doc in [
        json!({"types": []}),
        json!({"types": [{"id": 0, "type": {"def": {"primitive": "u8"}}}]}),
        json!({"types": [{"id": 0, "type": {"path": [], "params": [], "def": {"tuple": []}, "docs": []}}]}),
        json!({"types": [{"id": 0, "type": {"def": {"composite": {"fields": [{"type": 0, "name": null, "typeName": null, "docs": []}]}}}}]}),
        json!({"types": [{"id": 0, "type": {"def": {"composite": {}}}}]}),
        json!({"types": [{"id": 0, "type": {"def": {"variant": {"variants": [{"name": "A", "index": 255}]}}}}]}),
        json!({"types": [{"id": 0, "type": {"def": {"variant": {"variants": [{"name": "A", "index": 256}]}}}}]}),
        json!({"types": [{"id": 0, "type": {"params": [{"name": "T"}, {"name": "U", "type": null}, {"name": "V", "type": 7}], "def": {"sequence": {"type": 1}}}}]}),
        json!({"types": [{"id": 0, "type": {"def": {"bitsequence": {"bit_store_type": 1, "bit_order_type": 2}}}}]}),
        json!({"types": [{"id": 0, "type": {"def": {"bitSequence": {"bit_store_type": 1, "bit_order_type": 2}}}}]}),
        json!({"types": [{"id": 0, "type": {"def": {"primitive": "U8"}}}]}),
        json!({"types": [{"id": 0, "type": {"def": {"array": {"len": 4294967295u64, "type": 4294967295u64}}}}]}),
        json!({"types": [{"id": 0, "type": {"def": {"array": {"len": 4294967296u64, "type": 0}}}}]}),
        json!({"types": [{"id": 0, "type": {"def": {"compact": {"type": 0}}, "extra": 1}, "more": []}], "x": null}),
        json!({"types": [{"id": 0, "type": {"def": {"composite": {"fields": [{"type": 0, "type_name": "x"}]}}}}]}),
        json!({"types": null}),
        json!([[[0, [[], [], {"primitive": {"u8": null}}, []]]]]),
        json!([[[0, [["a"], [["T", null], ["U", 3]], {"composite": [[[null, 0], ["f", 1, "X"], ["g", 1, null, ["d"]]]]}]]]]),
        json!([[[0, [[], [["T"]], {"tuple": []}]]]]),
        json!([[[0, [[], [], {"variant": [[["A", [], 7], ["B", [[null, 0, null, []]], 8, ["d"]]]]}, [], 1]]]]),
        json!([[[0, [[], [], {"array": [3]}]]]]),
        json!([[[0, [[], [], {"array": [3, 0]}]], [1, {"def": {"bitsequence": [0, 1]}}], [2, {"def": {"compact": [0]}}], [3, {"def": {"sequence": []}}]]]),
        json!([[[0, [[], []]]]]),
        json!([[[0]]]),
        json!([[], 1]),
        json!({"types": [{"id": 0, "type": {"def": {"primitive": {"u8": null, "u16": null}}}}]}),
        json!({"types": [{"id": 0, "type": {"def": {"primitive": {"u8": 0}}}}]}),
        json!({"types": [{"id": 0, "type": {"def": {"primitive": {}}}}]}),
        json!({"types": [{"id": 0, "type": {"def": "composite"}}]}),
        json!([]),
        json!(null),
    ] {
        out.line(&format!("json h{} {}", case, run_de(&doc)));
        case += 1;
    }
}

pub fn replay_json(line: &str, out: &mut Out) -> R<()> {
    let mut t = Toks::new(line);
    let _ = t.tok()?;
    let id = t.tok()?.to_string();
    match t.tok()? {
        "ser" => {
            let reg = t.registry()?;
            out.line(&format!("json {} {}", id, run_ser(&reg).1));
        }
        "pos" => {
            let reg = t.registry()?;
            out.line(&format!("json {} {}", id, run_pos(&reg)));
        }
        "de" => {
            let v = parse_json(&mut t)?;
            out.line(&format!("json {} {}", id, run_de(&v)));
        }
        x => return Err(format!("json kind {x}")),
    }
    Ok(())
}
