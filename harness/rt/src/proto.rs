//! Canonical text form shared with the Lean driver (see lean/SIM/Model/Proto.lean).
use scale_info::{
    form::PortableForm, Field, PortableRegistry, PortableType, Type, TypeDef, TypeDefPrimitive,
    TypeParameter, Variant,
};

pub fn hex(b: &[u8]) -> String {
    let mut s = String::with_capacity(1 + b.len() * 2);
    s.push('x');
    for x in b {
        s.push_str(&format!("{:02x}", x));
    }
    s
}
pub fn pstr(s: &str) -> String {
    hex(s.as_bytes())
}
pub fn popt<T>(o: &Option<T>, f: impl Fn(&T) -> String) -> String {
    match o {
        None => "N".into(),
        Some(v) => format!("S {}", f(v)),
    }
}
pub fn plist<T>(l: &[T], f: impl Fn(&T) -> String) -> String {
    let mut s = l.len().to_string();
    for x in l {
        s.push(' ');
        s.push_str(&f(x));
    }
    s
}
pub fn prim_tag(p: &TypeDefPrimitive) -> u32 {
    use TypeDefPrimitive::*;
    match p {
        Bool => 0,
        Char => 1,
        Str => 2,
        U8 => 3,
        U16 => 4,
        U32 => 5,
        U64 => 6,
        U128 => 7,
        U256 => 8,
        I8 => 9,
        I16 => 10,
        I32 => 11,
        I64 => 12,
        I128 => 13,
        I256 => 14,
    }
}
pub fn prim_of_tag(t: u32) -> Option<TypeDefPrimitive> {
    use TypeDefPrimitive::*;
    Some(match t {
        0 => Bool,
        1 => Char,
        2 => Str,
        3 => U8,
        4 => U16,
        5 => U32,
        6 => U64,
        7 => U128,
        8 => U256,
        9 => I8,
        10 => I16,
        11 => I32,
        12 => I64,
        13 => I128,
        14 => I256,
        _ => return None,
    })
}
pub fn pfield(f: &Field<PortableForm>) -> String {
    format!(
        "{} {} {} {}",
        popt(&f.name, |s| pstr(s)),
        f.ty.id,
        popt(&f.type_name, |s| pstr(s)),
        plist(&f.docs, |s| pstr(s))
    )
}
pub fn pvariant(v: &Variant<PortableForm>) -> String {
    format!(
        "{} {} {} {}",
        pstr(&v.name),
        plist(&v.fields, pfield),
        v.index,
        plist(&v.docs, |s| pstr(s))
    )
}
pub fn ptypedef(d: &TypeDef<PortableForm>) -> String {
    match d {
        TypeDef::Composite(c) => format!("c {}", plist(&c.fields, pfield)),
        TypeDef::Variant(v) => format!("v {}", plist(&v.variants, pvariant)),
        TypeDef::Sequence(s) => format!("s {}", s.type_param.id),
        TypeDef::Array(a) => format!("a {} {}", a.len, a.type_param.id),
        TypeDef::Tuple(t) => format!("t {}", plist(&t.fields, |x| x.id.to_string())),
        TypeDef::Primitive(p) => format!("p {}", prim_tag(p)),
        TypeDef::Compact(c) => format!("k {}", c.type_param.id),
        TypeDef::BitSequence(b) => format!("b {} {}", b.bit_store_type.id, b.bit_order_type.id),
    }
}
pub fn pparam(p: &TypeParameter<PortableForm>) -> String {
    format!("{} {}", pstr(&p.name), popt(&p.ty, |t| t.id.to_string()))
}
pub fn pty(t: &Type<PortableForm>) -> String {
    format!(
        "{} {} {} {}",
        plist(&t.path.segments, |s| pstr(s)),
        plist(&t.type_params, pparam),
        ptypedef(&t.type_def),
        plist(&t.docs, |s| pstr(s))
    )
}
pub fn pptype(p: &PortableType) -> String {
    format!("{} {}", p.id, pty(&p.ty))
}
pub fn pregistry(r: &PortableRegistry) -> String {
    plist(&r.types, pptype)
}

// ---------------------------------------------------------------- parsing (replay / corpus)

pub struct Toks<'a> {
    it: std::str::SplitAsciiWhitespace<'a>,
}
pub type R<T> = Result<T, String>;
impl<'a> Toks<'a> {
    pub fn new(s: &'a str) -> Self {
        Toks { it: s.split_ascii_whitespace() }
    }
    pub fn tok(&mut self) -> R<&'a str> {
        self.it.next().ok_or_else(|| "eof".to_string())
    }
    pub fn nat(&mut self) -> R<u64> {
        let t = self.tok()?;
        t.parse::<u64>().map_err(|e| format!("nat {t}: {e}"))
    }
    pub fn u32(&mut self) -> R<u32> {
        let n = self.nat()?;
        u32::try_from(n).map_err(|e| e.to_string())
    }
    pub fn bytes(&mut self) -> R<Vec<u8>> {
        let t = self.tok()?;
        let t = t.strip_prefix('x').ok_or("str: no x")?;
        if t.len() % 2 != 0 {
            return Err("odd hex".into());
        }
        (0..t.len() / 2)
            .map(|i| u8::from_str_radix(&t[2 * i..2 * i + 2], 16).map_err(|e| e.to_string()))
            .collect()
    }
    pub fn string(&mut self) -> R<String> {
        String::from_utf8(self.bytes()?).map_err(|e| e.to_string())
    }
    pub fn opt<T>(&mut self, f: impl Fn(&mut Self) -> R<T>) -> R<Option<T>> {
        match self.tok()? {
            "N" => Ok(None),
            "S" => Ok(Some(f(self)?)),
            t => Err(format!("opt: {t}")),
        }
    }
    pub fn list<T>(&mut self, f: impl Fn(&mut Self) -> R<T>) -> R<Vec<T>> {
        let n = self.nat()?;
        (0..n).map(|_| f(self)).collect()
    }
    pub fn field(&mut self) -> R<Field<PortableForm>> {
        let name = self.opt(|s| s.string())?;
        let ty = self.u32()?;
        let tn = self.opt(|s| s.string())?;
        let docs = self.list(|s| s.string())?;
        Ok(Field::new(name, ty.into(), tn, docs))
    }
    pub fn variant(&mut self) -> R<Variant<PortableForm>> {
        let name = self.string()?;
        let fields = self.list(|s| s.field())?;
        let idx = self.nat()?;
        let docs = self.list(|s| s.string())?;
        Ok(Variant::new(name, fields, u8::try_from(idx).map_err(|e| e.to_string())?, docs))
    }
    pub fn typedef(&mut self) -> R<TypeDef<PortableForm>> {
        use scale_info::*;
        Ok(match self.tok()? {
            "c" => TypeDefComposite::new(self.list(|s| s.field())?).into(),
            "v" => TypeDefVariant::new(self.list(|s| s.variant())?).into(),
            "s" => TypeDefSequence::new(self.u32()?.into()).into(),
            "a" => {
                let n = self.u32()?;
                TypeDefArray::new(n, self.u32()?.into()).into()
            }
            "t" => TypeDefTuple::new_portable(self.list(|s| s.u32().map(Into::into))?).into(),
            "p" => prim_of_tag(self.u32()?).ok_or("prim tag")?.into(),
            "k" => TypeDefCompact::new(self.u32()?.into()).into(),
            "b" => {
                let s = self.u32()?;
                let o = self.u32()?;
                TypeDefBitSequence::new_portable(s.into(), o.into()).into()
            }
            t => return Err(format!("typedef {t}")),
        })
    }
    pub fn param(&mut self) -> R<TypeParameter<PortableForm>> {
        let name = self.string()?;
        let ty = self.opt(|s| s.u32())?;
        Ok(TypeParameter::new_portable(name, ty.map(Into::into)))
    }
    pub fn ty(&mut self) -> R<Type<PortableForm>> {
        let path = self.list(|s| s.string())?;
        let params = self.list(|s| s.param())?;
        let d = self.typedef()?;
        let docs = self.list(|s| s.string())?;
        Ok(Type::new(scale_info::Path::from_segments_unchecked(path), params, d, docs))
    }
    pub fn ptype(&mut self) -> R<PortableType> {
        let id = self.u32()?;
        Ok(PortableType::new(id, self.ty()?))
    }
    pub fn registry(&mut self) -> R<PortableRegistry> {
        Ok(PortableRegistry { types: self.list(|s| s.ptype())? })
    }
}
