//! Seeded generators. Every random choice derives from one SplitMix64 state.
use scale_info::{
    form::PortableForm, Field, Path, PortableRegistry, PortableType, Type, TypeDef,
    TypeDefArray, TypeDefBitSequence, TypeDefCompact, TypeDefComposite, TypeDefSequence,
    TypeDefTuple, TypeDefVariant, TypeParameter, Variant,
};

/// `--small`: generate the smallest shapes only (used to look for a minimal failing input once a failure was seen)
pub static SMALL: std::sync::atomic::AtomicBool = std::sync::atomic::AtomicBool::new(false);
pub fn small() -> bool {
    SMALL.load(std::sync::atomic::Ordering::Relaxed)
}

pub struct Rng(pub u64);
impl Rng {
    pub fn new(seed: u64) -> Self {
        Rng(seed.wrapping_mul(0x9E3779B97F4A7C15) ^ 0xD1B54A32D192ED03)
    }
    pub fn next(&mut self) -> u64 {
        self.0 = self.0.wrapping_add(0x9E3779B97F4A7C15);
        let mut z = self.0;
        z = (z ^ (z >> 30)).wrapping_mul(0xBF58476D1CE4E5B9);
        z = (z ^ (z >> 27)).wrapping_mul(0x94D049BB133111EB);
        z ^ (z >> 31)
    }
    pub fn below(&mut self, n: u64) -> u64 {
        if n == 0 {
            0
        } else {
            self.next() % n
        }
    }
    pub fn range(&mut self, lo: u64, hi: u64) -> u64 {
        lo + self.below(hi - lo + 1)
    }
    pub fn chance(&mut self, num: u64, den: u64) -> bool {
        self.below(den) < num
    }
    pub fn pick<'a, T>(&mut self, xs: &'a [T]) -> &'a T {
        &xs[self.below(xs.len() as u64) as usize]
    }
}

const WORDS: &[&str] = &[
    "", "a", "T", "foo", "Bar", "_x", "r#type", "Vec<T>", "Option<u8>", "é", "日本", "\u{1F600}",
    "a::b", " lead", "trail ", "\"q\"", "\\", "\n", "\u{0}", "x y", "u32", "&'static str",
];

pub fn string(r: &mut Rng) -> String {
    if small() {
        return (*r.pick(&["", "a", "b", "T"])).to_string();
    }
    match r.below(10) {
        0..=5 => (*r.pick(WORDS)).to_string(),
        6 => {
            // long string: crosses the 1-byte / 2-byte compact length boundary (64); now and then one byte count beyond u8
            let n = if r.chance(1, 12) { *r.pick(&[255usize, 256, 257, 1000]) } else { *r.pick(&[63usize, 64, 65, 200]) };
            "s".repeat(n)
        }
        7 => {
            let n = r.below(6) as usize;
            (0..n).map(|_| *r.pick(&['a', 'Z', '_', '7', ' ', 'é', '漢', '\u{10FFFF}', '\u{7f}'])).collect()
        }
        _ => {
            let n = r.range(1, 8) as usize;
            (0..n).map(|_| (b'a' + r.below(26) as u8) as char).collect()
        }
    }
}
/// At most one list per generated registry gets a length at a boundary of the format (compact length classes 63/64;
/// the u8 range of variant indices 255/256/257).
static BIG_LEFT: std::sync::atomic::AtomicU32 = std::sync::atomic::AtomicU32::new(0);
pub fn count(r: &mut Rng, max: u64) -> u64 {
    use std::sync::atomic::Ordering::Relaxed;
    if !small() && BIG_LEFT.load(Relaxed) > 0 && r.chance(1, 12) {
        BIG_LEFT.store(0, Relaxed);
        return *r.pick(&[63u64, 64, 65, 255, 256, 257, 255, 256, 257, 300]);
    }
    r.below(max + 1)
}
fn arm_big(r: &mut Rng) {
    BIG_LEFT.store(if r.chance(1, 10) { 1 } else { 0 }, std::sync::atomic::Ordering::Relaxed);
}
pub fn strings(r: &mut Rng, max: u64) -> Vec<String> {
    let max = if small() { max.min(1) } else { max };
    let n = if r.chance(1, 2) { 0 } else { count(r, max) };
    (0..n).map(|_| string(r)).collect()
}

/// ids straddling every compact-integer size class
pub fn wild_id(r: &mut Rng) -> u32 {
    match r.below(12) {
        0 => 0,
        1 => 63,
        2 => 64,
        3 => 16383,
        4 => 16384,
        5 => (1 << 30) - 1,
        6 => 1 << 30,
        7 => u32::MAX,
        8 => r.next() as u32,
        _ => r.below(100) as u32,
    }
}

pub fn field(r: &mut Rng, idf: &mut dyn FnMut(&mut Rng) -> u32) -> Field<PortableForm> {
    let name = if r.chance(1, 2) { Some(string(r)) } else { None };
    let tn = if r.chance(1, 2) { Some(string(r)) } else { None };
    Field::new(name, idf(r).into(), tn, strings(r, 2))
}
pub fn fields(r: &mut Rng, idf: &mut dyn FnMut(&mut Rng) -> u32, max: u64) -> Vec<Field<PortableForm>> {
    let max = if small() { max.min(2) } else { max };
    let n = count(r, max);
    (0..n).map(|_| field(r, idf)).collect()
}
pub fn typedef(r: &mut Rng, idf: &mut dyn FnMut(&mut Rng) -> u32, wild: bool) -> TypeDef<PortableForm> {
    match r.below(8) {
        0 => TypeDefComposite::new(fields(r, idf, 4)).into(),
        1 => {
            let n = count(r, 3);
            let vs = (0..n)
                .map(|i| {
                    let idx = if wild { r.below(256) as u8 } else { i as u8 };
                    Variant::new(string(r), fields(r, idf, 3), idx, strings(r, 2))
                })
                .collect::<Vec<_>>();
            TypeDefVariant::new(vs).into()
        }
        2 => TypeDefSequence::new(idf(r).into()).into(),
        3 => {
            let len = if wild { wild_id(r) } else { r.below(40) as u32 };
            TypeDefArray::new(len, idf(r).into()).into()
        }
        4 => {
            let n = count(r, 4);
            TypeDefTuple::new_portable((0..n).map(|_| idf(r).into()).collect::<Vec<_>>()).into()
        }
        5 => crate::proto::prim_of_tag(r.below(15) as u32).unwrap().into(),
        6 => TypeDefCompact::new(idf(r).into()).into(),
        _ => {
            let s = idf(r);
            let o = idf(r);
            TypeDefBitSequence::new_portable(s.into(), o.into()).into()
        }
    }
}
/// paths of real library types: code that special-cases a definition by its path sees them too
const KNOWN_PATHS: &[&[&str]] = &[
    &["bitvec", "order", "Lsb0"],
    &["bitvec", "order", "Msb0"],
    &["Option"],
    &["Result"],
    &["PhantomData"],
    &["Cow"],
    &["BTreeMap"],
    &["Range"],
    &["RangeInclusive"],
    &["Duration"],
    &["core", "marker", "PhantomData"],
];
pub fn ty(r: &mut Rng, idf: &mut dyn FnMut(&mut Rng) -> u32, wild: bool) -> Type<PortableForm> {
    let path = if !small() && r.chance(1, 8) {
        Path::from_segments_unchecked(r.pick(KNOWN_PATHS).iter().map(|s| s.to_string()))
    } else {
        Path::from_segments_unchecked(strings(r, 3))
    };
    let np = if r.chance(1, 2) { 0 } else { count(r, if small() { 1 } else { 3 }) };
    let params = (0..np)
        .map(|_| {
            let t = if r.chance(2, 3) { Some(idf(r).into()) } else { None };
            TypeParameter::new_portable(string(r), t)
        })
        .collect::<Vec<_>>();
    let d = typedef(r, idf, wild);
    Type::new(path, params, d, strings(r, 2))
}

/// A well-formed registry of `n` types (dense ids, every reference below `n`).
pub fn wf_registry(r: &mut Rng, n: u32) -> PortableRegistry {
    arm_big(r);
    let mut idf = move |r: &mut Rng| r.below(n as u64) as u32;
    let types = (0..n).map(|i| PortableType::new(i, ty(r, &mut idf, false))).collect();
    PortableRegistry { types }
}
/// A registry of tiny entries only (path-less primitives, empty tuples/composites, single references): the smallest
/// encodings the format allows, 6-8 bytes per entry.
pub fn tiny_registry(r: &mut Rng, n: u32) -> PortableRegistry {
    let types = (0..n)
        .map(|i| {
            let d: TypeDef<PortableForm> = match r.below(5) {
                0 | 1 => crate::proto::prim_of_tag(r.below(15) as u32).unwrap().into(),
                2 => TypeDefTuple::new_portable(Vec::<<PortableForm as scale_info::form::Form>::Type>::new()).into(),
                3 => TypeDefSequence::new((r.below(n as u64) as u32).into()).into(),
                _ => TypeDefComposite::new(Vec::<Field<PortableForm>>::new()).into(),
            };
            PortableType::new(i, Type::new(Path::from_segments_unchecked(Vec::<String>::new()), Vec::new(), d, Vec::new()))
        })
        .collect();
    PortableRegistry { types }
}
/// An arbitrary registry: ids and references anywhere in u32.
pub fn wild_registry(r: &mut Rng, n: u32) -> PortableRegistry {
    arm_big(r);
    let mut idf = |r: &mut Rng| wild_id(r);
    let types = (0..n)
        .map(|_| {
            let id = wild_id(r);
            PortableType::new(id, ty(r, &mut idf, true))
        })
        .collect();
    PortableRegistry { types }
}
