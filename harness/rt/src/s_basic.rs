//! Streams `interner`, `builder`, `path` (properties C12, C18, parts of C01).
use crate::gen::{self, Rng};
use crate::proto::*;
use crate::Out;
use scale_info::interner::Interner;
use scale_info::{form::PortableForm, IntoPortable, Path, PathError, PortableRegistryBuilder, Registry, Type};
use std::panic::{catch_unwind, AssertUnwindSafe};

// ------------------------------------------------------------------ interner

#[derive(Clone, Debug)]
pub enum IOp {
    Intern(u32),
    Get(u32),
    Resolve(u32),
    Elements,
}

/// Runs the ops on the real `Interner<u32>`; symbols for `resolve` (also out of range) come from
/// a second, larger interner, the only public way to obtain a `Symbol`.
pub fn run_interner(ops: &[IOp]) -> String {
    let mut donor: Interner<u32> = Interner::new();
    let top = ops.iter().map(|o| if let IOp::Resolve(k) = o { *k + 1 } else { 0 }).max().unwrap_or(0).max(40);
    for v in 0..top {
        donor.intern_or_get(v);
    }
    let mut it: Interner<u32> = Interner::new();
    let mut s = format!("{}", ops.len());
    for op in ops {
        match op {
            IOp::Intern(v) => {
                let (ins, sym) = it.intern_or_get(*v);
                s.push_str(&format!(" i {} {} {}", v, ins as u8, sym.into_untracked().id));
            }
            IOp::Get(v) => {
                let r = it.get(v).map(|sym| sym.into_untracked().id);
                s.push_str(&format!(" g {} {}", v, popt(&r, |x| x.to_string())));
            }
            IOp::Resolve(k) => {
                let sym = donor.get(k).expect("donor symbol");
                let r = it.resolve(sym).copied();
                s.push_str(&format!(" r {} {}", k, popt(&r, |x| x.to_string())));
            }
            IOp::Elements => {
                s.push_str(&format!(" e {}", plist(it.elements(), |x| x.to_string())));
            }
        }
    }
    s
}

fn gen_iops(r: &mut Rng, len: usize, alphabet: u64) -> Vec<IOp> {
    (0..len)
        .map(|_| match r.below(10) {
            0..=4 => IOp::Intern(r.below(alphabet) as u32),
            5..=6 => IOp::Get(r.below(alphabet + 2) as u32),
            7..=8 => IOp::Resolve(r.below(alphabet + 6) as u32),
            _ => IOp::Elements,
        })
        .collect()
}

pub fn interner(r: &mut Rng, n: u64, thorough: bool, out: &mut Out) {
    let mut case = 0u64;
    if thorough {
        // exhaustive: every sequence of length <= 5 over {intern,get,resolve}x{0,1,2} + elements
        let mut atoms = vec![];
        for v in 0..3u32 {
            atoms.push(IOp::Intern(v));
            atoms.push(IOp::Get(v));
            atoms.push(IOp::Resolve(v));
        }
        atoms.push(IOp::Elements);
        let k = atoms.len();
        for len in 0..=5usize {
            let total = k.pow(len as u32);
            for mut code in 0..total {
                let mut ops = Vec::with_capacity(len + 1);
                for _ in 0..len {
                    ops.push(atoms[code % k].clone());
                    code /= k;
                }
                ops.push(IOp::Elements);
                out.line(&format!("interner x{} {}", case, run_interner(&ops)));
                case += 1;
            }
        }
    }
    if !gen::small() {
        // fill histories, the same in every run: k distinct values interned one by one, each insertion followed at once by look-ups
        // of the newest, the oldest and a middle value (whatever the table does at a size threshold shows on the next call),
        // then everything interned and looked up once more
        for k in [1u32, 2, 7, 8, 9, 15, 16, 17, 18, 31, 32, 33, 34, 63, 64, 65, 127, 128, 129, 255, 256, 257, 300] {
            for order in 0..2 {
                let val = |i: u32| if order == 0 { i } else { k - 1 - i };
                let mut ops = vec![];
                for i in 0..k {
                    ops.push(IOp::Intern(val(i)));
                    ops.push(IOp::Get(val(i)));
                    ops.push(IOp::Get(val(0)));
                    ops.push(IOp::Get(val(i / 2)));
                    ops.push(IOp::Resolve(i));
                    if i % 16 == 15 || i + 1 == k {
                        ops.push(IOp::Intern(val(i)));
                        ops.push(IOp::Intern(val(0)));
                    }
                }
                for i in 0..k {
                    ops.push(IOp::Intern(val(i)));
                    ops.push(IOp::Get(val(i)));
                }
                ops.push(IOp::Resolve(k));
                ops.push(IOp::Elements);
                out.line(&format!("interner f{} {}", case, run_interner(&ops)));
                case += 1;
            }
        }
    }
    if thorough && !gen::small() && cfg!(feature = "full") && !cfg!(feature = "docs") {
        // (default build only: it costs minutes) one history past 2^16 elements (thorough tier only: the list model is quadratic): fill, then look up and re-intern the
        // values around every power-of-two index
        let k = 65_600u32;
        let mut ops: Vec<IOp> = (0..k).map(IOp::Intern).collect();
        for v in [0u32, 1, 255, 256, 257, 32767, 32768, 65534, 65535, 65536, 65537, k - 1, k] {
            ops.push(IOp::Get(v));
            ops.push(IOp::Intern(v));
            ops.push(IOp::Resolve(v));
        }
        out.line(&format!("interner g{} {}", case, run_interner(&ops)));
        case += 1;
    }
    for _ in 0..n {
        let alphabet = if gen::small() { 3 } else if r.chance(1, 12) { *r.pick(&[33u64, 65, 130, 260]) } else { *r.pick(&[2u64, 4, 8, 30]) };
        let len = r.below(if gen::small() { 7 } else if alphabet > 30 { 3 * alphabet } else if thorough { 200 } else { 60 }) as usize;
        let mut ops = gen_iops(r, len, alphabet);
        ops.push(IOp::Elements);
        out.line(&format!("interner {} {}", case, run_interner(&ops)));
        case += 1;
    }
}

pub fn replay_interner(line: &str, out: &mut Out) -> R<()> {
    let mut t = Toks::new(line);
    let _ = t.tok()?;
    let id = t.tok()?.to_string();
    let n = t.nat()?;
    let mut ops = vec![];
    for _ in 0..n {
        match t.tok()? {
            "i" => {
                ops.push(IOp::Intern(t.u32()?));
                t.tok()?;
                t.tok()?;
            }
            "g" => {
                ops.push(IOp::Get(t.u32()?));
                t.opt(|s| s.u32())?;
            }
            "r" => {
                ops.push(IOp::Resolve(t.u32()?));
                t.opt(|s| s.u32())?;
            }
            "e" => {
                ops.push(IOp::Elements);
                t.list(|s| s.u32())?;
            }
            x => return Err(format!("iop {x}")),
        }
    }
    out.line(&format!("interner {} {}", id, run_interner(&ops)));
    Ok(())
}

// ------------------------------------------------------------------ builder

#[derive(Clone, Debug)]
pub enum BOp {
    Reg(Type<PortableForm>),
    Next,
    Get(u32),
    Finish,
}

pub fn run_builder(ops: &[BOp]) -> String {
    let mut b = PortableRegistryBuilder::new();
    let mut s = format!("{}", ops.len());
    for op in ops {
        match op {
            BOp::Reg(t) => {
                let id = b.register_type(t.clone());
                s.push_str(&format!(" reg {} {}", pty(t), id));
            }
            BOp::Next => s.push_str(&format!(" next {}", b.next_type_id())),
            BOp::Get(i) => s.push_str(&format!(" get {} {}", i, popt(&b.get(*i).cloned(), pty))),
            BOp::Finish => s.push_str(&format!(" fin {}", pregistry(&b.finish()))),
        }
    }
    s
}

/// change exactly one component of a type (docs of the type / of a field / of a variant, a name, an index, a type name)
fn perturb(r: &mut Rng, mut t: Type<PortableForm>) -> Type<PortableForm> {
    use scale_info::TypeDef;
    let extra = gen::string(r);
    match (&mut t.type_def, r.below(6)) {
        (TypeDef::Variant(v), 0..=2) if !v.variants.is_empty() => {
            let i = r.below(v.variants.len() as u64) as usize;
            match r.below(4) {
                0 => v.variants[i].docs.push(extra),
                1 => v.variants[i].name.push('x'),
                2 => v.variants[i].index = v.variants[i].index.wrapping_add(1),
                _ => {
                    if let Some(f) = v.variants[i].fields.first_mut() {
                        f.docs.push(extra)
                    } else {
                        v.variants[i].docs.push(extra)
                    }
                }
            }
        }
        (TypeDef::Composite(c), 0..=2) if !c.fields.is_empty() => {
            let i = r.below(c.fields.len() as u64) as usize;
            match r.below(3) {
                0 => c.fields[i].docs.push(extra),
                1 => c.fields[i].type_name = Some(extra),
                _ => c.fields[i].name = Some(extra),
            }
        }
        (_, 3) => t.docs.push(extra),
        (_, 4) => t.path.segments.push(extra),
        _ => {
            if let Some(p) = t.type_params.first_mut() {
                p.name.push('y')
            } else {
                t.docs.push(extra)
            }
        }
    }
    t
}

pub fn builder(r: &mut Rng, n: u64, thorough: bool, out: &mut Out) {
    if !gen::small() {
        // fill histories, the same in every run: k distinct small types registered one by one (the newest, the oldest and a middle
        // one re-registered and read back straight away), then all of them once more
        for k in [1u32, 2, 15, 16, 17, 31, 32, 33, 63, 64, 65, 255, 256, 257] {
            let mk = |i: u32| -> Type<PortableForm> {
                Type::new(
                    Path::from_segments_unchecked(vec![format!("m{}", i % 7), format!("T{}", i)]),
                    Vec::new(),
                    scale_info::TypeDefSequence::new((i / 2).into()),
                    if i % 3 == 0 { vec![format!("d{i}")] } else { vec![] },
                )
            };
            let mut ops = vec![];
            for i in 0..k {
                ops.push(BOp::Next);
                ops.push(BOp::Reg(mk(i)));
                ops.push(BOp::Reg(mk(i)));
                ops.push(BOp::Reg(mk(0)));
                ops.push(BOp::Reg(mk(i / 2)));
                ops.push(BOp::Get(i));
                ops.push(BOp::Get(i + 1));
            }
            for i in 0..k {
                ops.push(BOp::Reg(mk(k - 1 - i)));
            }
            ops.push(BOp::Next);
            ops.push(BOp::Finish);
            out.line(&format!("builder f{} 1 {}", k, run_builder(&ops)));
        }
    }
    if !gen::small() {
        // near-duplicate scenarios, the same in every run: a value A, then a value B that refers to the id `next_type_id` announces
        // (the caller is about to register the next distinct value there), then A' = A with exactly ONE component changed. A table that
        // takes A' for A hands out A's id again, and `finish` then lists B with a reference nobody defines.
        use scale_info::{Field, TypeDefComposite, TypeDefVariant, TypeParameter, Variant};
        let fld = |name: Option<&str>, ty: u32, tn: Option<&str>, docs: &[&str]| -> Field<PortableForm> {
            Field::new(name.map(|x| x.to_string()), ty.into(), tn.map(|x| x.to_string()), docs.iter().map(|x| x.to_string()).collect())
        };
        let mk = |path: &[&str], pname: &str, pty: Option<u32>, def: scale_info::TypeDef<PortableForm>, docs: &[&str]| -> Type<PortableForm> {
            Type::new(
                Path::from_segments_unchecked(path.iter().map(|x| x.to_string())),
                vec![TypeParameter::new_portable(pname.to_string(), pty.map(Into::into))],
                def,
                docs.iter().map(|x| x.to_string()).collect::<Vec<_>>(),
            )
        };
        let comp = |f: Field<PortableForm>| -> scale_info::TypeDef<PortableForm> { TypeDefComposite::new(vec![fld(Some("e"), 0, None, &[]), f]).into() };
        let var = |name: &str, f: Field<PortableForm>, idx: u8, docs: &[&str]| -> scale_info::TypeDef<PortableForm> {
            TypeDefVariant::new(vec![Variant::new(name.to_string(), vec![f], idx, docs.iter().map(|x| x.to_string()).collect::<Vec<_>>())]).into()
        };
        let base_c = mk(&["m", "A"], "T", Some(0), comp(fld(Some("f"), 0, Some("u8"), &["d"])), &["D"]);
        let base_v = mk(&["m", "A"], "T", Some(0), var("V", fld(None, 0, Some("X"), &["fd"]), 1, &["vd"]), &["D"]);
        let pairs: Vec<(Type<PortableForm>, Type<PortableForm>)> = vec![
            (base_c.clone(), mk(&["m", "A"], "T", Some(0), comp(fld(Some("f"), 0, Some("Box<u8>"), &["d"])), &["D"])),
            (base_c.clone(), mk(&["m", "A"], "T", Some(0), comp(fld(Some("f"), 0, None, &["d"])), &["D"])),
            (base_c.clone(), mk(&["m", "A"], "T", Some(0), comp(fld(Some("g"), 0, Some("u8"), &["d"])), &["D"])),
            (base_c.clone(), mk(&["m", "A"], "T", Some(0), comp(fld(None, 0, Some("u8"), &["d"])), &["D"])),
            (base_c.clone(), mk(&["m", "A"], "T", Some(0), comp(fld(Some("f"), 0, Some("u8"), &["d", ""])), &["D"])),
            (base_c.clone(), mk(&["m", "A"], "T", Some(0), comp(fld(Some("f"), 0, Some("u8"), &[])), &["D"])),
            (base_c.clone(), mk(&["m", "A"], "T", Some(0), comp(fld(Some("f"), 1, Some("u8"), &["d"])), &["D"])),
            (base_c.clone(), mk(&["m", "A"], "T", Some(0), comp(fld(Some("f"), 0, Some("u8"), &["d"])), &["D2"])),
            (base_c.clone(), mk(&["m", "A"], "T", Some(0), comp(fld(Some("f"), 0, Some("u8"), &["d"])), &[])),
            (base_c.clone(), mk(&["m", "B"], "T", Some(0), comp(fld(Some("f"), 0, Some("u8"), &["d"])), &["D"])),
            (base_c.clone(), mk(&["n", "A"], "T", Some(0), comp(fld(Some("f"), 0, Some("u8"), &["d"])), &["D"])),
            (base_c.clone(), mk(&["A"], "T", Some(0), comp(fld(Some("f"), 0, Some("u8"), &["d"])), &["D"])),
            (base_c.clone(), mk(&["m", "A"], "U", Some(0), comp(fld(Some("f"), 0, Some("u8"), &["d"])), &["D"])),
            (base_c.clone(), mk(&["m", "A"], "T", None, comp(fld(Some("f"), 0, Some("u8"), &["d"])), &["D"])),
            (base_c.clone(), mk(&["m", "A"], "T", Some(1), comp(fld(Some("f"), 0, Some("u8"), &["d"])), &["D"])),
            (base_v.clone(), mk(&["m", "A"], "T", Some(0), var("W", fld(None, 0, Some("X"), &["fd"]), 1, &["vd"]), &["D"])),
            (base_v.clone(), mk(&["m", "A"], "T", Some(0), var("V", fld(None, 0, Some("X"), &["fd"]), 2, &["vd"]), &["D"])),
            (base_v.clone(), mk(&["m", "A"], "T", Some(0), var("V", fld(None, 0, Some("X"), &["fd"]), 1, &["vd2"]), &["D"])),
            (base_v.clone(), mk(&["m", "A"], "T", Some(0), var("V", fld(None, 0, Some("X"), &["fd"]), 1, &[]), &["D"])),
            (base_v.clone(), mk(&["m", "A"], "T", Some(0), var("V", fld(None, 0, Some("Y"), &["fd"]), 1, &["vd"]), &["D"])),
            (base_v.clone(), mk(&["m", "A"], "T", Some(0), var("V", fld(None, 0, Some("X"), &[]), 1, &["vd"]), &["D"])),
            (base_v.clone(), mk(&["m", "A"], "T", Some(0), var("V", fld(Some("x"), 0, Some("X"), &["fd"]), 1, &["vd"]), &["D"])),
            (base_v.clone(), mk(&["m", "A"], "T", Some(0), var("V", fld(None, 1, Some("X"), &["fd"]), 1, &["vd"]), &["D"])),
            (base_c.clone(), base_v.clone()),
        ];
        // ... and A' = A with one list EXTENDED by an element (every list of a type: members, variants, a variant's members,
        // parameters, docs, path): a comparison that walks the shorter list only takes them for equal
        let mut pairs = pairs;
        {
            use scale_info::TypeDef;
            let ext = |f: &dyn Fn(&mut Type<PortableForm>)| -> Type<PortableForm> {
                let mut t = base_c.clone();
                f(&mut t);
                t
            };
            pairs.push((base_c.clone(), ext(&|t| {
                if let TypeDef::Composite(c) = &mut t.type_def {
                    c.fields.push(fld(Some("g"), 0, None, &[]));
                }
            })));
            pairs.push((base_c.clone(), ext(&|t| t.docs.push("E".to_string()))));
            pairs.push((base_c.clone(), ext(&|t| t.path.segments.push("B".to_string()))));
            pairs.push((base_c.clone(), ext(&|t| t.type_params.push(TypeParameter::new_portable("U".to_string(), None)))));
            pairs.push((base_c.clone(), ext(&|t| {
                if let TypeDef::Composite(c) = &mut t.type_def {
                    c.fields[1].docs.push("e".to_string());
                }
            })));
            let mut v2 = base_v.clone();
            if let TypeDef::Variant(v) = &mut v2.type_def {
                v.variants.push(Variant::new("W".to_string(), Vec::<Field<PortableForm>>::new(), 2, Vec::<String>::new()));
            }
            pairs.push((base_v.clone(), v2));
            let mut v3 = base_v.clone();
            if let TypeDef::Variant(v) = &mut v3.type_def {
                v.variants[0].fields.push(fld(None, 0, None, &[]));
            }
            pairs.push((base_v.clone(), v3));
            let mut v4 = base_v.clone();
            if let TypeDef::Variant(v) = &mut v4.type_def {
                v.variants[0].docs.push("more".to_string());
            }
            pairs.push((base_v.clone(), v4));
            let tup = |ids: &[u32]| -> Type<PortableForm> {
                Type::new(
                    Path::from_segments_unchecked(Vec::<String>::new()),
                    Vec::new(),
                    scale_info::TypeDefTuple::new_portable(ids.iter().map(|i| (*i).into()).collect::<Vec<_>>()),
                    Vec::<String>::new(),
                )
            };
            pairs.push((tup(&[0, 0]), tup(&[0, 0, 0])));
            pairs.push((tup(&[]), tup(&[0])));
        }
        for (k, (a, a2)) in pairs.into_iter().enumerate() {
            for order in 0..2 {
                let (x, y) = if order == 0 { (a.clone(), a2.clone()) } else { (a2.clone(), a.clone()) };
                // ids: prim 0, x 1, B 2 (refers to 3 = the id announced for the next distinct value), y 3
                let prim: Type<PortableForm> = Type::new(Path::from_segments_unchecked(Vec::<String>::new()), Vec::new(), scale_info::TypeDefPrimitive::U8, Vec::<String>::new());
                let bref: Type<PortableForm> = Type::new(
                    Path::from_segments_unchecked(vec!["m".to_string(), "B".to_string()]),
                    Vec::new(),
                    scale_info::TypeDefSequence::new(3u32.into()),
                    Vec::<String>::new(),
                );
                let ops = vec![
                    BOp::Reg(prim),
                    BOp::Reg(x.clone()),
                    BOp::Next,
                    BOp::Reg(bref),
                    BOp::Next,
                    BOp::Reg(y.clone()),
                    BOp::Next,
                    BOp::Get(3),
                    BOp::Reg(x),
                    BOp::Reg(y),
                    BOp::Next,
                    BOp::Finish,
                ];
                out.line(&format!("builder d{}_{} 1 {}", k, order, run_builder(&ops)));
            }
        }
    }
    for case in 0..n {
        let len = r.below(if gen::small() { 5 } else if thorough { 60 } else { 25 }) as usize;
        // a small pool of values forces duplicates arriving after unrelated insertions
        let closed = r.chance(1, 2);
        let mut pool: Vec<Type<PortableForm>> = vec![];
        let mut ops = vec![];
        let mut count = 0u32; // our own bookkeeping of how many distinct values were registered
        for _ in 0..len {
            match r.below(10) {
                0..=5 => {
                    let t = if !pool.is_empty() && r.chance(1, 5) {
                        // a near-duplicate: equal to a registered value except for ONE component
                        let base = r.pick(&pool).clone();
                        perturb(r, base)
                    } else if !pool.is_empty() && r.chance(2, 5) {
                        r.pick(&pool).clone()
                    } else {
                        // references: below / at (self reference through next_type_id) / above
                        let c = count;
                        let mut idf = |r: &mut Rng| {
                            if closed {
                                r.below(c as u64 + 1) as u32
                            } else {
                                gen::wild_id(r)
                            }
                        };
                        gen::ty(r, &mut idf, !closed)
                    };
                    if !pool.contains(&t) {
                        pool.push(t.clone());
                        count += 1;
                    }
                    ops.push(BOp::Reg(t));
                }
                6 => ops.push(BOp::Next),
                7..=8 => ops.push(BOp::Get(r.below(count as u64 + 3) as u32)),
                _ => ops.push(BOp::Finish),
            }
        }
        ops.push(BOp::Next);
        ops.push(BOp::Finish);
        out.line(&format!("builder {} {} {}", case, closed as u8, run_builder(&ops)));
    }
}

pub fn replay_builder(line: &str, out: &mut Out) -> R<()> {
    let mut t = Toks::new(line);
    let _ = t.tok()?;
    let id = t.tok()?.to_string();
    let closed = t.tok()?.to_string();
    let n = t.nat()?;
    let mut ops = vec![];
    for _ in 0..n {
        match t.tok()? {
            "reg" => {
                ops.push(BOp::Reg(t.ty()?));
                t.tok()?;
            }
            "next" => {
                ops.push(BOp::Next);
                t.tok()?;
            }
            "get" => {
                ops.push(BOp::Get(t.u32()?));
                t.opt(|s| s.ty())?;
            }
            "fin" => {
                ops.push(BOp::Finish);
                t.registry()?;
            }
            x => return Err(format!("bop {x}")),
        }
    }
    out.line(&format!("builder {} {} {}", id, closed, run_builder(&ops)));
    Ok(())
}

// ------------------------------------------------------------------ path

fn leak(s: &str) -> &'static str {
    Box::leak(s.to_string().into_boxed_str())
}

fn observe_path(p: &Path) -> String {
    let ident = p.ident();
    let ns = p.namespace().to_vec();
    let mut reg = Registry::new();
    let pp = p.clone().into_portable(&mut reg);
    format!(
        "{} {} {} {}",
        plist(&p.segments, |s| pstr(s)),
        popt(&ident, |s| pstr(s)),
        plist(&ns, |s| pstr(s)),
        pstr(&pp.to_string())
    )
}

pub fn run_path_seg(segs: &[String]) -> String {
    let st: Vec<&'static str> = segs.iter().map(|s| leak(s)).collect();
    let input = plist(segs, |s| pstr(s));
    let res = catch_unwind(AssertUnwindSafe(|| Path::from_segments(st.clone())));
    let obs = match res {
        Err(_) => "panic".to_string(),
        Ok(Ok(p)) => format!("ok {}", observe_path(&p)),
        Ok(Err(PathError::MissingSegments)) => "em".to_string(),
        Ok(Err(PathError::InvalidIdentifier { segment })) => format!("ei {}", segment),
    };
    format!("seg {} {}", input, obs)
}

pub fn run_path_new(ident: &str, module: &str, table: &[(String, String)], plain: bool) -> String {
    let i = leak(ident);
    let m = leak(module);
    let tb: Vec<(&'static str, &'static str)> = table.iter().map(|(a, b)| (leak(a), leak(b))).collect();
    // every third call runs on a fresh thread: whatever per-thread state the implementation keeps is then in its initial
    // condition (the others see the state left by all earlier calls)
    static CALLS: std::sync::atomic::AtomicU64 = std::sync::atomic::AtomicU64::new(0);
    let fresh = CALLS.fetch_add(1, std::sync::atomic::Ordering::Relaxed) % 3 == 0;
    let call = move || {
        if plain {
            Path::new(i, m)
        } else {
            Path::new_with_replace(i, m, &tb)
        }
    };
    let res = if fresh {
        std::thread::spawn(move || catch_unwind(AssertUnwindSafe(call))).join().unwrap_or_else(|e| Err(e))
    } else {
        catch_unwind(AssertUnwindSafe(call))
    };
    let obs = match res {
        Err(_) => "panic".to_string(),
        Ok(p) => format!("ok {}", observe_path(&p)),
    };
    format!(
        "new {} {} {} {} {}",
        plain as u8,
        pstr(ident),
        pstr(module),
        plist(table, |(a, b)| format!("{} {}", pstr(a), pstr(b))),
        obs
    )
}

const ALPHA: &[char] = &['a', 'Z', '_', '7', 'r', '#', ':', ' ', 'é'];

fn rand_seg(r: &mut Rng) -> String {
    match r.below(10) {
        0..=4 => (*r.pick(&["a", "b", "foo", "Bar", "_x", "r#type", "r#a", "x1", "_", "core", "T"])).to_string(),
        5 => (*r.pick(&["", "1a", "a-b", "r#", "r#r#a", "é", "a b", "r#1", "#r", "a:", "Vec<T>"])).to_string(),
        _ => {
            let n = r.below(5) as usize;
            (0..n).map(|_| *r.pick(ALPHA)).collect()
        }
    }
}

pub fn path(r: &mut Rng, n: u64, thorough: bool, out: &mut Out) {
    let mut case = 0u64;
    // exhaustive: all single-segment strings up to length L over the class-representative alphabet
    let maxlen = if thorough { 6 } else { 4 };
    for len in 0..=maxlen {
        let total = ALPHA.len().pow(len as u32);
        for mut code in 0..total {
            let mut s = String::new();
            for _ in 0..len {
                s.push(ALPHA[code % ALPHA.len()]);
                code /= ALPHA.len();
            }
            out.line(&format!("path x{} {}", case, run_path_seg(&[s])));
            case += 1;
        }
    }
    // every character outside ASCII is rejected, whatever its UTF-8 bytes look like when read as ASCII: the whole two-byte range
    // U+0080..U+07FF (every lead / continuation byte combination), then a sample of the three- and four-byte ranges, each alone,
    // after and before a valid character, and after the raw prefix; plus every single ASCII byte
    let step3 = if thorough { 7 } else { 97 };
    let mut chars: Vec<char> = (0x80u32..0x800).filter_map(char::from_u32).collect();
    chars.extend((0x800u32..0x10000).step_by(step3).filter_map(char::from_u32));
    chars.extend((0x10000u32..0x110000).step_by(step3 * 131).filter_map(char::from_u32));
    chars.extend((0u32..0x80).filter_map(char::from_u32));
    for c in chars {
        for s in [format!("{c}"), format!("a{c}"), format!("{c}a"), format!("r#{c}"), format!("_{c}9")] {
            out.line(&format!("path u{} {}", case, run_path_seg(&[s])));
            case += 1;
        }
    }
    for _ in 0..n {
        let line = match r.below(3) {
            0 => {
                let k = r.below(5) as usize;
                let segs: Vec<String> = (0..k).map(|_| rand_seg(r)).collect();
                run_path_seg(&segs)
            }
            _ => {
                let k = r.below(4) as usize;
                let module = (0..k).map(|_| rand_seg(r)).collect::<Vec<_>>().join(*r.pick(&["::", "::", "::", ":", ":::"]));
                let ident = rand_seg(r);
                let nt = r.below(4) as usize;
                let table: Vec<(String, String)> = (0..nt).map(|_| (rand_seg(r), rand_seg(r))).collect();
                let plain = r.chance(1, 4);
                run_path_new(&ident, &module, &table, plain)
            }
        };
        out.line(&format!("path {} {}", case, line));
        case += 1;
    }
}

pub fn replay_path(line: &str, out: &mut Out) -> R<()> {
    let mut t = Toks::new(line);
    let _ = t.tok()?;
    let id = t.tok()?.to_string();
    match t.tok()? {
        "seg" => {
            let segs = t.list(|s| s.string())?;
            out.line(&format!("path {} {}", id, run_path_seg(&segs)));
        }
        "new" => {
            let plain = t.tok()? == "1";
            let ident = t.string()?;
            let module = t.string()?;
            let table = t.list(|s| Ok((s.string()?, s.string()?)))?;
            out.line(&format!("path {} {}", id, run_path_new(&ident, &module, &table, plain)));
        }
        x => return Err(format!("path kind {x}")),
    }
    Ok(())
}
