//! Runtime-input harness: calls the real scale-info code on generated inputs and prints,
//! one line per case, the input and the implementation's observed output.
mod alloc;
mod gen;
mod proto;
mod s_basic;
mod s_codec;
mod nodes;
mod s_registry;
mod s_retain;
mod s_json;
mod s_build;

#[global_allocator]
static GLOBAL: alloc::Counting = alloc::Counting;

use std::io::Write;

pub struct Out {
    w: std::io::BufWriter<std::io::Stdout>,
}
impl Out {
    pub fn line(&mut self, s: &str) {
        self.w.write_all(s.as_bytes()).unwrap();
        self.w.write_all(b"\n").unwrap();
    }
    /// first part of a line, flushed at once (see s_retain)
    pub fn begin(&mut self, s: &str) {
        self.w.write_all(s.as_bytes()).unwrap();
        self.w.flush().unwrap();
    }
    pub fn end(&mut self, s: &str) {
        self.w.write_all(s.as_bytes()).unwrap();
        self.w.write_all(b"\n").unwrap();
    }
    pub fn flush(&mut self) {
        self.w.flush().unwrap();
    }
}

fn main() {
    let args: Vec<String> = std::env::args().collect();
    if args.len() < 2 {
        eprintln!("usage: rt <stream> [--seed S] [--n N] [--tier quick|thorough] [--replay]");
        std::process::exit(2);
    }
    let stream = args[1].clone();
    let mut seed = 1u64;
    let mut n = 100u64;
    let mut thorough = false;
    let mut replay = false;
    let mut i = 2;
    while i < args.len() {
        match args[i].as_str() {
            "--seed" => {
                seed = args[i + 1].parse().unwrap();
                i += 1
            }
            "--n" => {
                n = args[i + 1].parse().unwrap();
                i += 1
            }
            "--tier" => {
                thorough = args[i + 1] == "thorough";
                i += 1
            }
            "--replay" => replay = true,
            "--small" => gen::SMALL.store(true, std::sync::atomic::Ordering::Relaxed),
            a => {
                eprintln!("unknown arg {a}");
                std::process::exit(2)
            }
        }
        i += 1;
    }
    // panics are observed outputs, not noise
    std::panic::set_hook(Box::new(|_| {}));
    let mut out = Out { w: std::io::BufWriter::new(std::io::stdout()) };
    let mut rng = gen::Rng::new(seed);
    if replay {
        // re-run the implementation on the input part of the case lines given on stdin
        let mut buf = String::new();
        for l in std::io::stdin().lines() {
            buf = l.unwrap();
            let line = buf.trim();
            if line.is_empty() {
                continue;
            }
            let r = match stream.as_str() {
                "interner" => s_basic::replay_interner(line, &mut out),
                "builder" => s_basic::replay_builder(line, &mut out),
                "path" => s_basic::replay_path(line, &mut out),
                "codec" => s_codec::replay_codec(line, &mut out),
                "registry" => s_registry::replay_registry(line, &mut out),
                "retain" => s_retain::replay_retain(line, &mut out),
                "json" => s_json::replay_json(line, &mut out),
                s => Err(format!("no replay for stream {s}")),
            };
            if let Err(e) = r {
                out.line(&format!("replay-error {e}"));
            }
        }
        let _ = buf;
        out.flush();
        return;
    }
    match stream.as_str() {
        "interner" => s_basic::interner(&mut rng, n, thorough, &mut out),
        "builder" => s_basic::builder(&mut rng, n, thorough, &mut out),
        "path" => s_basic::path(&mut rng, n, thorough, &mut out),
        "codec" => s_codec::codec(&mut rng, n, thorough, &mut out),
        "registry" => s_registry::registry(&mut rng, n, thorough, &mut out),
        "retain" => s_retain::retain(&mut rng, n, thorough, &mut out),
        "json" => s_json::json_stream(&mut rng, n, thorough, &mut out),
        "build" => s_build::build(&mut rng, n, thorough, &mut out),
        s => {
            eprintln!("unknown stream {s}");
            std::process::exit(2)
        }
    }
    out.flush();
}
