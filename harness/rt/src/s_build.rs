//! Stream `build` (C17): random builder-call sequences on the real typestate builders of
//! src/build.rs, MetaForm and PortableForm, plus `TypeDefTuple::new` and `From<TypeDef*> for Type`.
use crate::gen::{self, Rng};
use crate::nodes::Node;
use crate::proto::*;
use crate::Out;
use scale_info::build::{field_state::*, FieldBuilder, Fields, FieldsBuilder, Variants, VariantBuilder};
use scale_info::form::{Form, MetaForm, PortableForm};
use scale_info::{MetaType, Path, Type, TypeDef, TypeDefTuple, TypeParameter};
use std::marker::PhantomData;
use std::panic::{catch_unwind, AssertUnwindSafe};

pub const PH: u32 = 8;
const NTOK: u32 = 15;

fn leak(s: &str) -> &'static str {
    Box::leak(s.to_string().into_boxed_str())
}
fn leak_slice(l: &[String]) -> &'static [&'static str] {
    Box::leak(l.iter().map(|s| leak(s)).collect::<Vec<_>>().into_boxed_slice())
}

/// identity token -> MetaType (token 8 = PhantomData, 10..12 = Compact<u8|u32|u128>)
fn meta_of(tok: u32, variant: bool) -> MetaType {
    match tok {
        0 => MetaType::new::<Node<0>>(),
        1 => MetaType::new::<Node<1>>(),
        2 => MetaType::new::<Node<2>>(),
        3 => MetaType::new::<Node<3>>(),
        4 => MetaType::new::<Node<4>>(),
        5 => MetaType::new::<Node<5>>(),
        6 => MetaType::new::<Node<6>>(),
        7 => MetaType::new::<Node<7>>(),
        8 => {
            if variant {
                MetaType::new::<PhantomData<Node<1>>>()
            } else {
                MetaType::new::<PhantomData<u8>>()
            }
        }
        10 => MetaType::new::<scale::Compact<u8>>(),
        11 => MetaType::new::<scale::Compact<u32>>(),
        12 => MetaType::new::<scale::Compact<u128>>(),
        // real std identities that are NOT markers: `()` is as empty as PhantomData, but it is a member like any other
        13 => {
            if variant {
                MetaType::new::<Box<()>>()
            } else {
                MetaType::new::<()>()
            }
        }
        14 => {
            if variant {
                MetaType::new::<String>()
            } else {
                MetaType::new::<str>()
            }
        }
        _ => MetaType::new::<u8>(),
    }
}
fn tok_of(m: &MetaType) -> u32 {
    for t in 0..NTOK {
        if t != 9 && meta_of(t, false) == *m {
            return t;
        }
    }
    999
}

#[derive(Clone, Debug)]
pub enum Free {
    TypeName(String),
    Docs(Vec<String>),
    DocsAlways(Vec<String>),
    DocsPortable(Vec<String>),
}
#[derive(Clone, Debug)]
pub struct FieldCalls {
    pub pre: Vec<Free>,
    pub name: Option<String>,
    pub name_first: bool,
    pub mid: Vec<Free>,
    pub ty: u32,
    pub alt: bool, // MetaForm: use the alternative instantiation (PhantomData<Node<1>>) / compact path
    pub post: Vec<Free>,
}
#[derive(Clone, Debug)]
pub enum VCall {
    Index(u8),
    Disc(u64),
    Fields(char, Vec<FieldCalls>),
    Free(Free),
}
#[derive(Clone, Debug)]
pub enum Term {
    Composite(char, Vec<FieldCalls>),
    Variant(Vec<(String, Vec<VCall>)>),
}
#[derive(Clone, Debug)]
pub struct Prog {
    pub portable: bool,
    pub pre: Vec<TFree>,
    pub path: Vec<String>,
    pub post: Vec<TFree>,
    pub term: Term,
}
#[derive(Clone, Debug)]
pub enum TFree {
    Params(Vec<(String, Option<u32>)>),
    Free(Free),
}

// ---------------------------------------------------------------- printing the program

fn pfree(f: &Free) -> String {
    match f {
        Free::TypeName(s) => format!("tn {}", pstr(s)),
        Free::Docs(l) => format!("d {}", plist(l, |s| pstr(s))),
        Free::DocsAlways(l) => format!("da {}", plist(l, |s| pstr(s))),
        Free::DocsPortable(l) => format!("dp {}", plist(l, |s| pstr(s))),
    }
}
fn pfieldcalls(fc: &FieldCalls) -> String {
    let mut v: Vec<String> = fc.pre.iter().map(pfree).collect();
    let name = fc.name.as_ref().map(|n| format!("n {}", pstr(n)));
    let ty = format!("ty {}", fc.ty);
    if fc.name_first {
        if let Some(n) = &name {
            v.push(n.clone());
        }
        v.extend(fc.mid.iter().map(pfree));
        v.push(ty);
    } else {
        v.push(ty);
        v.extend(fc.mid.iter().map(pfree));
        if let Some(n) = &name {
            v.push(n.clone());
        }
    }
    v.extend(fc.post.iter().map(pfree));
    format!("{} {}", v.len(), v.join(" ")).trim_end().to_string()
}
fn pvcall(c: &VCall) -> String {
    match c {
        VCall::Index(i) => format!("idx {}", i),
        VCall::Disc(d) => format!("disc {}", d),
        VCall::Fields(k, fs) => format!("fs {} {}", k, plist(fs, pfieldcalls)),
        VCall::Free(f) => pfree(f),
    }
}
fn ptfree(c: &TFree) -> String {
    match c {
        TFree::Params(ps) => format!("tp {}", plist(ps, |(n, t)| format!("{} {}", pstr(n), popt(t, |x| x.to_string())))),
        TFree::Free(f) => pfree(f),
    }
}
pub fn pprog(p: &Prog) -> String {
    let mut calls: Vec<String> = p.pre.iter().map(ptfree).collect();
    calls.push(format!("path {}", plist(&p.path, |s| pstr(s))));
    calls.extend(p.post.iter().map(ptfree));
    let term = match &p.term {
        Term::Composite(k, fs) => format!("comp {} {}", k, plist(fs, pfieldcalls)),
        Term::Variant(vs) => format!("var {}", plist(vs, |(n, cs)| format!("{} {}", pstr(n), plist(cs, pvcall)))),
    };
    format!(
        "{} {} {} {} {}",
        if p.portable { "p" } else { "m" },
        cfg!(feature = "docs") as u8,
        calls.len(),
        calls.join(" "),
        term
    )
}

// ---------------------------------------------------------------- MetaForm execution

fn free_f_meta<N, T>(mut f: FieldBuilder<MetaForm, N, T>, calls: &[Free]) -> FieldBuilder<MetaForm, N, T> {
    for c in calls {
        f = match c {
            Free::TypeName(s) => f.type_name(leak(s)),
            Free::Docs(l) => f.docs(leak_slice(l)),
            Free::DocsAlways(l) => f.docs_always(leak_slice(l)),
            Free::DocsPortable(_) => f,
        };
    }
    f
}
fn set_ty_meta<N>(f: FieldBuilder<MetaForm, N, TypeNotAssigned>, tok: u32, alt: bool) -> FieldBuilder<MetaForm, N, TypeAssigned> {
    match tok {
        0 => f.ty::<Node<0>>(),
        1 => f.ty::<Node<1>>(),
        2 => f.ty::<Node<2>>(),
        3 => f.ty::<Node<3>>(),
        4 => f.ty::<Node<4>>(),
        5 => f.ty::<Node<5>>(),
        6 => f.ty::<Node<6>>(),
        7 => f.ty::<Node<7>>(),
        8 => {
            if alt {
                f.ty::<PhantomData<Node<1>>>()
            } else {
                f.ty::<PhantomData<u8>>()
            }
        }
        10 => {
            if alt {
                f.ty::<scale::Compact<u8>>()
            } else {
                f.compact::<u8>()
            }
        }
        11 => f.compact::<u32>(),
        12 => f.compact::<u128>(),
        13 => {
            if alt {
                f.ty::<Box<()>>()
            } else {
                f.ty::<()>()
            }
        }
        14 => {
            if alt {
                f.ty::<String>()
            } else {
                f.ty::<str>()
            }
        }
        _ => f.ty::<u8>(),
    }
}
fn named_meta(fc: &FieldCalls, f: FieldBuilder) -> FieldBuilder<MetaForm, NameAssigned, TypeAssigned> {
    let f = free_f_meta(f, &fc.pre);
    let name = leak(fc.name.as_ref().unwrap());
    if fc.name_first {
        let f = free_f_meta(f.name(name), &fc.mid);
        free_f_meta(set_ty_meta(f, fc.ty, fc.alt), &fc.post)
    } else {
        let f = free_f_meta(set_ty_meta(f, fc.ty, fc.alt), &fc.mid);
        free_f_meta(f.name(name), &fc.post)
    }
}
fn unnamed_meta(fc: &FieldCalls, f: FieldBuilder) -> FieldBuilder<MetaForm, NameNotAssigned, TypeAssigned> {
    let f = free_f_meta(f, &fc.pre);
    let f = free_f_meta(set_ty_meta(f, fc.ty, fc.alt), &fc.mid);
    free_f_meta(f, &fc.post)
}
enum FB<F: Form> {
    U(FieldsBuilder<F, scale_info::build::NoFields>),
    N(FieldsBuilder<F, scale_info::build::NamedFields>),
    X(FieldsBuilder<F, scale_info::build::UnnamedFields>),
}
fn fields_meta(kind: char, fs: &[FieldCalls]) -> FB<MetaForm> {
    match kind {
        'n' => {
            let mut b = Fields::named();
            for fc in fs {
                b = b.field(|f| named_meta(fc, f));
            }
            FB::N(b)
        }
        'x' => {
            let mut b = Fields::unnamed();
            for fc in fs {
                b = b.field(|f| unnamed_meta(fc, f));
            }
            FB::X(b)
        }
        _ => FB::U(Fields::unit()),
    }
}
fn free_v_meta<S>(mut v: VariantBuilder<MetaForm, S>, calls: &[VCall]) -> VariantBuilder<MetaForm, S> {
    for c in calls {
        v = match c {
            VCall::Index(_) => v,
            VCall::Disc(d) => v.discriminant(*d),
            VCall::Fields(k, fs) => match fields_meta(*k, fs) {
                FB::U(b) => v.fields(b),
                FB::N(b) => v.fields(b),
                FB::X(b) => v.fields(b),
            },
            VCall::Free(Free::Docs(l)) => v.docs(leak_slice(l)),
            VCall::Free(Free::DocsAlways(l)) => v.docs_always(leak_slice(l)),
            VCall::Free(_) => v,
        };
    }
    v
}
fn run_meta(p: &Prog) -> Type {
    let mut b = Type::builder();
    let tfree = |c: &TFree, docs: &mut Vec<(bool, &'static [&'static str])>, params: &mut Option<Vec<TypeParameter>>| match c {
        TFree::Params(ps) => {
            *params = Some(ps.iter().map(|(n, t)| TypeParameter::new(leak(n), t.map(|x| meta_of(x, false)))).collect())
        }
        TFree::Free(Free::Docs(l)) => docs.push((false, leak_slice(l))),
        TFree::Free(Free::DocsAlways(l)) => docs.push((true, leak_slice(l))),
        TFree::Free(_) => {}
    };
    // setters are applied one by one, in program order, on the real builder
    for c in &p.pre {
        let mut d = vec![];
        let mut ps = None;
        tfree(c, &mut d, &mut ps);
        if let Some(ps) = ps {
            b = b.type_params(ps);
        }
        for (always, l) in d {
            b = if always { b.docs_always(l) } else { b.docs(l) };
        }
    }
    let path = Path::from_segments_unchecked(p.path.iter().map(|s| leak(s)));
    let mut b = b.path(path);
    for c in &p.post {
        let mut d = vec![];
        let mut ps = None;
        tfree(c, &mut d, &mut ps);
        if let Some(ps) = ps {
            b = b.type_params(ps);
        }
        for (always, l) in d {
            b = if always { b.docs_always(l) } else { b.docs(l) };
        }
    }
    match &p.term {
        Term::Composite(k, fs) => match fields_meta(*k, fs) {
            FB::U(f) => b.composite(f),
            FB::N(f) => b.composite(f),
            FB::X(f) => b.composite(f),
        },
        Term::Variant(vs) => {
            let mut vb = Variants::new();
            for (name, calls) in vs {
                let pos = calls.iter().position(|c| matches!(c, VCall::Index(_))).expect("index call");
                let idx = match calls[pos] {
                    VCall::Index(i) => i,
                    _ => 0,
                };
                vb = vb.variant(leak(name), |v| {
                    let v = free_v_meta(v, &calls[..pos]);
                    free_v_meta(v.index(idx), &calls[pos + 1..])
                });
            }
            b.variant(vb)
        }
    }
}

// ---------------------------------------------------------------- PortableForm execution

fn free_f_port<N, T>(mut f: FieldBuilder<PortableForm, N, T>, calls: &[Free]) -> FieldBuilder<PortableForm, N, T> {
    for c in calls {
        f = match c {
            Free::TypeName(s) => f.type_name(s.clone()),
            #[cfg(feature = "docs")]
            Free::DocsPortable(l) => f.docs_portable(l.clone()),
            _ => f,
        };
    }
    f
}
fn named_port(
    fc: &FieldCalls,
    f: FieldBuilder<PortableForm, NameNotAssigned, TypeNotAssigned>,
) -> FieldBuilder<PortableForm, NameAssigned, TypeAssigned> {
    let f = free_f_port(f, &fc.pre);
    let name = fc.name.clone().unwrap();
    if fc.name_first {
        let f = free_f_port(f.name(name), &fc.mid);
        free_f_port(f.ty(fc.ty), &fc.post)
    } else {
        let f = free_f_port(f.ty(fc.ty), &fc.mid);
        free_f_port(f.name(name), &fc.post)
    }
}
fn unnamed_port(
    fc: &FieldCalls,
    f: FieldBuilder<PortableForm, NameNotAssigned, TypeNotAssigned>,
) -> FieldBuilder<PortableForm, NameNotAssigned, TypeAssigned> {
    let f = free_f_port(f, &fc.pre);
    let f = free_f_port(f.ty(fc.ty), &fc.mid);
    free_f_port(f, &fc.post)
}
fn fields_port(kind: char, fs: &[FieldCalls]) -> FB<PortableForm> {
    match kind {
        'n' => {
            let mut b = Fields::named();
            for fc in fs {
                b = b.field_portable(|f| named_port(fc, f));
            }
            FB::N(b)
        }
        'x' => {
            let mut b = Fields::unnamed();
            for fc in fs {
                b = b.field_portable(|f| unnamed_port(fc, f));
            }
            FB::X(b)
        }
        _ => FB::U(Fields::unit()),
    }
}
fn free_v_port<S>(mut v: VariantBuilder<PortableForm, S>, calls: &[VCall]) -> VariantBuilder<PortableForm, S> {
    for c in calls {
        v = match c {
            VCall::Disc(d) => v.discriminant(*d),
            VCall::Fields(k, fs) => match fields_port(*k, fs) {
                FB::U(b) => v.fields(b),
                FB::N(b) => v.fields(b),
                FB::X(b) => v.fields(b),
            },
            #[cfg(feature = "docs")]
            VCall::Free(Free::DocsPortable(l)) => v.docs_portable(l.clone()),
            _ => v,
        };
    }
    v
}
fn run_port(p: &Prog) -> Type<PortableForm> {
    let mut b = Type::builder_portable();
    macro_rules! tfree {
        ($b:ident, $c:expr) => {
            match $c {
                TFree::Params(ps) => {
                    $b = $b.type_params(
                        ps.iter().map(|(n, t)| TypeParameter::new_portable(n.clone(), t.map(Into::into))).collect::<Vec<_>>(),
                    )
                }
                #[cfg(feature = "docs")]
                TFree::Free(Free::DocsPortable(l)) => $b = $b.docs_portable(l.clone()),
                _ => {}
            }
        };
    }
    for c in &p.pre {
        tfree!(b, c);
    }
    let mut b = b.path(Path::from_segments_unchecked(p.path.clone()));
    for c in &p.post {
        tfree!(b, c);
    }
    match &p.term {
        Term::Composite(k, fs) => match fields_port(*k, fs) {
            FB::U(f) => b.composite(f),
            FB::N(f) => b.composite(f),
            FB::X(f) => b.composite(f),
        },
        Term::Variant(vs) => {
            let mut vb = Variants::new();
            for (name, calls) in vs {
                let pos = calls.iter().position(|c| matches!(c, VCall::Index(_))).expect("index call");
                let idx = match calls[pos] {
                    VCall::Index(i) => i,
                    _ => 0,
                };
                vb = vb.variant(name.clone(), |v| {
                    let v = free_v_port(v, &calls[..pos]);
                    free_v_port(v.index(idx), &calls[pos + 1..])
                });
            }
            b.variant(vb)
        }
    }
}

/// a `Type<MetaForm>` printed in the portable text form with identity tokens as references
pub fn meta_to_tokens(t: &Type) -> Type<PortableForm> {
    use scale_info::*;
    let fld = |f: &Field| {
        Field::<PortableForm>::new(
            f.name.map(|s| s.to_string()),
            tok_of(&f.ty).into(),
            f.type_name.map(|s| s.to_string()),
            f.docs.iter().map(|s| s.to_string()).collect(),
        )
    };
    let def: TypeDef<PortableForm> = match &t.type_def {
        TypeDef::Composite(c) => TypeDefComposite::new(c.fields.iter().map(fld).collect::<Vec<_>>()).into(),
        TypeDef::Variant(v) => TypeDefVariant::new(
            v.variants
                .iter()
                .map(|v| {
                    Variant::<PortableForm>::new(
                        v.name.to_string(),
                        v.fields.iter().map(fld).collect(),
                        v.index,
                        v.docs.iter().map(|s| s.to_string()).collect(),
                    )
                })
                .collect::<Vec<_>>(),
        )
        .into(),
        TypeDef::Sequence(s) => TypeDefSequence::new(tok_of(&s.type_param).into()).into(),
        TypeDef::Array(a) => TypeDefArray::new(a.len, tok_of(&a.type_param).into()).into(),
        TypeDef::Tuple(tu) => TypeDefTuple::new_portable(tu.fields.iter().map(|m| tok_of(m).into()).collect::<Vec<_>>()).into(),
        TypeDef::Primitive(p) => p.clone().into(),
        TypeDef::Compact(c) => TypeDefCompact::new(tok_of(&c.type_param).into()).into(),
        TypeDef::BitSequence(b) => {
            TypeDefBitSequence::new_portable(tok_of(&b.bit_store_type).into(), tok_of(&b.bit_order_type).into()).into()
        }
    };
    Type::new(
        Path::from_segments_unchecked(t.path.segments.iter().map(|s| s.to_string())),
        t.type_params
            .iter()
            .map(|p| TypeParameter::new_portable(p.name.to_string(), p.ty.as_ref().map(|m| tok_of(m).into())))
            .collect::<Vec<_>>(),
        def,
        t.docs.iter().map(|s| s.to_string()).collect(),
    )
}

pub fn run_prog(p: &Prog) -> String {
    let res = catch_unwind(AssertUnwindSafe(|| if p.portable { run_port(p) } else { meta_to_tokens(&run_meta(p)) }));
    match res {
        Ok(t) => format!("prog {} ok {}", pprog(p), pty(&t)),
        Err(_) => format!("prog {} panic", pprog(p)),
    }
}

pub fn run_tuple(toks: &[(u32, bool)]) -> String {
    let d: TypeDef = TypeDefTuple::new(toks.iter().map(|(t, a)| meta_of(*t, *a))).into();
    let ty: Type = TypeDefTuple::new(toks.iter().map(|(t, a)| meta_of(*t, *a))).into();
    let _ = d;
    format!("tuple {} {}", plist(toks, |(t, _)| t.to_string()), pty(&meta_to_tokens(&ty)))
}

// ---------------------------------------------------------------- generation

fn gen_free(r: &mut Rng, portable: bool, field: bool) -> Free {
    let docs = gen::strings(r, 2);
    match r.below(if field { 4 } else { 3 }) {
        0 => {
            if portable {
                Free::DocsPortable(docs)
            } else {
                Free::Docs(docs)
            }
        }
        1 => {
            if portable {
                Free::DocsPortable(docs)
            } else {
                Free::DocsAlways(docs)
            }
        }
        2 if !portable => Free::Docs(docs),
        2 => Free::DocsPortable(docs),
        _ => Free::TypeName(gen::string(r)),
    }
}
fn gen_frees(r: &mut Rng, portable: bool, field: bool) -> Vec<Free> {
    let n = if r.chance(1, 2) { 0 } else { r.below(3) };
    (0..n)
        .map(|_| gen_free(r, portable, field))
        // docs_portable does not exist without the docs feature
        .filter(|f| cfg!(feature = "docs") || !matches!(f, Free::DocsPortable(_)))
        .collect()
}
fn gen_fieldcalls(r: &mut Rng, portable: bool, named: bool) -> FieldCalls {
    let ty = if portable {
        gen::wild_id(r)
    } else {
        *r.pick(&[0u32, 1, 2, 3, 4, 5, 6, 7, 8, 8, 8, 10, 11, 12, 13, 13, 14])
    };
    FieldCalls {
        pre: gen_frees(r, portable, true),
        name: if named { Some(gen::string(r)) } else { None },
        name_first: r.chance(1, 2),
        mid: gen_frees(r, portable, true),
        ty,
        alt: r.chance(1, 2),
        post: gen_frees(r, portable, true),
    }
}
fn gen_fields(r: &mut Rng, portable: bool) -> (char, Vec<FieldCalls>) {
    let kind = *r.pick(&['u', 'n', 'x', 'n', 'x']);
    let n = if kind == 'u' { 0 } else { r.below(5) };
    (kind, (0..n).map(|_| gen_fieldcalls(r, portable, kind == 'n')).collect())
}
fn gen_tfrees(r: &mut Rng, portable: bool) -> Vec<TFree> {
    let n = if r.chance(1, 2) { 0 } else { r.below(4) };
    (0..n)
        .filter_map(|_| {
            if r.chance(1, 3) {
                let k = r.below(4);
                Some(TFree::Params(
                    (0..k)
                        .map(|_| {
                            let t = if r.chance(2, 3) {
                                Some(if portable { gen::wild_id(r) } else { *r.pick(&[0u32, 1, 2, 3, 8, 10, 13]) })
                            } else {
                                None
                            };
                            (gen::string(r), t)
                        })
                        .collect(),
                ))
            } else {
                let f = gen_free(r, portable, false);
                if !cfg!(feature = "docs") && matches!(f, Free::DocsPortable(_)) {
                    None
                } else {
                    Some(TFree::Free(f))
                }
            }
        })
        .collect()
}
pub fn gen_prog(r: &mut Rng) -> Prog {
    let portable = r.chance(1, 3);
    let term = if r.chance(1, 2) {
        let (k, fs) = gen_fields(r, portable);
        Term::Composite(k, fs)
    } else {
        let nv = r.below(4);
        Term::Variant(
            (0..nv)
                .map(|_| {
                    let mut calls: Vec<VCall> = vec![];
                    let n = r.below(4);
                    for _ in 0..n {
                        calls.push(match r.below(4) {
                            0 => VCall::Disc(r.next()),
                            1 | 2 => {
                                let (k, fs) = gen_fields(r, portable);
                                VCall::Fields(k, fs)
                            }
                            _ => {
                                let f = gen_free(r, portable, false);
                                if !cfg!(feature = "docs") && matches!(f, Free::DocsPortable(_)) {
                                    VCall::Disc(1)
                                } else {
                                    VCall::Free(f)
                                }
                            }
                        });
                    }
                    let pos = r.below(calls.len() as u64 + 1) as usize;
                    calls.insert(pos, VCall::Index(r.below(256) as u8));
                    (gen::string(r), calls)
                })
                .collect(),
        )
    };
    Prog { portable, pre: gen_tfrees(r, portable), path: gen::strings(r, 3), post: gen_tfrees(r, portable), term }
}

pub fn build(r: &mut Rng, n: u64, _thorough: bool, out: &mut Out) {
    // the Node<k> types must have *some* definition in the table (never evaluated here)
    crate::nodes::load((0..8).map(|_| crate::nodes::phantom_spec()).collect(), None);
    let mut case = 0u64;
    for i in 0..n {
        let p = gen_prog(r);
        out.line(&format!("build {} {}", case, run_prog(&p)));
        case += 1;
        if i % 5 == 0 {
            let k = r.below(7);
            let toks: Vec<(u32, bool)> = (0..k).map(|_| (*r.pick(&[0u32, 1, 2, 8, 8, 10, 3, 13, 13, 14]), r.chance(1, 2))).collect();
            out.line(&format!("build {} {}", case, run_tuple(&toks)));
            case += 1;
        }
    }
}
