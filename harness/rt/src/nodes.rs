//! A const-generic family of Rust types whose `type_info()` is whatever a global table says:
//! lets the real `Registry` be driven with run-time generated type graphs (incl. cycles).
use scale_info::{
    form::PortableForm, Field, MetaType, Path, Type, TypeDef, TypeDefArray, TypeDefBitSequence, TypeDefCompact,
    TypeDefComposite, TypeDefSequence, TypeDefTuple, TypeDefVariant, TypeInfo, TypeParameter, Variant,
};
use std::marker::PhantomData;
use std::sync::Mutex;

pub const MAX_NODES: usize = 320;

pub struct Table {
    /// node k's definition; references are node indices
    pub specs: Vec<Type<PortableForm>>,
    /// index of the node that stands for a real std identity, if any: `PhantomData<_>`, `()`, `str` or `u8`
    /// (which one is read off its spec, see `real_kind`)
    pub phantom: Option<usize>,
    /// how often node k's `type_info()` was evaluated
    pub evals: Vec<u32>,
}
pub static TABLE: Mutex<Table> = Mutex::new(Table { specs: vec![], phantom: None, evals: vec![] });

pub struct Node<const N: usize>;
impl<const N: usize> TypeInfo for Node<N> {
    type Identity = Self;
    fn type_info() -> Type {
        build(N)
    }
}
/// a transparent alias of `Node<N>` (like `Box<T>` for `T`): same identity, own `type_info` fn pointer
pub struct Alias<const N: usize, const K: usize>;
impl<const N: usize, const K: usize> TypeInfo for Alias<N, K> {
    type Identity = Node<N>;
    fn type_info() -> Type {
        build(N)
    }
}

fn leak(s: &str) -> &'static str {
    Box::leak(s.to_string().into_boxed_str())
}
fn leaks(v: &[String]) -> Vec<&'static str> {
    v.iter().map(|s| leak(s)).collect()
}

pub fn field_to_meta(f: &Field<PortableForm>, phantom: Option<usize>) -> Field {
    Field::new(
        f.name.as_deref().map(leak),
        meta_with(f.ty.id as usize, 0, phantom),
        f.type_name.as_deref().map(leak),
        leaks(&f.docs),
    )
}

/// spec (portable-shaped, node-index references) -> the `Type<MetaForm>` the node returns
pub fn to_meta(t: &Type<PortableForm>, phantom: Option<usize>) -> Type {
    let m = |id: u32| meta_with(id as usize, 0, phantom);
    let fields = |fs: &[Field<PortableForm>]| fs.iter().map(|f| field_to_meta(f, phantom)).collect::<Vec<_>>();
    let def: TypeDef = match &t.type_def {
        TypeDef::Composite(c) => TypeDefComposite::new(fields(&c.fields)).into(),
        TypeDef::Variant(v) => TypeDefVariant::new(
            v.variants
                .iter()
                .map(|v| Variant::new(leak(&v.name), fields(&v.fields), v.index, leaks(&v.docs)))
                .collect::<Vec<_>>(),
        )
        .into(),
        TypeDef::Sequence(s) => TypeDefSequence::new(m(s.type_param.id)).into(),
        TypeDef::Array(a) => TypeDefArray::new(a.len, m(a.type_param.id)).into(),
        // struct literal: `TypeDefTuple::new` would filter PhantomData members
        TypeDef::Tuple(tu) => TypeDef::Tuple(TypeDefTuple { fields: tu.fields.iter().map(|x| m(x.id)).collect() }),
        TypeDef::Primitive(p) => p.clone().into(),
        TypeDef::Compact(c) => TypeDefCompact::new(m(c.type_param.id)).into(),
        TypeDef::BitSequence(b) => TypeDef::BitSequence(TypeDefBitSequence {
            bit_store_type: m(b.bit_store_type.id),
            bit_order_type: m(b.bit_order_type.id),
        }),
    };
    let params = t
        .type_params
        .iter()
        .map(|p| TypeParameter::new(leak(&p.name), p.ty.map(|x| m(x.id))))
        .collect::<Vec<_>>();
    Type::new(Path::from_segments_unchecked(leaks(&t.path.segments)), params, def, leaks(&t.docs))
}

fn build(n: usize) -> Type {
    let mut tb = TABLE.lock().unwrap();
    tb.evals[n] += 1;
    let spec = tb.specs[n].clone();
    let ph = tb.phantom;
    drop(tb);
    to_meta(&spec, ph)
}

/// the spec of the real `PhantomData<_>` type info (so the model sees what the code sees)
pub fn phantom_spec() -> Type<PortableForm> {
    real_spec(0)
}
/// the spec of a real reference-free std type: 0 `PhantomData<_>`, 1 `()`, 2 `str`, 3 `u8`
pub fn real_spec(kind: usize) -> Type<PortableForm> {
    let t = match kind {
        0 => <PhantomData<u8> as TypeInfo>::type_info(),
        1 => <() as TypeInfo>::type_info(),
        2 => <str as TypeInfo>::type_info(),
        _ => <u8 as TypeInfo>::type_info(),
    };
    let def: TypeDef<PortableForm> = match &t.type_def {
        TypeDef::Composite(c) if c.fields.is_empty() => TypeDefComposite::new(Vec::<Field<PortableForm>>::new()).into(),
        TypeDef::Tuple(tu) if tu.fields.is_empty() => {
            TypeDefTuple::new_portable(Vec::<<PortableForm as scale_info::form::Form>::Type>::new()).into()
        }
        TypeDef::Primitive(p) => p.clone().into(),
        _ => panic!("real_spec: not a reference-free definition"),
    };
    assert!(t.type_params.is_empty() || kind == 0);
    Type::new(
        Path::from_segments_unchecked(t.path.segments.iter().map(|s| s.to_string())),
        Vec::new(),
        def,
        t.docs.iter().map(|s| s.to_string()).collect(),
    )
}
/// which real type a spec at the special index stands for
fn real_kind(t: &Type<PortableForm>) -> usize {
    match &t.type_def {
        TypeDef::Tuple(_) => 1,
        TypeDef::Primitive(scale_info::TypeDefPrimitive::Str) => 2,
        TypeDef::Primitive(_) => 3,
        _ => 0,
    }
}

macro_rules! metas {
    ($($n:literal)*) => {
        fn meta_node(k: usize, alias: usize) -> MetaType {
            match (k, alias) {
                $( ($n, 0) => MetaType::new::<Node<$n>>(),
                   ($n, 1) => MetaType::new::<Alias<$n, 1>>(),
                   ($n, _) => MetaType::new::<Alias<$n, 2>>(), )*
                _ => panic!("node index out of range"),
            }
        }
    };
}
metas!(0 1 2 3 4 5 6 7 8 9 10 11 12 13 14 15 16 17 18 19 20 21 22 23 24 25 26 27 28 29 30 31 32 33 34 35 36 37 38 39
       40 41 42 43 44 45 46 47 48 49 50 51 52 53 54 55 56 57 58 59 60 61 62 63 64 65 66 67 68 69 70 71 72 73 74 75 76
       77 78 79 80 81 82 83 84 85 86 87 88 89 90 91 92 93 94 95 96 97 98 99 100 101 102 103 104 105 106 107 108 109
       110 111 112 113 114 115 116 117 118 119 120 121 122 123 124 125 126 127 128 129 130 131 132 133 134 135 136
       137 138 139 140 141 142 143 144 145 146 147 148 149 150 151 152 153 154 155 156 157 158 159 160 161 162 163
       164 165 166 167 168 169 170 171 172 173 174 175 176 177 178 179 180 181 182 183 184 185 186 187 188 189 190
       191 192 193 194 195 196 197 198 199 200 201 202 203 204 205 206 207 208 209 210 211 212 213 214 215 216 217
       218 219 220 221 222 223 224 225 226 227 228 229 230 231 232 233 234 235 236 237 238 239 240 241 242 243 244
       245 246 247 248 249 250 251 252 253 254 255 256 257 258 259 260 261 262 263 264 265 266 267 268 269 270 271
       272 273 274 275 276 277 278 279 280 281 282 283 284 285 286 287 288 289 290 291 292 293 294 295 296 297 298
       299 300 301 302 303 304 305 306 307 308 309 310 311 312 313 314 315 316 317 318 319);

pub fn meta_with(k: usize, alias: usize, phantom: Option<usize>) -> MetaType {
    // every node from index `phantom` on stands for a real std identity
    if phantom.map_or(false, |p| k >= p) {
        let kind = REAL_KIND.lock().unwrap().get(k - phantom.unwrap()).copied().unwrap_or(0);
        // several Rust types declare each of these identities; alternate between them
        return match (kind, alias) {
            (0, 0) => MetaType::new::<PhantomData<u8>>(),
            (0, 1) => MetaType::new::<PhantomData<()>>(),
            (0, _) => MetaType::new::<PhantomData<Node<3>>>(),
            (1, 0) => MetaType::new::<()>(),
            (1, 1) => MetaType::new::<Box<()>>(),
            (1, _) => MetaType::new::<&'static ()>(),
            (2, 0) => MetaType::new::<str>(),
            (2, 1) => MetaType::new::<String>(),
            (2, _) => MetaType::new::<Box<String>>(),
            (_, 0) => MetaType::new::<u8>(),
            (_, 1) => MetaType::new::<std::sync::Arc<u8>>(),
            (_, _) => MetaType::new::<&'static mut u8>(),
        };
    }
    meta_node(k, alias)
}
static REAL_KIND: Mutex<Vec<usize>> = Mutex::new(Vec::new());
pub fn meta(k: usize, alias: usize) -> MetaType {
    let ph = TABLE.lock().unwrap().phantom;
    meta_with(k, alias, ph)
}
pub fn load(specs: Vec<Type<PortableForm>>, phantom: Option<usize>) {
    let mut tb = TABLE.lock().unwrap();
    tb.evals = vec![0; specs.len()];
    if let Some(k) = phantom {
        *REAL_KIND.lock().unwrap() = specs[k..].iter().map(real_kind).collect();
    }
    tb.specs = specs;
    tb.phantom = phantom;
}
pub fn reset_evals() {
    let mut tb = TABLE.lock().unwrap();
    let n = tb.specs.len();
    tb.evals = vec![0; n];
}
pub fn evals() -> Vec<u32> {
    TABLE.lock().unwrap().evals.clone()
}
