//! Stream `registry` (C01, C02, C05, C11): the real `Registry` driven with generated type graphs.
use crate::gen::{self, Rng};
use crate::nodes;
use crate::proto::*;
use crate::Out;
use scale::Encode;
use scale_info::{form::PortableForm, Field, PortableRegistry, PortableType, Registry, Type};

#[derive(Clone, Debug)]
pub enum ROp {
    Reg(usize, usize),
    Regs(Vec<(usize, usize)>),
    Mip(Vec<Field<PortableForm>>),
}

pub struct Graph {
    pub specs: Vec<Type<PortableForm>>,
    pub phantom: Option<usize>,
}

fn snapshot(reg: &Registry) -> String {
    let v: Vec<PortableType> = reg.types().map(|(k, t)| PortableType::new(k.id, t.clone())).collect();
    plist(&v, pptype)
}

/// runs a history on a fresh registry; returns (per-op output text, final registry, ids of `Reg` ops)
fn run_history(ops: &[ROp], ph: Option<usize>, with_snap: bool) -> (String, PortableRegistry, Vec<u32>) {
    let mut reg = Registry::new();
    let mut s = String::new();
    let mut rids = vec![];
    for op in ops {
        match op {
            ROp::Reg(k, a) => {
                let id = reg.register_type(&nodes::meta(*k, *a)).id;
                rids.push(id);
                s.push_str(&format!(" rt {} {} {}", k, a, id));
            }
            ROp::Regs(ks) => {
                let ids = reg.register_types(ks.iter().map(|(k, a)| nodes::meta(*k, *a)));
                s.push_str(&format!(
                    " rts {} {}",
                    plist(ks, |(k, a)| format!("{} {}", k, a)),
                    plist(&ids, |x| x.id.to_string())
                ));
            }
            ROp::Mip(fs) => {
                let metas: Vec<Field> = fs.iter().map(|f| nodes::field_to_meta(f, ph)).collect();
                let outv = reg.map_into_portable(metas);
                s.push_str(&format!(" mip {} {}", plist(fs, pfield), plist(&outv, pfield)));
            }
        }
        if with_snap {
            s.push(' ');
            s.push_str(&snapshot(&reg));
        }
    }
    (s, PortableRegistry::from(reg), rids)
}

pub fn run_case(g: &Graph, ops: &[ROp], perms: &[Vec<usize>]) -> String {
    nodes::load(g.specs.clone(), g.phantom);
    let (txt, fin, _) = run_history(ops, g.phantom, true);
    let evals = nodes::evals();
    let bytes = fin.encode();
    // replay: the same history again must give a byte-identical registry
    nodes::reset_evals();
    let (_, fin2, _) = run_history(ops, g.phantom, false);
    let same = fin2.encode() == bytes;
    let mut s = format!(
        "{} {} {}{} fin {} {} {} {}",
        plist(&g.specs, pty),
        popt(&g.phantom, |x| x.to_string()),
        ops.len(),
        txt,
        pregistry(&fin),
        hex(&bytes),
        plist(&evals, |x| x.to_string()),
        same as u8
    );
    s.push_str(&format!(" {}", perms.len()));
    for p in perms {
        nodes::reset_evals();
        let ops2: Vec<ROp> = p.iter().map(|k| ROp::Reg(*k, 0)).collect();
        let (_, f, ids) = run_history(&ops2, g.phantom, false);
        s.push_str(&format!(
            " {} {} {}",
            plist(p, |x| x.to_string()),
            plist(&ids, |x| x.to_string()),
            pregistry(&f)
        ));
    }
    s
}

/// the next generated graph has more than 256 identities
pub static FORCE_LARGE: std::sync::atomic::AtomicBool = std::sync::atomic::AtomicBool::new(false);
/// the next generated graph is one chain of this many identities, each nested in the one before (0: no)
pub static FORCE_CHAIN: std::sync::atomic::AtomicUsize = std::sync::atomic::AtomicUsize::new(0);
/// node k mentions node k + 1 only (the last one closes the chain with a primitive, or a cycle back to the first):
/// registering node 0 meets every identity while the one before it is still being resolved
fn chain_graph(r: &mut Rng, n: usize) -> Graph {
    use scale_info::{Field, Path, Type, TypeDef, TypeDefArray, TypeDefComposite, TypeDefPrimitive, TypeDefSequence, TypeDefTuple};
    let cyc = r.chance(1, 2);
    let specs = (0..n)
        .map(|k| {
            let nx: <PortableForm as scale_info::form::Form>::Type = (if k + 1 < n { k + 1 } else { 0 } as u32).into();
            let d: TypeDef<PortableForm> = if k + 1 == n && !cyc {
                TypeDefPrimitive::U8.into()
            } else {
                match r.below(4) {
                    0 => TypeDefSequence::new(nx).into(),
                    1 => TypeDefArray::new(1 + r.below(3) as u32, nx).into(),
                    2 => TypeDefTuple::new_portable(vec![nx, nx]).into(),
                    _ => TypeDefComposite::new(vec![Field::<PortableForm>::new(Some(gen::string(r)), nx, None, vec![])]).into(),
                }
            };
            Type::new(Path::from_segments_unchecked(vec![format!("L{}", k)]), vec![], d, vec![])
        })
        .collect();
    Graph { specs, phantom: None }
}
pub fn gen_graph(r: &mut Rng, thorough: bool) -> Graph {
    let chain = FORCE_CHAIN.swap(0, std::sync::atomic::Ordering::Relaxed);
    if chain > 0 {
        return chain_graph(r, chain);
    }
    let n = match if gen::small() { 0 } else { 1 + r.below(10) } {
        0 => r.range(1, 4),
        1 => 1,
        2..=5 => r.range(2, 6),
        6..=8 => r.range(6, 20),
        _ => r.range(20, if thorough { 96 } else { 48 }),
    } as usize;
    // more identities than fit one byte: ids 256.. (rare: such graphs are slow to check)
    let n = if !gen::small() && r.chance(1, 12) { *r.pick(&[15usize, 16, 17, 18, 31, 32, 33, 34, 63, 64, 65, 66]) } else { n };
    let large = FORCE_LARGE.swap(false, std::sync::atomic::Ordering::Relaxed) || r.chance(1, if thorough { 60 } else { 150 });
    let n = if !gen::small() && large { r.range(257, nodes::MAX_NODES as u64) as usize } else { n };
    let with_ph = n >= 2 && r.chance(1, 3);
    // one or (n >= 4, half of the time) two different real std identities at the end of the node list
    let two = with_ph && n >= 4 && r.chance(1, 2);
    let phantom = if with_ph { Some(if two { n - 2 } else { n - 1 }) } else { None };
    let kind0 = if r.chance(1, 2) { 0 } else { 1 + r.below(3) as usize };
    let kind1 = (kind0 + 1 + r.below(3) as usize) % 4;
    let local = r.chance(1, 2);
    let mut specs = vec![];
    for k in 0..n {
        if phantom.map_or(false, |p| k >= p) {
            // the real PhantomData identity half of the time, else `()`, `str` or `u8`; a second one is of another kind
            specs.push(nodes::real_spec(if Some(k) == phantom { kind0 } else { kind1 }));
            continue;
        }
        let kk = k as u64;
        let nn = n as u64;
        let mut idf = |r: &mut Rng| -> u32 {
            if local {
                // sparse, local references: long chains, many unreachable nodes, small cycles
                let d = r.below(4);
                (if r.chance(1, 5) { kk.saturating_sub(d) } else { (kk + d).min(nn - 1) }) as u32
            } else {
                r.below(nn) as u32
            }
        };
        specs.push(gen::ty(r, &mut idf, false));
    }
    Graph { specs, phantom }
}

pub fn gen_ops(r: &mut Rng, n: usize, thorough: bool) -> Vec<ROp> {
    let len = r.range(1, if gen::small() { 3 } else if thorough { 12 } else { 8 }) as usize;
    let mut ops = vec![];
    if (n > 256 && r.chance(2, 3)) || (n >= 15 && r.chance(1, 6)) {
        // make sure more than 256 identities really get registered
        let mut all: Vec<(usize, usize)> = (0..n).map(|k| (k, 0)).collect();
        if r.chance(1, 2) {
            all.reverse();
        }
        ops.push(ROp::Regs(all));
    }
    for _ in 0..len {
        match r.below(10) {
            0..=5 => ops.push(ROp::Reg(r.below(n as u64) as usize, r.below(3) as usize)),
            6..=7 => {
                let k = r.below(5) as usize;
                ops.push(ROp::Regs((0..k).map(|_| (r.below(n as u64) as usize, r.below(3) as usize)).collect()));
            }
            _ => {
                let nn = n as u64;
                let mut idf = |r: &mut Rng| r.below(nn) as u32;
                ops.push(ROp::Mip(gen::fields(r, &mut idf, 3)));
            }
        }
        // repetition: re-register something already registered
        if r.chance(1, 4) {
            if let Some(op) = ops.first().cloned() {
                ops.push(op);
            }
        }
    }
    ops
}

fn roots_of(ops: &[ROp]) -> Vec<usize> {
    let mut v = vec![];
    for op in ops {
        match op {
            ROp::Reg(k, _) => v.push(*k),
            ROp::Regs(ks) => v.extend(ks.iter().map(|x| x.0)),
            ROp::Mip(fs) => v.extend(fs.iter().map(|f| f.ty.id as usize)),
        }
    }
    let mut seen = std::collections::BTreeSet::new();
    v.retain(|x| seen.insert(*x));
    v
}

pub fn registry(r: &mut Rng, n: u64, thorough: bool, out: &mut Out) {
    for case in 0..n {
        if case == 5 || case == 40 {
            // every run has two graphs with ids beyond one byte, whatever the random stream does
            FORCE_LARGE.store(true, std::sync::atomic::Ordering::Relaxed);
        }
        // and two deep ones: 70 and 300 identities nested one inside the other
        let chain = match case {
            7 => 70,
            41 => nodes::MAX_NODES - 1,
            _ => 0,
        };
        FORCE_CHAIN.store(chain, std::sync::atomic::Ordering::Relaxed);
        let g = gen_graph(r, thorough);
        let ops = if chain > 0 { vec![ROp::Reg(0, 0), ROp::Reg(chain / 2, 0), ROp::Regs(vec![(chain - 1, 0), (1, 0)])] } else { gen_ops(r, g.specs.len(), thorough) };
        let roots = roots_of(&ops);
        // the roots in history order, then permutations of them
        let mut perms = vec![roots.clone()];
        let np = if thorough { 5 } else { 3 };
        for _ in 0..np {
            let mut p = roots.clone();
            for i in (1..p.len()).rev() {
                let j = r.below(i as u64 + 1) as usize;
                p.swap(i, j);
            }
            perms.push(p);
        }
        if roots.len() >= 2 {
            let mut p = roots.clone();
            p.reverse();
            perms.push(p);
        }
        out.line(&format!("registry {} {}", case, run_case(&g, &ops, &perms)));
    }
}

pub fn replay_registry(line: &str, out: &mut Out) -> R<()> {
    let mut t = Toks::new(line);
    let _ = t.tok()?;
    let id = t.tok()?.to_string();
    let specs = t.list(|s| s.ty())?;
    let phantom = t.opt(|s| s.nat().map(|x| x as usize))?;
    let nops = t.nat()?;
    let mut ops = vec![];
    for _ in 0..nops {
        match t.tok()? {
            "rt" => {
                let k = t.nat()? as usize;
                let a = t.nat()? as usize;
                t.tok()?;
                ops.push(ROp::Reg(k, a));
            }
            "rts" => {
                let ks = t.list(|s| Ok((s.nat()? as usize, s.nat()? as usize)))?;
                t.list(|s| s.nat())?;
                ops.push(ROp::Regs(ks));
            }
            "mip" => {
                let fs = t.list(|s| s.field())?;
                t.list(|s| s.field())?;
                ops.push(ROp::Mip(fs));
            }
            x => return Err(format!("rop {x}")),
        }
        t.registry()?; // snapshot
    }
    if t.tok()? != "fin" {
        return Err("expected fin".into());
    }
    t.registry()?;
    t.bytes()?;
    t.list(|s| s.nat())?;
    t.tok()?;
    let np = t.nat()?;
    let mut perms = vec![];
    for _ in 0..np {
        perms.push(t.list(|s| s.nat().map(|x| x as usize))?);
        t.list(|s| s.nat())?;
        t.registry()?;
    }
    out.line(&format!("registry {} {}", id, run_case(&Graph { specs, phantom }, &ops, &perms)));
    Ok(())
}
