#!/usr/bin/env python3
"""
gen_derive.py --seed S --n N --out FILE

Generates Rust declarations deriving scale_info::TypeInfo (and scale::Encode), nested in modules,
with generics, codec / scale_info attributes and doc comments, plus for every declaration one or
more instantiations with values. Beside the Rust source it embeds, as string literals, the same
declarations in the token form parsed by the Lean driver (SIM.Driver.Derive.pDecl):

  decl    := <str ident> <str modulePath> <list tparam> <capture> <list (str str)> <list str docs> <body>
  tparam  := <str name> <bool skipped> <texpr arg>
  capture := n | d | a
  body    := s <shape> | e <list variant>
  shape   := u | n <list field> | x <list field>
  field   := <opt str ident> <texpr ty> <str tyText> <bool skip> <bool compact> <bool encodedAs> <opt str rename> <list str docs>
  variant := <str ident> <shape> <bool skip> <opt nat codecIndex> <opt nat discriminant> <list str docs>

Field types in a decl line are already instantiated (type parameters replaced by the arguments).
"""
import argparse, os, sys, random
sys.path.insert(0, os.path.dirname(os.path.abspath(__file__)))
import texpr
from texpr import T, hexs, rs

ATTR_RNG = random.Random(0)


def shuffled(lines):
    """helper attributes in a random order (the macros must not depend on it)"""
    ls = list(lines)
    ATTR_RNG.shuffle(ls)
    return ''.join(ls)


IDENTS = ['Foo', 'Bar', 'Baz', 'Qux', 'Node', 'Item', 'Wrap', 'Pair', 'Msg', 'Cfg', 'r#Type', 'r#Box2', 'A1', 'Zed_9']
FIELDS = ['a', 'b', 'c', 'value', 'next', 'r#type', 'r#mod', 'x1', '_y', 'data', 'len', 'marker']
VARIANTS = ['A', 'B', 'C', 'None_', 'Some_', 'Leaf', 'Branch', 'Unit', 'V1', 'r#Self2']
MODS = ['m', 'inner', 'types', 'v1', 'r#mod2', 'a_b']


def popt(o, f):
    return 'N' if o is None else 'S ' + f(o)


def plist(l, f):
    return str(len(l)) + ''.join(' ' + f(x) for x in l)


class Param(T):
    """a type parameter occurrence (before instantiation)"""
    def __init__(self, name):
        super().__init__('param')
        self.name = name

    def rust(self):
        return self.name

    def proto(self):
        raise ValueError('uninstantiated parameter')


class Adt(T):
    """a user type applied to arguments"""
    def __init__(self, item, args):
        super().__init__('adt', *args)
        self.item = item

    def rust(self):
        g = (["'static"] if self.item.lifetime else []) + [a.rust() for a in self.args]
        return self.item.path_text() + ('<' + ', '.join(g) + '>' if g else '')

    def proto(self):
        return f'adt {self.item.num} ' + plist(list(self.args), lambda a: a.proto())

    def is_sized(self):
        return True

    def typeinfo_ok(self):
        return True

    def can_encode(self):
        return self.item.encodable

    def clone_ok(self):
        return False

    def values(self, r, depth=0):
        return self.item.value(r, list(self.args), depth)


def subst(t, env):
    """instantiate type parameters"""
    if isinstance(t, Param):
        return env[t.name]
    if isinstance(t, Adt):
        return Adt(t.item, [subst(a, env) for a in t.args])
    if not t.args:
        return t
    return T(t.kind, *[subst(a, env) for a in t.args], n=t.n)


def text_static(t, self_item=None):
    """source text of a field type as written in the declaration"""
    return t.rust()


class Field:
    def __init__(self, ident, ty, skip=False, compact=False, encoded_as=False, rename=None, docs=None):
        self.ident, self.ty, self.skip, self.compact, self.encoded_as, self.rename, self.docs = ident, ty, skip, compact, encoded_as, rename, docs or []


class Variant:
    def __init__(self, ident, shape, fields, skip=False, index=None, disc=None, docs=None):
        self.ident, self.shape, self.fields, self.skip, self.index, self.disc, self.docs = ident, shape, fields, skip, index, disc, docs or []


def doc_lines(r):
    """doc attribute literal values exactly as the macro sees them (`/// x` gives " x")"""
    if r.random() < 0.55:
        return []
    pool = [' A doc line.', ' second line', '', '   indented three', 'no leading space', '  two spaces', ' trailing space ', ' é unicode', ' with "quotes"', ' - list item',
            '     code block']
    return [r.choice(pool) for _ in range(r.choice([1, 1, 2, 3]))]


DOC_NOISE = ['#[doc(hidden)]', '#[doc(alias = "zz")]', '#[doc(hidden)]']
FORCE_DOC_NOISE = [False]


def render_docs(lines, indent):
    """the `#[doc = ".."]` lines in order; now and then a doc attribute that is not a text line (`#[doc(hidden)]`, `#[doc(alias = ..)]`)
    before, between or after them: only the text lines are documentation"""
    parts = [f'{indent}#[doc = {rs(l)}]\n' for l in lines]
    if FORCE_DOC_NOISE[0]:
        parts.insert(0, f'{indent}{DOC_NOISE[0]}\n')
        if len(parts) > 2:
            parts.insert(2, f'{indent}{DOC_NOISE[1]}\n')
    elif ATTR_RNG.random() < 0.12:
        parts.insert(ATTR_RNG.randrange(len(parts) + 1), f'{indent}{ATTR_RNG.choice(DOC_NOISE)}\n')
    return ''.join(parts)


def int_lit(n, style=None, suffix_ok=True):
    """an integer literal in one of the spellings Rust allows (decimal, hex, octal, binary, with underscores, with a type suffix)"""
    styles = ['dec', 'dec', 'dec', 'hex', 'oct', 'bin', 'us'] + (['suf', 'ussuf'] if suffix_ok else [])
    st = style or ATTR_RNG.choice(styles)
    if st == 'suf' and not suffix_ok:
        st = 'hex'
    return {'dec': str(n), 'hex': hex(n), 'oct': '0o%o' % n, 'bin': bin(n), 'us': (str(n)[0] + '_' + str(n)[1:]) if n >= 10 else str(n) + '_',
            'suf': f'{n}u8', 'ussuf': f'{n}_u8'}[st]


class Item:
    def __init__(self, num, r, earlier, mods):
        self.num = num
        self.ident = r.choice(IDENTS) + str(num)
        self.mods = mods
        self.is_enum = r.random() < 0.45
        self.lifetime = r.random() < 0.12
        np = r.choice([0, 0, 0, 1, 1, 2])
        # names in and out of alphabetical order (nothing may depend on the spelling of a parameter)
        self.params = r.choice([['T', 'U'], ['T', 'U'], ['U', 'T'], ['Value', 'Key'], ['T2', 'T10'], ['B', 'A']])[:np]
        self.skip_params = [p for p in self.params if r.random() < 0.25]
        self.capture = r.choice(['d', 'd', 'd', 'a', 'n'])
        self.capture_text = r.choice({'d': ['default', 'Default', 'DEFAULT'], 'a': ['always', 'Always', 'ALWAYS'], 'n': ['never', 'Never', 'NEVER']}[self.capture])
        self.explicit_capture = self.capture != 'd' or r.random() < 0.2
        self.replace = []
        if r.random() < 0.35:
            cands = [m for m in mods] + ['pg', 'gen_derive', 'gen_derive', self.ident, self.ident, 'nomatch']
            for _ in range(r.choice([1, 1, 2, 3])):
                self.replace.append((r.choice(cands), r.choice(['renamed', 'X', 'r#new', r.choice(cands)])))
            if r.random() < 0.5:
                # the same search segment named twice with different replacements: the first row wins
                key = r.choice([self.replace[r.randrange(len(self.replace))][0], 'gen_derive', self.ident])
                self.replace.insert(r.randrange(len(self.replace) + 1), (key, r.choice(['dup', 'Other', 'z9'])))
                self.replace.insert(r.randrange(len(self.replace) + 1), (key, r.choice(['dup2', 'Another', 'q_1'])))
        self.docs = doc_lines(r)
        self.encodable = True
        self.earlier = earlier
        if self.is_enum:
            self.variants = self.gen_variants(r)
        else:
            self.shape, self.fields = self.gen_fields(r, top=True)
        # a skipped parameter may only be used where no TypeInfo is needed
        self.fix_skipped_params()
        self.ensure_params_used(r)

    # ---------------------------------------------------------- generation of members
    def field_type(self, r, depth=2):
        c = r.random()
        P = [Param(p) for p in self.params]
        usable = [p for p in P if p.name not in self.skip_params]
        if usable and c < 0.25:
            p = r.choice(usable)
            w = r.random()
            if w < 0.4:
                return p
            if w < 0.55:
                return T('vec', p)
            if w < 0.7:
                return T('opt', p)
            if w < 0.8:
                return T('tup', p, T('u', n=8))
            if w < 0.9:
                return T('box', p)
            return T('arr', p, n=2)
        if P and c < 0.33:
            return T('ph', r.choice(P))
        if c < 0.40 and self.earlier:
            it = r.choice(self.earlier)
            if it.encodable and it.has_values():
                args = [texpr.sized(r, 1) if True else None for _ in it.params]
                args = [a if a.can_encode() else T('u', n=8) for a in args]
                return Adt(it, args)
        if c < 0.46:
            # self reference behind an indirection
            me = Adt(self, [Param(p) for p in self.params])
            return r.choice([T('opt', T('box', me)), T('vec', me), T('box', T('opt', me)) if False else T('vec', me)])
        if self.lifetime and c < 0.55:
            # the lifetime as a reference lifetime and as a generic argument (the derive rewrites both to 'static)
            return r.choice([T('lref_str'), T('lref_str'), T('lcow_str'), T('vec', T('lcow_str')), T('opt', T('lref_str')),
                             T('tup', T('lcow_str'), T('lref_str'))])
        if c < 0.62:
            # containers mixing PhantomData with real data: only the marker itself may be erased
            ph = T('ph', r.choice(P) if P else T('u', n=8))
            real = T('u', n=r.choice(texpr.W))
            return r.choice([T('tup', real, ph), T('tup', ph, real, T('bool')), T('arr', T('tup', real, ph), n=2), T('opt', T('tup', ph, real)),
                             T('vec', T('tup', real, ph)), T('tup', T('tup', ph), real)])
        for _ in range(40):
            t = texpr.sized(r, depth)
            if t.can_encode():
                return t
        return T('u', n=32)

    def gen_field(self, r, ident):
        ty = self.field_type(r)
        f = Field(ident, ty, docs=doc_lines(r))
        c = r.random()
        if c < 0.12:
            f.skip = True
        elif c < 0.22:
            f.ty = T('u', n=r.choice(texpr.W))
            f.compact = True
        elif c < 0.24:
            f.ty = T('u', n=32)
            f.encoded_as = True
        if ident is not None and r.random() < 0.12:
            f.rename = r.choice(['renamed', 'newName', 'r#type', 'x'])
        return f

    def gen_fields(self, r, top=False):
        shape = r.choice(['n', 'n', 'x', 'x', 'u'])
        if shape == 'u':
            return 'u', []
        n = r.choice([1, 1, 2, 3, 4])
        names = r.sample(FIELDS, n)
        fields = [self.gen_field(r, names[i] if shape == 'n' else None) for i in range(n)]
        if r.random() < 0.25:
            # attribute interplay inside one member list: a skipped, a compact and a plain integer member of different
            # widths in every relative order (anything computed per position before/after filtering shows here)
            free = [x for x in FIELDS if x not in names]
            trio = [Field(None, T('u', n=r.choice([8, 16])), skip=True), Field(None, T('u', n=r.choice([32, 64])), compact=True),
                    Field(None, T('u', n=r.choice([64, 128])))]
            r.shuffle(trio)
            for k, f in enumerate(trio):
                f.ident = free[k] if shape == 'n' else None
                f.docs = doc_lines(r)
                fields.insert(r.randrange(len(fields) + 1), f)
        return shape, fields

    def gen_variants(self, r):
        n = r.choice([0, 1, 2, 3, 4, 6])
        names = r.sample(VARIANTS, min(n, len(VARIANTS)))
        clike = r.random() < 0.3
        vs = []
        used = set()
        for i, nm in enumerate(names):
            if clike:
                v = Variant(nm, 'u', [], docs=doc_lines(r))
                if r.random() < 0.6:
                    d = r.randrange(0, 256)
                    while d in used:
                        d = r.randrange(0, 256)
                    v.disc = d
            else:
                shape, fields = self.gen_fields(r)
                v = Variant(nm, shape, fields, docs=doc_lines(r))
            if r.random() < 0.2:
                v.skip = True
            if r.random() < (0.5 if v.skip else 0.25):
                v.index = r.randrange(0, 256)
            vs.append(v)
        # the indices of the non-skipped variants must be pairwise distinct (the codec derive checks it)
        self.clike = clike
        return self.dedup_indices(vs)

    def dedup_indices(self, vs):
        seen = set()
        pos = 0
        for v in vs:
            if v.skip:
                continue
            # rustc's implicit discriminants continue from the previous explicit one; keep it simple:
            # in a C-like enum either every non-skipped variant has an explicit discriminant or none has
            idx = v.index if v.index is not None else (v.disc if v.disc is not None else pos)
            if idx in seen:
                free = next(i for i in range(256) if i not in seen)
                v.index = free
                idx = free
            seen.add(idx)
            pos += 1
        return vs

    def ensure_params_used(self, r):
        """rustc rejects unused type / lifetime parameters: add PhantomData / &'a str members where needed"""
        def nonrec(t):
            # occurrences under a reference to the item itself do not count (rustc: "only used recursively")
            if isinstance(t, Adt) and t.item is self:
                return
            yield t
            for a in t.args:
                yield from nonrec(a)

        def used(name):
            return any(isinstance(s, Param) and s.name == name for f in self.all_fields() for s in nonrec(f.ty))
        extra = [Field(None, T('ph', Param(p))) for p in self.params if not used(p)]
        if self.lifetime and not any(s.kind in ('lref_str', 'lcow_str') for f in self.all_fields() for s in f.ty.subterms()):
            extra.append(Field(None, T('lref_str')))
        if self.lifetime and not any(s.kind == 'lcow_str' for f in self.all_fields() for s in f.ty.subterms()) and r.random() < 0.6:
            # the lifetime in generic-argument position as well (`Cow<'a, str>`): the macro rewrites both to 'static
            extra.append(Field(None, r.choice([T('lcow_str'), T('vec', T('lcow_str')), T('tup', T('u', n=8), T('lcow_str'))])))
        if not extra:
            return
        if self.is_enum:
            self.variants.append(Variant('Extra', 'x', extra))
            self.variants = self.dedup_indices(self.variants)
            if getattr(self, 'clike', False):
                for v in self.variants:
                    v.disc = None
                self.clike = False
                self.variants = self.dedup_indices(self.variants)
        else:
            if self.shape == 'u':
                self.shape = 'x'
            for i, f in enumerate(extra):
                if self.shape == 'n':
                    f.ident = f'extra{i}'
                self.fields.append(f)

    def all_fields(self):
        if self.is_enum:
            return [f for v in self.variants for f in v.fields]
        return self.fields

    def fix_skipped_params(self):
        for f in self.all_fields():
            for p in self.skip_params:
                if any(isinstance(s, Param) and s.name == p for s in f.ty.subterms()) and f.ty.kind != 'ph' and not f.skip:
                    # keep the declaration valid: a skipped parameter is used only under PhantomData or in skipped members
                    f.ty = T('ph', Param(p))
                    f.compact = f.encoded_as = False
        if getattr(self, 'clike', False):
            vs = [v for v in self.variants]
            if any(v.disc is not None for v in vs) and not all(v.disc is not None for v in vs):
                # rustc numbers implicit discriminants after the previous one; avoid the subtlety
                for v in vs:
                    if v.disc is None:
                        v.disc = next(i for i in range(256) if i not in {x.disc for x in vs if x.disc is not None})
                self.variants = self.dedup_indices(vs)

    # ---------------------------------------------------------- Rust text
    def path_text(self):
        return 'crate::gen_derive::' + ''.join(m + '::' for m in self.mods) + self.ident

    def generics_decl(self):
        g = (["'a"] if self.lifetime else []) + self.params
        return '<' + ', '.join(g) + '>' if g else ''

    def render_field(self, f, indent, pub='pub '):
        attrs = []
        if f.skip:
            attrs.append(f'{indent}#[codec(skip)]\n')
        if f.compact:
            attrs.append(f'{indent}#[codec(compact)]\n')
        if f.encoded_as:
            attrs.append(f'{indent}#[codec(encoded_as = "<u32 as scale::HasCompact>::Type")]\n')
        if f.rename is not None:
            attrs.append(f'{indent}#[scale_info(rename = {rs(f.rename)})]\n')
        # doc lines keep their relative order; helper attributes are interleaved in a random order
        order = getattr(f, 'attr_order', None)
        if order is not None:
            s = ''.join(attrs if order == 'fwd' else attrs[::-1]) + render_docs(f.docs, indent)
        else:
            s = shuffled(attrs) + render_docs(f.docs, indent) if ATTR_RNG.random() < 0.5 else render_docs(f.docs, indent) + shuffled(attrs)
        ty = self.src_type(f.ty)
        s += f'{indent}{pub}{f.ident}: {ty},\n' if f.ident is not None else f'{indent}{pub}{ty},\n'
        return s

    def src_type(self, t):
        """type text as written in the declaration (lifetime 'a where a reference is generic)"""
        if t.kind == 'lref_str':
            return "&'a str"
        if t.kind == 'lcow_str':
            return "std::borrow::Cow<'a, str>"
        if isinstance(t, Param):
            return t.name
        if isinstance(t, Adt):
            args = (["'a"] if (t.item is self and self.lifetime) else (["'static"] if t.item.lifetime else [])) + [self.src_type(a) for a in t.args]
            # a reference to the item itself is written with the bare ident: the derive recognises a
            # self reference only by the first path segment (see DESIGN.md, C13 finding)
            base = self.ident if t.item is self else t.item.path_text()
            return base + ('<' + ', '.join(args) + '>' if args else '')
        if not t.args:
            return t.rust()
        # rebuild through the same templates as texpr.T.rust, with recursively rendered arguments
        class Shim(T):
            pass
        shim = T(t.kind, *[RawText(self.src_type(a)) for a in t.args], n=t.n)
        return shim.rust()

    def render_shape(self, shape, fields, indent, tuple_semicolon):
        if shape == 'u':
            return ';' if tuple_semicolon else ''
        inner = ''.join(self.render_field(f, indent + '    ', 'pub ' if tuple_semicolon else '') for f in fields)
        if shape == 'n':
            return ' {\n' + inner + indent + '}'
        return '(\n' + inner + indent + ')' + (';' if tuple_semicolon else '')

    def render(self, indent):
        if getattr(self, 'doc_noise', False):
            FORCE_DOC_NOISE[0] = True
            try:
                self.doc_noise = False
                return self.render(indent)
            finally:
                FORCE_DOC_NOISE[0] = False
                self.doc_noise = True
        s = render_docs(self.docs, indent)
        s += f'{indent}#[derive(scale_info::TypeInfo, scale::Encode)]\n' if self.encodable else f'{indent}#[derive(scale_info::TypeInfo)]\n'
        attrs = []
        if self.skip_params:
            attrs.append('skip_type_params(' + ', '.join(self.skip_params) + ')')
        if self.explicit_capture:
            attrs.append(f'capture_docs = "{self.capture_text}"')
        for a, b in self.replace:
            attrs.append(f'replace_segment({rs(a)}, {rs(b)})')
        if attrs:
            # one attribute or several, both spellings are accepted by the macro
            s += f'{indent}#[scale_info(' + ', '.join(attrs) + ')]\n'
        if self.is_enum:
            if getattr(self, 'repr', None):
                s += f'{indent}#[repr({self.repr})]\n'
            s += f'{indent}pub enum {self.ident}{self.generics_decl()} {{\n'
            for v in self.variants:
                s += render_docs(v.docs, indent + '    ')
                vattrs = []
                if v.skip:
                    vattrs.append(f'{indent}    #[codec(skip)]\n')
                if v.index is not None:
                    vattrs.append(f'{indent}    #[codec(index = {int_lit(v.index, getattr(v, "lit_style", None))})]\n')
                order = getattr(v, 'attr_order', None)
                s += shuffled(vattrs) if order is None else ''.join(vattrs if order == 'fwd' else vattrs[::-1])
                s += f'{indent}    {v.ident}' + self.render_shape(v.shape, v.fields, indent + '    ', False)
                if v.disc is not None:
                    s += f' = {int_lit(v.disc, getattr(v, "lit_style", None), suffix_ok=False)}'
                s += ',\n'
            s += indent + '}\n'
        else:
            s += f'{indent}pub struct {self.ident}{self.generics_decl()}' + self.render_shape(self.shape, self.fields, indent, True) + '\n'
        return s

    # ---------------------------------------------------------- instantiation: token form + values
    def module_path(self):
        # module_path!() prints a raw module identifier without its r# prefix
        return '::'.join(['pg', 'gen_derive'] + [strip_raw(m) for m in self.mods])

    def inst_type(self, t, env):
        if t.kind == 'lref_str':
            return T('ref', T('str'))
        if t.kind == 'lcow_str':
            return T('cow', T('str'))
        return subst_l(t, env)

    def field_proto(self, f, env):
        ty = self.inst_type(f.ty, env)
        text = self.src_type(f.ty).replace("'a", "'static")
        return ' '.join([popt(f.ident, hexs), ty.proto(), hexs(text), str(int(f.skip)), str(int(f.compact)), str(int(f.encoded_as)),
                         popt(f.rename, hexs), plist(f.docs, hexs)])

    def shape_proto(self, shape, fields, env):
        if shape == 'u':
            return 'u'
        return shape + ' ' + plist(fields, lambda f: self.field_proto(f, env))

    def decl_proto(self, args):
        env = dict(zip(self.params, args))
        tps = plist(list(zip(self.params, args)), lambda pa: f'{hexs(pa[0])} {int(pa[0] in self.skip_params)} {pa[1].proto()}')
        head = f'{hexs(self.ident)} {hexs(self.module_path())} {tps} {self.capture} ' + \
            plist(self.replace, lambda ab: hexs(ab[0]) + ' ' + hexs(ab[1])) + ' ' + plist(self.docs, hexs)
        if self.is_enum:
            body = 'e ' + plist(self.variants, lambda v: ' '.join([hexs(v.ident), self.shape_proto(v.shape, v.fields, env), str(int(v.skip)),
                                                                     popt(v.index, str), popt(v.disc, str), plist(v.docs, hexs)]))
        else:
            body = 's ' + self.shape_proto(self.shape, self.fields, env)
        return head + ' ' + body

    def fields_value(self, r, shape, fields, env, depth):
        """-> (rust constructor body, list of (name or None, val proto)) for non-skipped, non-phantom members"""
        exprs, vals = [], []
        for f in fields:
            ty = self.inst_type(f.ty, env)
            if depth > 2 and ty.kind in ('opt', 'vec') and any(isinstance(s, Adt) and s.item is self for s in ty.subterms()):
                e, v = (('None', f'var {hexs("None")} 0 0') if ty.kind == 'opt' else ('Vec::new()', 'seq 0'))
            else:
                e, v = ty.values(r, depth + 1)
            if f.compact or f.encoded_as:
                v = 'cpt ' + v.split(' ', 1)[1]
            exprs.append((f.ident, e))
            if not f.skip and not ty.is_phantom():
                name = f.rename if f.rename is not None else f.ident
                vals.append((name, v))
        if shape == 'n':
            body = ' { ' + ', '.join(f'{i}: {e}' for i, e in exprs) + ' }'
        elif shape == 'x':
            body = '(' + ', '.join(e for _, e in exprs) + ')'
        else:
            body = ''
        return body, vals

    def value(self, r, args, depth=0, force_pos=None):
        env = dict(zip(self.params, args))
        ty_args = (["'static"] if self.lifetime else []) + [a.rust() for a in args]
        turbofish = ''   # the type annotation at the use site drives inference (lifetime arguments are not allowed on variant paths)
        if self.is_enum:
            live = [(i, v) for i, v in enumerate([v for v in self.variants if not v.skip])]
            pos, v = r.choice(live)
            if force_pos is not None and depth == 0:
                pos, v = live[force_pos % len(live)]
            body, vals = self.fields_value(r, v.shape, v.fields, env, depth)
            idx = v.index if v.index is not None else (v.disc if v.disc is not None else pos)
            return (f'{self.path_text()}{turbofish}::{v.ident}{body}',
                    f'var {hexs(v.ident)} {idx} ' + plist(vals, lambda nv: popt(nv[0], hexs) + ' ' + nv[1]))
        body, vals = self.fields_value(r, self.shape, self.fields, env, depth)
        return (f'{self.path_text()}{turbofish}{body}', 'comp ' + plist(vals, lambda nv: popt(nv[0], hexs) + ' ' + nv[1]))

    def reaches_encoded_as(self, seen=None):
        """does a value of this item contain (transitively) a non-skipped #[codec(encoded_as)] member"""
        seen = seen if seen is not None else set()
        if self.num in seen:
            return False
        seen.add(self.num)
        for f in self.all_fields():
            if f.skip:
                continue
            if f.encoded_as:
                return True
            for sub in f.ty.subterms():
                if isinstance(sub, Adt) and sub.item.reaches_encoded_as(seen):
                    return True
        return False

    def has_values(self):
        if self.is_enum:
            return any(not v.skip for v in self.variants)
        return True


class RawText(T):
    def __init__(self, text):
        super().__init__('raw')
        self.text = text

    def rust(self):
        return self.text


KEYWORDS = {'as', 'async', 'await', 'break', 'const', 'continue', 'dyn', 'else', 'enum', 'extern', 'false', 'fn', 'for', 'if', 'impl', 'in', 'let',
            'loop', 'match', 'mod', 'move', 'mut', 'pub', 'ref', 'return', 'static', 'struct', 'trait', 'true', 'type', 'unsafe', 'use', 'where',
            'while', 'abstract', 'become', 'box', 'do', 'final', 'macro', 'override', 'priv', 'try', 'typeof', 'unsized', 'virtual', 'yield', 'gen'}


def strip_raw(s):
    # module_path!() prints a raw identifier with its r# prefix only when the name is a keyword (r#try), not otherwise (r#mod2 -> mod2)
    if s.startswith('r#') and s[2:] not in KEYWORDS:
        return s[2:]
    return s


def subst_l(t, env):
    if t.kind == 'lref_str':
        return T('ref', T('str'))
    if t.kind == 'lcow_str':
        return T('cow', T('str'))
    if isinstance(t, Param):
        return env[t.name]
    if isinstance(t, Adt):
        return Adt(t.item, [subst_l(a, env) for a in t.args])
    if not t.args:
        return t
    return T(t.kind, *[subst_l(a, env) for a in t.args], n=t.n)


def main():
    ap = argparse.ArgumentParser()
    ap.add_argument('--seed', type=int, default=1)
    ap.add_argument('--n', type=int, default=40)
    ap.add_argument('--vals', type=int, default=3)
    ap.add_argument('--out', required=True)
    ap.add_argument('--fp', action='store_true', help='fingerprint corpus: no BitVec, no value cases')
    ap.add_argument('--exclude', default='', help='comma separated item numbers to leave out (with everything that refers to them): '
                    'the random choices stay those of the full corpus, so the remaining cases are unchanged')
    a = ap.parse_args()
    texpr.NO_BITVEC = a.fp
    r = random.Random(a.seed * 7919 + 13)
    ATTR_RNG.seed(a.seed * 31 + 5)
    items = []
    for k in range(a.n):
        depth = r.choice([0, 0, 1, 2, 3])
        mods = [r.choice(MODS) + str(k) for _ in range(depth)]
        items.append(Item(k, r, [i for i in items if not i.lifetime][-12:], mods))

    # a fixed catalogue of member-type shapes, present in every corpus whatever the random choices were: the syntactic forms a
    # type name can take (nested tuples, tuples as generic arguments, arrays, references, unit, markers, ranges, maps)
    u8, u16, u32, bl = T('u', n=8), T('u', n=16), T('u', n=32), T('bool')
    CATALOGUE = [
        [T('tup', u8, T('tup', bl, u8)), T('map', u32, T('tup', u8, u16)), T('res', u8, T('tup', u8, u8)), T('tup', T('tup', u8, u16), u32)],
        [T('arr', T('tup', u8, u16), n=3), T('vec', T('tup', u8, bl)), T('opt', T('vec', T('arr', u8, n=4))), T('box', T('tup', u8))],
        [T('tup0'), T('tup', T('tup0')), T('tup', u8, T('ph', u8), u16), T('tup', T('ph', u8), T('tup0'), u32), T('ph', T('tup', u8, u8))],
        [T('ref', T('str')), T('cow', T('slice', u8)), T('range', u8), T('rangei', u32), T('set', u16), T('map', u8, T('arr', T('tup', u8, u8), n=2)), T('string')],
        [T('lcow_str'), T('lref_str'), T('vec', T('opt', T('tup', u8, T('tup', u16, u32)))), T('opt', T('lref_str'))],
    ]
    def cat_item(mods=()):
        k = len(items)
        it = Item(k, random.Random(424242 + k), [], list(mods))
        it.ident, it.is_enum, it.params, it.skip_params, it.replace, it.docs = f'Catalogue{k}', False, [], [], [], []
        it.capture, it.capture_text, it.explicit_capture = 'd', 'default', False
        it.lifetime, it.shape, it.fields, it.variants, it.clike = False, 'n', [], [], False
        items.append(it)
        return it
    for fields in CATALOGUE:
        it = cat_item()
        it.lifetime = any(s_.kind in ('lcow_str', 'lref_str') for f in fields for s_ in f.subterms())
        it.fields = [Field(f'c{i}', f) for i, f in enumerate(fields)]
    # markers as generic arguments (they are registered as types of their own), each followed by types first met afterwards
    it = cat_item()
    it.fields = [Field(f'c{i}', f) for i, f in enumerate([T('opt', T('ph', u8)), T('u', n=64), T('vec', T('ph', u16)), T('string'), T('arr', T('ph', u8), n=2),
                                                          T('tup', bl, T('i', n=16)), T('res', T('ph', T('tup0')), T('i', n=8))])]
    # two helper attributes on one member / variant, in both orders
    it = cat_item()
    # (documented, and the helper attributes come BEFORE the doc lines; a documented marker member too)
    fs = [Field('a', u32, compact=True, rename='r1', docs=[' doc of a']), Field('b', T('u', n=64), compact=True, rename='r2', docs=[' doc of b', ' more']),
          Field('c', u8, skip=True, rename='r3', docs=[' doc of c']), Field('d', u16, skip=True, rename='r4'), Field('e', bl),
          Field('m', T('ph', u8), docs=[' a documented marker']), Field('n', T('u', n=128), docs=[' after the marker'])]
    for f, o in zip(fs, ['fwd', 'rev', 'fwd', 'rev', 'fwd', 'fwd', 'fwd']):
        f.attr_order = o
    it.fields = fs
    it = cat_item()
    it.is_enum = True
    vs = [Variant('Keep0', 'u', []), Variant('SkipA', 'n', [Field('x', u8)], skip=True, index=7), Variant('SkipB', 'x', [Field(None, u16)], skip=True, index=9),
          Variant('Idx', 'x', [Field(None, u32)], index=13), Variant('Last', 'n', [Field('a', u8)])]
    for v, o in zip(vs, ['fwd', 'fwd', 'rev', 'fwd', 'fwd']):
        v.attr_order = o
    it.variants = vs
    # a user type that is merely NAMED like the marker: a member of that type carries data and must be listed
    shim = cat_item(mods=['shim'])
    shim.ident, shim.params, shim.shape, shim.fields = 'PhantomData', ['T'], 'x', [Field(None, Param('T'))]
    it = cat_item()
    it.fields = [Field('a', u8), Field('b', Adt(shim, [u32])), Field('c', T('ph', u16)), Field('d', T('tup', Adt(shim, [bl]), u8))]
    # type parameters whose names are not in alphabetical order, the middle one skipped
    it = cat_item()
    it.params, it.skip_params = ['Zed', 'M', 'Alpha'], ['M']
    it.fields = [Field('z', Param('Zed')), Field('m', T('ph', Param('M'))), Field('a', T('vec', Param('Alpha')))]
    # sizes at the edge of the format: every u8 variant index in use; more members than a one-byte compact length holds
    it = cat_item()
    it.is_enum = True
    it.variants = [Variant(f'V{i}', 'u' if i not in (0, 128, 255) else 'x', [] if i not in (0, 128, 255) else [Field(None, u8)]) for i in range(256)]
    it = cat_item()
    it.fields = [Field(f'f{i}', [u8, bl, u16][i % 3]) for i in range(70)]
    # doc attributes that are not text lines, before and between the text lines of the type, a member and a variant
    it = cat_item()
    it.doc_noise, it.capture, it.capture_text, it.explicit_capture = True, 'a', 'always', True
    it.docs = [' first', ' second', ' third']
    it.fields = [Field('a', u8, docs=[' fa', ' fb']), Field('b', u16, docs=[' only'])]
    it = cat_item()
    it.is_enum, it.doc_noise, it.capture, it.capture_text, it.explicit_capture = True, True, 'a', 'always', True
    it.docs = [' e1', ' e2']
    it.variants = [Variant('A', 'u', [], docs=[' va', ' vb', ' vc']), Variant('B', 'x', [Field(None, u8, docs=[' x1', ' x2'])], docs=[' vd'])]
    # a deeply nested member followed by a member whose type is first met afterwards
    it = cat_item()
    deep = T('u', n=16)
    for _ in range(30):
        deep = T('opt', deep)
    it.fields = [Field('deep', deep), Field('after', T('i', n=64)), Field('last', T('vec', T('bool')))]
    # explicit discriminants on data-carrying variants (needs an integer repr): the codec writes the discriminant
    it = cat_item()
    it.is_enum, it.repr = True, 'u8'
    it.variants = [Variant('Unit', 'u', [], disc=9), Variant('Data', 'x', [Field(None, u8)], disc=5), Variant('Rec', 'n', [Field('a', u16)], disc=2),
                   Variant('Zero', 'x', [Field(None, bl)], disc=0)]
    # struct-like variants that share member names while the helper attributes differ from one occurrence to the other
    it = cat_item()
    it.is_enum = True
    it.variants = [Variant('Transfer', 'n', [Field('amount', T('u', n=64), compact=True), Field('to', u8)]),
                   Variant('Refund', 'n', [Field('amount', T('u', n=64)), Field('to', u8, skip=True)]),
                   Variant('Hold', 'n', [Field('amount', T('u', n=64), skip=True), Field('to', u32, compact=True), Field('x', bl)])]
    # modules named by raw identifiers that are keywords: the module path keeps the r# prefix
    it = cat_item(mods=['r#try', 'r#async'])
    it.fields = [Field('r#type', u8), Field('b', u16)]
    it = cat_item(mods=['r#dyn'])
    it.replace, it.fields = [('r#dyn', 'plain')], [Field('a', u8)]
    # `#[codec(index = ..)]` in every spelling of an integer literal
    it = cat_item()
    it.is_enum = True
    it.variants = []
    for k, st in enumerate(['dec', 'hex', 'oct', 'bin', 'us', 'suf', 'ussuf']):
        v = Variant(f'L{k}', 'u', [], index=16 + 3 * k)
        v.lit_style = st
        it.variants.append(v)
    # segment replacement: a segment occurring twice, rows that chain, the same search segment in two rows
    it = cat_item(mods=['cat', 'cat'])
    it.replace, it.fields = [('cat', 'x')], [Field('a', u8)]
    it = cat_item(mods=['a1', 'b1'])
    it.replace, it.fields = [('a1', 'b1'), ('b1', 'a1')], [Field('a', u8)]
    it = cat_item()
    it.replace, it.fields = [('gen_derive', 'dup'), ('gen_derive', 'dup2'), ('nomatch', 'z')], [Field('a', u8)]
    # member / variant counts just past the powers of two (lists emitted in pieces, bitmaps of one machine word, ..): the tail
    # entries carry data, and every variant gets a value
    for nv in (33, 35, 65, 100, 129):
        it = cat_item()
        it.is_enum = True
        it.variants = [Variant(f'W{i}', 'x' if i >= nv - 3 or i % 31 == 0 else 'u', [Field(None, [u8, u16, bl][i % 3])] if i >= nv - 3 or i % 31 == 0 else [])
                       for i in range(nv)]
    it = cat_item()
    it.is_enum = True
    it.variants = [Variant(f'S{i}', 'u', [], skip=(i in (3, 17))) for i in range(36)] + [Variant('Tail', 'n', [Field('a', u32, compact=True)])]
    for nf in (33, 65):
        it = cat_item()
        it.fields = [Field(f'g{i}', [u16, bl, u8, u32][i % 4]) for i in range(nf)]
    # items left out on request, and everything that refers to one of them (references only go to earlier items)
    excluded = set()
    want_out = {int(x) for x in a.exclude.split(',') if x.strip()}
    for it in items:
        if it.num in want_out or any(isinstance(sub, Adt) and sub.item is not it and sub.item.num in excluded
                                     for f in it.all_fields() for sub in f.ty.subterms()):
            excluded.add(it.num)

    def items_of(t):
        return sorted({sub.item.num for sub in t.subterms() if isinstance(sub, Adt)})
    TAGS = {}   # index into L -> item numbers the entry belongs to (for mapping compiler errors back to items)
    L = ['// @generated by harness/gen/gen_derive.py — do not edit', '#![allow(unused, non_camel_case_types, non_snake_case)]',
         'use scale::Encode;', 'use scale_info::{MetaType, PortableRegistry, Registry};', 'use crate::proto::*;']
    # declarations, nested in modules
    for it in items:
        if it.num in excluded:
            continue
        ind = ''
        for m in it.mods:
            L.append(f'{ind}pub mod {m} {{')
            ind += '    '
        TAGS[len(L)] = [it.num]
        L.append(it.render(ind).rstrip('\n'))
        for _ in it.mods:
            ind = ind[:-4]
            L.append(f'{ind}}}')
    # instantiations
    insts = []
    for it in items:
        for _ in range(1 if not it.params else 2):
            args = []
            for p in it.params:
                if p in it.skip_params:
                    args.append(r.choice([T('u', n=8), T('bool'), Adt(it, []) if False else T('u', n=16)]))
                else:
                    t = texpr.sized(r, 1)
                    args.append(t if t.can_encode() else T('u', n=8))
            insts.append((it, args))
    # table: every instantiation, every field type and its sub-expressions
    table, seen = [], set()

    def add(t):
        if t.kind == 'param' or t.kind == 'raw':
            return
        key = t.proto()
        if key in seen or not t.typeinfo_ok():
            return
        seen.add(key)
        table.append(t)

    for it, args in insts:
        if it.num not in excluded:
            add(Adt(it, args))
    i = 0
    while i < len(table):
        t = table[i]
        if isinstance(t, Adt):
            env = dict(zip(t.item.params, t.args))
            for f in t.item.all_fields():
                ty = t.item.inst_type(f.ty, env)
                add(T('compact', ty) if (f.compact) else ty)
        else:
            for s in list(t.subterms())[1:] + t.extra_refs():
                add(s)
        i += 1
    L.append('pub fn table() -> Vec<(MetaType, &\'static str)> {\n    vec![')
    for t in table:
        TAGS[len(L)] = items_of(t)
        L.append(f'        (MetaType::new::<{t.rust()}>(), "{t.proto()}"),')
    L.append('    ]\n}')
    L.append('pub fn derive_cases(table: &[(MetaType, &\'static str)], out: &mut dyn FnMut(String)) {')
    for k in range(0 if a.fp else len(insts)):
        if insts[k][0].num not in excluded:
            L.append(f'    dcase_{k}(table, out);')
    L.append('}')
    nvals = 0
    for k, (it, args) in enumerate([] if a.fp else insts):
        me = Adt(it, args)
        keep, L_all = it.num not in excluded, L
        if not keep:
            L = []          # the values are still drawn (same random stream), the text is dropped
        TAGS_at = len(L)
        L.append(f'fn dcase_{k}(table: &[(MetaType, &\'static str)], out: &mut dyn FnMut(String)) {{')
        L.append(f'    type X = {me.rust()};')
        L.append('    let m = MetaType::new::<X>();')
        L.append('    let mut reg = Registry::new();')
        L.append('    let id = reg.register_type(&m).id;')
        L.append('    let pr: PortableRegistry = reg.into();')
        vals = []
        if it.has_values():
            seenv = set()
            # an enum of up to 12 encodable variants gets one value per variant (then random ones), so that every described
            # index is compared with the byte the codec writes
            nlive = len([v for v in it.variants if not v.skip]) if it.is_enum else 0
            rounds = max(a.vals, nlive if nlive <= 12 else a.vals)
            for vi in range(rounds):
                try:
                    e, v = it.value(r, args, force_pos=(vi if (it.is_enum and vi < nlive and nlive <= 12) else None))
                except (IndexError, ValueError, RecursionError):
                    continue   # no value can be written for this instantiation (e.g. an uninhabited member type)
                if v not in seenv:
                    seenv.add(v)
                    vals.append((e, v))
        ea = int(it.reaches_encoded_as() or any(isinstance(sub, Adt) and sub.item.reaches_encoded_as() for a_ in args for sub in a_.subterms()))
        L.append(f'    let mut s = format!("derive {k} {{}} {ea} {it.decl_proto(args)} {{}} {{}} {{}} {len(vals)}", cfg!(feature = "docs") as u8, '
                 'crate::tinfo_text(&m, table), id, pregistry(&pr));')
        for e, v in vals:
            L.append(f'    {{ let v: X = {e}; s.push_str(&format!(" {v} {{}}", hex(&v.encode()))); }}')
            nvals += 1
        L.append('    out(s);\n}')
        if keep:
            for j in range(TAGS_at, len(L)):
                TAGS[j] = [it.num]
        else:
            L = L_all
    open(a.out, 'w').write('\n'.join(L) + '\n')
    # line map: [first line, last line, item numbers] per tagged entry (1-based lines of the generated file)
    line, ranges = 1, []
    for j, entry in enumerate(L):
        nl = entry.count('\n') + 1
        if j in TAGS:
            ranges.append([line, line + nl - 1, TAGS[j]])
        line += nl
    import json
    json.dump(dict(ranges=ranges, excluded=sorted(excluded),
                   source={it.num: it.render('') for it in items}), open(a.out + '.map', 'w'))
    print(f'items {len(items)} instantiations {len(insts)} table {len(table)} values {nvals}', file=sys.stderr)


if __name__ == '__main__':
    main()
