"""
Type expressions over the built-in constructors of scale-info (src/impls.rs), with
  .rust()   the Rust type text
  .proto()  the token form parsed by the Lean driver (SIM.Driver.Std.pTyExpr)
  .values() (rust expression, Val token form) pairs for encodable types
One seeded PRNG drives every choice.
"""
import random

W = [8, 16, 32, 64, 128]
NO_BITVEC = False   # set by the generators in --fp mode (corpus common to every feature set)


def hexs(s):
    return 'x' + s.encode().hex()


class T:
    kind = None
    args = ()
    sized = True
    encodable = True

    def __init__(self, kind, *args, n=None):
        self.kind, self.args, self.n = kind, args, n

    def key(self):
        return self.proto()

    def __eq__(self, o):
        return self.key() == o.key()

    def __hash__(self):
        return hash(self.key())

    # ------------------------------------------------------------------ text forms
    def rust(self):
        k, a = self.kind, self.args
        simple = {'bool': 'bool', 'char': 'char', 'str': 'str', 'string': 'String', 'dur': 'core::time::Duration',
                  'tup0': '()', 'lsb0': 'bitvec::order::Lsb0', 'msb0': 'bitvec::order::Msb0'}
        if k in simple:
            return simple[k]
        if k == 'u':
            return f'u{self.n}'
        if k == 'i':
            return f'i{self.n}'
        if k == 'nzu':
            return f'core::num::NonZeroU{self.n}'
        if k == 'nzi':
            return f'core::num::NonZeroI{self.n}'
        if k == 'arr':
            return f'[{a[0].rust()}; {self.n}]'
        if k == 'tup':
            return '(' + ''.join(x.rust() + ', ' for x in a) + ')'
        wrap = {'slice': '[{}]', 'vec': 'Vec<{}>', 'vecdeque': 'std::collections::VecDeque<{}>', 'opt': 'Option<{}>',
                'box': 'Box<{}>', 'rc': 'std::rc::Rc<{}>', 'arc': 'std::sync::Arc<{}>', 'ref': "&'static {}",
                'refmut': "&'static mut {}", 'cow': "std::borrow::Cow<'static, {}>", 'set': 'std::collections::BTreeSet<{}>',
                'heap': 'std::collections::BinaryHeap<{}>', 'compact': 'scale::Compact<{}>', 'range': 'core::ops::Range<{}>',
                'rangei': 'core::ops::RangeInclusive<{}>', 'ph': 'core::marker::PhantomData<{}>'}
        if k in wrap:
            return wrap[k].format(a[0].rust())
        if k == 'res':
            return f'Result<{a[0].rust()}, {a[1].rust()}>'
        if k == 'map':
            return f'std::collections::BTreeMap<{a[0].rust()}, {a[1].rust()}>'
        if k == 'bitvec':
            return f'bitvec::vec::BitVec<{a[0].rust()}, {a[1].rust()}>'
        raise ValueError(k)

    def proto(self):
        k, a = self.kind, self.args
        if k in ('u', 'i', 'nzu', 'nzi'):
            return f'{k}{self.n}'
        if k == 'arr':
            return f'arr {self.n} {a[0].proto()}'
        if k == 'tup0':
            return 'tup 0'
        if k == 'tup':
            return f'tup {len(a)} ' + ' '.join(x.proto() for x in a)
        if not a:
            return k
        return k + ' ' + ' '.join(x.proto() for x in a)

    # ------------------------------------------------------------------ properties
    def is_sized(self):
        return self.kind not in ('str', 'slice')

    def is_phantom(self):
        t = self
        while t.kind in ('box', 'rc', 'arc', 'ref', 'refmut'):
            t = t.args[0]
        return t.kind == 'ph'

    def can_encode(self):
        """has a parity-scale-codec Encode impl and we can write values for it"""
        k, a = self.kind, self.args
        if k in ('char', 'str', 'slice', 'lsb0', 'msb0', 'refmut'):
            return False
        if k == 'arr' and self.n > 64:
            return False
        if k == 'tup' and len(a) > 18:
            return False
        if k == 'compact':
            return a[0].kind == 'u'
        if k == 'bitvec':
            return True
        if k in ('set', 'heap'):
            return a[0].ord_ok() and a[0].can_encode()
        if k == 'map':
            return a[0].ord_ok() and a[0].can_encode() and a[1].can_encode()
        if k == 'cow':
            return a[0].kind in ('str', ) or (a[0].kind == 'slice' and a[0].args[0].can_encode() and a[0].args[0].clone_ok()) \
                or (a[0].is_sized() and a[0].can_encode() and a[0].clone_ok())
        if k == 'ref':
            return a[0].kind == 'str' or (a[0].is_sized() and a[0].can_encode() and a[0].const_ok())
        if k in ('range', 'rangei'):
            return a[0].kind in ('u', 'i')
        if k == 'ph':
            return True
        return all(x.can_encode() for x in a)

    def ord_ok(self):
        """usable as a BTreeMap/BTreeSet/BinaryHeap element with a python-predictable order"""
        return self.kind in ('u', 'i', 'bool')

    def clone_ok(self):
        k = self.kind
        if k in ('refmut', 'heap') or (k == 'bitvec'):
            return k == 'bitvec'
        return all(x.clone_ok() for x in self.args)

    def const_ok(self):
        """a value of it can be promoted to a &'static reference via Box::leak"""
        return True

    def typeinfo_ok(self):
        """TypeInfo is implemented (bounds of the impls)"""
        k, a = self.kind, self.args
        if k == 'tup' and len(a) > 20:
            return False
        if k == 'cow':
            return a[0].kind in ('str', 'slice') or (a[0].is_sized() and a[0].clone_ok() and a[0].typeinfo_ok())
        if k in ('range', 'rangei'):
            return a[0].kind in ('u', 'i', 'bool', 'char')
        if k == 'bitvec':
            return a[0].kind == 'u' and a[0].n in (8, 16, 32, 64) and a[1].kind in ('lsb0', 'msb0')
        if k in ('slice', 'vec', 'vecdeque', 'opt', 'res', 'set', 'heap', 'map', 'compact', 'arr', 'tup'):
            return all(x.is_sized() and x.typeinfo_ok() for x in a)
        if k == 'ph':
            return True   # PhantomData<T>: TypeInfo for every T (we only use T sized or str)
        return all(x.typeinfo_ok() for x in a)

    def subterms(self):
        yield self
        for x in self.args:
            yield from x.subterms()

    def extra_refs(self):
        """types the impl's type_info() mentions that are not syntactic sub-expressions"""
        k, a = self.kind, self.args
        if k == 'map':
            return [T('slice', T('tup', a[0], a[1])), T('tup', a[0], a[1])]
        if k in ('set', 'heap'):
            return [T('slice', a[0])]
        if k in ('vec', 'vecdeque'):
            return [T('slice', a[0])]
        if k == 'string':
            return [T('str')]
        if k == 'nzu':
            return [T('u', n=self.n)]
        if k == 'nzi':
            return [T('i', n=self.n)]
        if k == 'dur':
            return [T('u', n=64), T('u', n=32)]
        if k == 'ph':
            return [T('ph', T('tup0'))]
        return []

    # ------------------------------------------------------------------ values
    def values(self, r, depth=0):
        """-> (rust expr, val proto)"""
        k, a = self.kind, self.args
        if k == 'bool':
            b = r.random() < 0.5
            return ('true' if b else 'false', f'b {int(b)}')
        if k == 'u':
            n = r.choice([0, 1, 63, 64, 16383, 16384, 2 ** 30 - 1, 2 ** 30, 2 ** self.n - 1, r.getrandbits(self.n), r.getrandbits(self.n) >> r.randrange(self.n)])
            n &= 2 ** self.n - 1
            return (f'{n}u{self.n}', f'u {self.n} {n}')
        if k == 'i':
            lo, hi = -2 ** (self.n - 1), 2 ** (self.n - 1) - 1
            z = r.choice([0, 1, -1, lo, hi, r.randrange(lo, hi + 1), r.randrange(-200, 200)])
            z = max(lo, min(hi, z))
            lit = f'({z}i{self.n})' if z != lo else f'i{self.n}::MIN'
            return (lit, f'i {self.n} {z}')
        if k == 'nzu':
            n = r.choice([1, 2 ** self.n - 1, r.randrange(1, 2 ** self.n)])
            return (f'core::num::NonZeroU{self.n}::new({n}u{self.n}).unwrap()', f'comp 1 N u {self.n} {n}')
        if k == 'nzi':
            lo, hi = -2 ** (self.n - 1), 2 ** (self.n - 1) - 1
            z = r.choice([1, -1, lo, hi, r.randrange(lo, hi + 1)])
            if z == 0:
                z = -1
            lit = f'({z}i{self.n})' if z != lo else f'i{self.n}::MIN'
            return (f'core::num::NonZeroI{self.n}::new({lit}).unwrap()', f'comp 1 N i {self.n} {z}')
        if k == 'string':
            s = r.choice(['', 'a', 'hello', 'é', '日本', 's' * 64, 'ÿĀ', 'tab\there'])
            return (f'String::from({rs(s)})', f's {hexs(s)}')
        if k == 'dur':
            secs, nanos = r.choice([0, 1, 2 ** 64 - 1, r.getrandbits(40)]), r.choice([0, 1, 999999999, r.randrange(10 ** 9)])
            return (f'core::time::Duration::new({secs}u64, {nanos}u32)', f'comp 2 N u 64 {secs} N u 32 {nanos}')
        if k == 'tup0':
            return ('()', 'tup 0')
        if k == 'ph':
            return ('core::marker::PhantomData', 'comp 0')
        if k == 'arr':
            vs = [a[0].values(r, depth + 1) for _ in range(self.n)]
            return ('[' + ', '.join(v[0] for v in vs) + ']', f'arr {self.n}' + ''.join(' ' + v[1] for v in vs))
        if k == 'tup':
            vs = [x.values(r, depth + 1) for x in a]
            kept = [v for x, v in zip(a, vs) if not x.is_phantom()]
            return ('(' + ''.join(v[0] + ', ' for v in vs) + ')', f'tup {len(kept)}' + ''.join(' ' + v[1] for v in kept))
        if k in ('vec', 'vecdeque'):
            n = r.choice([0, 1, 2, 3]) if depth < 2 else r.choice([0, 1])
            vs = [a[0].values(r, depth + 1) for _ in range(n)]
            body = 'vec![' + ', '.join(v[0] for v in vs) + ']'
            if k == 'vecdeque':
                body = f'std::collections::VecDeque::from({body})'
            return (f'{{ let v: {self.rust()} = {body}; v }}', f'seq {n}' + ''.join(' ' + v[1] for v in vs))
        if k == 'opt':
            if r.random() < 0.35:
                return ('None', f'var {hexs("None")} 0 0')
            v = a[0].values(r, depth + 1)
            inner = '' if a[0].is_phantom() else f' N {v[1]}'
            return (f'Some({v[0]})', f'var {hexs("Some")} 1 {0 if a[0].is_phantom() else 1}{inner}')
        if k == 'res':
            i = 0 if r.random() < 0.5 else 1
            v = a[i].values(r, depth + 1)
            nm = ['Ok', 'Err'][i]
            inner = '' if a[i].is_phantom() else f' N {v[1]}'
            return (f'{nm}({v[0]})', f'var {hexs(nm)} {i} {0 if a[i].is_phantom() else 1}{inner}')
        if k in ('box', 'rc', 'arc'):
            v = a[0].values(r, depth + 1)
            ctor = {'box': 'Box::new', 'rc': 'std::rc::Rc::new', 'arc': 'std::sync::Arc::new'}[k]
            return (f'{ctor}({v[0]})', v[1])
        if k == 'ref':
            if a[0].kind == 'str':
                s = r.choice(['', 'x', 'héllo'])
                return (rs(s), f's {hexs(s)}')
            v = a[0].values(r, depth + 1)
            return (f'{{ let b: &\'static {a[0].rust()} = Box::leak(Box::new({v[0]})); b }}', v[1])
        if k == 'cow':
            if a[0].kind == 'str':
                s = r.choice(['', 'cow', 'ünï'])
                return (f'std::borrow::Cow::Borrowed({rs(s)})', f'comp 1 N s {hexs(s)}')
            if a[0].kind == 'slice':
                n = r.choice([0, 1, 2])
                vs = [a[0].args[0].values(r, depth + 1) for _ in range(n)]
                return (f'std::borrow::Cow::Owned(vec![' + ', '.join(v[0] for v in vs) + '])',
                        f'comp 1 N seq {n}' + ''.join(' ' + v[1] for v in vs))
            v = a[0].values(r, depth + 1)
            return (f'std::borrow::Cow::Owned({v[0]})', 'comp 0' if a[0].is_phantom() else f'comp 1 N {v[1]}')
        if k in ('set', 'heap'):
            n = r.choice([0, 1, 3])
            raw = sorted(set(ord_value(a[0], r) for _ in range(n)))
            vs = [ord_lit(a[0], x) for x in raw]
            ctor = 'std::collections::BTreeSet' if k == 'set' else 'std::collections::BinaryHeap'
            if k == 'heap':
                # BinaryHeap iterates in internal order: only 0/1 elements keep the expected value predictable
                raw = raw[:1]
                vs = vs[:1]
            expr = f'{{ let mut s = {ctor}::new(); ' + ''.join(f's{".insert" if k == "set" else ".push"}({v[0]}); ' for v in vs) + 's }'
            return (f'{{ let s: {self.rust()} = {expr}; s }}', f'comp 1 N seq {len(vs)}' + ''.join(' ' + v[1] for v in vs))
        if k == 'map':
            n = r.choice([0, 1, 2])
            keys = sorted(set(ord_value(a[0], r) for _ in range(n)))
            items = [(ord_lit(a[0], x), a[1].values(r, depth + 1)) for x in keys]
            expr = '{ let mut m = std::collections::BTreeMap::new(); ' + ''.join(f'm.insert({kk[0]}, {vv[0]}); ' for kk, vv in items) + 'm }'
            def pair(kk, vv):
                mem = [kk[1]] + ([] if a[1].is_phantom() else [vv[1]])
                return f'tup {len(mem)} ' + ' '.join(mem)
            return (f'{{ let m: {self.rust()} = {expr}; m }}',
                    f'comp 1 N seq {len(items)}' + ''.join(' ' + pair(kk, vv) for kk, vv in items))
        if k == 'compact':
            bits = a[0].n
            n = r.choice([0, 63, 64, 16383, 16384, 2 ** 30 - 1, 2 ** 30, 2 ** bits - 1, r.getrandbits(bits), r.getrandbits(bits) >> r.randrange(bits)])
            n &= 2 ** bits - 1
            return (f'scale::Compact({n}u{bits})', f'cpt {bits} {n}')
        if k in ('range', 'rangei'):
            s, e = a[0].values(r, depth + 1), a[0].values(r, depth + 1)
            ctor = f'core::ops::Range {{ start: {s[0]}, end: {e[0]} }}' if k == 'range' else f'core::ops::RangeInclusive::new({s[0]}, {e[0]})'
            return (ctor, f'comp 2 S {hexs("start")} {s[1]} S {hexs("end")} {e[1]}')
        if k == 'bitvec':
            w = a[0].n
            msb = a[1].kind == 'msb0'
            n = r.choice([0, 1, 7, 8, 9, w - 1, w, w + 1, 2 * w + 3])
            bits = [r.random() < 0.5 for _ in range(n)]
            order = 'bitvec::order::Msb0' if msb else 'bitvec::order::Lsb0'
            expr = f'{{ let mut b = bitvec::vec::BitVec::<u{w}, {order}>::new(); ' + ''.join(f'b.push({"true" if x else "false"}); ' for x in bits) + 'b }'
            return (expr, f'bits {w} {int(msb)} {n}' + ''.join(f' {int(x)}' for x in bits))
        raise ValueError('no values for ' + k)


def rs(s):
    return '"' + ''.join(c if (32 <= ord(c) < 127 and c not in '"\\') else '\\u{%x}' % ord(c) for c in s) + '"'


def ord_value(t, r):
    if t.kind == 'bool':
        return r.random() < 0.5
    if t.kind == 'u':
        return r.choice([0, 1, 2 ** t.n - 1, r.getrandbits(t.n)])
    lo, hi = -2 ** (t.n - 1), 2 ** (t.n - 1) - 1
    return r.choice([0, -1, lo, hi, r.randrange(lo, hi + 1)])


def ord_lit(t, x):
    if t.kind == 'bool':
        return ('true' if x else 'false', f'b {int(x)}')
    if t.kind == 'u':
        return (f'{x}u{t.n}', f'u {t.n} {x}')
    lo = -2 ** (t.n - 1)
    return ((f'({x}i{t.n})' if x != lo else f'i{t.n}::MIN'), f'i {t.n} {x}')


# ---------------------------------------------------------------------- generation

LEAVES = [('bool',), ('char',), ('string',), ('dur',), ('tup0',)]


def leaf(r):
    c = r.random()
    if c < 0.35:
        return T('u', n=r.choice(W))
    if c < 0.5:
        return T('i', n=r.choice(W))
    if c < 0.58:
        return T('nzu' if r.random() < 0.5 else 'nzi', n=r.choice(W))
    return T(r.choice(LEAVES)[0])


def gen(r, depth):
    if depth <= 0 or r.random() < 0.25:
        return leaf(r)
    k = r.choice(['arr', 'tup', 'tup', 'vec', 'vecdeque', 'opt', 'opt', 'res', 'box', 'rc', 'arc', 'ref', 'refmut', 'cow', 'map',
                  'set', 'heap', 'compact', 'range', 'rangei', 'ph', 'bitvec', 'slice_in_box', 'str_in_box'])
    sub = lambda: sized(r, depth - 1)
    if k == 'arr':
        return T('arr', sub(), n=r.choice([0, 1, 2, 3, 5]))
    if k == 'tup':
        n = r.choice([1, 2, 2, 3, 3, 4, 5, 8, 12, 18, 19, 20])
        d = depth - 1 if n < 6 else 0
        return T('tup', *[sized(r, d) for _ in range(n)])
    if k in ('vec', 'vecdeque', 'opt', 'box', 'rc', 'arc', 'ref', 'refmut'):
        return T(k, sub())
    if k == 'res':
        return T('res', sub(), sub())
    if k == 'cow':
        c = r.random()
        if c < 0.3:
            return T('cow', T('str'))
        if c < 0.5:
            return T('cow', T('slice', clonable(r, depth - 1)))
        return T('cow', clonable(r, depth - 1))
    if k == 'map':
        return T('map', T(r.choice(['u', 'i']), n=r.choice(W)), sub())
    if k in ('set', 'heap'):
        return T(k, T(r.choice(['u', 'i']), n=r.choice(W)) if r.random() < 0.8 else T('bool'))
    if k == 'compact':
        return T('compact', T('u', n=r.choice(W)))
    if k in ('range', 'rangei'):
        return T(k, T(r.choice(['u', 'i']), n=r.choice(W)))
    if k == 'ph':
        return T('ph', r.choice([T('tup0'), T('u', n=8), sub()]))
    if k == 'bitvec':
        if NO_BITVEC:
            return T('vec', T('bool'))
        return T('bitvec', T('u', n=r.choice([8, 16, 32, 64])), T(r.choice(['lsb0', 'msb0'])))
    if k == 'slice_in_box':
        return T(r.choice(['box', 'rc', 'arc', 'ref']), T('slice', sub()))
    if k == 'str_in_box':
        return T(r.choice(['box', 'rc', 'arc', 'ref']), T('str'))
    raise ValueError(k)


def sized(r, depth):
    for _ in range(50):
        t = gen(r, depth)
        if t.is_sized() and t.typeinfo_ok():
            return t
    return T('u', n=8)


def clonable(r, depth):
    for _ in range(50):
        t = sized(r, depth)
        if t.clone_ok():
            return t
    return T('u', n=8)


def fixed_corpus():
    """every constructor at least once, the alias families of C05/C16, tuple arities 0..20"""
    u8, u32, st, s = T('u', n=8), T('u', n=32), T('str'), T('string')
    out = [T('bool'), T('char'), s, st, T('dur'), T('tup0'), T('lsb0'), T('msb0')]
    out += [T('u', n=w) for w in W] + [T('i', n=w) for w in W] + [T('nzu', n=w) for w in W] + [T('nzi', n=w) for w in W]
    for inner in (u8, s, T('vec', u8), T('opt', u32), T('ph', u8)):
        for k in ('box', 'rc', 'arc', 'ref', 'refmut'):
            out.append(T(k, inner))
            out.append(T('box', T(k, inner)))
    out += [T('vec', u8), T('vecdeque', u8), T('slice', u8), T('box', T('slice', u8)), T('vec', T('box', u8)), T('vec', T('vec', u8)),
            T('ref', st), T('box', st), T('ref', s), T('rc', T('arc', T('refmut', T('vec', u8))))]
    out += [T('ph', x) for x in (T('tup0'), u8, T('vec', u32), T('ph', u8))]
    out += [T('opt', T('ph', u8)), T('res', u8, T('ph', u32)), T('tup', u8, T('ph', u8), u32), T('tup', T('ph', u8)), T('cow', T('ph', u8)),
            T('arr', T('ph', u8), n=2), T('vec', T('ph', u8)), T('map', u8, T('ph', u8)), T('box', T('ph', s))]
    for n in range(1, 21):
        out.append(T('tup', *[T('u', n=W[i % 5]) if i % 4 else T('bool') for i in range(n)]))
    out += [T('arr', u8, n=0), T('arr', u8, n=32), T('arr', T('arr', u32, n=2), n=3), T('arr', u8, n=4294967295), T('arr', u8, n=4294967297)]
    out += [T('opt', u8), T('opt', T('opt', T('bool'))), T('res', u8, s), T('cow', st), T('cow', T('slice', u8)), T('cow', u32),
            T('map', u32, s), T('map', T('i', n=8), T('vec', u8)), T('set', u32), T('set', T('bool')), T('heap', T('i', n=16)),
            T('range', u32), T('rangei', T('i', n=64)), T('range', T('u', n=128))]
    out += [T('compact', T('u', n=w)) for w in W]
    out += [T('bitvec', T('u', n=w), T(o)) for w in (8, 16, 32, 64) for o in ('lsb0', 'msb0')]
    out += [T('range', u8), T('rangei', u8), T('heap', u8), T('slice', u8), T('vec', u8)]   # the C05/C16 confusables

    def nest(k, depth, leaf):
        t = leaf
        for _ in range(depth):
            t = T(k, t)
        return t
    # the unit type as a member: as empty as a marker, but a member like any other
    u0 = T('tup0')
    out += [T('opt', u0), T('res', u0, u8), T('res', u8, u0), T('tup', u8, u0, T('bool')), T('tup', u0), T('tup', u0, u0), T('map', u8, u0),
            T('cow', u0), T('range', u0), T('vec', u0), T('arr', u0, n=3), T('box', u0), T('opt', T('opt', u0))]
    # deep nesting (registration recurses as deep as the type is nested), with types first met after the deep member
    out += [nest('vec', 70, u8), T('tup', nest('opt', 30, T('tup', T('u', n=16), T('bool'))), T('i', n=64)),
            T('tup', nest('box', 40, nest('vec', 33, T('i', n=8))), s), T('arr', u8, n=255), T('arr', u8, n=256), T('arr', u8, n=65535),
            T('arr', u8, n=65536), T('arr', T('bool'), n=65537), T('arr', u8, n=16777216)]
    if NO_BITVEC:
        out = [t for t in out if not any(s.kind in ('bitvec', 'lsb0', 'msb0') for s in t.subterms())]
    return out


def corpus(seed, n_random, depth=3):
    r = random.Random(seed)
    seen, out = set(), []

    def add(t):
        if t.key() not in seen and t.typeinfo_ok():
            seen.add(t.key())
            out.append(t)

    for t in fixed_corpus():
        add(t)
    for _ in range(n_random):
        add(sized(r, depth))
    # close under sub-expressions and impl-mentioned types, so every reference resolves in the table
    i = 0
    while i < len(out):
        t = out[i]
        for s in list(t.subterms())[1:] + t.extra_refs():
            add(s)
        i += 1
    return out, r
