#!/usr/bin/env python3
"""
gen_neg.py --seed S --n N --out DIR

Writes DIR/src/bin/c<k>.rs — one small program per case, each compiled on its own (a cargo bin target) — and
DIR/cases.txt with the same cases in the token form read by the Lean driver (SIM.Driver.Neg):

  neg <k> bld <m|p> <list tstep>
      tstep := path | tp | docs | comp <fieldsprog> | var <list (list vstep)>
      fieldsprog := <u|n|x> <list (list fstep)> ; fstep := name | ty | tn | docs
      vstep := idx | disc | docs | fs <fieldsprog>
  neg <k> attr <union 0|1> <list str typeParams> <list attr>
      attr := bounds <list str> | skip <list str> | cap <str> | crate | rep | unk
  neg <k> gen <qself 0|1> <list (str name, bool skipped)> <opt (list nat)> <list (bool skip, bool compact, texpr)> <list texpr inst>

Classes: `bld` builder programs (valid, and single mutations of valid ones), `attr` derive attribute lists,
`gen` generic declarations with an instantiation (C13).
"""
import argparse, os, random, re, shutil, sys
sys.path.insert(0, os.path.dirname(os.path.abspath(__file__)))
from texpr import T, hexs


def plist(l, f=lambda x: x):
    return str(len(l)) + ''.join(' ' + f(x) for x in l)


# ------------------------------------------------------------------------------------ builders

def gen_fieldcalls(r, kind):
    # the type-assigning call: `.ty::<T>()` or (compile-time form only) `.compact::<T>()` - same typestate signature
    calls = [r.choice(['ty', 'ty', 'compact'])] + (['name'] if kind == 'n' else [])
    for _ in range(r.choice([0, 0, 1, 2])):
        calls.append(r.choice(['tn', 'docs']))
    r.shuffle(calls)
    return calls


def gen_fieldsprog(r):
    kind = r.choice(['u', 'n', 'x', 'n', 'x'])
    n = 0 if kind == 'u' else r.choice([0, 1, 2, 3])
    return [kind, [gen_fieldcalls(r, kind) for _ in range(n)]]


def gen_bld(r):
    steps = []
    for _ in range(r.choice([0, 1, 2])):
        steps.append([r.choice(['tp', 'docs'])])
    steps.insert(r.randrange(len(steps) + 1), ['path'])
    if r.random() < 0.5:
        steps.append(['comp', gen_fieldsprog(r)])
    else:
        vs = []
        for _ in range(r.choice([0, 1, 2, 3])):
            calls = [['idx']]
            for _ in range(r.choice([0, 1, 2])):
                c = r.choice(['disc', 'docs', 'fs'])
                calls.append([c, gen_fieldsprog(r)] if c == 'fs' else [c])
            r.shuffle(calls)
            vs.append(calls)
        steps.append(['var', vs])
    return steps


def all_fieldprogs(steps):
    out = []
    for s in steps:
        if s[0] == 'comp':
            out.append(s[1])
        if s[0] == 'var':
            for v in s[1]:
                for c in v:
                    if c[0] == 'fs':
                        out.append(c[1])
    return out


def mutate_bld(r, steps):
    import copy
    s = copy.deepcopy(steps)
    fps = all_fieldprogs(s)
    variants = [v for st in s if st[0] == 'var' for v in st[1]]
    choices = ['drop_path', 'dup_path', 'drop_term', 'move_term', 'dup_term']
    if fps:
        choices += ['swap_kind', 'drop_ty', 'dup_ty', 'toggle_name', 'dup_name', 'unit_field'] * 2
    if variants:
        choices += ['drop_idx', 'dup_idx'] * 2
    m = r.choice(choices)
    if m == 'drop_path':
        s = [x for x in s if x[0] != 'path']
    elif m == 'dup_path':
        s.insert(r.randrange(len(s)), ['path'])
    elif m == 'drop_term':
        s = s[:-1]
    elif m == 'move_term':
        t = s.pop()
        s.insert(r.randrange(len(s) + 1), t)
    elif m == 'dup_term':
        s.append(copy.deepcopy(s[-1]))
    elif m == 'swap_kind':
        fp = r.choice(fps)
        fp[0] = {'n': 'x', 'x': 'n', 'u': 'n'}[fp[0]]
    elif m in ('drop_ty', 'dup_ty', 'toggle_name', 'dup_name'):
        cands = [f for fp in fps for f in fp[1]]
        if cands:
            f = r.choice(cands)
            if m == 'drop_ty':
                f[:] = [c for c in f if c not in ('ty', 'compact')]
            elif m == 'dup_ty':
                f.insert(r.randrange(len(f) + 1), r.choice(['ty', 'compact']))
            elif m == 'toggle_name':
                if 'name' in f:
                    f[:] = [c for c in f if c != 'name']
                else:
                    f.insert(r.randrange(len(f) + 1), 'name')
            else:
                f.insert(r.randrange(len(f) + 1), 'name')
    elif m == 'unit_field':
        fp = r.choice(fps)
        fp[0] = 'u'
        if not fp[1]:
            fp[1].append([r.choice(['ty', 'compact'])])
    elif m == 'drop_idx':
        v = r.choice(variants)
        v[:] = [c for c in v if c[0] != 'idx']
    elif m == 'dup_idx':
        v = r.choice(variants)
        v.insert(r.randrange(len(v) + 1), ['idx'])
    return s


def rust_fields(fp, portable):
    kind, fields = fp
    s = {'u': 'Fields::unit()', 'n': 'Fields::named()', 'x': 'Fields::unnamed()'}[kind]
    for f in fields:
        body = 'f'
        for c in f:
            if c == 'ty':
                body += '.ty(1u32)' if portable else '.ty::<u8>()'
            elif c == 'compact':
                body += '.ty(1u32)' if portable else '.compact::<u8>()'
            elif c == 'name':
                body += '.name("a".to_string())' if portable else '.name("a")'
            elif c == 'tn':
                body += '.type_name("u8".to_string())' if portable else '.type_name("u8")'
            elif c == 'docs':
                body += '' if portable else '.docs(&["d"])'
        s += ('.field_portable' if portable else '.field') + f'(|f| {body})'
    return s


def rust_bld(steps, portable):
    s = 'Type::builder_portable()' if portable else 'Type::builder()'
    for st in steps:
        if st[0] == 'path':
            s += '.path(Path::from_segments_unchecked(vec!["m".to_string(), "A".to_string()]))' if portable else '.path(Path::new("A", "m"))'
        elif st[0] == 'tp':
            s += '.type_params(vec![])'
        elif st[0] == 'docs':
            s += '' if portable else '.docs(&["d"])'
        elif st[0] == 'comp':
            s += f'.composite({rust_fields(st[1], portable)})'
        elif st[0] == 'var':
            vb = 'Variants::new()'
            for v in st[1]:
                body = 'v'
                for c in v:
                    if c[0] == 'idx':
                        body += '.index(3)'
                    elif c[0] == 'disc':
                        body += '.discriminant(7)'
                    elif c[0] == 'docs':
                        body += '' if portable else '.docs(&["d"])'
                    elif c[0] == 'fs':
                        body += f'.fields({rust_fields(c[1], portable)})'
                name = '"V".to_string()' if portable else '"V"'
                vb += f'.variant({name}, |v| {body})'
            s += f'.variant({vb})'
    ty = 'Type<PortableForm>' if portable else 'Type'
    return ('#![allow(unused)]\nuse scale_info::{build::*, form::PortableForm, Path, Type};\n'
            f'fn main() {{\n    let _t: {ty} = {s};\n}}\n')


def proto_fields(fp, portable):
    # docs steps do not exist in the portable rendering (docs_portable is feature gated): drop them from the description too
    def calls(f):
        return [('ty' if (portable and c == 'compact') else c) for c in f if not (portable and c == 'docs')]
    return fp[0] + ' ' + plist(fp[1], lambda f: plist(calls(f)))


def proto_bld(steps, portable):
    def st(x):
        if x[0] == 'comp':
            return 'comp ' + proto_fields(x[1], portable)
        if x[0] == 'var':
            def vc(c):
                return ('fs ' + proto_fields(c[1], portable)) if c[0] == 'fs' else c[0]
            return 'var ' + plist(x[1], lambda v: plist([c for c in v if not (portable and c[0] == 'docs')], vc))
        return x[0]
    ss = [x for x in steps if not (portable and x[0] == 'docs')]
    return ('p' if portable else 'm') + ' ' + plist(ss, st)


# ------------------------------------------------------------------------------------ derive attributes

import random as _random
ATTR_R = _random.Random(99)


def gen_attr(r, force=None):
    """-> (rust source, proto); `force` = dict(params, out, mention): the fixed part of the corpus, a `bounds(..)` list that names every
    parameter but params[out] (and, with `mention`, names that one inside a predicate that does not bound it)"""
    union = r.random() < 0.08
    # (look-alike names: one a prefix / suffix / case variant of the other, or equal up to leading `r`s - names are compared whole)
    params = r.choice([[], ['T'], ['T', 'U'], ['T', 'U'], ['U', 'T'], ['K', 'A'], ['T', 'rT'], ['rT', 'T'], ['r', 'rr'], ['T', 'TT'], ['Tt', 'T'], ['T_', 'T'],
                       ['T', 't']])
    if union:
        params = []
    attrs = []
    c = r.random()
    skipped = [p for p in params if r.random() < 0.4]
    mode = r.choice(['valid', 'valid', 'dup', 'unknown', 'badcap', 'missing_bound', 'plain'])
    if force is not None:
        union, params, skipped, mode = False, list(force['params']), [], ('missing_bound' if 'cap' not in force else 'plain')
    if mode in ('valid', 'dup', 'missing_bound') and params:
        if skipped:
            attrs.append(('skip', skipped))
        if r.random() < 0.7 or mode == 'missing_bound':
            named = [p for p in params if p not in skipped]
            extra = []
            if mode == 'missing_bound' and named:
                # leave one non-skipped parameter out; put a skipped one before it when possible
                out = named[-1] if r.random() < 0.5 else named[0]
                if force is not None:
                    out = params[force['out']]
                named = [p for p in named if p != out]
                if (r.random() < 0.6) if force is None else force['mention']:
                    # ... but mention it in a predicate that does NOT bound the parameter itself (a projection, a type built from it)
                    extra.append((r.choice(['vec', 'proj', 'qproj', 'ref']), out))
            for p in params:
                if r.random() < 0.25:
                    extra.append((r.choice(['vec', 'proj', 'qproj', 'ref']), p))
            attrs.append(('bounds', named, extra))
    if r.random() < 0.5 or mode == 'badcap':
        attrs.append(('cap', r.choice(['sometimes', '', 'alway', 'true']) if mode == 'badcap' else r.choice(['default', 'always', 'never', 'Always', 'NEVER'])))
    if r.random() < 0.2:
        attrs.append(('crate',))
    for _ in range(r.choice([0, 0, 1, 2])):
        attrs.append(('rep',))
    if mode == 'unknown':
        attrs.insert(r.randrange(len(attrs) + 1), ('unk', r.choice(['rename_all = "x"', 'foo', 'skip', 'bound(T: Copy)', 'docs = "always"'])))
    if mode == 'dup' and attrs:
        cands = [a for a in attrs if a[0] != 'rep']
        if cands:
            attrs.insert(r.randrange(len(attrs) + 1), r.choice(cands))
    r.shuffle(attrs)
    if force is not None and 'cap' in force:
        attrs = [('cap', force['cap'])]

    def ra(a):
        if a[0] == 'bounds':
            preds = [f"{p}: ::scale_info::TypeInfo + 'static" for p in a[1]]
            for kind, p in (a[2] if len(a) > 2 else []):
                preds.insert(ATTR_R.randrange(len(preds) + 1),
                             {'vec': f"Vec<{p}>: ::scale_info::TypeInfo + 'static", 'proj': f"{p}::A: ::core::marker::Copy",
                              'qproj': f"<{p} as TrA>::A: ::core::marker::Copy", 'ref': f"&'static {p}: ::core::marker::Copy"}[kind])
            return 'bounds(' + ', '.join(preds) + ')'
        if a[0] == 'skip':
            return 'skip_type_params(' + ', '.join(a[1]) + ')'
        if a[0] == 'cap':
            return f'capture_docs = "{a[1]}"'
        if a[0] == 'crate':
            return 'crate = ::scale_info'
        if a[0] == 'rep':
            return 'replace_segment("m", "n")'
        return a[1]

    # one attribute list, or split over two #[scale_info(..)] attributes
    lines = ''
    if attrs:
        cut = r.randrange(len(attrs) + 1) if r.random() < 0.4 else len(attrs)
        for part in (attrs[:cut], attrs[cut:]):
            if part:
                lines += '#[scale_info(' + ', '.join(ra(a) for a in part) + ')]\n'
    # inline bounds keep the item itself valid whatever the attributes do, so only the derive can reject it
    # a const parameter (and a lifetime) in the generics list, the const before, between or after the type parameters
    tps = [f"{p}: ::scale_info::TypeInfo + 'static + TrA" for p in params]
    const_at = r.choice([None, None, 0, len(tps), len(tps) // 2]) if not union else None
    with_lt = (not union) and r.random() < 0.25
    if const_at is not None:
        tps.insert(const_at, 'const N: usize')
    if with_lt:
        tps.insert(0, "'a")
    gens = '<' + ', '.join(tps) + '>' if tps else ''
    if union:
        body = 'pub union S { a: u8, b: u16 }'
    else:
        fields = ''.join(f'    pub f{i}: ' + (f'core::marker::PhantomData<{p}>' if p in skipped else p) + ',\n' for i, p in enumerate(params))
        if const_at is not None:
            fields += '    pub arr: [u8; N],\n'
        if with_lt:
            fields += "    pub lt: &'a str,\n"
        body = f'pub struct S{gens} {{\n{fields}    pub z: u8,\n}}'
    src = '#![allow(unused)]\nuse scale_info::TypeInfo;\npub trait TrA { type A; }\n#[derive(TypeInfo)]\n' + lines + body + '\nfn main() {}\n'

    def pa(a):
        if a[0] == 'bounds':
            return 'bounds ' + plist(a[1], hexs)
        if a[0] == 'skip':
            return 'skip ' + plist(a[1], hexs)
        if a[0] == 'cap':
            return 'cap ' + hexs(a[1])
        return {'crate': 'crate', 'rep': 'rep', 'unk': 'unk'}[a[0]]
    return src, f'{int(union)} {plist(params, hexs)} {plist(attrs, pa)}'


# ------------------------------------------------------------------------------------ generic declarations (C13)

PRELUDE = '''#![allow(unused)]
use scale_info::TypeInfo;
use core::marker::PhantomData;
pub struct NoInfo;
#[derive(TypeInfo)]
pub struct Wrapper<X>(pub X);
pub struct NoInfoW<X>(pub X);
pub trait Tr { type A; type S; }
#[derive(TypeInfo)]
pub struct Good;
impl Tr for Good { type A = u8; type S = u8; }
#[derive(TypeInfo)]
pub struct Bad;
impl Tr for Bad { type A = NoInfo; type S = NoInfo; }
// a marker the declared `where` clause can require: implemented for the instantiation types only (not blanket), so the
// derived impl is well-formed only if it repeats the declared predicate
// an unrelated trait that happens to be NAMED like scale-info's (a bound on it says nothing about scale_info::TypeInfo)
pub mod schema { pub trait TypeInfo {} impl<X: ?Sized> TypeInfo for X {} }
pub trait Mk {}
impl Mk for u8 {} impl Mk for u32 {} impl Mk for bool {} impl Mk for String {} impl Mk for NoInfo {} impl Mk for Good {} impl Mk for Bad {}
impl<X> Mk for Vec<X> {} impl<X> Mk for Option<X> {} impl<X> Mk for Wrapper<X> {}
'''


CUR_NAMES = ['T', 'U']


class P(T):
    def __init__(self, k):
        super().__init__('P')
        self.k = k

    def rust(self):
        return CUR_NAMES[self.k]

    def proto(self):
        return f'adt {1000 + self.k} 0'


class A(T):
    def __init__(self, k):
        super().__init__('A')
        self.k = k

    def rust(self):
        return CUR_NAMES[self.k] + '::A'

    def proto(self):
        return f'adt {2000 + self.k} 0'


class AS(T):
    """associated type named like the deriving type itself: `T::S`"""
    def __init__(self, k):
        super().__init__('AS')
        self.k = k

    def rust(self):
        return CUR_NAMES[self.k] + '::S'

    def proto(self):
        return f'adt {2500 + self.k} 0'


class Named(T):
    TAB = {'self': 3000, 'Wrapper': 4000, 'NoInfoW': 4001, 'NoInfo': 4002, 'Good': 4003, 'Bad': 4004}

    def __init__(self, name, *args, text=None):
        super().__init__('named', *args)
        self.name, self.text = name, text

    def rust(self):
        base = self.text or self.name
        return base + ('<' + ', '.join(a.rust() for a in self.args) + '>' if self.args else '')

    def proto(self):
        return f'adt {self.TAB[self.name]} ' + plist(list(self.args), lambda a: a.proto())


def gen_gfield_type(r, params, assoc_ok, selfref):
    k = r.randrange(len(params)) if params else 0
    p = P(k) if params else T('u', n=8)
    c = r.random()
    if not params:
        return r.choice([T('u', n=8), T('string'), T('vec', T('u', n=16))])
    if c < 0.25:
        return p
    if c < 0.35:
        return T('vec', p)
    if c < 0.42:
        return T('opt', p)
    if c < 0.48:
        return T('tup', p, T('u', n=8))
    if c < 0.54:
        return T('box', p)
    if c < 0.62:
        return T('ph', p)
    if c < 0.70:
        return Named('Wrapper', p)
    if c < 0.76:
        return Named('NoInfoW', p)
    if c < 0.82 and assoc_ok[k]:
        return A(k) if r.random() < 0.5 else r.choice([AS(k), T('vec', AS(k))])
    if c < 0.90:
        return selfref
    if c < 0.95:
        return T('map', T('u', n=32), p)
    return T('u', n=8)


def gen_gen(r, force=None):
    np = r.choice([1, 1, 2, 2])
    # parameter names in and out of alphabetical order
    pool = r.choice([['T', 'U'], ['T', 'U'], ['U', 'T'], ['K', 'A'], ['T2', 'T10']])
    names = pool[:np]
    CUR_NAMES[:] = pool
    with_assoc = [r.random() < 0.3 for _ in names]
    skipped = [r.random() < 0.25 for _ in names]
    lifetime = r.random() < 0.2
    lt2 = r.random() < 0.4      # a second lifetime parameter with a bound on the first: `'a, 'b: 'a`
    const = r.random() < 0.2
    const_first = r.random() < 0.5     # `const N: usize` before the type parameters (allowed since Rust 1.59) or after them
    default_u = np == 2 and r.random() < 0.2 and not with_assoc[1]
    if default_u:
        const = False   # a parameter with a default must be trailing
    qself = r.random() < 0.06
    if force is not None:
        # the fixed part of the corpus: every layout of the generics list x every skip pattern, plain members
        np, names, with_assoc, default_u, qself = 2, pool[:2], [False, False], False, False
        lifetime, const, const_first, skipped = bool(force['lifetime']), force['const'] != 'none', force['const'] == 'first', force['skipped']
        lt2 = force['lifetime'] == 'two'
    lt2 = lt2 and lifetime
    lts_use = (["'a", "'b"] if lt2 else ["'a"]) if lifetime else []
    lts_decl = (["'a", "'b: 'a"] if lt2 else ["'a"]) if lifetime else []
    args_text = ', '.join(lts_use + (['N'] if (const and const_first) else []) + names + (['N'] if (const and not const_first) else []))
    self_text = ('crate::S' if qself else 'S')
    me = Named('self', text=f'{self_text}<{args_text}>')
    selfref = r.choice([T('opt', T('box', me)), T('vec', me), T('box', T('opt', me))]) if False else r.choice([T('opt', T('box', me)), T('vec', me)])
    nf = r.choice([1, 2, 2, 3, 4]) if force is None else 0
    fields = []
    if force is not None:
        fields = [[(T('ph', P(k)) if skipped[k] else P(k)), False, False] for k in range(np)]
    for _ in range(nf):
        ty = gen_gfield_type(r, names, with_assoc, selfref)
        skip = r.random() < 0.2
        compact = (not skip) and isinstance(ty, P) and r.random() < 0.3
        fields.append([ty, skip, compact])
    # an associated type that happens to be named like the declared type itself (`T::S` inside `S<T>`)
    for k in range(np):
        if with_assoc[k] and r.random() < 0.6:
            fields.insert(r.randrange(len(fields) + 1), [r.choice([AS(k), T('vec', AS(k)), T('opt', AS(k))]), False, False])
    # the same parameter-dependent type used plainly and, later or earlier, as a compact member
    if r.random() < 0.3 and force is None:
        k = r.randrange(np)
        pair = [[P(k), False, False], [P(k), False, True]]
        if r.random() < 0.5:
            pair.reverse()
        fields += pair
    # rustc: every parameter must be used outside self references; a skipped parameter must not need TypeInfo in a kept member
    for k, nm in enumerate(names):
        def uses(t):
            if isinstance(t, Named) and t.name == 'self':
                return False
            return (isinstance(t, (P, A, AS)) and t.k == k) or any(uses(a) for a in t.args)
        if not any(uses(f[0]) for f in fields):
            fields.append([T('ph', P(k)), False, False])
    custom = None
    if r.random() < 0.2 and not any(with_assoc) and force is None:
        custom = [k for k in range(np) if not skipped[k]]
        # custom bounds must be sufficient for the body: every kept member type must follow from P: TypeInfo
        for f in fields:
            if any(isinstance(s, Named) and s.name == 'NoInfoW' for s in f[0].subterms()):
                f[1] = True
            # ... and a kept member must not need TypeInfo of a skipped parameter (nothing else would bound it)
            if f[0].kind != 'ph' and any(isinstance(s, P) and skipped[s.k] for s in f[0].subterms()):
                f[1] = True
            # custom bounds name only `P: TypeInfo + 'static`: nothing would provide `P: HasCompact`
            f[2] = False
    is_enum = r.random() < 0.4
    # instantiation
    inst = []
    for k in range(np):
        if with_assoc[k]:
            inst.append(Named(r.choice(['Good', 'Good', 'Bad'])))
        else:
            inst.append(r.choice([T('u', n=32), T('u', n=8), T('string'), Named('NoInfo'), Named('NoInfo'), T('vec', Named('NoInfo')), Named('Wrapper', T('u', n=8)),
                                  Named('Good'), T('opt', T('bool'))]))
    omit_default = default_u and r.random() < 0.5
    if omit_default:
        inst[1] = T('u', n=8)
    # ---------------- Rust
    # declared predicates: inline or in the declared `where` clause (which the derived impl must repeat in every mode)
    tr_in_where = [with_assoc[k] and r.random() < 0.5 for k in range(np)]
    preds = [f'{names[k]}: Tr' for k in range(np) if tr_in_where[k]]
    for k in range(np):
        if r.random() < 0.3:
            preds.append(f'{names[k]}: Mk')
    if r.random() < 0.1:
        preds.append(f'{names[0]}: Sized')
    foreign = [r.random() < 0.15 for _ in names]
    if force is not None and force.get('foreign'):
        foreign = [True, False]
        # the parameter is then used only inside other types (no member of the bare parameter type)
        fields = [[T('vec', P(0)) if not skipped[0] else T('ph', P(0)), False, False]] + fields[1:]

    def inline(k):
        bs = (['Tr'] if (with_assoc[k] and not tr_in_where[k]) else []) + (['schema::TypeInfo'] if foreign[k] else [])
        return (': ' + ' + '.join(bs)) if bs else ''
    gens = lts_decl + (['const N: usize'] if (const and const_first) else []) + \
        [nm + inline(k) + (' = u8' if (default_u and k == 1) else '') for k, nm in enumerate(names)] + \
        (['const N: usize'] if (const and not const_first) else [])
    attrs = []
    if any(skipped):
        attrs.append('skip_type_params(' + ', '.join(nm for k, nm in enumerate(names) if skipped[k]) + ')')
    if custom is not None:
        attrs.append('bounds(' + ', '.join(f"{names[k]}: TypeInfo + 'static" for k in custom) + ')')
    where = (' where ' + ', '.join(preds)) if preds else ''

    def fline(i, f, pub):
        # a skipped member sometimes carries a second, separate #[codec(..)] attribute written first
        two = f[1] and ATTR_R.random() < 0.35
        a = ('#[codec(index = 3)] ' if two else '') + ('#[codec(skip)] ' if f[1] else '') + ('#[codec(compact)] ' if f[2] else '')
        return f'    {a}{pub}f{i}: {f[0].rust()},\n'
    extra = []
    if lifetime:
        extra.append("    {pub}lt: &'a str,\n")
    if lt2:
        extra.append("    {pub}lt2: &'b str,\n")
    if const:
        extra.append('    {pub}arr: [u8; N],\n')
    src = PRELUDE + '#[derive(TypeInfo)]\n' + (f'#[scale_info({", ".join(attrs)})]\n' if attrs else '')
    if is_enum:
        half = max(1, len(fields) // 2)
        v1 = ''.join(fline(i, f, '') for i, f in enumerate(fields[:half]))
        v2 = ''.join(fline(i + half, f, '') for i, f in enumerate(fields[half:]))
        ex = ''.join(e.format(pub='') for e in extra)
        # a skipped variant whose payload has no type info, its two helper attributes in either order
        dv = ''
        if ATTR_R.random() < 0.4 or force is not None:
            at = ['#[codec(index = 9)]', '#[codec(skip)]']
            if ATTR_R.random() < 0.5:
                at.reverse()
            dv = f'  {at[0]}\n  {at[1]}\n  D(NoInfo),\n'
        src += f'pub enum S<{", ".join(gens)}>{where} {{\n  A {{\n{v1}{ex}  }},\n  B {{\n{v2}  }},\n  C,\n{dv}}}\n'
    else:
        body = ''.join(fline(i, f, 'pub ') for i, f in enumerate(fields)) + ''.join(e.format(pub='pub ') for e in extra)
        src += f'pub struct S<{", ".join(gens)}>{where} {{\n{body}}}\n'
    if force is not None:
        # a skipped parameter is instantiated with a type that has no TypeInfo: only a correct where clause accepts it
        inst = [Named('NoInfo') if skipped[k] else T('u', n=8) for k in range(np)]
    iargs = (["'static"] * len(lts_use)) + (['3'] if (const and const_first) else []) + [t.rust() for t in (inst[:1] if omit_default else inst)] + \
        (['3'] if (const and not const_first) else [])
    src += f'fn main() {{\n    let _ = scale_info::meta_type::<S<{", ".join(iargs)}>>();\n}}\n'
    # ---------------- proto
    pr = f'{int(qself)} ' + plist(list(range(np)), lambda k: f'{hexs(names[k])} {int(skipped[k])}') + ' ' + \
        ('N' if custom is None else 'S ' + plist(custom, str)) + ' ' + \
        plist(fields, lambda f: f'{int(f[1])} {int(f[2])} {f[0].proto()}') + ' ' + plist(inst, lambda t: t.proto())
    return src, pr


def main():
    ap = argparse.ArgumentParser()
    ap.add_argument('--seed', type=int, default=1)
    ap.add_argument('--n', type=int, default=120)
    ap.add_argument('--classes', default='bld,attr,gen')
    ap.add_argument('--out', required=True)
    a = ap.parse_args()
    r = random.Random(a.seed * 104729 + 7)
    ATTR_R.seed(a.seed * 17 + 3)
    bind = os.path.join(a.out, 'src', 'bin')
    shutil.rmtree(bind, ignore_errors=True)
    os.makedirs(bind)
    classes = a.classes.split(',')
    lines = []
    if 'gen' in classes:
        kx = 0
        for lifetime in (False, True, 'two'):
            for const in ('none', 'last', 'first'):
                for skipped in ([False, False], [True, False], [False, True], [True, True]):
                    src, p = gen_gen(random.Random(7000 + kx), force=dict(lifetime=lifetime, const=const, skipped=skipped, foreign=(kx % 4 == 1)))
                    open(os.path.join(bind, f'xg{kx}.rs'), 'w').write(src)
                    lines.append(f'neg xg{kx} gen {p}')
                    kx += 1
    if 'attr' in classes:
        # fixed part: one parameter left without a bound, over pairs of names that differ by little
        kx = 0
        for names in (['T', 'U'], ['T', 'rT'], ['rT', 'T'], ['r', 'rr'], ['T', 'TT'], ['Tt', 'T'], ['T_', 'T'], ['T', 't'], ['K', 'A']):
            for out_k in (0, 1):
                for mention in (False, True):
                    src, p = gen_attr(random.Random(9000 + kx), force=dict(params=names, out=out_k, mention=mention))
                    open(os.path.join(bind, f'xa{kx}.rs'), 'w').write(src)
                    lines.append(f'neg xa{kx} attr {p}')
                    kx += 1
        # every string literal the derive's `capture_docs` parser mentions today (read from /repo on every run), as written, in upper
        # case and with a letter dropped: a spelling the parser newly accepts is tried even though no generator rule knows it
        try:
            asrc = open('/repo/derive/src/attr.rs').read()
            blk = asrc[asrc.index('for CaptureDocsAttr'):]
            blk = blk[:blk.index('\n}\n')]
            lits = sorted(set(re.findall(r'(?<![#r])"([A-Za-z0-9_ -]{0,24})"', blk)))
        except Exception:
            lits = []
        for v in lits:
            for w in (v, v.upper(), v[:-1]):
                src, p = gen_attr(random.Random(9500 + kx), force=dict(params=[], cap=w))
                open(os.path.join(bind, f'xa{kx}.rs'), 'w').write(src)
                lines.append(f'neg xa{kx} attr {p}')
                kx += 1
    if 'bld' in classes:
        # exhaustive small part, the same in every run: every sequence of 1..3 field-builder calls over {name, ty, compact, type_name}
        # in a named and in an unnamed member list (compile-time form), as the only member of a composite and of a variant
        import itertools
        kx = 0
        for kind in ('n', 'x'):
            for ln in (1, 2, 3):
                for seq in itertools.product(['name', 'ty', 'compact', 'tn'], repeat=ln):
                    fp = [kind, [list(seq)]]
                    steps = [['path'], ['comp', fp]] if kx % 2 == 0 else [['path'], ['var', [[['idx'], ['fs', fp]]]]]
                    src, pr = rust_bld(steps, False), 'bld ' + proto_bld(steps, False)
                    open(os.path.join(bind, f'x{kx}.rs'), 'w').write(src)
                    lines.append(f'neg x{kx} {pr}')
                    kx += 1
        # the same for the portable builders (no `compact` there)
        for kind in ('n', 'x'):
            for ln in (1, 2, 3):
                for seq in itertools.product(['name', 'ty', 'tn'], repeat=ln):
                    fp = [kind, [list(seq)]]
                    steps = [['path'], ['comp', fp]] if kx % 2 == 0 else [['path'], ['var', [[['idx'], ['fs', fp]]]]]
                    src, pr = rust_bld(steps, True), 'bld ' + proto_bld(steps, True)
                    open(os.path.join(bind, f'x{kx}.rs'), 'w').write(src)
                    lines.append(f'neg x{kx} {pr}')
                    kx += 1
    for k in range(a.n):
        cls = classes[k % len(classes)]
        if cls == 'bld':
            portable = r.random() < 0.3
            steps = gen_bld(r)
            if r.random() < 0.65:
                steps = mutate_bld(r, steps)
            src, pr = rust_bld(steps, portable), 'bld ' + proto_bld(steps, portable)
        elif cls == 'attr':
            src, p = gen_attr(r)
            pr = 'attr ' + p
        else:
            src, p = gen_gen(r)
            pr = 'gen ' + p
        open(os.path.join(bind, f'c{k}.rs'), 'w').write(src)
        lines.append(f'neg {k} {pr}')
    open(os.path.join(a.out, 'cases.txt'), 'w').write('\n'.join(lines) + '\n')
    print(f'cases {len(lines)}', file=sys.stderr)


if __name__ == '__main__':
    main()
