#!/usr/bin/env python3
"""
Translator: re-extracts from /repo/src/impls.rs and /repo/derive/src/attr.rs the tables the model of the built-in impls and of the
derive's attribute parser are written from, into lean/SIM/Extracted/ImplTable.lean:

  identities   for every `impl .. TypeInfo for TARGET` (and every macro that generates such impls): TARGET, the declared
               `type Identity = ..`, and `X` when `type_info()` is the one-line forwarder `X::type_info()`
  primImpls    Rust type -> `TypeDefPrimitive::X` (the rows of `impl_metadata_for_primitives!` and direct impls whose body is `TypeDefPrimitive::X.into()`)
  tupleArities number of members of every `impl_metadata_for_tuple!(..)` invocation
  nonZero      rows `NonZeroX: x` of `impl_for_non_zero!`
  captureDocs  accepted values of `capture_docs = ".."` (the string arms of `impl Parse for CaptureDocsAttr`)
  keywords     `syn::custom_keyword!(..)` of the derive's attribute module
  typeParams   per impl, the arguments of `type_params![..]`
  literals     per impl, the string literals (path, variant / member / type names, docs) and `.index(n)` arguments of its `type_info()` body

SIM.C16impls / SIM.C04impls compare them with the committed copy (rfl) and prove that the model's `identity`, primitive mapping and
`capture_docs` acceptance are the interpretation of these tables: a changed `type Identity`, a forwarder that stops forwarding, a
re-pointed primitive or a new accepted spelling breaks a proof obligation by name.
"""
import re, os, sys

HERE = os.path.dirname(os.path.abspath(__file__))
OUT = os.path.join(HERE, '..', 'lean', 'SIM', 'Extracted', 'ImplTable.lean')
EXP = os.path.join(HERE, '..', 'lean', 'SIM', 'Model', 'ImplTableExpected.lean')


def strip_comments(s):
    return re.sub(r'//[^\n]*', '', s)


def nows(s):
    return re.sub(r'\s+', '', s)


def block_from(src, start):
    """text of the brace block opening at or after `start` (balanced), and the index after it"""
    i = src.index('{', start)
    depth, j = 0, i
    while True:
        c = src[j]
        if c == '{':
            depth += 1
        elif c == '}':
            depth -= 1
            if depth == 0:
                return src[i:j + 1], j + 1
        j += 1


def paren_from(src, start):
    i = src.index('(', start)
    depth, j = 0, i
    while True:
        c = src[j]
        if c == '(':
            depth += 1
        elif c == ')':
            depth -= 1
            if depth == 0:
                return src[i + 1:j], j + 1
        j += 1


def bl(s):
    return '[' + ', '.join(str(b) for b in s.encode()) + ']'


def forward_of(fn_body):
    """`X` when the body of `type_info()` is the single call `X::type_info()`, else the empty string"""
    m = re.fullmatch(r'\{([A-Za-z:]+)::type_info\(\)\}', nows(fn_body))
    return m.group(1) if m else ''


def extract(impls, attr):
    impls, attr = strip_comments(impls), strip_comments(attr)
    identities, prims, arities, nonzero, literals, params = [], [], [], [], [], []
    # macros that generate impls
    for m in re.finditer(r'macro_rules!\s*([a-z_]+)\s*', impls):
        body, _ = block_from(impls, m.end())
        if 'impl' in body and 'TypeInfo for' in body:
            im = re.search(r'type\s+Identity\s*=\s*([^;]+);', body)
            fm = re.search(r'fn\s+type_info\s*\(\s*\)\s*->\s*Type\s*', body)
            fb = block_from(body, fm.end())[0] if fm else ''
            identities.append((m.group(1) + '!', nows(im.group(1)) if im else '?', forward_of(fb)))
    # direct impls (outside macro definitions)
    masked = impls
    for m in re.finditer(r'macro_rules!\s*[a-z_]+\s*', impls):
        body, end = block_from(impls, m.end())
        s0 = impls.index('{', m.end())
        masked = masked[:s0] + ' ' * (end - s0) + masked[end:]
    for m in re.finditer(r'\bimpl\b\s*(<[^{]*?>)?\s*TypeInfo\s+for\s+', masked):
        # target: up to `where` or `{`
        rest = masked[m.end():]
        tm = re.match(r'(.*?)(\bwhere\b|\{)', rest, re.S)
        target = nows(tm.group(1))
        body, _ = block_from(masked, m.end())
        im = re.search(r'type\s+Identity\s*=\s*([^;]+);', body)
        fm = re.search(r'fn\s+type_info\s*\(\s*\)\s*->\s*Type\s*', body)
        fb = block_from(body, fm.end())[0] if fm else ''
        identities.append((target, nows(im.group(1)) if im else '?', forward_of(fb)))
        lits = re.findall(r'"([^"]*)"', fb)
        idxs = [int(x) for x in re.findall(r'\.index\(\s*(\d+)\s*\)', fb)]
        if lits or idxs:
            literals.append((target, lits, idxs))
        tpm = re.search(r'type_params!\s*[\[(]([^\])]*)[\])]', fb)
        if tpm:
            params.append((target, [x.strip() for x in tpm.group(1).split(',') if x.strip()]))
        pm = re.fullmatch(r'\{TypeDefPrimitive::([A-Za-z0-9]+)\.into\(\)\}', nows(fb))
        if pm:
            prims.append((target, pm.group(1).lower()))
    # macro invocations
    for m in re.finditer(r'\n\s*impl_metadata_for_primitives!\s*', masked):
        inner, _ = paren_from(masked, m.end())
        for r in re.finditer(r'([A-Za-z0-9_]+)\s*=>\s*TypeDefPrimitive::([A-Za-z0-9]+)\s*,', inner):
            prims.append((r.group(1), r.group(2).lower()))
    for m in re.finditer(r'\n\s*impl_metadata_for_tuple!\s*', masked):
        inner, _ = paren_from(masked, m.end())
        arities.append(len([x for x in inner.split(',') if x.strip()]))
    for m in re.finditer(r'\n\s*impl_for_non_zero!\s*', masked):
        inner, _ = paren_from(masked, m.end())
        for r in re.finditer(r'([A-Za-z0-9_]+)\s*:\s*([a-z0-9]+)', inner):
            nonzero.append((r.group(1), r.group(2)))
    # derive attribute parser
    cm = re.search(r'impl\s+Parse\s+for\s+CaptureDocsAttr\s*', attr)
    cbody, _ = block_from(attr, cm.end())
    lowered = '.to_lowercase()' in cbody
    capture = [(r.group(1), r.group(2).lower()) for r in re.finditer(r'"([^"]*)"\s*=>\s*Ok\(Self::([A-Za-z]+)\)', cbody)]
    keywords = re.findall(r'custom_keyword!\(\s*([a-z_]+)\s*\)', attr)
    return identities, prims, arities, nonzero, capture, lowered, keywords, literals, params


def render(ns, head, data):
    identities, prims, arities, nonzero, capture, lowered, keywords, literals, params = data
    b = lambda x: 'true' if x else 'false'
    L = [head, 'import SIM.Model.Types', 'namespace SIM', f'namespace {ns}', 'namespace ImplTable', '']
    L.append('/-- (`impl TypeInfo for` target or generating macro, declared `type Identity`, `X` when `type_info()` is the single call `X::type_info()`, else empty), in source order -/')
    L.append('def identities : List (Str × Str × Str) :=\n  [' + ',\n   '.join(f'({bl(t)}, {bl(i)}, {bl(f)})' for t, i, f in identities) + ']\n')
    L.append('/-- Rust type -> `TypeDefPrimitive` variant (lower-cased) -/')
    L.append('def primImpls : List (Str × Str) :=\n  [' + ', '.join(f'({bl(t)}, {bl(p)})' for t, p in prims) + ']\n')
    L.append('/-- member counts of the `impl_metadata_for_tuple!` invocations -/')
    L.append('def tupleArities : List Nat := [' + ', '.join(str(x) for x in arities) + ']\n')
    L.append('/-- rows of `impl_for_non_zero!` -/')
    L.append('def nonZero : List (Str × Str) :=\n  [' + ', '.join(f'({bl(t)}, {bl(p)})' for t, p in nonzero) + ']\n')
    L.append('/-- accepted `capture_docs` values and what they select -/')
    L.append('def captureDocs : List (Str × Str) := [' + ', '.join(f'({bl(t)}, {bl(p)})' for t, p in capture) + ']')
    L.append('/-- the value is lower-cased before it is compared -/')
    L.append(f'def captureLowercased : Bool := {b(lowered)}\n')
    L.append('/-- `syn::custom_keyword!`s of the attribute parser -/')
    L.append('def keywords : List Str := [' + ', '.join(bl(k) for k in keywords) + ']\n')
    L.append('/-- per impl: the string literals and the `.index(n)` arguments its `type_info()` body writes, in source order -/')
    L.append('def literals : List (Str × List Str × List Nat) :=\n  [' + ',\n   '.join(
        f'({bl(t)}, [' + ', '.join(bl(x) for x in ls) + '], [' + ', '.join(str(i) for i in ix) + '])' for t, ls, ix in literals) + ']\n')
    L.append('/-- per impl: the arguments of `type_params![..]` (each names a type parameter and is its type) -/')
    L.append('def typeParams : List (Str × List Str) :=\n  [' + ',\n   '.join(
        f'({bl(t)}, [' + ', '.join(bl(x) for x in ps) + '])' for t, ps in params) + ']\n')
    L += ['end ImplTable', f'end {ns}', 'end SIM', '']
    return '\n'.join(L)


def main():
    exp = '--expected' in sys.argv
    if exp:
        import subprocess
        impls = subprocess.run(['git', '-C', '/repo', 'show', 'HEAD:src/impls.rs'], stdout=subprocess.PIPE, text=True, check=True).stdout
        attr = subprocess.run(['git', '-C', '/repo', 'show', 'HEAD:derive/src/attr.rs'], stdout=subprocess.PIPE, text=True, check=True).stdout
    else:
        impls, attr = open('/repo/src/impls.rs').read(), open('/repo/derive/src/attr.rs').read()
    try:
        data = extract(impls, attr)
    except Exception as e:   # a source the patterns no longer fit: an empty extraction breaks `extracted_is_expected` by name
        print('extract_impl_tables: cannot read the source:', repr(e), file=sys.stderr)
        data = ([], [], [], [], [], False, [], [], [])
    if exp:
        head = ('/- The tables the model of the built-in impls (`Impls.identity`, the primitive mapping) and of the derive\'s `capture_docs` parser are written from:\n'
                '   a committed copy of what translators/extract_impl_tables.py extracts (SIM.C16.extracted_impls_ok re-checks equality with the extraction of every run). -/')
        open(EXP, 'w').write(render('Expected', head, data))
    else:
        head = '/- @generated by translators/extract_impl_tables.py from /repo/src/impls.rs and /repo/derive/src/attr.rs — do not edit -/'
        os.makedirs(os.path.dirname(OUT), exist_ok=True)
        open(OUT, 'w').write(render('Extracted', head, data))


if __name__ == '__main__':
    main()
