#!/usr/bin/env python3
"""
Translator: re-extracts from /repo/src/build.rs the *signatures* of the typestate builders — for every inherent
`impl<..> Builder<args> { pub fn method(self, ..) -> Ret }` the receiver's type arguments (generic parameters of the impl as `?X`,
concrete state markers by their last path segment), the method name, the result type and its arguments (`Self` resolved), the
`B: Fn(Arg) -> Ret` bound of a closure parameter, and the default type arguments of the builder structs — into
lean/SIM/Extracted/Typestate.lean.

SIM.C20sigs runs a generic automaton over this table (a call is allowed when a row of the receiver's type and that method name
unifies with the current type arguments; the result is the row's return type) and proves that, for EVERY call sequence, the
automaton reaches the state the closure bound demands exactly when the counting predicates of SIM.Model.Typestate
(`fieldOk`, `variantOk`, the path/terminal rule of `accepts`) hold: the model of C20 is the reading of these signatures.
"""
import re, os, sys, subprocess

HERE = os.path.dirname(os.path.abspath(__file__))
OUT = os.path.join(HERE, '..', 'lean', 'SIM', 'Extracted', 'Typestate.lean')
EXP = os.path.join(HERE, '..', 'lean', 'SIM', 'Model', 'TypestateExpected.lean')
BUILDERS = ['TypeBuilder', 'FieldsBuilder', 'FieldBuilder', 'Variants', 'VariantBuilder', 'Fields']


def strip(src):
    src = re.sub(r'//[^\n]*', '', src)
    return src


def bl(s):
    return '[' + ', '.join(str(b) for b in s.encode()) + ']'


def balanced(src, i, op, cl):
    """src[i] == op: index just after the matching close"""
    depth, j = 0, i
    while True:
        c = src[j]
        if c == op:
            depth += 1
        elif c == cl:
            depth -= 1
            if depth == 0:
                return j + 1
        j += 1


def split_top(s):
    out, depth, cur = [], 0, ''
    for c in s:
        if c in '<([':
            depth += 1
        elif c in '>)]':
            depth -= 1
        if c == ',' and depth == 0:
            out.append(cur)
            cur = ''
        else:
            cur += c
    if cur.strip():
        out.append(cur)
    return [x.strip() for x in out if x.strip()]


def parse_type(text, generics):
    """`path::Name<a, b>` -> (Name, [args]); an argument that is a generic parameter of the impl becomes `?X`, a concrete one its last
    path segment (nested arguments kept as text without whitespace)"""
    text = re.sub(r'\s+', '', text)
    m = re.match(r'([A-Za-z_:]+?)(<(.*)>)?$', text)
    if not m:
        return (text, [])
    name = m.group(1).split('::')[-1]
    args = []
    for a in (split_top(m.group(3)) if m.group(3) else []):
        a0 = a.split('::')[-1] if re.fullmatch(r'[A-Za-z_:]+', a) else a
        args.append('?' + a0 if a0 in generics else a0)
    return (name, args)


def extract(src):
    src = strip(src)
    defaults, rows = [], []
    # default type arguments of the builder structs
    for m in re.finditer(r'pub\s+struct\s+([A-Za-z]+)\s*<', src):
        if m.group(1) not in BUILDERS:
            continue
        i = m.end() - 1
        j = balanced(src, i, '<', '>')
        ds = []
        for p in split_top(src[i + 1:j - 1]):
            dm = re.search(r'=\s*(.+)$', p, re.S)
            ds.append(re.sub(r'\s+', '', dm.group(1)).split('::')[-1] if dm else '')
        defaults.append((m.group(1), ds))
    # inherent impls
    for m in re.finditer(r'\bimpl\b', src):
        i = m.end()
        generics = []
        k = i
        while src[k].isspace():
            k += 1
        if src[k] == '<':
            e = balanced(src, k, '<', '>')
            generics = [re.match(r"\s*([A-Za-z_']+)", p).group(1) for p in split_top(src[k + 1:e - 1])]
            k = e
        b = src.index('{', k)
        head = src[k:b]
        if re.search(r'\bfor\b', head):
            continue        # a trait impl
        head = head.split('where')[0]
        recv_name, recv_args = parse_type(head, generics)
        if recv_name not in BUILDERS:
            continue
        e = balanced(src, b, '{', '}')
        body = src[b + 1:e - 1]
        for fm in re.finditer(r'\bpub\s+(?:const\s+)?fn\s+([a-z_]+)\s*(<[^(]*>)?\s*\(', body):
            name = fm.group(1)
            pe = balanced(body, fm.end() - 1, '(', ')')
            params = body[fm.end():pe - 1]
            takes_self = bool(re.match(r'\s*(mut\s+|&\s*(mut\s+)?)?self\b', params))
            rest = body[pe:]
            ob = rest.index('{')
            sig = rest[:ob]
            rm = re.match(r'\s*->\s*(.*?)(\bwhere\b|$)', sig, re.S)
            ret = rm.group(1).strip() if rm else '()'
            if ret == 'Self':
                ret_name, ret_args = recv_name, list(recv_args)
            else:
                ret_name, ret_args = parse_type(ret, generics)
            carg, cret = ('', []), ('', [])
            cm = re.search(r':\s*Fn\s*\(\s*(.*?)\s*,?\s*\)\s*->\s*(.*?)\s*,?\s*$', sig, re.S)
            if cm:
                carg, cret = parse_type(cm.group(1), generics), parse_type(cm.group(2), generics)
            rows.append((recv_name, recv_args if takes_self else ['-'], name, ret_name, ret_args, [carg[0]] + carg[1] if carg[0] else [],
                         [cret[0]] + cret[1] if cret[0] else []))
    # the same signature under two `cfg`s (docs on / off) is one row
    uniq = []
    for r in rows:
        if r not in uniq:
            uniq.append(r)
    return defaults, uniq


def render(ns, head, data):
    defaults, rows = data
    ls = lambda xs: '[' + ', '.join(bl(x) for x in xs) + ']'
    L = [head, 'import SIM.Model.Types', 'namespace SIM', f'namespace {ns}', 'namespace Typestate', '']
    L.append('/-- default type arguments of the builder structs (empty: no default) -/')
    L.append('def defaults : List (Str × List Str) :=\n  [' + ',\n   '.join(f'({bl(n)}, {ls(d)})' for n, d in defaults) + ']\n')
    L.append('/-- (receiver type, receiver arguments (`?X`: generic; `-`: no `self`), method, result type, result arguments,\n'
             '    closure bound argument (type :: arguments), closure bound result), in source order -/')
    L.append('def sigs : List (Str × List Str × Str × Str × List Str × List Str × List Str) :=\n  [' + ',\n   '.join(
        f'({bl(a)}, {ls(b)}, {bl(c)}, {bl(d)}, {ls(e)}, {ls(f)}, {ls(g)})' for a, b, c, d, e, f, g in rows) + ']\n')
    L += ['end Typestate', f'end {ns}', 'end SIM', '']
    return '\n'.join(L)


def main():
    exp = '--expected' in sys.argv
    if exp:
        src = subprocess.run(['git', '-C', '/repo', 'show', 'HEAD:src/build.rs'], stdout=subprocess.PIPE, text=True, check=True).stdout
    else:
        src = open('/repo/src/build.rs').read()
    try:
        data = extract(src)
    except Exception as e:   # a source the patterns no longer fit: an empty extraction breaks `extracted_sigs_ok` by name
        print('extract_typestate: cannot read the source:', repr(e), file=sys.stderr)
        data = ([], [])
    if '--print' in sys.argv:
        for d in data[0]:
            print('default', d)
        for r in data[1]:
            print(r)
        return
    if exp:
        head = ('/- The builder signatures the typestate model of C20 is written from: a committed copy of what translators/extract_typestate.py extracts\n'
                '   (SIM.C20.extracted_sigs_ok re-checks equality with the extraction of every run). -/')
        open(EXP, 'w').write(render('Expected', head, data))
    else:
        head = '/- @generated by translators/extract_typestate.py from /repo/src/build.rs — do not edit -/'
        os.makedirs(os.path.dirname(OUT), exist_ok=True)
        open(OUT, 'w').write(render('Extracted', head, data))


if __name__ == '__main__':
    main()
