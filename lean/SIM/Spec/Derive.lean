/-
  SIM.Spec.Derive — C09 stated declaratively: what the metadata of a derived type must be, as a
  function of the declaration. `tn` is the type-name normaliser (the statement fixes the type name
  only up to whitespace: the driver compares with `tn := id` modulo spaces, the theorem
  `SIM.C09.derive_mirrors` is stated with `tn := cleanTypeString`, and `clean_spaces` relates them).
-/
import SIM.Model.Derive
namespace SIM
namespace Spec
open Derive

/-- docs are captured, one leading space removed per line, exactly when capture_docs is always, or
    default with the docs feature on -/
def capturedDocs (docsFeature : Bool) (c : Capture) (docs : List Str) : List Str :=
  match c with
  | .always => docs.map stripLead
  | .default => if docsFeature then docs.map stripLead else []
  | .never => []

/-- members that are neither skipped nor PhantomData, in declaration order -/
def membersExpected (tn : Str → Str) (docsFeature : Bool) (c : Capture) (fs : List FieldD) : List (Field TyExpr) :=
  (fs.filter (fun f => !f.skip && !Impls.isPhantom (if f.compact then .compact f.ty else f.ty))).map (fun f =>
    { name := (match f.rename with | some r => some r | none => f.ident),
      ty := if f.compact then .compact f.ty else f.ty,
      typeName := some (tn f.tyText),
      docs := capturedDocs docsFeature c f.docs })

def variantsExpected (tn : Str → Str) (docsFeature : Bool) (c : Capture) (vs : List VariantD) : List (Variant TyExpr) :=
  (enumFrom 0 (vs.filter (fun v => !v.skip))).map (fun iv =>
    { name := iv.2.ident,
      fields := membersExpected tn docsFeature c (shapeFields iv.2.shape),
      index := (match iv.2.codecIndex with
                | some n => n
                | none => match iv.2.discriminant with | some d => d | none => iv.1) % 256,
      docs := capturedDocs docsFeature c iv.2.docs })

/-- module path plus identifier, every replace_segment substitution applied (first matching row, once) -/
def pathExpected (d : Decl) : List Str :=
  (PathM.splitColons [] d.modulePath ++ [d.ident]).map (PathM.replaceSeg d.replace)

def deriveExpected (tn : Str → Str) (docsFeature : Bool) (d : Decl) : Option (Ty TyExpr) :=
  if (pathExpected d).all isIdent then
    some { path := pathExpected d,
           params := d.params.map (fun p => { name := p.name, ty := if p.skipped then none else some p.arg }),
           def_ := (match d.body with
                    | .struct s => .composite (membersExpected tn docsFeature d.capture (shapeFields s))
                    | .enum vs => .variant (variantsExpected tn docsFeature d.capture vs)),
           docs := capturedDocs docsFeature d.capture d.docs }
  else none

def stripSpaces (s : Str) : Str := s.filter (· != 32)

/-- all ASCII whitespace removed (the token printer wraps long types over several lines) -/
def stripWs (s : Str) : Str := s.filter (fun b => b != 32 && b != 10 && b != 9 && b != 13)

end Spec
end SIM
