/-
  SIM.Spec.Typestate — the ill-formed constructions property C20 names for the builders, as a predicate on builder programs:
  a type without a path, a variant without an index, a field without a type, a named field among unnamed ones or an unnamed
  field among named ones.
-/
import SIM.Model.Typestate
namespace SIM
namespace Spec
open Typestate

/-- the ill-formed constructions C20 names for the builders -/
def fieldsIll (fp : FieldsProg) : Bool :=
  fp.fields.any (fun f => f.count .ty == 0
    || (fp.kind == .unnamed && f.count .name > 0) || (fp.kind == .named && f.count .name == 0))

def illFormed (prog : List TStep) : Bool :=
  !(prog.any isPath) ||
  prog.any (fun s => match s with
    | .composite fp => fieldsIll fp
    | .variant vs => vs.any (fun v => !(v.any isIndex) || v.any (fun c => match c with | .fields fp => fieldsIll fp | _ => false))
    | _ => false)


end Spec
end SIM
