/-
  SIM.Spec.Graph — executable graph oracles used by the driver on the implementation's output:
  rooted isomorphism between a type graph and a registry (C02 faithful image, C05 one id per
  identity, C11 same registry up to renaming), reachability (C05, C10).
-/
import SIM.Model.Types
namespace SIM
namespace Spec

/-- the shape of a type: everything but the references -/
def shape (t : Ty Nat) : Ty Unit := t.map (fun _ => ())

def lookupPair (m : List (Nat × Nat)) (a : Nat) : Option Nat :=
  match m with
  | [] => none
  | (x, y) :: rest => if x = a then some y else lookupPair rest a

/-- Simultaneous traversal of two graphs from paired roots. `m` is the correspondence built so
    far (node of g1, node of g2). Returns the final correspondence, or an error message. -/
def isoGo (g1 g2 : Nat → Option (Ty Nat)) : Nat → List (Nat × Nat) → List (Nat × Nat) → Except String (List (Nat × Nat))
  | 0, _, _ => .error "iso: out of fuel"
  | _ + 1, [], m => .ok m
  | fuel + 1, (a, b) :: work, m =>
    match lookupPair m a with
    | some b' => if b' = b then isoGo g1 g2 fuel work m else .error s!"iso: node {a} corresponds to both {b'} and {b}"
    | none =>
      match g1 a, g2 b with
      | some t1, some t2 =>
        if shape t1 != shape t2 then .error s!"iso: {a} and {b} differ in something other than references"
        else if t1.refs.length != t2.refs.length then .error s!"iso: {a} and {b} have different numbers of references"
        else isoGo g1 g2 fuel (t1.refs.zip t2.refs ++ work) ((a, b) :: m)
      | none, _ => .error s!"iso: left node {a} has no definition"
      | _, none => .error s!"iso: right node {b} does not resolve"

/-- rooted isomorphism: the correspondence must be a function (checked on the fly) and injective -/
def iso (g1 g2 : Nat → Option (Ty Nat)) (fuel : Nat) (roots : List (Nat × Nat)) : Except String (List (Nat × Nat)) :=
  match isoGo g1 g2 fuel roots [] with
  | .error e => .error e
  | .ok m =>
    let rs := m.map (·.2)
    if rs.eraseDups.length != rs.length then .error "iso: two different left nodes correspond to one right node"
    else .ok m

/-- nodes reachable from `roots` (worklist, fuel) -/
def reachGo (g : Nat → Option (Ty Nat)) : Nat → List Nat → List Nat → List Nat
  | 0, _, seen => seen
  | _ + 1, [], seen => seen
  | fuel + 1, a :: work, seen =>
    if seen.contains a then reachGo g fuel work seen
    else match g a with
      | some t => reachGo g fuel (t.refs ++ work) (a :: seen)
      | none => reachGo g fuel work (a :: seen)

def reach (g : Nat → Option (Ty Nat)) (fuel : Nat) (roots : List Nat) : List Nat := reachGo g fuel roots []

def regGraph (r : PortableRegistry) : Nat → Option (Ty Nat) := fun i => (r[i]?).map (·.ty)
def envGraph (env : List (Ty Nat)) : Nat → Option (Ty Nat) := fun i => env[i]?

/-- total number of references in a graph given as a list (fuel bound for the traversals) -/
def edgeCount (l : List (Ty Nat)) : Nat := l.foldl (fun acc t => acc + t.refs.length + 1) 0

end Spec
end SIM
