/-
  SIM.Spec.TypingD — values of derived types. `ValOfD env` extends `Spec.ValOf` (same constructors for
  the built-in types, generated from it) with user types `adt n args` described by their (instantiated)
  declaration `env (.adt n args)`, as `#[derive(Encode)]` of parity-scale-codec encodes them: fields in
  declaration order, `#[codec(skip)]` members omitted, `#[codec(compact)]` members compact, for enums
  one index byte (`#[codec(index)]`, else the discriminant, else the position among the non-skipped
  variants) then the fields.
-/
import SIM.Spec.Typing
import SIM.Model.Derive
namespace SIM
namespace Spec
open Value Codec

open Impls in
mutual
/-- `v` is the SCALE shape of a Rust value of type `t`: built-in types as in `ValOf`, user types through their declaration -/
inductive ValOfD (env : TyExpr → Option Derive.Decl) : TyExpr → Val → Prop
  | bool (b) : ValOfD env .bool (.bool b)
  | uint (w n) : n < 2 ^ w.bits → ValOfD env (.uint w) (.uint w.bits n)
  | sint (w) (z : Int) : -(2 ^ (w.bits - 1) : Int) ≤ z → z < (2 ^ (w.bits - 1) : Int) → ValOfD env (.sint w) (.sint w.bits z)
  | string (s) : okStr s → ValOfD env .string (.str s)
  | str (s) : okStr s → ValOfD env .str (.str s)
  | array {n t vs} : vs.length = n → n < 4294967296 → (∀ v, v ∈ vs → ValOfD env t v) → ValOfD env (.array n t) (.array vs)
  | tuple0 : ValOfD env .tuple0 (.tuple [])
  | tuple {h r vs} : MembersOfD env (h :: elems r) vs → ValOfD env (.tupleCons h r) (.tuple vs)
  | slice {t vs} : vs.length < 4294967296 → (∀ v, v ∈ vs → ValOfD env t v) → ValOfD env (.slice t) (.seq vs)
  | vec {t vs} : vs.length < 4294967296 → (∀ v, v ∈ vs → ValOfD env t v) → ValOfD env (.vec t) (.seq vs)
  | vecDeque {t vs} : vs.length < 4294967296 → (∀ v, v ∈ vs → ValOfD env t v) → ValOfD env (.vecDeque t) (.seq vs)
  | none (t) : ValOfD env (.option t) (.variant sNone 0 [])
  | some {t vs} : MembersOfD env [t] vs → ValOfD env (.option t) (.variant sSome 1 (vs.map (fun v => (Option.none, v))))
  | ok {t e vs} : MembersOfD env [t] vs → ValOfD env (.result t e) (.variant sOk 0 (vs.map (fun v => (Option.none, v))))
  | err {t e vs} : MembersOfD env [e] vs → ValOfD env (.result t e) (.variant sErr 1 (vs.map (fun v => (Option.none, v))))
  | box_ {t v} : ValOfD env t v → ValOfD env (.box_ t) v
  | rc {t v} : ValOfD env t v → ValOfD env (.rc t) v
  | arc {t v} : ValOfD env t v → ValOfD env (.arc t) v
  | ref_ {t v} : ValOfD env t v → ValOfD env (.ref_ t) v
  | refMut {t v} : ValOfD env t v → ValOfD env (.refMut t) v
  | cow {t vs} : MembersOfD env [t] vs → ValOfD env (.cow t) (.composite (vs.map (fun v => (Option.none, v))))
  | btreeMap {k v ps} : ps.length < 4294967296 →
      (∀ p, p ∈ ps → ValOfD env (.tupleCons k (.tupleCons v .tuple0)) p) →
      ValOfD env (.btreeMap k v) (.composite [(Option.none, .seq ps)])
  | btreeSet {t vs} : vs.length < 4294967296 → (∀ v, v ∈ vs → ValOfD env t v) → ValOfD env (.btreeSet t) (.composite [(Option.none, .seq vs)])
  | binaryHeap {t vs} : vs.length < 4294967296 → (∀ v, v ∈ vs → ValOfD env t v) → ValOfD env (.binaryHeap t) (.composite [(Option.none, .seq vs)])
  | compact (w n) : n < 2 ^ w.bits → ValOfD env (.compact (.uint w)) (.compact w.bits n)
  | range {t a b} : ValOfD env t a → ValOfD env t b → isPhantom t = false →
      ValOfD env (.range t) (.composite [(Option.some sstart, a), (Option.some send, b)])
  | rangeIncl {t a b} : ValOfD env t a → ValOfD env t b → isPhantom t = false →
      ValOfD env (.rangeIncl t) (.composite [(Option.some sstart, a), (Option.some send, b)])
  | nonZeroU (w n) : n < 2 ^ w.bits → ValOfD env (.nonZeroU w) (.composite [(Option.none, .uint w.bits n)])
  | nonZeroI (w) (z : Int) : -(2 ^ (w.bits - 1) : Int) ≤ z → z < (2 ^ (w.bits - 1) : Int) →
      ValOfD env (.nonZeroI w) (.composite [(Option.none, .sint w.bits z)])
  | duration (s n) : s < 2 ^ 64 → n < 2 ^ 32 → ValOfD env .duration (.composite [(Option.none, .uint 64 s), (Option.none, .uint 32 n)])
  | phantom (t) : ValOfD env (.phantom t) (.composite [])
  | bitVec (w : W) (msb : Bool) (bs : List Bool) : w ≠ .w128 → bs.length < 4294967296 →
      ValOfD env (.bitVec (.uint w) (if msb then .msb0 else .lsb0)) (.bits w.bits msb bs)
  | adtStruct {n a d s vs} : env (.adt n a) = some d → d.body = .struct s → FieldValsD env (Derive.shapeFields s) vs →
      ValOfD env (.adt n a) (.composite vs)
  | adtEnum {n a d vars i v vs} : env (.adt n a) = some d → d.body = .enum vars →
      (vars.filter (fun x => !x.skip))[i]? = some v → FieldValsD env (Derive.shapeFields v.shape) vs →
      ValOfD env (.adt n a) (.variant v.ident (Derive.variantIndex v i) vs)
/-- the values of the non-PhantomData members of a tuple / field list, in order -/
inductive MembersOfD (env : TyExpr → Option Derive.Decl) : List TyExpr → List Val → Prop
  | nil : MembersOfD env [] []
  | skip {t ts vs} : isPhantom t = true → MembersOfD env ts vs → MembersOfD env (t :: ts) vs
  | cons {t ts v vs} : isPhantom t = false → ValOfD env t v → MembersOfD env ts vs → MembersOfD env (t :: ts) (v :: vs)
/-- the encoded members of a struct / variant: `#[codec(skip)]` and PhantomData members contribute nothing; a
    `#[codec(compact)]` member of type `uN` is a compact integer; `#[codec(encoded_as)]` is outside (DESIGN.md §6) -/
inductive FieldValsD (env : TyExpr → Option Derive.Decl) : List Derive.FieldD → List (Option Str × Val) → Prop
  | nil : FieldValsD env [] []
  | skip {f fs vs} : f.skip = true → FieldValsD env fs vs → FieldValsD env (f :: fs) vs
  | phantom {f fs vs} : f.skip = false → f.compact = false → isPhantom f.ty = true → FieldValsD env fs vs →
      FieldValsD env (f :: fs) vs
  | plain {f fs v vs} : f.skip = false → f.compact = false → f.encodedAs = false → isPhantom f.ty = false →
      ValOfD env f.ty v → FieldValsD env fs vs →
      FieldValsD env (f :: fs) (((match f.rename with | some r => some r | none => f.ident), v) :: vs)
  | compact {f fs w n vs} : f.skip = false → f.compact = true → f.ty = .uint w → n < 2 ^ w.bits →
      FieldValsD env fs vs →
      FieldValsD env (f :: fs) (((match f.rename with | some r => some r | none => f.ident), .compact w.bits n) :: vs)
end

/-- `type_info()` of any type expression: built-in impls, and the derive for user types (through aliases) -/
def typeInfoD (docs : Bool) (env : TyExpr → Option Derive.Decl) (t : TyExpr) : Option (Ty TyExpr) :=
  match Impls.identity t with
  | .adt n a => (env (.adt n a)).bind (Derive.typeInfo docs)
  | i => Impls.typeInfo docs i

/-- the indices of the non-skipped variants are pairwise distinct (the codec derive rejects anything else) -/
def DistinctIdx (d : Derive.Decl) : Prop :=
  match d.body with
  | .struct _ => True
  | .enum vs => ((Derive.enumFrom 0 (vs.filter (fun v => !v.skip))).map (fun iv => Derive.variantIndex iv.2 iv.1)).Nodup

/-- `reg` with `idOf` describes the types of the closed set `S` (built-in and derived) faithfully -/
structure FaithfulD (docs : Bool) (env : TyExpr → Option Derive.Decl) (S : TyExpr → Prop)
    (reg : PortableRegistry) (idOf : TyExpr → Nat) : Prop where
  ident : ∀ t, idOf t = idOf (Impls.identity t)
  /-- a registry holds identities: with an alias such as `Box<Adt>` the set contains the user type behind it -/
  idClosed : ∀ t, S t → S (Impls.identity t)
  res : ∀ t ty, S t → typeInfoD docs env t = some ty → resolve reg (idOf t) = some (ty.map idOf)
  closed : ∀ t ty, S t → typeInfoD docs env t = some ty → ∀ r ∈ ty.refs, S r
  decls : ∀ n a d, S (.adt n a) → env (.adt n a) = some d → DistinctIdx d ∧ (Derive.typeInfo docs d).isSome

end Spec
end SIM
