/-
  SIM.Spec.Basic — executable spec predicates shared by the theorems and the driver.
-/
import SIM.Model.Types
namespace SIM
namespace Spec

/-- executable `WF`: dense and closed -/
def wfFrom (n : Nat) : Nat → PortableRegistry → Bool
  | _, [] => true
  | i, p :: ps => p.id == i && p.ty.refs.all (· < n) && wfFrom n (i + 1) ps

def wf (r : PortableRegistry) : Bool := wfFrom r.length 0 r

def denseFrom : Nat → PortableRegistry → Bool
  | _, [] => true
  | i, p :: ps => p.id == i && denseFrom (i + 1) ps

/-- dense only: entry `i` carries id `i` -/
def dense (r : PortableRegistry) : Bool := denseFrom 0 r

end Spec
end SIM
