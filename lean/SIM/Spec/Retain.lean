/-
  SIM.Spec.Retain — the four clauses of C10 as one executable predicate, evaluated by the driver
  on the real `retain`'s output.
-/
import SIM.Model.Retain
import SIM.Spec.Basic
import SIM.Spec.Graph
namespace SIM
namespace Spec

/-- first failing clause of C10 for `retain(keep)` mapping `r` to `(r', m)`, or `none` -/
def retainOk (r : PortableRegistry) (keepIds : List Nat) (r' : PortableRegistry) (m : List (Nat × Nat)) : List String := Id.run do
  let mut errs : List String := []
  if !wf r' then errs := errs ++ ["C10: result is not well-formed (dense and closed) ;; C01: retain on a well-formed registry gave a registry that is not dense and closed"]
  let fuel := 4 * edgeCount (r.map (·.ty)) + 4 * r.length + 64
  let roots := (List.range r.length).filter (fun i => keepIds.contains i)
  let want := reach (regGraph r) fuel roots
  let keys := m.map (·.1)
  if !(want.all keys.contains && keys.all want.contains) || keys.eraseDups.length != keys.length then
    errs := errs ++ ["C10: keys of the returned map are not exactly the ids reachable from the accepted ids"]
  let vals := m.map (·.2)
  if vals.eraseDups.length != vals.length || !(vals.all (· < r'.length)) || vals.length != r'.length then
    errs := errs ++ ["C10: returned map is not a bijection onto the new ids"]
  for (o, n) in m do
    match r[o]?, r'[n]? with
    | some e, some e' =>
      if e'.id != n then errs := errs ++ [s!"C10: retained entry for old id {o} carries id {e'.id} at position {n}"]
      if e'.ty != e.ty.map (fun x => (Retain.lookup m x).getD 4294967295) then
        errs := errs ++ [s!"C10: retained entry for old id {o} is not its original with references replaced through the map"]
    | _, _ => errs := errs ++ [s!"C10: map entry ({o}, {n}) out of range"]
  return errs.eraseDups

end Spec
end SIM
