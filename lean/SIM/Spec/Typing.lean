/-
  SIM.Spec.Typing — `HasTy reg id v`: value `v` is described by type `id` of registry `reg`
  (the typing judgement of a schema-directed SCALE reader), and `ValOf t v`: `v` is the shape of a
  Rust value of the built-in type `t` as `parity-scale-codec` encodes it (transcription of the
  codec's `Encode` impls for std types; PhantomData members contribute no bytes and are absent).
-/
import SIM.Model.Value
import SIM.Model.Impls
namespace SIM
namespace Spec
open Value Codec

mutual
/-- `v` is a value of the type with id `id` in `reg` -/
inductive HasTy (reg : PortableRegistry) : Nat → Val → Prop
  | uint {id t p bits n} : resolve reg id = some t → t.def_ = .primitive p → primBits p = some (false, bits) →
      n < 2 ^ bits → HasTy reg id (.uint bits n)
  | sint {id t p bits} {z : Int} : resolve reg id = some t → t.def_ = .primitive p → primBits p = some (true, bits) →
      -(2 ^ (bits - 1) : Int) ≤ z → z < (2 ^ (bits - 1) : Int) → HasTy reg id (.sint bits z)
  | bool {id t b} : resolve reg id = some t → t.def_ = .primitive .bool → HasTy reg id (.bool b)
  | str {id t s} : resolve reg id = some t → t.def_ = .primitive .str → okStr s → HasTy reg id (.str s)
  | composite {id t fs vs} : resolve reg id = some t → t.def_ = .composite fs → FieldsTy reg fs vs →
      HasTy reg id (.composite vs)
  | variant {id t vars v idx vs} : resolve reg id = some t → t.def_ = .variant vars →
      vars.find? (fun x => x.index == idx) = some v → idx < 256 → FieldsTy reg v.fields vs →
      HasTy reg id (.variant v.name idx vs)
  | seq {id t e vs} : resolve reg id = some t → t.def_ = .sequence e → vs.length < 4294967296 →
      (∀ v, v ∈ vs → HasTy reg e v) → HasTy reg id (.seq vs)
  | array {id t n e vs} : resolve reg id = some t → t.def_ = .array n e → vs.length = n →
      (∀ v, v ∈ vs → HasTy reg e v) → HasTy reg id (.array vs)
  | tuple {id t ts vs} : resolve reg id = some t → t.def_ = .tuple ts → ElemsTy reg ts vs → HasTy reg id (.tuple vs)
  | compact {id t e te p bits n} : resolve reg id = some t → t.def_ = .compact e → resolve reg e = some te →
      te.def_ = .primitive p → primBits p = some (false, bits) → bits ≤ 128 → n < 2 ^ bits →
      HasTy reg id (.compact bits n)
  | bits {id t s o w msb bs} : resolve reg id = some t → t.def_ = .bitSequence s o → storeWidth reg s = some w →
      orderMsb reg o = some msb → bs.length < 4294967296 → HasTy reg id (.bits w msb bs)
/-- members of a composite / variant, in order, carrying the field names of the description -/
inductive FieldsTy (reg : PortableRegistry) : List (Field Nat) → List (Option Str × Val) → Prop
  | nil : FieldsTy reg [] []
  | cons {f fs v vs} : HasTy reg f.ty v → FieldsTy reg fs vs → FieldsTy reg (f :: fs) ((f.name, v) :: vs)
inductive ElemsTy (reg : PortableRegistry) : List Nat → List Val → Prop
  | nil : ElemsTy reg [] []
  | cons {t ts v vs} : HasTy reg t v → ElemsTy reg ts vs → ElemsTy reg (t :: ts) (v :: vs)
end

open Impls in
mutual
/-- `v` is the SCALE shape of a Rust value of built-in type `t` -/
inductive ValOf : TyExpr → Val → Prop
  | bool (b) : ValOf .bool (.bool b)
  | uint (w n) : n < 2 ^ w.bits → ValOf (.uint w) (.uint w.bits n)
  | sint (w) (z : Int) : -(2 ^ (w.bits - 1) : Int) ≤ z → z < (2 ^ (w.bits - 1) : Int) → ValOf (.sint w) (.sint w.bits z)
  | string (s) : okStr s → ValOf .string (.str s)
  | str (s) : okStr s → ValOf .str (.str s)
  | array {n t vs} : vs.length = n → n < 4294967296 → (∀ v, v ∈ vs → ValOf t v) → ValOf (.array n t) (.array vs)
  | tuple0 : ValOf .tuple0 (.tuple [])
  | tuple {h r vs} : MembersOf (h :: elems r) vs → ValOf (.tupleCons h r) (.tuple vs)
  | slice {t vs} : vs.length < 4294967296 → (∀ v, v ∈ vs → ValOf t v) → ValOf (.slice t) (.seq vs)
  | vec {t vs} : vs.length < 4294967296 → (∀ v, v ∈ vs → ValOf t v) → ValOf (.vec t) (.seq vs)
  | vecDeque {t vs} : vs.length < 4294967296 → (∀ v, v ∈ vs → ValOf t v) → ValOf (.vecDeque t) (.seq vs)
  | none (t) : ValOf (.option t) (.variant sNone 0 [])
  | some {t vs} : MembersOf [t] vs → ValOf (.option t) (.variant sSome 1 (vs.map (fun v => (Option.none, v))))
  | ok {t e vs} : MembersOf [t] vs → ValOf (.result t e) (.variant sOk 0 (vs.map (fun v => (Option.none, v))))
  | err {t e vs} : MembersOf [e] vs → ValOf (.result t e) (.variant sErr 1 (vs.map (fun v => (Option.none, v))))
  | box_ {t v} : ValOf t v → ValOf (.box_ t) v
  | rc {t v} : ValOf t v → ValOf (.rc t) v
  | arc {t v} : ValOf t v → ValOf (.arc t) v
  | ref_ {t v} : ValOf t v → ValOf (.ref_ t) v
  | refMut {t v} : ValOf t v → ValOf (.refMut t) v
  | cow {t vs} : MembersOf [t] vs → ValOf (.cow t) (.composite (vs.map (fun v => (Option.none, v))))
  | btreeMap {k v ps} : ps.length < 4294967296 →
      (∀ p, p ∈ ps → ValOf (.tupleCons k (.tupleCons v .tuple0)) p) →
      ValOf (.btreeMap k v) (.composite [(Option.none, .seq ps)])
  | btreeSet {t vs} : vs.length < 4294967296 → (∀ v, v ∈ vs → ValOf t v) → ValOf (.btreeSet t) (.composite [(Option.none, .seq vs)])
  | binaryHeap {t vs} : vs.length < 4294967296 → (∀ v, v ∈ vs → ValOf t v) → ValOf (.binaryHeap t) (.composite [(Option.none, .seq vs)])
  | compact (w n) : n < 2 ^ w.bits → ValOf (.compact (.uint w)) (.compact w.bits n)
  | range {t a b} : ValOf t a → ValOf t b → isPhantom t = false →
      ValOf (.range t) (.composite [(Option.some sstart, a), (Option.some send, b)])
  | rangeIncl {t a b} : ValOf t a → ValOf t b → isPhantom t = false →
      ValOf (.rangeIncl t) (.composite [(Option.some sstart, a), (Option.some send, b)])
  | nonZeroU (w n) : n < 2 ^ w.bits → ValOf (.nonZeroU w) (.composite [(Option.none, .uint w.bits n)])
  | nonZeroI (w) (z : Int) : -(2 ^ (w.bits - 1) : Int) ≤ z → z < (2 ^ (w.bits - 1) : Int) →
      ValOf (.nonZeroI w) (.composite [(Option.none, .sint w.bits z)])
  | duration (s n) : s < 2 ^ 64 → n < 2 ^ 32 → ValOf .duration (.composite [(Option.none, .uint 64 s), (Option.none, .uint 32 n)])
  | phantom (t) : ValOf (.phantom t) (.composite [])
  | bitVec (w : W) (msb : Bool) (bs : List Bool) : w ≠ .w128 → bs.length < 4294967296 →
      ValOf (.bitVec (.uint w) (if msb then .msb0 else .lsb0)) (.bits w.bits msb bs)
/-- the values of the non-PhantomData members of a tuple / field list, in order -/
inductive MembersOf : List TyExpr → List Val → Prop
  | nil : MembersOf [] []
  | skip {t ts vs} : isPhantom t = true → MembersOf ts vs → MembersOf (t :: ts) vs
  | cons {t ts v vs} : isPhantom t = false → ValOf t v → MembersOf ts vs → MembersOf (t :: ts) (v :: vs)
end

/-- a registry `reg` with an id assignment `idOf` describes the built-in types of the closed set `S`
    faithfully — the conclusion of C02 (`register_faithful`) for a registry produced from those types -/
structure Faithful (docs : Bool) (S : TyExpr → Prop) (reg : PortableRegistry) (idOf : TyExpr → Nat) : Prop where
  ident : ∀ t, idOf t = idOf (Impls.identity t)
  res : ∀ t ty, S t → Impls.typeInfo docs t = some ty → resolve reg (idOf t) = some (ty.map idOf)
  closed : ∀ t ty, S t → Impls.typeInfo docs t = some ty → ∀ r ∈ ty.refs, S r

end Spec
end SIM
