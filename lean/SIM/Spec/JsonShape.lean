/-
  SIM.Spec.JsonShape — the documented JSON shape of C08 as a decidable predicate:
  keys types, id, type, path, params, def, docs, name, typeName, index, fields, variants, len;
  lower-case definition tags; empty path / params / fields / variants / docs and absent names
  omitted. (The payload of `bitsequence` carries `bit_store_type` / `bit_order_type`, the Rust
  field names, as every deployed consumer has it — DESIGN.md §5 C08.)
-/
import SIM.Model.Json
namespace SIM
namespace Spec
open JsonM

def keysOf (kv : List (Key × Json)) : List Key := kv.map (·.1)

def nodupKeys (kv : List (Key × Json)) : Bool := (keysOf kv).eraseDups.length == kv.length

def allowed (kv : List (Key × Json)) (ks : List Key) : Bool := (keysOf kv).all ks.contains && nodupKeys kv

def isNum : Json → Bool | .num _ => true | _ => false
def isStr : Json → Bool | .str _ => true | _ => false
def isNumOrNull : Json → Bool | .num _ => true | .null => true | _ => false

/-- a non-empty array whose items satisfy `p` -/
def nonEmptyArr (p : Json → Bool) : Json → Bool
  | .arr (x :: xs) => p x && xs.all p
  | _ => false

def arrOf (p : Json → Bool) : Json → Bool
  | .arr xs => xs.all p
  | _ => false

/-- member absent, or present and satisfying `p` -/
def optKey (kv : List (Key × Json)) (k : Key) (p : Json → Bool) : Bool :=
  match getKey kv k with | none => true | some v => p v

def reqKey (kv : List (Key × Json)) (k : Key) (p : Json → Bool) : Bool :=
  match getKey kv k with | none => false | some v => p v

def fieldShape : Json → Bool
  | .obj kv => allowed kv [.name, .type_, .typeName, .docs] && optKey kv .name isStr && reqKey kv .type_ isNum
      && optKey kv .typeName isStr && optKey kv .docs (nonEmptyArr isStr)
  | _ => false

def variantShape : Json → Bool
  | .obj kv => allowed kv [.name, .fields, .index, .docs] && reqKey kv .name isStr
      && optKey kv .fields (nonEmptyArr fieldShape) && reqKey kv .index isNum && optKey kv .docs (nonEmptyArr isStr)
  | _ => false

def typeOnlyShape : Json → Bool
  | .obj kv => allowed kv [.type_] && reqKey kv .type_ isNum
  | _ => false

def isPrimName : Json → Bool
  | .str s => (primOfName s).isSome
  | _ => false

def defShape : Json → Bool
  | .obj [(.composite, .obj kv)] => allowed kv [.fields] && optKey kv .fields (nonEmptyArr fieldShape)
  | .obj [(.variant, .obj kv)] => allowed kv [.variants] && optKey kv .variants (nonEmptyArr variantShape)
  | .obj [(.sequence, v)] => typeOnlyShape v
  | .obj [(.array, .obj kv)] => allowed kv [.len, .type_] && reqKey kv .len isNum && reqKey kv .type_ isNum
  | .obj [(.tuple, v)] => arrOf isNum v
  | .obj [(.primitive, v)] => isPrimName v
  | .obj [(.compact, v)] => typeOnlyShape v
  | .obj [(.bitsequence, .obj kv)] => allowed kv [.bitStoreType, .bitOrderType] && reqKey kv .bitStoreType isNum
      && reqKey kv .bitOrderType isNum
  | _ => false

def paramShape : Json → Bool
  | .obj kv => allowed kv [.name, .type_] && reqKey kv .name isStr && reqKey kv .type_ isNumOrNull
  | _ => false

def tyShape : Json → Bool
  | .obj kv => allowed kv [.path, .params, .def_, .docs] && optKey kv .path (nonEmptyArr isStr)
      && optKey kv .params (nonEmptyArr paramShape) && reqKey kv .def_ defShape && optKey kv .docs (nonEmptyArr isStr)
  | _ => false

def ptypeShape : Json → Bool
  | .obj kv => allowed kv [.id, .type_] && reqKey kv .id isNum && reqKey kv .type_ tyShape
  | _ => false

/-- the documented shape of a serialised registry -/
def jsonShape : Json → Bool
  | .obj kv => allowed kv [.types] && reqKey kv .types (arrOf ptypeShape)
  | _ => false

end Spec
end SIM
