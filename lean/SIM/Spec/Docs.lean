/-
  SIM.Spec.Docs — erasing documentation strings (property C15: the docs feature changes documentation
  strings only).
-/
import SIM.Model.Types
import SIM.Model.Registry
namespace SIM
namespace Spec

def stripField {R} (f : Field R) : Field R := { f with docs := [] }
def stripVariant {R} (v : Variant R) : Variant R := { v with fields := v.fields.map stripField, docs := [] }
def stripDef {R} : TypeDef R → TypeDef R
  | .composite fs => .composite (fs.map stripField)
  | .variant vs => .variant (vs.map stripVariant)
  | d => d
/-- a type description with every documentation string removed -/
def stripDocs {R} (t : Ty R) : Ty R := { path := t.path, params := t.params, def_ := stripDef t.def_, docs := [] }

def stripReg (r : PortableRegistry) : PortableRegistry := r.map (fun p => { id := p.id, ty := stripDocs p.ty })

def stripState (s : RegState) : RegState :=
  { table := s.table, types := s.types.map (fun kd => (kd.1, stripDocs kd.2)), evals := s.evals }

end Spec
end SIM
