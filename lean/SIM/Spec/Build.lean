/-
  SIM.Spec.Build — what C17 says a built type contains, stated declaratively: for every member
  "the argument of the last call that sets it" (`lastSome`), fields/variants in the order supplied,
  PhantomData members dropped (MetaForm only), `docs(..)` counted only with the docs feature.
  `SIM.C17` proves the interpreter `Build.run` (the transcription of src/build.rs) equal to this.
-/
import SIM.Model.Build
namespace SIM
namespace Spec
open Build

def docsArg (cfg : Cfg) : Free → Option (List Str)
  | .docs l => if cfg.docs then some l else none
  | .docsAlways l => some l
  | .docsPortable l => some l
  | .typeName _ => none

def fNameArg {R} : FCall R → Option Str | .name s => some s | _ => none
def fTyArg {R} : FCall R → Option R | .ty r => some r | _ => none
def fTypeNameArg {R} : FCall R → Option Str | .free (.typeName s) => some s | _ => none
def fDocsArg {R} (cfg : Cfg) : FCall R → Option (List Str) | .free f => docsArg cfg f | _ => none

/-- the field a builder closure describes -/
def fieldExpected {R} (cfg : Cfg) (calls : List (FCall R)) : Option (Field R) :=
  match lastSome fTyArg calls with
  | none => none
  | some r => some { name := lastSome fNameArg calls, ty := r, typeName := lastSome fTypeNameArg calls,
                     docs := (lastSome (fDocsArg cfg) calls).getD [] }

def fieldsExpected {R} (cfg : Cfg) (isPhantom : R → Bool) (fbs : List (List (FCall R))) : Option (List (Field R)) :=
  match fbs.mapM (fieldExpected cfg) with
  | none => none
  | some fs => some (fs.filter (fun f => !isPhantom f.ty))

def vIndexArg {R} : VCall R → Option Nat | .index n => some n | _ => none
def vFieldsArg {R} : VCall R → Option (List (List (FCall R))) | .fields fbs => some fbs | _ => none
def vDocsArg {R} (cfg : Cfg) : VCall R → Option (List Str) | .free f => docsArg cfg f | _ => none

def variantExpected {R} (cfg : Cfg) (isPhantom : R → Bool) (name : Str) (calls : List (VCall R)) : Option (Variant R) :=
  match lastSome vIndexArg calls with
  | none => none
  | some i =>
    match (match lastSome vFieldsArg calls with | none => some [] | some fbs => fieldsExpected cfg isPhantom fbs) with
    | none => none
    | some fs => some { name := name, fields := fs, index := i, docs := (lastSome (vDocsArg cfg) calls).getD [] }

def tPathArg {R} : TCall R → Option (List Str) | .path p => some p | _ => none
def tParamsArg {R} : TCall R → Option (List (TypeParam R)) | .typeParams ps => some ps | _ => none
def tDocsArg {R} (cfg : Cfg) : TCall R → Option (List Str) | .free f => docsArg cfg f | _ => none

def defExpected {R} (cfg : Cfg) (isPhantom : R → Bool) : Term R → Option (TypeDef R)
  | .composite fbs => (fieldsExpected cfg isPhantom fbs).map TypeDef.composite
  | .variant vs => (vs.mapM (fun nc => variantExpected cfg isPhantom nc.1 nc.2)).map TypeDef.variant

/-- the type a builder program describes -/
def buildExpected {R} (cfg : Cfg) (isPhantom : R → Bool) (calls : List (TCall R)) (term : Term R) : Option (Ty R) :=
  match lastSome tPathArg calls, defExpected cfg isPhantom term with
  | some p, some d => some { path := p, params := (lastSome tParamsArg calls).getD [], def_ := d,
                             docs := (lastSome (tDocsArg cfg) calls).getD [] }
  | _, _ => none

end Spec
end SIM
