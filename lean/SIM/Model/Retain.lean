/-
  SIM.Model.Retain — `PortableRegistry::retain` (src/portable.rs:85-213), modelled literally:
  memo map consulted first; a placeholder pushed to the new registry and the memo entry inserted
  BEFORE recursing; the old slot swapped with a placeholder (`mem::replace`); type parameters
  then the definition's references visited in `Ty.refs` order; the reserved slot overwritten last.

  `none` stands for a panic of the Rust code (index out of bounds on a dangling reference) or for
  running out of fuel; `SIM.C10.retain_total` shows neither happens on a well-formed registry.
-/
import SIM.Model.Types
import SIM.Model.Registry
namespace SIM

structure RetState where
  old : List PType              -- `types: &mut [PortableType]`, visited slots hold the placeholder
  new : List PType              -- `new_types`
  map : List (Nat × Nat)        -- `retained_mappings` (insertion order; looked up by key)

namespace Retain

def placeholder : PType :=
  { id := 4294967295, ty := { path := [], params := [], def_ := .primitive .bool, docs := [] } }

def lookup (m : List (Nat × Nat)) (k : Nat) : Option Nat :=
  match m with
  | [] => none
  | (a, b) :: rest => if a = k then some b else lookup rest k

/-- `retain_type` -/
def retainType : Nat → RetState → Nat → Option (RetState × Nat)
  | 0, _, _ => none
  | fuel + 1, st, id =>
    match lookup st.map id with
    | some n => some (st, n)
    | none =>
      let newId := st.new.length
      match st.old[id]? with
      | none => none
      | some ty =>
        let st1 : RetState :=
          { old := st.old.set id placeholder, new := st.new ++ [placeholder], map := st.map ++ [(id, newId)] }
        match Registry.travList (retainType fuel) st1 ty.ty.refs with
        | none => none
        | some (st2, rs) =>
          some ({ old := st2.old, new := st2.new.set newId { id := newId, ty := ty.ty.fill rs }, map := st2.map }, newId)

/-- the loop `for id in 0..len { if filter(id) { retain_type(id) } }` -/
def retainLoop (keep : Nat → Bool) (fuel : Nat) : List Nat → RetState → Option RetState
  | [], st => some st
  | id :: ids, st =>
    if keep id then
      match retainType fuel st id with
      | none => none
      | some (st', _) => retainLoop keep fuel ids st'
    else retainLoop keep fuel ids st

/-- `retain`: the new registry and the returned map (old id ↦ new id, in insertion order) -/
def retain (r : PortableRegistry) (keep : Nat → Bool) : Option (PortableRegistry × List (Nat × Nat)) :=
  match retainLoop keep (r.length + 1) (List.range r.length) { old := r, new := [], map := [] } with
  | none => none
  | some st => some (st.new, st.map)

end Retain
end SIM
