/-
  SIM.Model.Proto — the canonical text form shared with the Rust harness.

  One case per line, space separated tokens, prefix notation:
    nat      decimal
    str      `x` followed by the hex of the UTF-8 bytes (empty string = `x`)
    option   `N` | `S <v>`
    list     `<n> <item>*`
    field    <opt str name> <ref> <opt str typeName> <list str docs>
    variant  <str name> <list field> <nat index> <list str docs>
    typedef  `c <list field>` | `v <list variant>` | `s <ref>` | `a <len> <ref>`
             | `t <list ref>` | `p <tag>` | `k <ref>` | `b <store> <order>`
    param    <str name> <opt ref>
    ty       <list str path> <list param> <typedef> <list str docs>
    ptype    <nat id> <ty>
    registry <list ptype>
-/
import SIM.Model.Types
namespace SIM

abbrev P (α : Type) := StateT (List String) Option α

namespace P

def tok : P String := fun s => match s with | [] => none | t :: ts => some (t, ts)

def fail {α} : P α := fun _ => none

def nat : P Nat := do
  let t ← tok
  match t.toNat? with | some n => pure n | none => fail

def expect (s : String) : P Unit := do
  let t ← tok
  if t == s then pure () else fail

def hexDigit (c : Char) : Option Nat :=
  if '0' ≤ c ∧ c ≤ '9' then some (c.toNat - '0'.toNat)
  else if 'a' ≤ c ∧ c ≤ 'f' then some (c.toNat - 'a'.toNat + 10)
  else none

def hexBytes : List Char → Option (List UInt8)
  | [] => some []
  | [_] => none
  | a :: b :: rest => do
    let x ← hexDigit a
    let y ← hexDigit b
    let r ← hexBytes rest
    pure (UInt8.ofNat (x * 16 + y) :: r)

def str : P Str := do
  let t ← tok
  match t.toList with
  | 'x' :: cs => match hexBytes cs with | some b => pure b | none => fail
  | _ => fail

def opt {α} (p : P α) : P (Option α) := do
  let t ← tok
  if t == "N" then pure none
  else if t == "S" then do let v ← p; pure (some v)
  else fail

def rep {α} (p : P α) : Nat → P (List α)
  | 0 => pure []
  | n + 1 => do let x ← p; let xs ← rep p n; pure (x :: xs)

def list {α} (p : P α) : P (List α) := do let n ← nat; rep p n

def bool : P Bool := do
  let t ← tok
  if t == "1" then pure true else if t == "0" then pure false else fail

def primOfTag : Nat → Option Prim
  | 0 => some .bool | 1 => some .char | 2 => some .str | 3 => some .u8 | 4 => some .u16
  | 5 => some .u32 | 6 => some .u64 | 7 => some .u128 | 8 => some .u256 | 9 => some .i8
  | 10 => some .i16 | 11 => some .i32 | 12 => some .i64 | 13 => some .i128 | 14 => some .i256
  | _ => none

def field : P (Field Nat) := do
  let name ← opt str
  let ty ← nat
  let tn ← opt str
  let docs ← list str
  pure { name := name, ty := ty, typeName := tn, docs := docs }

def variant : P (Variant Nat) := do
  let name ← str
  let fs ← list field
  let idx ← nat
  let docs ← list str
  pure { name := name, fields := fs, index := idx, docs := docs }

def typeDef : P (TypeDef Nat) := do
  let t ← tok
  match t with
  | "c" => do let fs ← list field; pure (.composite fs)
  | "v" => do let vs ← list variant; pure (.variant vs)
  | "s" => do let r ← nat; pure (.sequence r)
  | "a" => do let n ← nat; let r ← nat; pure (.array n r)
  | "t" => do let rs ← list nat; pure (.tuple rs)
  | "p" => do
    let n ← nat
    match primOfTag n with | some p => pure (.primitive p) | none => fail
  | "k" => do let r ← nat; pure (.compact r)
  | "b" => do let s ← nat; let o ← nat; pure (.bitSequence s o)
  | _ => fail

def param : P (TypeParam Nat) := do
  let name ← str
  let ty ← opt nat
  pure { name := name, ty := ty }

def ty : P (Ty Nat) := do
  let path ← list str
  let ps ← list param
  let d ← typeDef
  let docs ← list str
  pure { path := path, params := ps, def_ := d, docs := docs }

def ptype : P PType := do
  let id ← nat
  let t ← ty
  pure { id := id, ty := t }

def registry : P PortableRegistry := list ptype

end P

/-! ## printing (for DIFF diagnostics) -/
namespace Show

def hexNib (n : Nat) : Char := if n < 10 then Char.ofNat (n + 48) else Char.ofNat (n - 10 + 97)

def str (s : Str) : String :=
  String.ofList ('x' :: s.flatMap (fun b => [hexNib (b.toNat / 16), hexNib (b.toNat % 16)]))

def opt {α} (f : α → String) : Option α → String
  | none => "N"
  | some v => "S " ++ f v

def list {α} (f : α → String) (l : List α) : String :=
  l.foldl (fun acc x => acc ++ " " ++ f x) (toString l.length)

def primTag : Prim → Nat
  | .bool => 0 | .char => 1 | .str => 2 | .u8 => 3 | .u16 => 4 | .u32 => 5 | .u64 => 6
  | .u128 => 7 | .u256 => 8 | .i8 => 9 | .i16 => 10 | .i32 => 11 | .i64 => 12 | .i128 => 13
  | .i256 => 14

def field (f : Field Nat) : String :=
  opt str f.name ++ " " ++ toString f.ty ++ " " ++ opt str f.typeName ++ " " ++ list str f.docs

def variant (v : Variant Nat) : String :=
  str v.name ++ " " ++ list field v.fields ++ " " ++ toString v.index ++ " " ++ list str v.docs

def typeDef : TypeDef Nat → String
  | .composite fs => "c " ++ list field fs
  | .variant vs => "v " ++ list variant vs
  | .sequence r => "s " ++ toString r
  | .array n r => "a " ++ toString n ++ " " ++ toString r
  | .tuple rs => "t " ++ list toString rs
  | .primitive p => "p " ++ toString (primTag p)
  | .compact r => "k " ++ toString r
  | .bitSequence s o => "b " ++ toString s ++ " " ++ toString o

def param (p : TypeParam Nat) : String := str p.name ++ " " ++ opt toString p.ty

def ty (t : Ty Nat) : String :=
  list str t.path ++ " " ++ list param t.params ++ " " ++ typeDef t.def_ ++ " " ++ list str t.docs

def ptype (p : PType) : String := toString p.id ++ " " ++ ty p.ty

def registry (r : PortableRegistry) : String := list ptype r

end Show
end SIM
