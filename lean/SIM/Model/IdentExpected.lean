/- The identifier rule the model of C18 (SIM.Model.Path) is written from: a committed copy of what translators/extract_ident_rule.py extracts
   (SIM.C18.extracted_ident_ok re-checks equality with the extraction of every run). -/
import SIM.Model.Types
namespace SIM
namespace Expected
namespace Ident

/-- `if !s.is_ascii() { return false; }` comes first -/
def asciiGuard : Bool := true
/-- the literal of `s.strip_prefix(..).unwrap_or(s)` -/
def rawPrefix : Str := [114, 35]
/-- disjuncts of `head_ok`: (`eq`, c) for `head == b'c'`, (`is_ascii_..`, 0) for `head.is_ascii_..()` -/
def headAtoms : List (Str × Nat) := [([101, 113], 95), ([105, 115, 95, 97, 115, 99, 105, 105, 95, 108, 111, 119, 101, 114, 99, 97, 115, 101], 0), ([105, 115, 95, 97, 115, 99, 105, 105, 95, 117, 112, 112, 101, 114, 99, 97, 115, 101], 0)]
/-- disjuncts of the predicate every byte of the tail must satisfy -/
def tailAtoms : List (Str × Nat) := [([101, 113], 95), ([105, 115, 95, 97, 115, 99, 105, 105, 95, 108, 111, 119, 101, 114, 99, 97, 115, 101], 0), ([105, 115, 95, 97, 115, 99, 105, 105, 95, 117, 112, 112, 101, 114, 99, 97, 115, 101], 0), ([105, 115, 95, 97, 115, 99, 105, 105, 95, 100, 105, 103, 105, 116], 0)]
/-- how the two are combined, and the answer for the empty string -/
def combine : Str := [104, 101, 97, 100, 95, 111, 107, 38, 38, 116, 97, 105, 108, 95, 111, 107]
def emptyResult : Bool := false

end Ident
end Expected
end SIM
