/-
  SIM.Model.Impls — the built-in `TypeInfo` impls of src/impls.rs and `MetaType` (src/meta_type.rs).

  `TyExpr` is the syntax of Rust type expressions over the built-in constructors. `identity t` is
  `<t as TypeInfo>::Identity` (what `MetaType::new::<t>()` takes the `TypeId` of) and `typeInfo cfg t`
  is `<t as TypeInfo>::type_info()`, references being type expressions as the impl writes them
  (`MetaType::new::<T>()`; they are normalised by `identity` when registered or compared).
  Tuples are cons-lists inside the syntax (`tupleCons A (tupleCons B tuple0)` = `(A, B)`), which keeps
  `TyExpr` a plain inductive type.

  After fix commit b5d2357 transparent wrappers forward to `T::Identity`.
-/
import SIM.Model.Types
import SIM.Model.Build
namespace SIM

inductive W | w8 | w16 | w32 | w64 | w128
  deriving DecidableEq, Repr

def W.bits : W → Nat | .w8 => 8 | .w16 => 16 | .w32 => 32 | .w64 => 64 | .w128 => 128

inductive TyExpr
  | bool | char | uint (w : W) | sint (w : W)
  | str | string
  | array (n : Nat) (t : TyExpr)
  | tuple0 | tupleCons (h : TyExpr) (rest : TyExpr)
  | slice (t : TyExpr) | vec (t : TyExpr) | vecDeque (t : TyExpr)
  | option (t : TyExpr) | result (t e : TyExpr)
  | box_ (t : TyExpr) | rc (t : TyExpr) | arc (t : TyExpr) | ref_ (t : TyExpr) | refMut (t : TyExpr)
  | cow (t : TyExpr)
  | btreeMap (k v : TyExpr) | btreeSet (t : TyExpr) | binaryHeap (t : TyExpr)
  | compact (t : TyExpr)
  | range (t : TyExpr) | rangeIncl (t : TyExpr)
  | nonZeroU (w : W) | nonZeroI (w : W)
  | duration
  | phantom (t : TyExpr)
  | bitVec (store order : TyExpr)
  | lsb0 | msb0
  | adt (n : Nat) (args : TyExpr)      -- a user type `n` applied to a tuple-list of arguments; Identity = Self
  deriving DecidableEq, Repr

namespace Impls

def sOption : Str := [79, 112, 116, 105, 111, 110]
def sNone : Str := [78, 111, 110, 101]
def sSome : Str := [83, 111, 109, 101]
def sResult : Str := [82, 101, 115, 117, 108, 116]
def sOk : Str := [79, 107]
def sErr : Str := [69, 114, 114]
def sCow : Str := [67, 111, 119]
def sBTreeMap : Str := [66, 84, 114, 101, 101, 77, 97, 112]
def sBTreeSet : Str := [66, 84, 114, 101, 101, 83, 101, 116]
def sBinaryHeap : Str := [66, 105, 110, 97, 114, 121, 72, 101, 97, 112]
def sRange : Str := [82, 97, 110, 103, 101]
def sRangeInclusive : Str := [82, 97, 110, 103, 101, 73, 110, 99, 108, 117, 115, 105, 118, 101]
def sstart : Str := [115, 116, 97, 114, 116]
def send : Str := [101, 110, 100]
def sIdx : Str := [73, 100, 120]
def sDuration : Str := [68, 117, 114, 97, 116, 105, 111, 110]
def su64 : Str := [117, 54, 52]
def su32 : Str := [117, 51, 50]
def sPhantomData : Str := [80, 104, 97, 110, 116, 111, 109, 68, 97, 116, 97]
def sT : Str := [84]
def sE : Str := [69]
def sK : Str := [75]
def sV : Str := [86]
def sLsb0 : Str := [76, 115, 98, 48]
def sMsb0 : Str := [77, 115, 98, 48]
def sbitvec : Str := [98, 105, 116, 118, 101, 99]
def sorder : Str := [111, 114, 100, 101, 114]
def sNonZeroI8 : Str := [78, 111, 110, 90, 101, 114, 111, 73, 56]
def sNonZeroI16 : Str := [78, 111, 110, 90, 101, 114, 111, 73, 49, 54]
def sNonZeroI32 : Str := [78, 111, 110, 90, 101, 114, 111, 73, 51, 50]
def sNonZeroI64 : Str := [78, 111, 110, 90, 101, 114, 111, 73, 54, 52]
def sNonZeroI128 : Str := [78, 111, 110, 90, 101, 114, 111, 73, 49, 50, 56]
def sNonZeroU8 : Str := [78, 111, 110, 90, 101, 114, 111, 85, 56]
def sNonZeroU16 : Str := [78, 111, 110, 90, 101, 114, 111, 85, 49, 54]
def sNonZeroU32 : Str := [78, 111, 110, 90, 101, 114, 111, 85, 51, 50]
def sNonZeroU64 : Str := [78, 111, 110, 90, 101, 114, 111, 85, 54, 52]
def sNonZeroU128 : Str := [78, 111, 110, 90, 101, 114, 111, 85, 49, 50, 56]

/-- the members of a tuple expression -/
def elems : TyExpr → List TyExpr
  | .tupleCons h r => h :: elems r
  | _ => []

/-- `<t as TypeInfo>::Identity` -/
def identity : TyExpr → TyExpr
  | .box_ t => identity t
  | .rc t => identity t
  | .arc t => identity t
  | .ref_ t => identity t
  | .refMut t => identity t
  | .vec t => .slice t
  | .vecDeque t => .slice t
  | .string => .str
  | .phantom _ => .phantom .tuple0
  | t => t

/-- `MetaType::is_phantom` -/
def isPhantom (t : TyExpr) : Bool := identity t == .phantom .tuple0

def primOfUint : W → Prim | .w8 => .u8 | .w16 => .u16 | .w32 => .u32 | .w64 => .u64 | .w128 => .u128
def primOfSint : W → Prim | .w8 => .i8 | .w16 => .i16 | .w32 => .i32 | .w64 => .i64 | .w128 => .i128

def nonZeroUName : W → Str | .w8 => sNonZeroU8 | .w16 => sNonZeroU16 | .w32 => sNonZeroU32 | .w64 => sNonZeroU64 | .w128 => sNonZeroU128
def nonZeroIName : W → Str | .w8 => sNonZeroI8 | .w16 => sNonZeroI16 | .w32 => sNonZeroI32 | .w64 => sNonZeroI64 | .w128 => sNonZeroI128

/-- an unnamed field as `Fields::unnamed().field(|f| f.ty::<T>())` builds it -/
def uf (t : TyExpr) : Field TyExpr := { name := none, ty := t, typeName := none, docs := [] }
/-- `push_field`: PhantomData members are dropped -/
def pushed (fs : List (Field TyExpr)) : List (Field TyExpr) := fs.filter (fun f => !isPhantom f.ty)

def tp (name : Str) (t : TyExpr) : TypeParam TyExpr := { name := name, ty := some t }

def mk (path : List Str) (params : List (TypeParam TyExpr)) (d : TypeDef TyExpr) : Ty TyExpr :=
  { path := path, params := params, def_ := d, docs := [] }

def phantomDocs : List Str :=
  [[80, 104, 97, 110, 116, 111, 109, 68, 97, 116, 97, 32, 112, 108, 97, 99, 101, 104, 111, 108, 100, 101, 114, 44, 32, 116, 104, 105, 115, 32, 116, 121, 112, 101, 32, 115, 104, 111, 117, 108, 100, 32, 98, 101, 32, 102, 105, 108, 116, 101, 114, 101, 100, 32, 111, 117, 116]]

/-- `<t as TypeInfo>::type_info()`; `docs` = the crate's docs feature. `none`: no impl modelled (`adt`, stray `tupleCons`). -/
def typeInfo (docs : Bool) : TyExpr → Option (Ty TyExpr)
  | .bool => some (Build.ofDef (.primitive .bool))
  | .char => some (Build.ofDef (.primitive .char))
  | .uint w => some (Build.ofDef (.primitive (primOfUint w)))
  | .sint w => some (Build.ofDef (.primitive (primOfSint w)))
  | .str => some (Build.ofDef (.primitive .str))
  | .string => some (Build.ofDef (.primitive .str))
  | .array n t => some (Build.ofDef (.array (n % 4294967296) t))     -- `N as u32`
  | .tuple0 => some (Build.ofDef (Build.tupleNew isPhantom []))
  | .tupleCons h r => some (Build.ofDef (Build.tupleNew isPhantom (h :: elems r)))
  | .slice t => some (Build.ofDef (.sequence t))
  | .vec t => some (Build.ofDef (.sequence t))
  | .vecDeque t => some (Build.ofDef (.sequence t))
  | .option t => some (mk [sOption] [tp sT t]
      (.variant [{ name := sNone, fields := [], index := 0, docs := [] },
                 { name := sSome, fields := pushed [uf t], index := 1, docs := [] }]))
  | .result t e => some (mk [sResult] [tp sT t, tp sE e]
      (.variant [{ name := sOk, fields := pushed [uf t], index := 0, docs := [] },
                 { name := sErr, fields := pushed [uf e], index := 1, docs := [] }]))
  | .box_ t => typeInfo docs t
  | .rc t => typeInfo docs t
  | .arc t => typeInfo docs t
  | .ref_ t => typeInfo docs t
  | .refMut t => typeInfo docs t
  | .cow t => some (mk [sCow] [tp sT t] (.composite (pushed [uf t])))
  | .btreeMap k v => some (mk [sBTreeMap] [tp sK k, tp sV v]
      (.composite (pushed [uf (.slice (.tupleCons k (.tupleCons v .tuple0)))])))
  | .btreeSet t => some (mk [sBTreeSet] [tp sT t] (.composite (pushed [uf (.slice t)])))
  | .binaryHeap t => some (mk [sBinaryHeap] [tp sT t] (.composite (pushed [uf (.slice t)])))
  | .compact t => some (Build.ofDef (.compact t))
  | .range t => some (mk [sRange] [tp sIdx t] (.composite (pushed
      [{ name := some sstart, ty := t, typeName := some sIdx, docs := [] },
       { name := some send, ty := t, typeName := some sIdx, docs := [] }])))
  | .rangeIncl t => some (mk [sRangeInclusive] [tp sIdx t] (.composite (pushed
      [{ name := some sstart, ty := t, typeName := some sIdx, docs := [] },
       { name := some send, ty := t, typeName := some sIdx, docs := [] }])))
  | .nonZeroU w => some (mk [nonZeroUName w] [] (.composite (pushed [uf (.uint w)])))
  | .nonZeroI w => some (mk [nonZeroIName w] [] (.composite (pushed [uf (.sint w)])))
  | .duration => some (mk [sDuration] [] (.composite (pushed
      [{ name := none, ty := .uint .w64, typeName := some su64, docs := [] },
       { name := none, ty := .uint .w32, typeName := some su32, docs := [] }])))
  | .phantom _ => some { path := [sPhantomData], params := [], def_ := .composite [],
                         docs := if docs then phantomDocs else [] }
  | .bitVec s o => some (Build.ofDef (.bitSequence s o))
  | .lsb0 => some (mk [sbitvec, sorder, sLsb0] [] (.composite []))
  | .msb0 => some (mk [sbitvec, sorder, sMsb0] [] (.composite []))
  | .adt _ _ => none

/-- `MetaType`: a type identity (standing for the `TypeId`) and the definition behind the fn pointer -/
structure MetaTypeM where
  id : TyExpr
  info : Option (Ty TyExpr)
  deriving DecidableEq

def metaOf (docs : Bool) (t : TyExpr) : MetaTypeM := { id := identity t, info := typeInfo docs t }

/-- `PartialEq for MetaType`: compares the type ids only -/
def metaEq (a b : MetaTypeM) : Bool := a.id == b.id

end Impls
end SIM
