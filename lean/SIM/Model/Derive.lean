/-
  SIM.Model.Derive — the decision logic of `#[derive(TypeInfo)]` (derive/src/lib.rs:67-338,
  derive/src/utils.rs:27-120): from a declaration to the builder calls the macro emits, run through
  the builder model (`SIM.Model.Build`) and the path model (`SIM.Model.Path`).

  A `Decl` is one *instantiation* of a declaration: field types are the declared types with the
  type parameters replaced by the arguments (the generated `impl` is generic; `type_info()` of an
  instantiation sees the substituted types). `tyText` is the source text of the declared type with
  every lifetime replaced by `'static` — what the macro stringifies; the token printer's spacing is
  outside the model, `cleanTypeString` (the re-extracted `.replace` chain) only touches spaces.
-/
import SIM.Model.Impls
import SIM.Model.Path
import SIM.Extracted.CleanPairs
namespace SIM
namespace Derive

inductive Capture | never | default | always
  deriving DecidableEq, Repr

structure FieldD where
  ident : Option Str
  ty : TyExpr
  tyText : Str
  skip : Bool            -- #[codec(skip)]
  compact : Bool         -- #[codec(compact)]
  encodedAs : Bool       -- #[codec(encoded_as = "..")]  (ignored by the derive: DESIGN.md §6)
  rename : Option Str    -- #[scale_info(rename = "..")]
  docs : List Str        -- values of the `#[doc = ".."]` attributes, in order
  deriving Repr

inductive ShapeD
  | unit
  | named (fs : List FieldD)
  | unnamed (fs : List FieldD)
  deriving Repr

structure VariantD where
  ident : Str
  shape : ShapeD
  skip : Bool
  codecIndex : Option Nat     -- #[codec(index = n)]
  discriminant : Option Nat   -- `= n`
  docs : List Str
  deriving Repr

inductive BodyD
  | struct (s : ShapeD)
  | enum (vs : List VariantD)
  deriving Repr

structure TParamD where
  name : Str
  skipped : Bool              -- named in skip_type_params(..)
  arg : TyExpr
  deriving Repr

structure Decl where
  ident : Str
  modulePath : Str            -- `module_path!()`
  params : List TParamD
  capture : Capture           -- capture_docs = ..
  replace : List (Str × Str)  -- replace_segment(a, b), in attribute order
  docs : List Str
  body : BodyD
  deriving Repr

/-! ### `str::replace` and `clean_type_string` -/

def isPrefix : Str → Str → Bool
  | [], _ => true
  | _ :: _, [] => false
  | a :: as, b :: bs => a == b && isPrefix as bs

/-- `str::replace(pat, rep)`: non-overlapping matches, left to right (`pat` non-empty) -/
def replaceAllFuel (pat rep : Str) : Nat → Str → Str
  | 0, s => s
  | _ + 1, [] => []
  | fuel + 1, c :: cs =>
    if !pat.isEmpty && isPrefix pat (c :: cs) then rep ++ replaceAllFuel pat rep fuel ((c :: cs).drop pat.length)
    else c :: replaceAllFuel pat rep fuel cs

def replaceAll (s pat rep : Str) : Str := replaceAllFuel pat rep (s.length + 1) s

/-- `clean_type_string` over a list of (pattern, replacement) pairs -/
def cleanWith (pairs : List (Str × Str)) (s : Str) : Str := pairs.foldl (fun acc p => replaceAll acc p.1 p.2) s

/-- the chain as it stands in /repo (re-extracted on every run) -/
def cleanTypeString : Str → Str := cleanWith Extracted.cleanPairs

/-! ### docs -/

/-- `strip_prefix(' ')`: one leading space removed -/
def stripLead : Str → Str
  | 32 :: r => r
  | s => s

/-- `generate_docs`: nothing when never or when there are no doc attributes -/
def docsCall (c : Capture) (docs : List Str) : List Build.Free :=
  if docs.isEmpty then []
  else match c with
    | .never => []
    | .default => [.docs (docs.map stripLead)]
    | .always => [.docsAlways (docs.map stripLead)]

/-! ### members -/

/-- `.field(|f| f.ty::<T>() / .compact::<T>()  .name(..)  .type_name(..)  docs)` -/
def fieldCalls (c : Capture) (f : FieldD) : List (Build.FCall TyExpr) :=
  [.ty (if f.compact then .compact f.ty else f.ty)]
  ++ (match f.rename with
      | some r => [.name r]
      | none => match f.ident with | some i => [.name i] | none => [])
  ++ [.free (.typeName (cleanTypeString f.tyText))]
  ++ (docsCall c f.docs).map .free

/-- `generate_fields`: `#[codec(skip)]` members are not emitted -/
def fieldsCalls (c : Capture) (fs : List FieldD) : List (List (Build.FCall TyExpr)) :=
  (fs.filter (fun f => !f.skip)).map (fieldCalls c)

def shapeFields : ShapeD → List FieldD
  | .unit => []
  | .named fs => fs
  | .unnamed fs => fs

/-- `variant_index`: `#[codec(index)]`, else the discriminant, else the position among the
    non-skipped variants; then `as u8` -/
def variantIndex (v : VariantD) (i : Nat) : Nat :=
  (match v.codecIndex with
   | some n => n
   | none => match v.discriminant with | some d => d | none => i) % 256

def variantCalls (c : Capture) (v : VariantD) (i : Nat) : Str × List (Build.VCall TyExpr) :=
  (v.ident,
   [.index (variantIndex v i)]
   ++ (match v.shape with
       | .unit => []
       | s => [.fields (fieldsCalls c (shapeFields s))])
   ++ (docsCall c v.docs).map .free)

def enumFrom {α} (i : Nat) : List α → List (Nat × α)
  | [] => []
  | a :: as => (i, a) :: enumFrom (i + 1) as

/-- `generate_variant_type`: skipped variants filtered first, then enumerated -/
def variantsCalls (c : Capture) (vs : List VariantD) : List (Str × List (Build.VCall TyExpr)) :=
  (enumFrom 0 (vs.filter (fun v => !v.skip))).map (fun iv => variantCalls c iv.2 iv.1)

def term (d : Decl) : Build.Term TyExpr :=
  match d.body with
  | .struct s => .composite (fieldsCalls d.capture (shapeFields s))
  | .enum vs => .variant (variantsCalls d.capture vs)

def paramsOf (d : Decl) : List (TypeParam TyExpr) :=
  d.params.map (fun p => { name := p.name, ty := if p.skipped then none else some p.arg })

/-- the `type_info()` body the macro emits: `Type::builder().path(Path::new_with_replace(..))
    .type_params(..) docs .composite(..)/.variant(..)`; `none` = the path constructor panics -/
def typeInfo (docs : Bool) (d : Decl) : Option (Ty TyExpr) :=
  match PathM.newWithReplace d.ident d.modulePath d.replace with
  | none => none
  | some p =>
    Build.run { docs := docs } Impls.isPhantom
      ([.path p, .typeParams (paramsOf d)] ++ (docsCall d.capture d.docs).map .free) (term d)

end Derive
end SIM
