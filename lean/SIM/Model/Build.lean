/-
  SIM.Model.Build — the builders of src/build.rs (`TypeBuilder`, `FieldsBuilder`, `FieldBuilder`,
  `Variants`, `VariantBuilder`), `TypeDefTuple::new` (src/ty/mod.rs:479-497) and the conversion
  `From<TypeDef*> for Type` (empty path), as an interpreter of builder-call sequences.

  * every setter overwrites (`self.docs = ..`): the last call wins;
  * `docs(..)` is a no-op without the `docs` cargo feature (`cfg.docs`), `docs_always(..)` never is;
    `docs_portable` exists only with the feature and then sets;
  * the MetaForm `FieldsBuilder::push_field` drops a field whose type is PhantomData
    (`isPhantom`), the PortableForm one keeps everything (`isPhantom := fun _ => false`);
  * `finalize`/`build` panic (`none`) when the type / path was never set — unreachable through the
    typestate API except via `Default` (DESIGN.md §6, C20).
-/
import SIM.Model.Types
namespace SIM
namespace Build

structure Cfg where
  docs : Bool

/-- setters available in every typestate -/
inductive Free
  | typeName (s : Str)            -- field builder only
  | docs (l : List Str)           -- feature gated
  | docsAlways (l : List Str)
  | docsPortable (l : List Str)   -- exists only with the feature
  deriving DecidableEq, Repr

inductive FCall (R : Type)
  | name (s : Str)
  | ty (r : R)                    -- `.ty::<T>()` / `.compact::<T>()` (r = identity of `Compact<T>`) / `.ty(id)`
  | free (f : Free)
  deriving Repr

structure FB (R : Type) where
  name : Option Str := none
  ty : Option R := none
  typeName : Option Str := none
  docs : List Str := []

def applyDocs (cfg : Cfg) (cur : List Str) : Free → List Str
  | .docs l => if cfg.docs then l else cur
  | .docsAlways l => l
  | .docsPortable l => l
  | .typeName _ => cur

def FB.step {R} (cfg : Cfg) (fb : FB R) : FCall R → FB R
  | .name s => { fb with name := some s }
  | .ty r => { fb with ty := some r }
  | .free (.typeName s) => { fb with typeName := some s }
  | .free f => { fb with docs := applyDocs cfg fb.docs f }

/-- run a field builder closure and `finalize` it -/
def fieldOf {R} (cfg : Cfg) (calls : List (FCall R)) : Option (Field R) :=
  let fb := calls.foldl (FB.step cfg) {}
  match fb.ty with
  | none => none
  | some r => some { name := fb.name, ty := r, typeName := fb.typeName, docs := fb.docs }

/-- `FieldsBuilder::field(..)` repeated: finalize each, `push_field` filters PhantomData -/
def fieldsOf {R} (cfg : Cfg) (isPhantom : R → Bool) : List (List (FCall R)) → Option (List (Field R))
  | [] => some []
  | c :: cs =>
    match fieldOf cfg c with
    | none => none
    | some f =>
      match fieldsOf cfg isPhantom cs with
      | none => none
      | some fs => some (if isPhantom f.ty then fs else f :: fs)

inductive VCall (R : Type)
  | index (n : Nat)
  | discriminant (n : Nat)
  | fields (fbs : List (List (FCall R)))
  | free (f : Free)
  deriving Repr

structure VB (R : Type) where
  index : Option Nat := none
  fields : Option (List (Field R)) := some []
  docs : List Str := []

def VB.step {R} (cfg : Cfg) (isPhantom : R → Bool) (vb : VB R) : VCall R → VB R
  | .index n => { vb with index := some n }
  | .discriminant _ => vb
  | .fields fbs => { vb with fields := fieldsOf cfg isPhantom fbs }
  | .free f => { vb with docs := applyDocs cfg vb.docs f }

/-- `Variants::variant(name, |v| ..)` -/
def variantOf {R} (cfg : Cfg) (isPhantom : R → Bool) (name : Str) (calls : List (VCall R)) : Option (Variant R) :=
  let vb := calls.foldl (VB.step cfg isPhantom) {}
  match vb.index, vb.fields with
  | some i, some fs => some { name := name, fields := fs, index := i, docs := vb.docs }
  | _, _ => none

def variantsOf {R} (cfg : Cfg) (isPhantom : R → Bool) : List (Str × List (VCall R)) → Option (List (Variant R))
  | [] => some []
  | (n, c) :: rest =>
    match variantOf cfg isPhantom n c with
    | none => none
    | some v =>
      match variantsOf cfg isPhantom rest with
      | none => none
      | some vs => some (v :: vs)

inductive TCall (R : Type)
  | path (p : List Str)
  | typeParams (ps : List (TypeParam R))
  | free (f : Free)
  deriving Repr

inductive Term (R : Type)
  | composite (fbs : List (List (FCall R)))
  | variant (vs : List (Str × List (VCall R)))
  deriving Repr

structure TB (R : Type) where
  path : Option (List Str) := none
  params : List (TypeParam R) := []
  docs : List Str := []

def TB.step {R} (cfg : Cfg) (tb : TB R) : TCall R → TB R
  | .path p => { tb with path := some p }
  | .typeParams ps => { tb with params := ps }
  | .free f => { tb with docs := applyDocs cfg tb.docs f }

/-- `Type::builder()` … `.composite(..)` / `.variant(..)` -/
def run {R} (cfg : Cfg) (isPhantom : R → Bool) (calls : List (TCall R)) (term : Term R) : Option (Ty R) :=
  let tb := calls.foldl (TB.step cfg) {}
  match tb.path with
  | none => none
  | some p =>
    match term with
    | .composite fbs =>
      match fieldsOf cfg isPhantom fbs with
      | none => none
      | some fs => some { path := p, params := tb.params, def_ := .composite fs, docs := tb.docs }
    | .variant vs =>
      match variantsOf cfg isPhantom vs with
      | none => none
      | some vs' => some { path := p, params := tb.params, def_ := .variant vs', docs := tb.docs }

/-- `TypeDefTuple::new`: PhantomData members are filtered -/
def tupleNew {R} (isPhantom : R → Bool) (ts : List R) : TypeDef R := .tuple (ts.filter (fun t => !isPhantom t))

/-- `impl From<TypeDef…> for Type`: empty path, no parameters, no docs -/
def ofDef {R} (d : TypeDef R) : Ty R := { path := [], params := [], def_ := d, docs := [] }

/-- the argument of the last call selected by `sel`, if any -/
def lastSome {α β} (sel : α → Option β) (l : List α) : Option β :=
  l.foldl (fun acc a => match sel a with | some b => some b | none => acc) none

end Build
end SIM
