/-
  SIM.Model.Typestate — which builder programs and which derive attribute lists the compiler accepts
  (property C20): the typestate automaton read off the signatures of src/build.rs, and the attribute
  validator of derive/src/attr.rs:41-140 + the union rejection of derive/src/lib.rs / trait_bounds.rs.
-/
import SIM.Model.Build
namespace SIM
namespace Typestate

/-! ### builders -/

/-- `ty` stands for every type-assigning call: `.ty::<T>()`, `.ty(id)` and `.compact::<T>()` all have the signature
    `FieldBuilder<F, N, TypeNotAssigned> → FieldBuilder<F, N, TypeAssigned>` -/
inductive FStep | name | ty | typeName | docs
  deriving DecidableEq, Repr

inductive FKind | unit | named | unnamed
  deriving DecidableEq, Repr

structure FieldsProg where
  kind : FKind
  fields : List (List FStep)
  deriving Repr

inductive VStep
  | index | discriminant | docs
  | fields (fp : FieldsProg)
  deriving Repr

inductive TStep
  | path | typeParams | docs
  | composite (fp : FieldsProg)
  | variant (vs : List (List VStep))
  deriving Repr

/-- a field builder closure type checks: `ty` exactly once (TypeNotAssigned → TypeAssigned, required by `finalize`'s
    bound on the closure's return type), `name` exactly once in a named builder and never in an unnamed one -/
def fieldOk (kind : FKind) (calls : List FStep) : Bool :=
  calls.count .ty == 1 &&
  (match kind with
   | .named => calls.count .name == 1
   | .unnamed => calls.count .name == 0
   | .unit => false)

def fieldsOk (fp : FieldsProg) : Bool :=
  match fp.kind with
  | .unit => fp.fields.isEmpty               -- `FieldsBuilder<_, NoFields>` has no `field` method
  | k => fp.fields.all (fieldOk k)

def isIndex : VStep → Bool | .index => true | _ => false

/-- a variant builder closure type checks: `index` exactly once (only available in IndexNotAssigned, required by the
    closure's return type), every `fields(..)` argument well formed -/
def variantOk (calls : List VStep) : Bool :=
  (calls.filter isIndex).length == 1 &&
  calls.all (fun c => match c with | .fields fp => fieldsOk fp | _ => true)

def isPath : TStep → Bool | .path => true | _ => false
def isTerminal : TStep → Bool | .composite _ => true | .variant _ => true | _ => false

/-- a type builder chain type checks: exactly one `.path(..)` (only on PathNotAssigned), exactly one terminal
    (`composite`/`variant`, only on PathAssigned, consuming the builder) which comes last and after the path -/
def accepts (prog : List TStep) : Bool :=
  (prog.filter isPath).length == 1 &&
  (prog.filter isTerminal).length == 1 &&
  (match prog.getLast? with
   | some (.composite fp) => fieldsOk fp
   | some (.variant vs) => vs.all variantOk
   | _ => false)

/-! ### derive attributes -/

inductive Attr
  | bounds (params : List Str)         -- bounds(P: .., ..): the parameters it names as a plain identifier
  | skipTypeParams (params : List Str)
  | captureDocs (value : Str)
  | crate_
  | replaceSegment
  | unknown                            -- any other key inside #[scale_info(..)]
  deriving Repr

def lower (s : Str) : Str := s.map (fun b => if 65 ≤ b && b ≤ 90 then b + 32 else b)

def captureOk (v : Str) : Bool :=
  let l := lower v
  l == [100, 101, 102, 97, 117, 108, 116] || l == [97, 108, 119, 97, 121, 115] || l == [110, 101, 118, 101, 114]

def isBounds : Attr → Bool | .bounds _ => true | _ => false
def isSkip : Attr → Bool | .skipTypeParams _ => true | _ => false
def isCapture : Attr → Bool | .captureDocs _ => true | _ => false
def isCrate : Attr → Bool | .crate_ => true | _ => false
def isUnknown : Attr → Bool | .unknown => true | _ => false

def boundsParams (attrs : List Attr) : Option (List Str) :=
  attrs.findSome? (fun a => match a with | .bounds ps => some ps | _ => none)
def skippedParams (attrs : List Attr) : List Str :=
  (attrs.findSome? (fun a => match a with | .skipTypeParams ps => some ps | _ => none)).getD []

/-- `Attributes::from_ast` returns Ok and the input is not a union -/
def deriveAccepts (isUnion : Bool) (typeParams : List Str) (attrs : List Attr) : Bool :=
  !isUnion &&
  !attrs.any isUnknown &&
  (attrs.filter isBounds).length ≤ 1 && (attrs.filter isSkip).length ≤ 1 &&
  (attrs.filter isCapture).length ≤ 1 && (attrs.filter isCrate).length ≤ 1 &&
  attrs.all (fun a => match a with | .captureDocs v => captureOk v | _ => true) &&
  (match boundsParams attrs with
   | none => true
   | some bs => typeParams.all (fun p => bs.contains p || (skippedParams attrs).contains p))

end Typestate
end SIM
