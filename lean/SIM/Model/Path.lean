/-
  SIM.Model.Path — src/utils.rs:16-35 (`is_rust_identifier`) and src/ty/path.rs:75-194
  (`Path::new`, `new_with_replace`, `from_segments`, `ident`, `namespace`, `Display`).
  Strings are byte lists (every operation involved is byte-wise: `is_ascii`,
  `trim_start_matches("r#")`, `split("::")` on ASCII patterns).
-/
import SIM.Model.Types
namespace SIM
namespace PathM

def isLower (b : UInt8) : Bool := 97 ≤ b && b ≤ 122
def isUpper (b : UInt8) : Bool := 65 ≤ b && b ≤ 90
def isDigit (b : UInt8) : Bool := 48 ≤ b && b ≤ 57
def isAscii (b : UInt8) : Bool := b < 128

def headOk (b : UInt8) : Bool := b == 95 || isLower b || isUpper b
def tailOk (b : UInt8) : Bool := b == 95 || isLower b || isUpper b || isDigit b

/-- `str::trim_start_matches("r#")`: strips the prefix *repeatedly*. -/
def trimStartRaw : Str → Str
  | 114 :: 35 :: rest => trimStartRaw rest
  | s => s

/-- `str::strip_prefix("r#").unwrap_or(s)`: strips the prefix once. -/
def stripRawOnce : Str → Str
  | 114 :: 35 :: rest => rest
  | s => s

/-- The raw-prefix handling of the code as it stands in /repo (see KNOWN_FINDINGS / fix commit). -/
def trimRaw : Str → Str := stripRawOnce

/-- the `split_first` / `head_ok && tail_ok` part of `is_rust_identifier` -/
def identBody : Str → Bool
  | [] => false
  | head :: tail => headOk head && tail.all tailOk

/-- `is_rust_identifier` (src/utils.rs:16-35) -/
def isRustIdentifier (s : Str) : Bool :=
  if !s.all isAscii then false
  else identBody (trimRaw s)

inductive PathError
  | missingSegments
  | invalidIdentifier (segment : Nat)
  deriving DecidableEq, Repr

deriving instance DecidableEq for Except

/-- index of the first element satisfying `p` (`Iterator::position`) -/
def position {α} (p : α → Bool) : List α → Option Nat
  | [] => none
  | x :: xs => if p x then some 0 else (position p xs).map (· + 1)

/-- `Path::from_segments` (src/ty/path.rs:113-125) -/
def fromSegments (segs : List Str) : Except PathError (List Str) :=
  if segs.isEmpty then .error .missingSegments
  else match position (fun s => !isRustIdentifier s) segs with
    | some i => .error (.invalidIdentifier i)
    | none => .ok segs

/-- `str::split("::")`: always at least one piece. `cur` accumulates the current piece reversed. -/
def splitColons (cur : Str) : Str → List Str
  | [] => [cur.reverse]
  | 58 :: 58 :: rest => cur.reverse :: splitColons [] rest
  | b :: rest => splitColons (b :: cur) rest

/-- first matching replacement, applied once (`find(|r| s == r.0).map_or(s, |r| r.1)`) -/
def replaceSeg (table : List (Str × Str)) (s : Str) : Str :=
  match table.find? (fun r => r.1 == s) with
  | some r => r.2
  | none => s

/-- `Path::new` / `new_with_replace`: `none` stands for the panic of `.expect(..)`. -/
def newWithReplace (ident modulePath : Str) (table : List (Str × Str)) : Option (List Str) :=
  match fromSegments ((splitColons [] modulePath ++ [ident]).map (replaceSeg table)) with
  | .ok p => some p
  | .error _ => none

def new (ident modulePath : Str) : Option (List Str) := newWithReplace ident modulePath []

/-- `Path::ident` -/
def ident (p : List Str) : Option Str := p.getLast?
/-- `Path::namespace` -/
def namespace_ (p : List Str) : List Str := p.dropLast
/-- `Display for Path<PortableForm>`: segments joined by `::` -/
def display : List Str → Str
  | [] => []
  | [s] => s
  | s :: rest => s ++ [58, 58] ++ display rest

end PathM

/-! ## Specification of an identifier: `(r#)?[A-Za-z_][A-Za-z0-9_]*` -/
namespace Spec

def isIdentBody : Str → Bool
  | [] => false
  | h :: t => PathM.headOk h && t.all PathM.tailOk

/-- `(r#)?[A-Za-z_][A-Za-z0-9_]*` -/
def isIdent (s : Str) : Bool :=
  match s with
  | 114 :: 35 :: rest => isIdentBody rest || isIdentBody s
  | _ => isIdentBody s

end Spec
end SIM
