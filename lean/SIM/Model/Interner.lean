/-
  SIM.Model.Interner — src/interner.rs:133-216 as the code has it:
  `map : BTreeMap<T, usize>` (an association list looked up by key) and `vec : Vec<T>`.
  That the two describe the same table is proved (SIM.Lemmas.Interner), not assumed.
-/
namespace SIM

structure Interner (α : Type) where
  map : List (α × Nat)
  vec : List α
  deriving Repr

namespace Interner
variable {α : Type} [DecidableEq α]

def empty : Interner α := { map := [], vec := [] }

/-- `BTreeMap::get` -/
def mapGet (m : List (α × Nat)) (x : α) : Option Nat :=
  match m with
  | [] => none
  | (k, v) :: rest => if k = x then some v else mapGet rest x

/-- `intern_or_get` (src/interner.rs:168-186): returns (inserted, symbol id, new state). -/
def internOrGet (it : Interner α) (x : α) : Bool × Nat × Interner α :=
  let nextId := it.vec.length
  match mapGet it.map x with
  | none => (true, nextId, { map := it.map ++ [(x, nextId)], vec := it.vec ++ [x] })
  | some id => (false, id, it)

/-- `get` (src/interner.rs:190-195) -/
def get (it : Interner α) (x : α) : Option Nat := mapGet it.map x

/-- `resolve` (src/interner.rs:199-205) -/
def resolve (it : Interner α) (sym : Nat) : Option α :=
  if sym ≥ it.vec.length then none else it.vec[sym]?

/-- `elements` (src/interner.rs:208-210) -/
def elements (it : Interner α) : List α := it.vec

end Interner

/-! ## The abstract specification: a duplicate-free list -/
namespace DL
variable {α : Type} [DecidableEq α]

def intern (l : List α) (x : α) : Bool × Nat × List α :=
  if x ∈ l then (false, l.idxOf x, l) else (true, l.length, l ++ [x])

def get (l : List α) (x : α) : Option Nat := if x ∈ l then some (l.idxOf x) else none

def resolve (l : List α) (i : Nat) : Option α := l[i]?

end DL
end SIM
