/-
  SIM.Model.Types — the data types of a scale-info type description.

  Transcribes src/ty/mod.rs (Type, TypeParameter, TypeDef, TypeDefPrimitive,
  TypeDefArray/Tuple/Sequence/Compact/BitSequence), src/ty/fields.rs (Field),
  src/ty/variant.rs (TypeDefVariant, Variant), src/ty/composite.rs, src/ty/path.rs
  (Path = list of segments) and src/portable.rs (PortableType, PortableRegistry).

  The parameter `R` is the type of a *reference to another type*: a type identity
  on the MetaForm side, a numeric id on the PortableForm side.
  Strings are UTF-8 byte lists (`Str`); validity is a predicate, not a subtype.
-/
namespace SIM

abbrev Str := List UInt8

inductive Prim
  | bool | char | str | u8 | u16 | u32 | u64 | u128 | u256
  | i8 | i16 | i32 | i64 | i128 | i256
  deriving DecidableEq, Repr, Inhabited

structure Field (R : Type) where
  name : Option Str
  ty : R
  typeName : Option Str
  docs : List Str
  deriving DecidableEq, Repr

structure Variant (R : Type) where
  name : Str
  fields : List (Field R)
  index : Nat
  docs : List Str
  deriving DecidableEq, Repr

inductive TypeDef (R : Type)
  | composite (fs : List (Field R))
  | variant (vs : List (Variant R))
  | sequence (t : R)
  | array (len : Nat) (t : R)
  | tuple (ts : List R)
  | primitive (p : Prim)
  | compact (t : R)
  | bitSequence (store : R) (order : R)
  deriving DecidableEq, Repr

structure TypeParam (R : Type) where
  name : Str
  ty : Option R
  deriving DecidableEq, Repr

structure Ty (R : Type) where
  path : List Str
  params : List (TypeParam R)
  def_ : TypeDef R
  docs : List Str
  deriving DecidableEq, Repr

structure PType where
  id : Nat
  ty : Ty Nat
  deriving DecidableEq, Repr

abbrev PortableRegistry := List PType

/-! ## map: replace every reference, change nothing else -/

def Field.map {R R'} (g : R → R') (f : Field R) : Field R' :=
  { name := f.name, ty := g f.ty, typeName := f.typeName, docs := f.docs }

def Variant.map {R R'} (g : R → R') (v : Variant R) : Variant R' :=
  { name := v.name, fields := v.fields.map (Field.map g), index := v.index, docs := v.docs }

def TypeDef.map {R R'} (g : R → R') : TypeDef R → TypeDef R'
  | .composite fs => .composite (fs.map (Field.map g))
  | .variant vs => .variant (vs.map (Variant.map g))
  | .sequence t => .sequence (g t)
  | .array n t => .array n (g t)
  | .tuple ts => .tuple (ts.map g)
  | .primitive p => .primitive p
  | .compact t => .compact (g t)
  | .bitSequence s o => .bitSequence (g s) (g o)

def TypeParam.map {R R'} (g : R → R') (p : TypeParam R) : TypeParam R' :=
  { name := p.name, ty := p.ty.map g }

def Ty.map {R R'} (g : R → R') (t : Ty R) : Ty R' :=
  { path := t.path, params := t.params.map (TypeParam.map g), def_ := t.def_.map g, docs := t.docs }

/-! ## refs: the references of a type, in the order the Rust code visits them
    (type parameters first — `Type::into_portable` converts `type_params` before
    `type_def` — then the definition left to right). -/

def fieldRefs {R} (fs : List (Field R)) : List R := fs.map (·.ty)

def variantRefs {R} (vs : List (Variant R)) : List R := vs.flatMap (fun v => fieldRefs v.fields)

def TypeDef.refs {R} : TypeDef R → List R
  | .composite fs => fieldRefs fs
  | .variant vs => variantRefs vs
  | .sequence t => [t]
  | .array _ t => [t]
  | .tuple ts => ts
  | .primitive _ => []
  | .compact t => [t]
  | .bitSequence s o => [s, o]

def paramRefs {R} (ps : List (TypeParam R)) : List R := ps.filterMap (·.ty)

def Ty.refs {R} (t : Ty R) : List R := paramRefs t.params ++ t.def_.refs

/-! ## fill: rebuild a type around a replacement list of references (consumed in `refs` order).
    A too-short list is padded with `default`; every use supplies a list of exactly
    `refs.length` elements (`travList_length`). -/

def fillFields {R R'} [Inhabited R'] : List (Field R) → List R' → List (Field R') × List R'
  | [], rs => ([], rs)
  | f :: fs, rs =>
    let r := fillFields fs rs.tail
    ({ name := f.name, ty := rs.headD default, typeName := f.typeName, docs := f.docs } :: r.1, r.2)

def fillVariants {R R'} [Inhabited R'] : List (Variant R) → List R' → List (Variant R') × List R'
  | [], rs => ([], rs)
  | v :: vs, rs =>
    let a := fillFields v.fields rs
    let r := fillVariants vs a.2
    ({ name := v.name, fields := a.1, index := v.index, docs := v.docs } :: r.1, r.2)

def fillParams {R R'} [Inhabited R'] : List (TypeParam R) → List R' → List (TypeParam R') × List R'
  | [], rs => ([], rs)
  | p :: ps, rs =>
    match p.ty with
    | none =>
      let r := fillParams ps rs
      ({ name := p.name, ty := none } :: r.1, r.2)
    | some _ =>
      let r := fillParams ps rs.tail
      ({ name := p.name, ty := some (rs.headD default) } :: r.1, r.2)

def TypeDef.fill {R R'} [Inhabited R'] (d : TypeDef R) (rs : List R') : TypeDef R' :=
  match d with
  | .composite fs => .composite (fillFields fs rs).1
  | .variant vs => .variant (fillVariants vs rs).1
  | .sequence _ => .sequence (rs.headD default)
  | .array n _ => .array n (rs.headD default)
  | .tuple ts => .tuple (rs.take ts.length)
  | .primitive p => .primitive p
  | .compact _ => .compact (rs.headD default)
  | .bitSequence _ _ => .bitSequence (rs.headD default) (rs.tail.headD default)

def Ty.fill {R R'} [Inhabited R'] (t : Ty R) (rs : List R') : Ty R' :=
  let a := fillParams t.params rs
  { path := t.path, params := a.1, def_ := t.def_.fill a.2, docs := t.docs }

/-! ## Well-formedness of a portable registry (property C01) -/

/-- dense: entry `i` carries id `i`; closed: every reference is below the length. -/
def WF (r : PortableRegistry) : Prop :=
  ∀ i, (h : i < r.length) → (r[i]).id = i ∧ ∀ x ∈ (r[i]).ty.refs, x < r.length

/-- `PortableRegistry::resolve` (src/portable.rs:60-62): index, do not search. -/
def resolve (r : PortableRegistry) (id : Nat) : Option (Ty Nat) := (r[id]?).map (·.ty)

end SIM
