/-
  SIM.Model.Value — SCALE values and the SCALE encoding rules (what `parity-scale-codec` 3.7.5
  writes for the std types and what its derive writes for structs/enums), and a decoder that
  knows ONLY a `PortableRegistry` and those rules (`decodeVal`): the reader of C03/C04.

  `Val` records what a schema-directed decoder can recover: leaf values with their width, field
  names and order, the variant chosen (name and index), element lists, bit lists.
-/
import SIM.Model.Types
import SIM.Model.Codec
namespace SIM

inductive Val
  | uint (bits : Nat) (n : Nat)                  -- u8 … u256
  | sint (bits : Nat) (z : Int)                  -- i8 … i256, two's complement
  | bool (b : Bool)
  | str (s : Str)
  | seq (vs : List Val)                          -- Vec / slice / VecDeque / BTreeSet contents …
  | array (vs : List Val)
  | tuple (vs : List Val)
  | composite (fs : List (Option Str × Val))     -- (field name, value) in declaration order
  | variant (name : Str) (index : Nat) (fs : List (Option Str × Val))
  | compact (bits : Nat) (n : Nat)               -- `Compact<uN>`
  | bits (w : Nat) (msb : Bool) (bs : List Bool) -- BitVec<uW, Lsb0|Msb0>
  deriving Repr, BEq

namespace Value
open Codec

/-- number of little-endian bytes needed for `n` (at least `k`) -/
def leLen : Nat → Nat → Nat
  | 0, _ => 0
  | fuel + 1, n => if n = 0 then 0 else 1 + leLen fuel (n / 256)

/-- general compact integer (`Compact<u8..u128>`): 1/2/4-byte modes, then big-integer mode with the
    minimal number of bytes (at least 4), prefix `((len - 4) << 2) | 3` -/
def encCompactBig (n : Nat) : Bytes :=
  if n < 1073741824 then encCompact n
  else
    let len := max 4 (leLen 64 n)
    UInt8.ofNat ((len - 4) * 4 + 3) :: le len n

def decCompactBig : Dec Nat := fun bs =>
  match bs with
  | [] => none
  | b :: rest =>
    if b.toNat % 4 = 3 then
      let len := b.toNat / 4 + 4
      match decLe len rest with
      | none => none
      | some (v, rest') =>
        -- canonical: big mode only for values ≥ 2^30, and no leading zero byte beyond 4 bytes
        if v < 1073741824 then none
        else if len > 4 ∧ v < 256 ^ (len - 1) then none
        else some (v, rest')
    else decCompact bs

/-- two's complement of `z` in `bits` bits -/
def twos (bits : Nat) (z : Int) : Nat := (z % (2 ^ bits : Int)).toNat

def ofTwos (bits : Nat) (n : Nat) : Int :=
  if n < 2 ^ (bits - 1) then (n : Int) else (n : Int) - (2 ^ bits : Int)

/-- bits of one store element: bit `i` of the chunk sits at position `i` (Lsb0) or `w-1-i` (Msb0) -/
def chunkVal (w : Nat) (msb : Bool) (chunk : List Bool) : Nat :=
  (chunk.zipIdx.map (fun (p : Bool × Nat) => if p.1 then 2 ^ (if msb then w - 1 - p.2 else p.2) else 0)).sum

def chunks (w : Nat) : Nat → List Bool → List (List Bool)
  | 0, _ => []
  | fuel + 1, bs => if bs.isEmpty then [] else bs.take w :: chunks w fuel (bs.drop w)

def encBits (w : Nat) (msb : Bool) (bs : List Bool) : Bytes :=
  encCompact bs.length ++ (chunks w (bs.length + 1) bs).flatMap (fun c => le (w / 8) (chunkVal w msb c))

mutual
/-- the SCALE encoding of a value -/
def encode : Val → Bytes
  | .uint bits n => le (bits / 8) n
  | .sint bits z => le (bits / 8) (twos bits z)
  | .bool b => [if b then 1 else 0]
  | .str s => encStr s
  | .seq vs => encCompact vs.length ++ encodeList vs
  | .array vs => encodeList vs
  | .tuple vs => encodeList vs
  | .composite fs => encodeFields fs
  | .variant _ idx fs => UInt8.ofNat idx :: encodeFields fs
  | .compact _ n => encCompactBig n
  | .bits w msb bs => encBits w msb bs
def encodeList : List Val → Bytes
  | [] => []
  | v :: vs => encode v ++ encodeList vs
def encodeFields : List (Option Str × Val) → Bytes
  | [] => []
  | (_, v) :: fs => encode v ++ encodeFields fs
end

/-! ## the schema-directed decoder -/

def primBits : Prim → Option (Bool × Nat)   -- (signed, bits)
  | .u8 => some (false, 8) | .u16 => some (false, 16) | .u32 => some (false, 32) | .u64 => some (false, 64)
  | .u128 => some (false, 128) | .u256 => some (false, 256)
  | .i8 => some (true, 8) | .i16 => some (true, 16) | .i32 => some (true, 32) | .i64 => some (true, 64)
  | .i128 => some (true, 128) | .i256 => some (true, 256)
  | _ => none

def decPrimVal (p : Prim) : Dec Val := fun bs =>
  match p with
  | .bool =>
    match bs with
    | b :: rest => if b.toNat = 0 then some (.bool false, rest) else if b.toNat = 1 then some (.bool true, rest) else none
    | [] => none
  | .char => none                      -- no SCALE encoding
  | .str => Dec.map Val.str decStr bs
  | p =>
    match primBits p with
    | none => none
    | some (signed, bits) =>
      match decLe (bits / 8) bs with
      | none => none
      | some (n, rest) => some (if signed then .sint bits (ofTwos bits n) else .uint bits n, rest)

/-- decode the members of a composite / variant, in order, keeping their names -/
def decFields (f : Nat → Dec Val) : List (Field Nat) → Dec (List (Option Str × Val))
  | [] => fun bs => some ([], bs)
  | fld :: fs => fun bs =>
    match f fld.ty bs with
    | none => none
    | some (v, rest) =>
      match decFields f fs rest with
      | none => none
      | some (vs, rest') => some ((fld.name, v) :: vs, rest')

def decEach (f : Nat → Dec Val) : List Nat → Dec (List Val)
  | [] => fun bs => some ([], bs)
  | t :: ts => fun bs =>
    match f t bs with
    | none => none
    | some (v, rest) =>
      match decEach f ts rest with
      | none => none
      | some (vs, rest') => some (v :: vs, rest')

def bitsOfChunk (w : Nat) (msb : Bool) (v : Nat) (k : Nat) : List Bool :=
  (List.range k).map (fun i => (v / 2 ^ (if msb then w - 1 - i else i)) % 2 = 1)

/-- `n` bits out of store elements of width `w` -/
def decBitChunks (w : Nat) (msb : Bool) : Nat → Nat → Dec (List Bool)
  | 0, _ => fun bs => some ([], bs)
  | fuel + 1, n => fun bs =>
    if n = 0 then some ([], bs)
    else
      match decLe (w / 8) bs with
      | none => none
      | some (v, rest) =>
        let k := min w n
        match decBitChunks w msb fuel (n - k) rest with
        | none => none
        | some (more, rest') => some (bitsOfChunk w msb v k ++ more, rest')

def lsb0Name : Str := [76, 115, 98, 48]
def msb0Name : Str := [77, 115, 98, 48]

/-- store width of a bit sequence: the store type must resolve to u8/u16/u32/u64 -/
def storeWidth (reg : PortableRegistry) (id : Nat) : Option Nat :=
  match resolve reg id with
  | some t => (match t.def_ with
    | .primitive .u8 => some 8 | .primitive .u16 => some 16 | .primitive .u32 => some 32 | .primitive .u64 => some 64
    | _ => none)
  | none => none

/-- bit order: the order type's path ends in `Lsb0` / `Msb0` -/
def orderMsb (reg : PortableRegistry) (id : Nat) : Option Bool :=
  match resolve reg id with
  | some t => (match t.path.getLast? with
    | some s => if s = lsb0Name then some false else if s = msb0Name then some true else none
    | none => none)
  | none => none

/-- **the decoder that knows only the registry and the SCALE rules.** Fails (never guesses) on an
    unresolvable id, an unknown variant index, a non-canonical compact, `char`. -/
def decodeVal (reg : PortableRegistry) : Nat → Nat → Dec Val
  | 0, _ => fun _ => none
  | fuel + 1, id => fun bs =>
    match resolve reg id with
    | none => none
    | some t =>
      match t.def_ with
      | .primitive p => decPrimVal p bs
      | .composite fs => Dec.map Val.composite (decFields (decodeVal reg fuel) fs) bs
      | .variant vs =>
        (match bs with
        | [] => none
        | b :: rest =>
          match vs.find? (fun v => v.index == b.toNat) with
          | none => none
          | some v => Dec.map (Val.variant v.name v.index) (decFields (decodeVal reg fuel) v.fields) rest)
      | .sequence e =>
        (match decCompact bs with
        | none => none
        | some (n, rest) => Dec.map Val.seq (Dec.rep (decodeVal reg fuel e) n) rest)
      | .array n e => Dec.map Val.array (Dec.rep (decodeVal reg fuel e) n) bs
      | .tuple ts => Dec.map Val.tuple (decEach (decodeVal reg fuel) ts) bs
      | .compact e =>
        (match resolve reg e with
        | none => none
        | some te =>
          match te.def_ with
          | .primitive p =>
            (match primBits p with
            | some (false, bits) =>
              (match decCompactBig bs with
              | none => none
              | some (n, rest) => if n < 2 ^ bits then some (.compact bits n, rest) else none)
            | _ => none)
          | _ => none)
      | .bitSequence s o =>
        (match storeWidth reg s, orderMsb reg o with
        | some w, some msb =>
          (match decCompact bs with
          | none => none
          | some (n, rest) => Dec.map (Val.bits w msb) (decBitChunks w msb (n + 1) n) rest)
        | _, _ => none)

end Value
end SIM
