/-
  SIM.Model.Bounds — the where-clause the derive generates (derive/src/trait_bounds.rs:40-222) and
  when an instantiation satisfies it, for property C13.

  Declaration-side types are `TyExpr`s in which
    `adt (1000+k) _`  is the k-th type parameter,
    `adt (2000+k) _`  is the associated type `P_k::A` (the parameter is bounded by a helper trait),
    `adt (2500+k) _`  is the associated type `P_k::S`, named like the declared type itself (k < 500),
    `adt 3000 _`      is a reference to the declared type itself (written with its bare identifier),
    `adt 4000 [x]`    is `Wrapper<x>`, a helper generic struct deriving TypeInfo (has type info iff x has),
    `adt 4001 [x]`    is `NoInfoW<x>`, a helper generic struct WITHOUT a TypeInfo impl,
    `adt 4002 []`     is `NoInfo`, a helper type without TypeInfo,
    `adt 4003 []`     is `Good`: has TypeInfo, implements the helper trait with `A = u8`,
    `adt 4004 []`     is `Bad`:  has TypeInfo, implements the helper trait with `A = NoInfo`.
-/
import SIM.Model.Impls
namespace SIM
namespace Bounds

structure GField where
  ty : TyExpr
  skip : Bool        -- #[codec(skip)]
  compact : Bool     -- #[codec(compact)]
  deriving Repr

structure GParam where
  name : Str
  skipped : Bool     -- in skip_type_params(..)
  deriving Repr

structure GDecl where
  params : List GParam
  customBounds : Option (List Nat)   -- `bounds(P_i: TypeInfo + 'static, ..)`: indices of the parameters it names
  fields : List GField               -- all fields of all (non-skipped) variants
  deriving Repr

/-- does the type mention one of the type parameters (`type_contains_idents`) -/
def mentionsParam : TyExpr → Bool
  | .adt n a => (1000 ≤ n && n < 3000) || mentionsParam a
  | .array _ t => mentionsParam t
  | .tupleCons h r => mentionsParam h || mentionsParam r
  | .slice t => mentionsParam t | .vec t => mentionsParam t | .vecDeque t => mentionsParam t
  | .option t => mentionsParam t | .result t e => mentionsParam t || mentionsParam e
  | .box_ t => mentionsParam t | .rc t => mentionsParam t | .arc t => mentionsParam t
  | .ref_ t => mentionsParam t | .refMut t => mentionsParam t | .cow t => mentionsParam t
  | .btreeMap k v => mentionsParam k || mentionsParam v | .btreeSet t => mentionsParam t | .binaryHeap t => mentionsParam t
  | .compact t => mentionsParam t | .range t => mentionsParam t | .rangeIncl t => mentionsParam t
  | .phantom t => mentionsParam t | .bitVec s o => mentionsParam s || mentionsParam o
  | _ => false

/-- does the type, or a sub-type path, start with the declared type's own identifier
    (`type_or_sub_type_path_starts_with_ident`) -/
def mentionsSelf : TyExpr → Bool
  | .adt n a => n == 3000 || mentionsSelf a
  | .array _ t => mentionsSelf t
  | .tupleCons h r => mentionsSelf h || mentionsSelf r
  | .slice t => mentionsSelf t | .vec t => mentionsSelf t | .vecDeque t => mentionsSelf t
  | .option t => mentionsSelf t | .result t e => mentionsSelf t || mentionsSelf e
  | .box_ t => mentionsSelf t | .rc t => mentionsSelf t | .arc t => mentionsSelf t
  | .ref_ t => mentionsSelf t | .refMut t => mentionsSelf t | .cow t => mentionsSelf t
  | .btreeMap k v => mentionsSelf k || mentionsSelf v | .btreeSet t => mentionsSelf t | .binaryHeap t => mentionsSelf t
  | .compact t => mentionsSelf t | .range t => mentionsSelf t | .rangeIncl t => mentionsSelf t
  | .phantom t => mentionsSelf t | .bitVec s o => mentionsSelf s || mentionsSelf o
  | _ => false

inductive Pred
  | typeInfo (t : TyExpr)      -- `t: TypeInfo + 'static`
  | hasCompact (t : TyExpr)    -- `t: HasCompact`
  | static_ (k : Nat)          -- `P_k: 'static`
  deriving Repr

/-- `collect_types_to_bind` + `make_where_clause` (after fix commit 52f0a70: skipped members are not bound) -/
def whereClause (d : GDecl) : List Pred :=
  match d.customBounds with
  | some ks => ks.map (fun k => Pred.typeInfo (.adt (1000 + k) .tuple0)) ++ (List.range d.params.length).map Pred.static_
  | none =>
    if d.params.isEmpty then []
    else
      ((d.fields.filter (fun f => !f.skip && mentionsParam f.ty && !mentionsSelf f.ty)).map
        (fun f => if f.compact then Pred.hasCompact f.ty else Pred.typeInfo f.ty))
      ++ (List.range d.params.length).map (fun k =>
          if (d.params[k]?.map (·.skipped)).getD false then Pred.static_ k else Pred.typeInfo (.adt (1000 + k) .tuple0))

/-- what the generated body needs: every emitted member type has type info (`.ty::<T>()` / `.compact::<T>()`),
    every non-skipped parameter has type info (`meta_type::<P>()`) -/
def obligations (d : GDecl) : List Pred :=
  (d.fields.filter (fun f => !f.skip)).map (fun f => if f.compact then Pred.hasCompact f.ty else Pred.typeInfo f.ty)
  ++ ((List.range d.params.length).filter (fun k => !((d.params[k]?.map (·.skipped)).getD false))).map
      (fun k => Pred.typeInfo (.adt (1000 + k) .tuple0))

/-- instantiate parameters and associated types -/
def subst (inst : List TyExpr) : TyExpr → TyExpr
  | .adt n a =>
    if 1000 ≤ n && n < 2000 then inst[n - 1000]?.getD .tuple0
    else if 2000 ≤ n && n < 3000 then
      (match inst[(n - 2000) % 500]? with
       | some (.adt 4003 _) => .uint .w8
       | some (.adt 4004 _) => .adt 4002 .tuple0
       | _ => .adt 4002 .tuple0)
    else .adt n (subst inst a)
  | .array k t => .array k (subst inst t)
  | .tupleCons h r => .tupleCons (subst inst h) (subst inst r)
  | .slice t => .slice (subst inst t) | .vec t => .vec (subst inst t) | .vecDeque t => .vecDeque (subst inst t)
  | .option t => .option (subst inst t) | .result t e => .result (subst inst t) (subst inst e)
  | .box_ t => .box_ (subst inst t) | .rc t => .rc (subst inst t) | .arc t => .arc (subst inst t)
  | .ref_ t => .ref_ (subst inst t) | .refMut t => .refMut (subst inst t) | .cow t => .cow (subst inst t)
  | .btreeMap k v => .btreeMap (subst inst k) (subst inst v) | .btreeSet t => .btreeSet (subst inst t)
  | .binaryHeap t => .binaryHeap (subst inst t)
  | .compact t => .compact (subst inst t) | .range t => .range (subst inst t) | .rangeIncl t => .rangeIncl (subst inst t)
  | .phantom t => .phantom (subst inst t) | .bitVec s o => .bitVec (subst inst s) (subst inst o)
  | t => t

/-- does a closed type have a TypeInfo impl; `self` = the verdict for the declared type itself (coinductive reading) -/
def hasInfo (self : Bool) : TyExpr → Bool
  | .adt 3000 _ => self
  | .adt 4000 (.tupleCons x _) => hasInfo self x
  | .adt 4003 _ => true
  | .adt 4004 _ => true
  | .adt _ _ => false
  | .array _ t => hasInfo self t
  | .tuple0 => true
  | .tupleCons h r => hasInfo self h && hasInfo self r
  | .slice t => hasInfo self t | .vec t => hasInfo self t | .vecDeque t => hasInfo self t
  | .option t => hasInfo self t | .result t e => hasInfo self t && hasInfo self e
  | .box_ t => hasInfo self t | .rc t => hasInfo self t | .arc t => hasInfo self t
  | .ref_ t => hasInfo self t | .refMut t => hasInfo self t | .cow t => hasInfo self t
  | .btreeMap k v => hasInfo self k && hasInfo self v | .btreeSet t => hasInfo self t | .binaryHeap t => hasInfo self t
  | .compact t => hasInfo self t
  | .range t => hasInfo self t | .rangeIncl t => hasInfo self t
  | .phantom _ => true
  | .bitVec s o => hasInfo self s && hasInfo self o
  | _ => true

/-- `t: HasCompact` (the unsigned integers) and its compact form has type info -/
def hasCompact : TyExpr → Bool
  | .uint _ => true
  | _ => false

def holds (self : Bool) (inst : List TyExpr) : Pred → Bool
  | .typeInfo t => hasInfo self (subst inst t)
  | .hasCompact t => hasCompact (subst inst t)
  | .static_ _ => true

/-- the derived impl applies to the instantiation: every predicate of its where clause holds
    (the declared type itself is assumed to have type info while checking, as the trait solver does) -/
def usable (d : GDecl) (inst : List TyExpr) : Bool := (whereClause d).all (holds true inst)

end Bounds

namespace Spec
open Bounds

/-- **C13's condition**: the non-skipped parameters and the types of the members that are part of the
    encoding have type info -/
def usableSpec (d : GDecl) (inst : List TyExpr) : Bool :=
  ((List.range d.params.length).all (fun k =>
      ((d.params[k]?.map (·.skipped)).getD false) || hasInfo true (inst[k]?.getD .tuple0)))
  && (d.fields.all (fun f => f.skip ||
      (if f.compact then hasCompact (subst inst f.ty) else hasInfo true (subst inst f.ty))))

end Spec
end SIM
