/-
  SIM.Model.Registry — `Registry` (src/registry.rs:69-155) with the `IntoPortable` impls of
  src/ty/*.rs, and `From<Registry> for PortableRegistry` (src/portable.rs:45-57).

  * `table : Interner<TypeId>` — the interner model as the code has it;
  * `types : BTreeMap<UntrackedSymbol, Type<PortableForm>>` — a key-sorted association list
    (`insertSorted` = `BTreeMap::insert`, iteration = in key order);
  * `evals` — log of every consultation of `type_info()` (for C05's "evaluated at most once").

  `env : Nat → Ty Nat` gives each type identity (a `TypeId`, here a `Nat`) its `type_info()`,
  references being identities. `register_type` is a depth-first renumbering: intern the identity,
  and if it is new convert its definition — registering every referenced type in `Ty.refs`
  order — and only then store the converted definition under the id interned first.

  Fuel is a proof device (`SIM.C02.register_total`: `|graph| + 1` always suffices).
-/
import SIM.Model.Types
import SIM.Model.Interner
namespace SIM

structure RegState where
  table : Interner Nat
  types : List (Nat × Ty Nat)
  evals : List Nat

namespace Registry

def empty : RegState := { table := Interner.empty, types := [], evals := [] }

/-- `BTreeMap::insert` on a key-sorted association list (replaces an existing key) -/
def insertSorted (k : Nat) (d : Ty Nat) : List (Nat × Ty Nat) → List (Nat × Ty Nat)
  | [] => [(k, d)]
  | (k', d') :: rest =>
    if k < k' then (k, d) :: (k', d') :: rest
    else if k = k' then (k, d) :: rest
    else (k', d') :: insertSorted k d rest

/-- thread a state through a list of references, left to right -/
def travList {σ R R' : Type} (f : σ → R → Option (σ × R')) : σ → List R → Option (σ × List R')
  | s, [] => some (s, [])
  | s, r :: rs =>
    match f s r with
    | none => none
    | some (s1, r') =>
      match travList f s1 rs with
      | none => none
      | some (s2, rs') => some (s2, r' :: rs')

/-- `Registry::register_type` (src/registry.rs:120-127) + `Type::into_portable` -/
def registerType (env : Nat → Ty Nat) : Nat → RegState → Nat → Option (RegState × Nat)
  | 0, _, _ => none
  | fuel + 1, s, tid =>
    let r := s.table.internOrGet tid
    if r.1 then
      match travList (registerType env fuel)
          { table := r.2.2, types := s.types, evals := s.evals ++ [tid] } (env tid).refs with
      | none => none
      | some (s', rs) =>
        some ({ table := s'.table, types := insertSorted r.2.1 ((env tid).fill rs) s'.types, evals := s'.evals }, r.2.1)
    else some (s, r.2.1)

/-- `Registry::register_types` -/
def registerTypes (env : Nat → Ty Nat) (fuel : Nat) (s : RegState) (tids : List Nat) : Option (RegState × List Nat) :=
  travList (registerType env fuel) s tids

/-- `Registry::map_into_portable` over `Field<MetaForm>` values (`Field::into_portable`) -/
def mapIntoPortableFields (env : Nat → Ty Nat) (fuel : Nat) (s : RegState) (fs : List (Field Nat)) :
    Option (RegState × List (Field Nat)) :=
  match travList (registerType env fuel) s (fieldRefs fs) with
  | none => none
  | some (s', rs) => some (s', (fillFields fs rs).1)

/-- `From<Registry> for PortableRegistry`: read `types` out in key order -/
def toPortable (s : RegState) : PortableRegistry := s.types.map (fun kd => { id := kd.1, ty := kd.2 })

/-! ### histories of the three public operations -/

inductive Op
  | reg (tid : Nat)
  | regs (tids : List Nat)
  | mip (fs : List (Field Nat))

inductive Out
  | id (n : Nat)
  | ids (l : List Nat)
  | fields (fs : List (Field Nat))
  deriving DecidableEq

def step (env : Nat → Ty Nat) (fuel : Nat) (s : RegState) : Op → Option (RegState × Out)
  | .reg t => (registerType env fuel s t).map (fun r => (r.1, .id r.2))
  | .regs ts => (registerTypes env fuel s ts).map (fun r => (r.1, .ids r.2))
  | .mip fs => (mapIntoPortableFields env fuel s fs).map (fun r => (r.1, .fields r.2))

def run (env : Nat → Ty Nat) (fuel : Nat) : RegState → List Op → Option (RegState × List Out)
  | s, [] => some (s, [])
  | s, op :: ops =>
    match step env fuel s op with
    | none => none
    | some (s1, o) =>
      match run env fuel s1 ops with
      | none => none
      | some (s2, os) => some (s2, o :: os)

end Registry
end SIM
