/-
  SIM.Model.Builder — `PortableRegistryBuilder` (src/portable.rs:262-303):
  an `Interner<Type<PortableForm>>` with four methods.
-/
import SIM.Model.Types
import SIM.Model.Interner
namespace SIM

structure Builder where
  types : Interner (Ty Nat)

namespace Builder

def new : Builder := { types := Interner.empty }

/-- `register_type`: `self.types.intern_or_get(ty).1.id` -/
def registerType (b : Builder) (t : Ty Nat) : Nat × Builder :=
  let r := b.types.internOrGet t
  (r.2.1, { types := r.2.2 })

/-- `next_type_id`: `self.types.elements().len()` -/
def nextTypeId (b : Builder) : Nat := b.types.elements.length

/-- `get`: `self.types.elements().get(id)` -/
def get (b : Builder) (id : Nat) : Option (Ty Nat) := b.types.elements[id]?

/-- enumerate from `i` -/
def enumFrom (i : Nat) : List (Ty Nat) → PortableRegistry
  | [] => []
  | t :: ts => { id := i, ty := t } :: enumFrom (i + 1) ts

/-- `finish`: elements enumerated, `id = position` -/
def finish (b : Builder) : PortableRegistry := enumFrom 0 b.types.elements

end Builder
end SIM
