/-
  SIM.Model.Codec — the SCALE wire format of a `PortableRegistry` (the V14 layout of property C06),
  written from the layout: an encoder, and an independent decoder written as a parser of that grammar.

  What it models: the code `#[derive(Encode, Decode)]` generates (parity-scale-codec 3.7.5) for
  `PortableRegistry`, `PortableType` (src/portable.rs:35-43,217-229), `Type`, `TypeParameter`,
  `TypeDef`, `TypeDefPrimitive`, `TypeDefArray/Tuple/Sequence/Compact/BitSequence` (src/ty/mod.rs),
  `Field` (src/ty/fields.rs), `TypeDefVariant`, `Variant` (src/ty/variant.rs), `TypeDefComposite`
  (src/ty/composite.rs), `Path` (src/ty/path.rs), `UntrackedSymbol` (src/interner.rs:41-50, compact id),
  together with the codec's own impls for `Compact<u32>`, `u8`, `u32`, `Vec<T>`, `String`, `Option<T>`.

  Everything is a total function; a decoder returns `none` where the Rust decoder returns `Err`.
-/
import SIM.Model.Types
namespace SIM
namespace Codec

abbrev Bytes := List UInt8

/-- a decoder: consumes a prefix of the input, returns the value and the remainder -/
abbrev Dec (α : Type) := Bytes → Option (α × Bytes)

/-! ## combinators -/

def Dec.map {α β} (f : α → β) (d : Dec α) : Dec β := fun bs =>
  match d bs with
  | none => none
  | some (a, rest) => some (f a, rest)

def Dec.pair {α β} (d1 : Dec α) (d2 : Dec β) : Dec (α × β) := fun bs =>
  match d1 bs with
  | none => none
  | some (a, rest) =>
    match d2 rest with
    | none => none
    | some (b, rest') => some ((a, b), rest')

/-- keep the value only when it satisfies `p` (range checks of the Rust decoder) -/
def Dec.filter {α} (p : α → Bool) (d : Dec α) : Dec α := fun bs =>
  match d bs with
  | none => none
  | some (a, rest) => if p a then some (a, rest) else none

/-- `n` items in sequence -/
def Dec.rep {α} (d : Dec α) : Nat → Dec (List α)
  | 0 => fun bs => some ([], bs)
  | n + 1 => fun bs =>
    match d bs with
    | none => none
    | some (a, rest) =>
      match Dec.rep d n rest with
      | none => none
      | some (as, rest') => some (a :: as, rest')

/-! ## fixed-width little-endian integers -/

/-- `k` bytes, little endian -/
def le : Nat → Nat → Bytes
  | 0, _ => []
  | k + 1, n => UInt8.ofNat (n % 256) :: le k (n / 256)

def decLe : Nat → Dec Nat
  | 0 => fun bs => some (0, bs)
  | k + 1 => fun bs =>
    match bs with
    | [] => none
    | b :: rest =>
      match decLe k rest with
      | none => none
      | some (v, rest') => some (b.toNat + 256 * v, rest')

def encU8 (n : Nat) : Bytes := le 1 n
def decU8 : Dec Nat := decLe 1
def encU32 (n : Nat) : Bytes := le 4 n
def decU32 : Dec Nat := decLe 4

/-! ## compact integers (`Compact<u32>`) -/

/-- 1/2/4/5-byte forms on [0,2^6) [2^6,2^14) [2^14,2^30) [2^30,2^32) -/
def encCompact (n : Nat) : Bytes :=
  if n < 64 then le 1 (4 * n)
  else if n < 16384 then le 2 (4 * n + 1)
  else if n < 1073741824 then le 4 (4 * n + 2)
  else 3 :: le 4 n

/-- the codec's `Decode for Compact<u32>`: every value has exactly one accepted form -/
def decCompact : Dec Nat := fun bs =>
  match bs with
  | [] => none
  | b :: rest =>
    match b.toNat % 4 with
    | 0 => some (b.toNat / 4, rest)
    | 1 => Dec.filter (fun n => 64 ≤ n) (Dec.map (· / 4) (decLe 2)) bs
    | 2 => Dec.filter (fun n => 16384 ≤ n) (Dec.map (· / 4) (decLe 4)) bs
    | _ => if b.toNat = 3 then Dec.filter (fun n => 1073741824 ≤ n) (decLe 4) rest else none

/-! ## `Vec<T>`, `String`, `Option<T>` -/

def encVec {α} (f : α → Bytes) (l : List α) : Bytes := encCompact l.length ++ l.flatMap f

def decVec {α} (d : Dec α) : Dec (List α) := fun bs =>
  match decCompact bs with
  | none => none
  | some (n, rest) => Dec.rep d n rest

/-- UTF-8 validity of a byte list (the check `String::decode` performs through `String::from_utf8`).
    Uses Lean core's validator; the theorems are generic in it. -/
def validUtf8 (s : Str) : Bool := (ByteArray.mk s.toArray).validateUTF8

def take? (n : Nat) (bs : Bytes) : Option (Bytes × Bytes) :=
  if n ≤ bs.length then some (bs.take n, bs.drop n) else none

def encStr (s : Str) : Bytes := encCompact s.length ++ s

def decStr : Dec Str := fun bs =>
  match decCompact bs with
  | none => none
  | some (n, rest) =>
    match take? n rest with
    | none => none
    | some (s, rest') => if validUtf8 s then some (s, rest') else none

def encOpt {α} (f : α → Bytes) : Option α → Bytes
  | none => [0]
  | some a => 1 :: f a

def decOpt {α} (d : Dec α) : Dec (Option α) := fun bs =>
  match bs with
  | [] => none
  | b :: rest =>
    if b.toNat = 0 then some (none, rest)
    else if b.toNat = 1 then Dec.map some d rest
    else none

/-! ## the type description -/

def primTag : Prim → Nat
  | .bool => 0 | .char => 1 | .str => 2 | .u8 => 3 | .u16 => 4 | .u32 => 5 | .u64 => 6
  | .u128 => 7 | .u256 => 8 | .i8 => 9 | .i16 => 10 | .i32 => 11 | .i64 => 12 | .i128 => 13
  | .i256 => 14

def primOfTag : Nat → Option Prim
  | 0 => some .bool | 1 => some .char | 2 => some .str | 3 => some .u8 | 4 => some .u16
  | 5 => some .u32 | 6 => some .u64 | 7 => some .u128 | 8 => some .u256 | 9 => some .i8
  | 10 => some .i16 | 11 => some .i32 | 12 => some .i64 | 13 => some .i128 | 14 => some .i256
  | _ => none

/-- field = (optional name, compact id, optional type name, docs) -/
def encField (f : Field Nat) : Bytes :=
  encOpt encStr f.name ++ encCompact f.ty ++ encOpt encStr f.typeName ++ encVec encStr f.docs

def decField : Dec (Field Nat) :=
  Dec.map (fun (x : Option Str × Nat × Option Str × List Str) =>
      { name := x.1, ty := x.2.1, typeName := x.2.2.1, docs := x.2.2.2 })
    (Dec.pair (decOpt decStr) (Dec.pair decCompact (Dec.pair (decOpt decStr) (decVec decStr))))

/-- variant = (name, fields, u8 index, docs) -/
def encVariant (v : Variant Nat) : Bytes :=
  encStr v.name ++ encVec encField v.fields ++ encU8 v.index ++ encVec encStr v.docs

def decVariant : Dec (Variant Nat) :=
  Dec.map (fun (x : Str × List (Field Nat) × Nat × List Str) =>
      { name := x.1, fields := x.2.1, index := x.2.2.1, docs := x.2.2.2 })
    (Dec.pair decStr (Dec.pair (decVec decField) (Dec.pair decU8 (decVec decStr))))

/-- definition tagged 0..7 -/
def encTypeDef : TypeDef Nat → Bytes
  | .composite fs => 0 :: encVec encField fs
  | .variant vs => 1 :: encVec encVariant vs
  | .sequence t => 2 :: encCompact t
  | .array n t => 3 :: (encU32 n ++ encCompact t)
  | .tuple ts => 4 :: encVec encCompact ts
  | .primitive p => 5 :: encU8 (primTag p)
  | .compact t => 6 :: encCompact t
  | .bitSequence s o => 7 :: (encCompact s ++ encCompact o)

def decPrim : Dec Prim := fun bs =>
  match decU8 bs with
  | none => none
  | some (t, rest) =>
    match primOfTag t with
    | none => none
    | some p => some (p, rest)

def decTypeDef : Dec (TypeDef Nat) := fun bs =>
  match bs with
  | [] => none
  | tag :: rest =>
    match tag.toNat with
    | 0 => Dec.map TypeDef.composite (decVec decField) rest
    | 1 => Dec.map TypeDef.variant (decVec decVariant) rest
    | 2 => Dec.map TypeDef.sequence decCompact rest
    | 3 => Dec.map (fun (x : Nat × Nat) => TypeDef.array x.1 x.2) (Dec.pair decU32 decCompact) rest
    | 4 => Dec.map TypeDef.tuple (decVec decCompact) rest
    | 5 => Dec.map TypeDef.primitive decPrim rest
    | 6 => Dec.map TypeDef.compact decCompact rest
    | 7 => Dec.map (fun (x : Nat × Nat) => TypeDef.bitSequence x.1 x.2) (Dec.pair decCompact decCompact) rest
    | _ => none

/-- parameter = (name, optional compact id) -/
def encParam (p : TypeParam Nat) : Bytes := encStr p.name ++ encOpt encCompact p.ty

def decParam : Dec (TypeParam Nat) :=
  Dec.map (fun (x : Str × Option Nat) => { name := x.1, ty := x.2 }) (Dec.pair decStr (decOpt decCompact))

/-- type = path, parameters, definition, docs -/
def encTy (t : Ty Nat) : Bytes :=
  encVec encStr t.path ++ encVec encParam t.params ++ encTypeDef t.def_ ++ encVec encStr t.docs

def decTy : Dec (Ty Nat) :=
  Dec.map (fun (x : List Str × List (TypeParam Nat) × TypeDef Nat × List Str) =>
      { path := x.1, params := x.2.1, def_ := x.2.2.1, docs := x.2.2.2 })
    (Dec.pair (decVec decStr) (Dec.pair (decVec decParam) (Dec.pair decTypeDef (decVec decStr))))

/-- (compact id, type) -/
def encPType (p : PType) : Bytes := encCompact p.id ++ encTy p.ty

def decPType : Dec PType :=
  Dec.map (fun (x : Nat × Ty Nat) => { id := x.1, ty := x.2 }) (Dec.pair decCompact decTy)

/-- **the registry**: compact-length vector of (compact id, type) -/
def encode (r : PortableRegistry) : Bytes := encVec encPType r

def decode : Dec PortableRegistry := decVec decPType

/-! ## `Bounded`: what the Rust types can hold (u32 ids / lengths, u8 indices, UTF-8 strings) -/

def okStr (s : Str) : Prop := s.length < 4294967296 ∧ validUtf8 s = true
def okStrs (l : List Str) : Prop := l.length < 4294967296 ∧ ∀ s ∈ l, okStr s
def okOptStr : Option Str → Prop
  | none => True
  | some s => okStr s
def okId (n : Nat) : Prop := n < 4294967296
def okField (f : Field Nat) : Prop := okOptStr f.name ∧ okId f.ty ∧ okOptStr f.typeName ∧ okStrs f.docs
def okFields (fs : List (Field Nat)) : Prop := fs.length < 4294967296 ∧ ∀ f ∈ fs, okField f
def okVariant (v : Variant Nat) : Prop := okStr v.name ∧ okFields v.fields ∧ v.index < 256 ∧ okStrs v.docs
def okTypeDef : TypeDef Nat → Prop
  | .composite fs => okFields fs
  | .variant vs => vs.length < 4294967296 ∧ ∀ v ∈ vs, okVariant v
  | .sequence t => okId t
  | .array n t => n < 4294967296 ∧ okId t
  | .tuple ts => ts.length < 4294967296 ∧ ∀ t ∈ ts, okId t
  | .primitive _ => True
  | .compact t => okId t
  | .bitSequence s o => okId s ∧ okId o
def okParam (p : TypeParam Nat) : Prop := okStr p.name ∧ (match p.ty with | none => True | some t => okId t)
def okTy (t : Ty Nat) : Prop :=
  okStrs t.path ∧ (t.params.length < 4294967296 ∧ ∀ p ∈ t.params, okParam p) ∧ okTypeDef t.def_ ∧ okStrs t.docs
def okPType (p : PType) : Prop := okId p.id ∧ okTy p.ty
/-- every value of the Rust type `PortableRegistry` satisfies this -/
def Bounded (r : PortableRegistry) : Prop := r.length < 4294967296 ∧ ∀ p ∈ r, okPType p

end Codec
end SIM
