/- The schema SIM.C19.schema_accepts is proved about: a committed copy of what translators/schema_to_lean.py
   extracted from the real schema_for!(PortableRegistry) (SIM.C19.extracted_is_expected re-checks equality on every run). -/
import SIM.Model.Schema
namespace SIM
namespace Expected
open Schema JType Key

def def_Field_for_PortableForm : Schema :=
  (.node [.object] [.type_] [(.docs, (.node [.array] [] [] (some (.node [.string] [] [] none none [] [] [] none false none)) none [] [] [] none false none)),
    (.name, (.node [.string, .null] [] [] none none [] [] [] none false none)),
    (.type_, (.node [] [] [] none none [(.node [] [] [] none (some [85, 110, 116, 114, 97, 99, 107, 101, 100, 83, 121, 109, 98, 111, 108]) [] [] [] none false none)] [] [] none false none)),
    (.typeName, (.node [.string, .null] [] [] none none [] [] [] none false none))] none none [] [] [] none false none)

def def_PortableType : Schema :=
  (.node [.object] [.id, .type_] [(.id, (.node [.integer] [] [] none none [] [] [] none false (some 0))),
    (.type_, (.node [] [] [] none none [(.node [] [] [] none (some [84, 121, 112, 101, 95, 102, 111, 114, 95, 80, 111, 114, 116, 97, 98, 108, 101, 70, 111, 114, 109]) [] [] [] none false none)] [] [] none false none))] none none [] [] [] none false none)

def def_TypeDefArray_for_PortableForm : Schema :=
  (.node [.object] [.len, .type_] [(.len, (.node [.integer] [] [] none none [] [] [] none false (some 0))),
    (.type_, (.node [] [] [] none none [(.node [] [] [] none (some [85, 110, 116, 114, 97, 99, 107, 101, 100, 83, 121, 109, 98, 111, 108]) [] [] [] none false none)] [] [] none false none))] none none [] [] [] none false none)

def def_TypeDefBitSequence_for_PortableForm : Schema :=
  (.node [.object] [.bitOrderType, .bitStoreType] [(.bitOrderType, (.node [] [] [] none none [(.node [] [] [] none (some [85, 110, 116, 114, 97, 99, 107, 101, 100, 83, 121, 109, 98, 111, 108]) [] [] [] none false none)] [] [] none false none)),
    (.bitStoreType, (.node [] [] [] none none [(.node [] [] [] none (some [85, 110, 116, 114, 97, 99, 107, 101, 100, 83, 121, 109, 98, 111, 108]) [] [] [] none false none)] [] [] none false none))] none none [] [] [] none false none)

def def_TypeDefCompact_for_PortableForm : Schema :=
  (.node [.object] [.type_] [(.type_, (.node [] [] [] none none [(.node [] [] [] none (some [85, 110, 116, 114, 97, 99, 107, 101, 100, 83, 121, 109, 98, 111, 108]) [] [] [] none false none)] [] [] none false none))] none none [] [] [] none false none)

def def_TypeDefComposite_for_PortableForm : Schema :=
  (.node [.object] [] [(.fields, (.node [.array] [] [] (some (.node [] [] [] none (some [70, 105, 101, 108, 100, 95, 102, 111, 114, 95, 80, 111, 114, 116, 97, 98, 108, 101, 70, 111, 114, 109]) [] [] [] none false none)) none [] [] [] none false none))] none none [] [] [] none false none)

def def_TypeDefPrimitive : Schema :=
  (.node [] [] [] none none [] [] [(.node [.string] [] [] none none [] [] [] (some [[98, 111, 111, 108]]) false none),
    (.node [.string] [] [] none none [] [] [] (some [[99, 104, 97, 114]]) false none),
    (.node [.string] [] [] none none [] [] [] (some [[115, 116, 114]]) false none),
    (.node [.string] [] [] none none [] [] [] (some [[117, 56]]) false none),
    (.node [.string] [] [] none none [] [] [] (some [[117, 49, 54]]) false none),
    (.node [.string] [] [] none none [] [] [] (some [[117, 51, 50]]) false none),
    (.node [.string] [] [] none none [] [] [] (some [[117, 54, 52]]) false none),
    (.node [.string] [] [] none none [] [] [] (some [[117, 49, 50, 56]]) false none),
    (.node [.string] [] [] none none [] [] [] (some [[117, 50, 53, 54]]) false none),
    (.node [.string] [] [] none none [] [] [] (some [[105, 56]]) false none),
    (.node [.string] [] [] none none [] [] [] (some [[105, 49, 54]]) false none),
    (.node [.string] [] [] none none [] [] [] (some [[105, 51, 50]]) false none),
    (.node [.string] [] [] none none [] [] [] (some [[105, 54, 52]]) false none),
    (.node [.string] [] [] none none [] [] [] (some [[105, 49, 50, 56]]) false none),
    (.node [.string] [] [] none none [] [] [] (some [[105, 50, 53, 54]]) false none)] none false none)

def def_TypeDefSequence_for_PortableForm : Schema :=
  (.node [.object] [.type_] [(.type_, (.node [] [] [] none none [(.node [] [] [] none (some [85, 110, 116, 114, 97, 99, 107, 101, 100, 83, 121, 109, 98, 111, 108]) [] [] [] none false none)] [] [] none false none))] none none [] [] [] none false none)

def def_TypeDefVariant_for_PortableForm : Schema :=
  (.node [.object] [] [(.variants, (.node [.array] [] [] (some (.node [] [] [] none (some [86, 97, 114, 105, 97, 110, 116, 95, 102, 111, 114, 95, 80, 111, 114, 116, 97, 98, 108, 101, 70, 111, 114, 109]) [] [] [] none false none)) none [] [] [] none false none))] none none [] [] [] none false none)

def def_TypeDef_for_PortableForm : Schema :=
  (.node [] [] [] none none [] [] [(.node [.object] [.composite] [(.composite, (.node [] [] [] none (some [84, 121, 112, 101, 68, 101, 102, 67, 111, 109, 112, 111, 115, 105, 116, 101, 95, 102, 111, 114, 95, 80, 111, 114, 116, 97, 98, 108, 101, 70, 111, 114, 109]) [] [] [] none false none))] none none [] [] [] none true none),
    (.node [.object] [.variant] [(.variant, (.node [] [] [] none (some [84, 121, 112, 101, 68, 101, 102, 86, 97, 114, 105, 97, 110, 116, 95, 102, 111, 114, 95, 80, 111, 114, 116, 97, 98, 108, 101, 70, 111, 114, 109]) [] [] [] none false none))] none none [] [] [] none true none),
    (.node [.object] [.sequence] [(.sequence, (.node [] [] [] none (some [84, 121, 112, 101, 68, 101, 102, 83, 101, 113, 117, 101, 110, 99, 101, 95, 102, 111, 114, 95, 80, 111, 114, 116, 97, 98, 108, 101, 70, 111, 114, 109]) [] [] [] none false none))] none none [] [] [] none true none),
    (.node [.object] [.array] [(.array, (.node [] [] [] none (some [84, 121, 112, 101, 68, 101, 102, 65, 114, 114, 97, 121, 95, 102, 111, 114, 95, 80, 111, 114, 116, 97, 98, 108, 101, 70, 111, 114, 109]) [] [] [] none false none))] none none [] [] [] none true none),
    (.node [.object] [.tuple] [(.tuple, (.node [.array] [] [] (some (.node [] [] [] none (some [85, 110, 116, 114, 97, 99, 107, 101, 100, 83, 121, 109, 98, 111, 108]) [] [] [] none false none)) none [] [] [] none false none))] none none [] [] [] none true none),
    (.node [.object] [.primitive] [(.primitive, (.node [] [] [] none (some [84, 121, 112, 101, 68, 101, 102, 80, 114, 105, 109, 105, 116, 105, 118, 101]) [] [] [] none false none))] none none [] [] [] none true none),
    (.node [.object] [.compact] [(.compact, (.node [] [] [] none (some [84, 121, 112, 101, 68, 101, 102, 67, 111, 109, 112, 97, 99, 116, 95, 102, 111, 114, 95, 80, 111, 114, 116, 97, 98, 108, 101, 70, 111, 114, 109]) [] [] [] none false none))] none none [] [] [] none true none),
    (.node [.object] [.bitsequence] [(.bitsequence, (.node [] [] [] none (some [84, 121, 112, 101, 68, 101, 102, 66, 105, 116, 83, 101, 113, 117, 101, 110, 99, 101, 95, 102, 111, 114, 95, 80, 111, 114, 116, 97, 98, 108, 101, 70, 111, 114, 109]) [] [] [] none false none))] none none [] [] [] none true none)] none false none)

def def_TypeParameter_for_PortableForm : Schema :=
  (.node [.object] [.name] [(.name, (.node [.string] [] [] none none [] [] [] none false none)),
    (.type_, (.node [] [] [] none none [] [(.node [] [] [] none (some [85, 110, 116, 114, 97, 99, 107, 101, 100, 83, 121, 109, 98, 111, 108]) [] [] [] none false none),
      (.node [.null] [] [] none none [] [] [] none false none)] [] none false none))] none none [] [] [] none false none)

def def_Type_for_PortableForm : Schema :=
  (.node [.object] [.def_] [(.def_, (.node [] [] [] none none [(.node [] [] [] none (some [84, 121, 112, 101, 68, 101, 102, 95, 102, 111, 114, 95, 80, 111, 114, 116, 97, 98, 108, 101, 70, 111, 114, 109]) [] [] [] none false none)] [] [] none false none)),
    (.docs, (.node [.array] [] [] (some (.node [.string] [] [] none none [] [] [] none false none)) none [] [] [] none false none)),
    (.params, (.node [.array] [] [] (some (.node [] [] [] none (some [84, 121, 112, 101, 80, 97, 114, 97, 109, 101, 116, 101, 114, 95, 102, 111, 114, 95, 80, 111, 114, 116, 97, 98, 108, 101, 70, 111, 114, 109]) [] [] [] none false none)) none [] [] [] none false none)),
    (.path, (.node [.array] [] [] (some (.node [.string] [] [] none none [] [] [] none false none)) none [] [] [] none false none))] none none [] [] [] none false none)

def def_UntrackedSymbol : Schema :=
  (.node [.integer] [] [] none none [] [] [] none false (some 0))

def def_Variant_for_PortableForm : Schema :=
  (.node [.object] [.index, .name] [(.docs, (.node [.array] [] [] (some (.node [.string] [] [] none none [] [] [] none false none)) none [] [] [] none false none)),
    (.fields, (.node [.array] [] [] (some (.node [] [] [] none (some [70, 105, 101, 108, 100, 95, 102, 111, 114, 95, 80, 111, 114, 116, 97, 98, 108, 101, 70, 111, 114, 109]) [] [] [] none false none)) none [] [] [] none false none)),
    (.index, (.node [.integer] [] [] none none [] [] [] none false (some 0))),
    (.name, (.node [.string] [] [] none none [] [] [] none false none))] none none [] [] [] none false none)

/-- the `definitions` of the schema -/
def schemaDefs : List (Str × Schema) :=
  [([70, 105, 101, 108, 100, 95, 102, 111, 114, 95, 80, 111, 114, 116, 97, 98, 108, 101, 70, 111, 114, 109], def_Field_for_PortableForm),
   ([80, 111, 114, 116, 97, 98, 108, 101, 84, 121, 112, 101], def_PortableType),
   ([84, 121, 112, 101, 68, 101, 102, 65, 114, 114, 97, 121, 95, 102, 111, 114, 95, 80, 111, 114, 116, 97, 98, 108, 101, 70, 111, 114, 109], def_TypeDefArray_for_PortableForm),
   ([84, 121, 112, 101, 68, 101, 102, 66, 105, 116, 83, 101, 113, 117, 101, 110, 99, 101, 95, 102, 111, 114, 95, 80, 111, 114, 116, 97, 98, 108, 101, 70, 111, 114, 109], def_TypeDefBitSequence_for_PortableForm),
   ([84, 121, 112, 101, 68, 101, 102, 67, 111, 109, 112, 97, 99, 116, 95, 102, 111, 114, 95, 80, 111, 114, 116, 97, 98, 108, 101, 70, 111, 114, 109], def_TypeDefCompact_for_PortableForm),
   ([84, 121, 112, 101, 68, 101, 102, 67, 111, 109, 112, 111, 115, 105, 116, 101, 95, 102, 111, 114, 95, 80, 111, 114, 116, 97, 98, 108, 101, 70, 111, 114, 109], def_TypeDefComposite_for_PortableForm),
   ([84, 121, 112, 101, 68, 101, 102, 80, 114, 105, 109, 105, 116, 105, 118, 101], def_TypeDefPrimitive),
   ([84, 121, 112, 101, 68, 101, 102, 83, 101, 113, 117, 101, 110, 99, 101, 95, 102, 111, 114, 95, 80, 111, 114, 116, 97, 98, 108, 101, 70, 111, 114, 109], def_TypeDefSequence_for_PortableForm),
   ([84, 121, 112, 101, 68, 101, 102, 86, 97, 114, 105, 97, 110, 116, 95, 102, 111, 114, 95, 80, 111, 114, 116, 97, 98, 108, 101, 70, 111, 114, 109], def_TypeDefVariant_for_PortableForm),
   ([84, 121, 112, 101, 68, 101, 102, 95, 102, 111, 114, 95, 80, 111, 114, 116, 97, 98, 108, 101, 70, 111, 114, 109], def_TypeDef_for_PortableForm),
   ([84, 121, 112, 101, 80, 97, 114, 97, 109, 101, 116, 101, 114, 95, 102, 111, 114, 95, 80, 111, 114, 116, 97, 98, 108, 101, 70, 111, 114, 109], def_TypeParameter_for_PortableForm),
   ([84, 121, 112, 101, 95, 102, 111, 114, 95, 80, 111, 114, 116, 97, 98, 108, 101, 70, 111, 114, 109], def_Type_for_PortableForm),
   ([85, 110, 116, 114, 97, 99, 107, 101, 100, 83, 121, 109, 98, 111, 108], def_UntrackedSymbol),
   ([86, 97, 114, 105, 97, 110, 116, 95, 102, 111, 114, 95, 80, 111, 114, 116, 97, 98, 108, 101, 70, 111, 114, 109], def_Variant_for_PortableForm)]

/-- the root schema (of `PortableRegistry`) -/
def schemaRoot : Schema :=
  (.node [.object] [.types] [(.types, (.node [.array] [] [] (some (.node [] [] [] none (some [80, 111, 114, 116, 97, 98, 108, 101, 84, 121, 112, 101]) [] [] [] none false none)) none [] [] [] none false none))] none none [] [] [] none false none)

end Expected
end SIM
