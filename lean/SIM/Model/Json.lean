/-
  SIM.Model.Json — the JSON form of a `PortableRegistry` as serde produces and reads it.

  `ofRegistry` transcribes what `#[derive(Serialize)]` with the attributes in src/portable.rs,
  src/ty/*.rs, src/interner.rs generates (renames `type`/`params`/`def`/`typeName`, lower-case
  externally tagged definitions, transparent ids / paths / tuples, `skip_serializing_if` on empty
  `path`/`params`/`fields`/`variants`/`docs` and absent names). `toRegistry` transcribes the derived
  `Deserialize` on the map form: a missing member with `#[serde(default)]` takes its default, `null`
  for an `Option` is `None`, unknown keys are ignored, a wrong-typed or out-of-range member is
  rejected. serde's alternative encodings are modelled too: a struct given as a positional array
  (the derived `visit_seq`: members in declaration order, a missing trailing member takes its
  `#[serde(default)]` or is an error, serde_json rejects surplus elements) and a unit variant given
  as `{"name": null}`. `DeErr.unmodelled` is kept for the driver's verdict type; the model no longer
  produces it.

  Object keys are a closed enumeration plus `other`; the text of each key is in `Key.text`
  (used by the driver's parser/printer only).
-/
import SIM.Model.Types
namespace SIM

inductive Key
  | types
  | id
  | type_
  | path
  | params
  | def_
  | docs
  | name
  | typeName
  | index
  | fields
  | variants
  | len
  | composite
  | variant
  | sequence
  | array
  | tuple
  | primitive
  | compact
  | bitsequence
  | bitStoreType
  | bitOrderType
  | other (s : Str)
  deriving DecidableEq, Repr

def Key.text : Key → Str
  | .types => [116, 121, 112, 101, 115]
  | .id => [105, 100]
  | .type_ => [116, 121, 112, 101]
  | .path => [112, 97, 116, 104]
  | .params => [112, 97, 114, 97, 109, 115]
  | .def_ => [100, 101, 102]
  | .docs => [100, 111, 99, 115]
  | .name => [110, 97, 109, 101]
  | .typeName => [116, 121, 112, 101, 78, 97, 109, 101]
  | .index => [105, 110, 100, 101, 120]
  | .fields => [102, 105, 101, 108, 100, 115]
  | .variants => [118, 97, 114, 105, 97, 110, 116, 115]
  | .len => [108, 101, 110]
  | .composite => [99, 111, 109, 112, 111, 115, 105, 116, 101]
  | .variant => [118, 97, 114, 105, 97, 110, 116]
  | .sequence => [115, 101, 113, 117, 101, 110, 99, 101]
  | .array => [97, 114, 114, 97, 121]
  | .tuple => [116, 117, 112, 108, 101]
  | .primitive => [112, 114, 105, 109, 105, 116, 105, 118, 101]
  | .compact => [99, 111, 109, 112, 97, 99, 116]
  | .bitsequence => [98, 105, 116, 115, 101, 113, 117, 101, 110, 99, 101]
  | .bitStoreType => [98, 105, 116, 95, 115, 116, 111, 114, 101, 95, 116, 121, 112, 101]
  | .bitOrderType => [98, 105, 116, 95, 111, 114, 100, 101, 114, 95, 116, 121, 112, 101]
  | .other s => s

def Key.ofText (s : Str) : Key :=
  if s = [116, 121, 112, 101, 115] then .types
  else if s = [105, 100] then .id
  else if s = [116, 121, 112, 101] then .type_
  else if s = [112, 97, 116, 104] then .path
  else if s = [112, 97, 114, 97, 109, 115] then .params
  else if s = [100, 101, 102] then .def_
  else if s = [100, 111, 99, 115] then .docs
  else if s = [110, 97, 109, 101] then .name
  else if s = [116, 121, 112, 101, 78, 97, 109, 101] then .typeName
  else if s = [105, 110, 100, 101, 120] then .index
  else if s = [102, 105, 101, 108, 100, 115] then .fields
  else if s = [118, 97, 114, 105, 97, 110, 116, 115] then .variants
  else if s = [108, 101, 110] then .len
  else if s = [99, 111, 109, 112, 111, 115, 105, 116, 101] then .composite
  else if s = [118, 97, 114, 105, 97, 110, 116] then .variant
  else if s = [115, 101, 113, 117, 101, 110, 99, 101] then .sequence
  else if s = [97, 114, 114, 97, 121] then .array
  else if s = [116, 117, 112, 108, 101] then .tuple
  else if s = [112, 114, 105, 109, 105, 116, 105, 118, 101] then .primitive
  else if s = [99, 111, 109, 112, 97, 99, 116] then .compact
  else if s = [98, 105, 116, 115, 101, 113, 117, 101, 110, 99, 101] then .bitsequence
  else if s = [98, 105, 116, 95, 115, 116, 111, 114, 101, 95, 116, 121, 112, 101] then .bitStoreType
  else if s = [98, 105, 116, 95, 111, 114, 100, 101, 114, 95, 116, 121, 112, 101] then .bitOrderType
  else .other s

inductive Json
  | null
  | bool (b : Bool)
  | num (n : Nat)          -- a non-negative integer
  | badnum                 -- any other number (negative, fractional, exponent form)
  | str (s : Str)
  | arr (l : List Json)
  | obj (kv : List (Key × Json))
  deriving Repr, BEq

namespace JsonM

def primName : Prim → Str
  | .bool => [98, 111, 111, 108]
  | .char => [99, 104, 97, 114]
  | .str => [115, 116, 114]
  | .u8 => [117, 56]
  | .u16 => [117, 49, 54]
  | .u32 => [117, 51, 50]
  | .u64 => [117, 54, 52]
  | .u128 => [117, 49, 50, 56]
  | .u256 => [117, 50, 53, 54]
  | .i8 => [105, 56]
  | .i16 => [105, 49, 54]
  | .i32 => [105, 51, 50]
  | .i64 => [105, 54, 52]
  | .i128 => [105, 49, 50, 56]
  | .i256 => [105, 50, 53, 54]

def primOfName (s : Str) : Option Prim :=
  if s = [98, 111, 111, 108] then some .bool
  else if s = [99, 104, 97, 114] then some .char
  else if s = [115, 116, 114] then some .str
  else if s = [117, 56] then some .u8
  else if s = [117, 49, 54] then some .u16
  else if s = [117, 51, 50] then some .u32
  else if s = [117, 54, 52] then some .u64
  else if s = [117, 49, 50, 56] then some .u128
  else if s = [117, 50, 53, 54] then some .u256
  else if s = [105, 56] then some .i8
  else if s = [105, 49, 54] then some .i16
  else if s = [105, 51, 50] then some .i32
  else if s = [105, 54, 52] then some .i64
  else if s = [105, 49, 50, 56] then some .i128
  else if s = [105, 50, 53, 54] then some .i256
  else none

/-! ## serialisation -/

def jStr (s : Str) : Json := .str s
def jStrs (l : List Str) : Json := .arr (l.map jStr)

/-- keep a member only when `cond` (serde's `skip_serializing_if` negated) -/
def optMember (cond : Bool) (k : Key) (v : Json) : List (Key × Json) := if cond then [(k, v)] else []

def ofField (f : Field Nat) : Json :=
  .obj (optMember f.name.isSome .name (match f.name with | some s => jStr s | none => .null)
    ++ [(.type_, .num f.ty)]
    ++ optMember f.typeName.isSome .typeName (match f.typeName with | some s => jStr s | none => .null)
    ++ optMember (!f.docs.isEmpty) .docs (jStrs f.docs))

def ofFields (fs : List (Field Nat)) : List (Key × Json) :=
  optMember (!fs.isEmpty) .fields (.arr (fs.map ofField))

def ofVariant (v : Variant Nat) : Json :=
  .obj ([(.name, jStr v.name)] ++ ofFields v.fields ++ [(.index, .num v.index)]
    ++ optMember (!v.docs.isEmpty) .docs (jStrs v.docs))

def ofTypeDef : TypeDef Nat → Json
  | .composite fs => .obj [(.composite, .obj (ofFields fs))]
  | .variant vs => .obj [(.variant, .obj (optMember (!vs.isEmpty) .variants (.arr (vs.map ofVariant))))]
  | .sequence t => .obj [(.sequence, .obj [(.type_, .num t)])]
  | .array n t => .obj [(.array, .obj [(.len, .num n), (.type_, .num t)])]
  | .tuple ts => .obj [(.tuple, .arr (ts.map .num))]
  | .primitive p => .obj [(.primitive, .str (primName p))]
  | .compact t => .obj [(.compact, .obj [(.type_, .num t)])]
  | .bitSequence s o => .obj [(.bitsequence, .obj [(.bitStoreType, .num s), (.bitOrderType, .num o)])]

def ofParam (p : TypeParam Nat) : Json :=
  .obj [(.name, jStr p.name), (.type_, match p.ty with | some t => .num t | none => .null)]

def ofTy (t : Ty Nat) : Json :=
  .obj (optMember (!t.path.isEmpty) .path (jStrs t.path)
    ++ optMember (!t.params.isEmpty) .params (.arr (t.params.map ofParam))
    ++ [(.def_, ofTypeDef t.def_)]
    ++ optMember (!t.docs.isEmpty) .docs (jStrs t.docs))

def ofPType (p : PType) : Json := .obj [(.id, .num p.id), (.type_, ofTy p.ty)]

/-- `serde_json::to_value(&registry)` -/
def ofRegistry (r : PortableRegistry) : Json := .obj [(.types, .arr (r.map ofPType))]

/-! ## deserialisation -/

inductive DeErr
  | reject         -- serde returns an error
  | unmodelled     -- an input form this model does not cover
  deriving DecidableEq, Repr

abbrev De (α : Type) := Except DeErr α

def getKey (kv : List (Key × Json)) (k : Key) : Option Json :=
  match kv with
  | [] => none
  | (k', v) :: rest => if k' = k then some v else getKey rest k

/-- positional form: pair the members (declaration order) with the array's elements; more elements
    than members is serde_json's "fewer elements in array" error -/
def zipKeys : List Key → List Json → Option (List (Key × Json))
  | _, [] => some []
  | [], _ :: _ => none
  | k :: ks, j :: js => match zipKeys ks js with
    | some r => some ((k, j) :: r)
    | none => none

/-- a struct given as a JSON object, or as a positional array over the members `spec` (declaration
    order). A member the array is too short for is then simply absent: `req` rejects it, `dflt`
    defaults it - which is what the derived `visit_seq` does. -/
def asStruct (spec : List Key) : Json → De (List (Key × Json))
  | .obj kv => .ok kv
  | .arr l => match zipKeys spec l with
    | some kv => .ok kv
    | none => .error .reject
  | _ => .error .reject

def deU (bound : Nat) : Json → De Nat
  | .num n => if n < bound then .ok n else .error .reject
  | _ => .error .reject

def deU32 : Json → De Nat := deU 4294967296
def deU8 : Json → De Nat := deU 256

def deStr : Json → De Str
  | .str s => .ok s
  | _ => .error .reject

def deList {α} (f : Json → De α) : List Json → De (List α)
  | [] => .ok []
  | j :: js =>
    match f j with
    | .error e => .error e
    | .ok a => match deList f js with
      | .error e => .error e
      | .ok as => .ok (a :: as)

def deArr {α} (f : Json → De α) : Json → De (List α)
  | .arr l => deList f l
  | _ => .error .reject

/-- required member -/
def req {α} (kv : List (Key × Json)) (k : Key) (f : Json → De α) : De α :=
  match getKey kv k with
  | none => .error .reject
  | some v => f v

/-- member with `#[serde(default)]`: absent ⇒ the default -/
def dflt {α} (kv : List (Key × Json)) (k : Key) (d : α) (f : Json → De α) : De α :=
  match getKey kv k with
  | none => .ok d
  | some v => f v

/-- `Option<T>`: `null` ⇒ `None` -/
def deOpt {α} (f : Json → De α) : Json → De (Option α)
  | .null => .ok none
  | j => match f j with
    | .error e => .error e
    | .ok a => .ok (some a)

def deField (j : Json) : De (Field Nat) :=
  match asStruct [.name, .type_, .typeName, .docs] j with
  | .error e => .error e
  | .ok kv =>
    match dflt kv .name none (deOpt deStr) with
    | .error e => .error e
    | .ok name => match req kv .type_ deU32 with
      | .error e => .error e
      | .ok ty => match dflt kv .typeName none (deOpt deStr) with
        | .error e => .error e
        | .ok tn => match dflt kv .docs [] (deArr deStr) with
          | .error e => .error e
          | .ok docs => .ok { name := name, ty := ty, typeName := tn, docs := docs }

def deVariant (j : Json) : De (Variant Nat) :=
  match asStruct [.name, .fields, .index, .docs] j with
  | .error e => .error e
  | .ok kv =>
    match req kv .name deStr with
    | .error e => .error e
    | .ok name => match dflt kv .fields [] (deArr deField) with
      | .error e => .error e
      | .ok fs => match req kv .index deU8 with
        | .error e => .error e
        | .ok idx => match dflt kv .docs [] (deArr deStr) with
          | .error e => .error e
          | .ok docs => .ok { name := name, fields := fs, index := idx, docs := docs }

/-- `{ "type": id }` -/
def deTypeOnly (j : Json) : De Nat :=
  match asStruct [.type_] j with
  | .error e => .error e
  | .ok kv => req kv .type_ deU32

def dePrim : Json → De Prim
  | .str s => match primOfName s with | some p => .ok p | none => .error .reject
  | .obj [(k, .null)] =>                -- `{"bool": null}`: a unit variant as a one-member map
    match primOfName k.text with | some p => .ok p | none => .error .reject
  | _ => .error .reject

/-- externally tagged enum: an object with exactly one member -/
def deTypeDef : Json → De (TypeDef Nat)
  | .obj [(k, v)] =>
    match k with
    | .composite => match asStruct [.fields] v with
      | .error e => .error e
      | .ok kv => match dflt kv .fields [] (deArr deField) with
        | .error e => .error e
        | .ok fs => .ok (.composite fs)
    | .variant => match asStruct [.variants] v with
      | .error e => .error e
      | .ok kv => match dflt kv .variants [] (deArr deVariant) with
        | .error e => .error e
        | .ok vs => .ok (.variant vs)
    | .sequence => match deTypeOnly v with | .error e => .error e | .ok t => .ok (.sequence t)
    | .array => match asStruct [.len, .type_] v with
      | .error e => .error e
      | .ok kv => match req kv .len deU32 with
        | .error e => .error e
        | .ok n => match req kv .type_ deU32 with
          | .error e => .error e
          | .ok t => .ok (.array n t)
    | .tuple => match deArr deU32 v with | .error e => .error e | .ok ts => .ok (.tuple ts)
    | .primitive => match dePrim v with | .error e => .error e | .ok p => .ok (.primitive p)
    | .compact => match deTypeOnly v with | .error e => .error e | .ok t => .ok (.compact t)
    | .bitsequence => match asStruct [.bitStoreType, .bitOrderType] v with
      | .error e => .error e
      | .ok kv => match req kv .bitStoreType deU32 with
        | .error e => .error e
        | .ok s => match req kv .bitOrderType deU32 with
          | .error e => .error e
          | .ok o => .ok (.bitSequence s o)
    | _ => .error .reject
  | .str _ => .error .reject      -- a unit-variant string never names a definition kind with payload
  | _ => .error .reject

def deParam (j : Json) : De (TypeParam Nat) :=
  match asStruct [.name, .type_] j with
  | .error e => .error e
  | .ok kv =>
    match req kv .name deStr with
    | .error e => .error e
    | .ok name =>
      -- `ty: Option<T::Type>` without `default`: serde's derive still treats a missing Option member as None
      -- (map form only: the positional form needs the element)
      match (match j with
             | .arr _ => req kv .type_ (deOpt deU32)
             | _ => dflt kv .type_ none (deOpt deU32)) with
      | .error e => .error e
      | .ok ty => .ok { name := name, ty := ty }

def deTy (j : Json) : De (Ty Nat) :=
  match asStruct [.path, .params, .def_, .docs] j with
  | .error e => .error e
  | .ok kv =>
    match dflt kv .path [] (deArr deStr) with
    | .error e => .error e
    | .ok path => match dflt kv .params [] (deArr deParam) with
      | .error e => .error e
      | .ok ps => match req kv .def_ deTypeDef with
        | .error e => .error e
        | .ok d => match dflt kv .docs [] (deArr deStr) with
          | .error e => .error e
          | .ok docs => .ok { path := path, params := ps, def_ := d, docs := docs }

def dePType (j : Json) : De PType :=
  match asStruct [.id, .type_] j with
  | .error e => .error e
  | .ok kv =>
    match req kv .id deU32 with
    | .error e => .error e
    | .ok id => match req kv .type_ deTy with
      | .error e => .error e
      | .ok t => .ok { id := id, ty := t }

/-- `serde_json::from_value::<PortableRegistry>` -/
def toRegistry (j : Json) : De PortableRegistry :=
  match asStruct [.types] j with
  | .error e => .error e
  | .ok kv => req kv .types (deArr dePType)

/-! ## the positional form, as a writer (used only to state that the reader accepts it) -/

def posOpt (o : Option Str) : Json := match o with | some s => jStr s | none => .null
def posField (f : Field Nat) : Json := .arr [posOpt f.name, .num f.ty, posOpt f.typeName, jStrs f.docs]
def posVariant (v : Variant Nat) : Json := .arr [jStr v.name, .arr (v.fields.map posField), .num v.index, jStrs v.docs]
def posTypeDef : TypeDef Nat → Json
  | .composite fs => .obj [(.composite, .arr [.arr (fs.map posField)])]
  | .variant vs => .obj [(.variant, .arr [.arr (vs.map posVariant)])]
  | .sequence t => .obj [(.sequence, .arr [.num t])]
  | .array n t => .obj [(.array, .arr [.num n, .num t])]
  | .tuple ts => .obj [(.tuple, .arr (ts.map .num))]
  | .primitive p => .obj [(.primitive, .obj [(.other (primName p), .null)])]
  | .compact t => .obj [(.compact, .arr [.num t])]
  | .bitSequence s o => .obj [(.bitsequence, .arr [.num s, .num o])]
def posParam (p : TypeParam Nat) : Json := .arr [jStr p.name, match p.ty with | some t => .num t | none => .null]
def posTy (t : Ty Nat) : Json := .arr [jStrs t.path, .arr (t.params.map posParam), posTypeDef t.def_, jStrs t.docs]
def posPType (p : PType) : Json := .arr [.num p.id, posTy p.ty]
/-- every struct as a positional array, every unit variant as a one-member map -/
def posOfRegistry (r : PortableRegistry) : Json := .arr [.arr (r.map posPType)]

end JsonM
end SIM
