/-
  SIM.Model.Schema — the subset of JSON Schema draft-07 that schemars 0.8 emits for
  `PortableRegistry` (keywords: type (also as a list), required, properties, items, $ref into
  definitions, allOf, anyOf, oneOf, enum of strings, additionalProperties: false, minimum; `format`,
  `title`, `description` carry no validation meaning and are dropped by the translator), and its
  validation semantics `validates`.
-/
import SIM.Model.Json
namespace SIM

inductive JType | object | array | string | integer | number | boolean | null
  deriving DecidableEq, Repr

inductive Schema
  | node (types : List JType) (required : List Key) (props : List (Key × Schema)) (items : Option Schema)
      (ref : Option Str) (allOf anyOf oneOf : List Schema) (enum : Option (List Str))
      (noAdditional : Bool) (minimum : Option Nat)
  deriving Repr

namespace SchemaM

def typeOk : JType → Json → Bool
  | .object, .obj _ => true
  | .array, .arr _ => true
  | .string, .str _ => true
  | .integer, .num _ => true
  | .number, .num _ => true
  | .number, .badnum => true
  | .boolean, .bool _ => true
  | .null, .null => true
  | _, _ => false

def lookupProp (props : List (Key × Schema)) (k : Key) : Option Schema :=
  match props with
  | [] => none
  | (k', s) :: rest => if k' = k then some s else lookupProp rest k

def lookupDef (defs : List (Str × Schema)) (n : Str) : Option Schema :=
  match defs with
  | [] => none
  | (n', s) :: rest => if n' = n then some s else lookupDef rest n

/-- draft-07 validation of `j` against a schema (fuel bounds the nesting of schemas, incl. through `$ref`) -/
def validates (defs : List (Str × Schema)) : Nat → Schema → Json → Bool
  | 0, _, _ => false
  | f + 1, .node tys req props items ref allOf anyOf oneOf enum noAdd min, j =>
    (tys.isEmpty || tys.any (fun t => typeOk t j))
    && (match j with
        | .obj kv =>
          req.all (fun k => (JsonM.getKey kv k).isSome)
          && kv.all (fun p => match lookupProp props p.1 with
              | some s => validates defs f s p.2
              | none => !noAdd)
        | _ => true)
    && (match j, items with
        | .arr l, some s => l.all (fun x => validates defs f s x)
        | _, _ => true)
    && (match ref with
        | some n => (match lookupDef defs n with
            | some s => validates defs f s j
            | none => false)
        | none => true)
    && allOf.all (fun s => validates defs f s j)
    && (anyOf.isEmpty || anyOf.any (fun s => validates defs f s j))
    && (oneOf.isEmpty || (oneOf.filter (fun s => validates defs f s j)).length == 1)
    && (match enum with
        | some vals => (match j with | .str s => vals.contains s | _ => false)
        | none => true)
    && (match min, j with
        | some m, .num n => decide (m ≤ n)
        | _, _ => true)

/-- enough for the schema of `PortableRegistry` (its `$ref` chains are shorter than 16) -/
def fuel : Nat := 32

end SchemaM
end SIM
