/-
  SIM.Lemmas.Guard — the pre-flight of `SIM.Driver.Guard` walks everything `decodeVal` reads, at a cost
  (`steps`) that is a function of the decoded value alone.
-/
import SIM.Driver.Guard
import SIM.Lemmas.Codec
namespace SIM
namespace Driver
open Codec Value

/-! ## the number of budget units the pre-flight spends on a value -/

mutual
/-- one unit per node entered, one more per repetition step of a sequence / array -/
def steps : Val → Nat
  | .uint _ _ => 1
  | .sint _ _ => 1
  | .bool _ => 1
  | .str _ => 1
  | .seq vs => 1 + stepsRep vs
  | .array vs => 1 + stepsRep vs
  | .tuple vs => 1 + stepsList vs
  | .composite fs => 1 + stepsFields fs
  | .variant _ _ fs => 1 + stepsFields fs
  | .compact _ _ => 1
  | .bits _ _ _ => 1
def stepsRep : List Val → Nat
  | [] => 0
  | v :: vs => 1 + steps v + stepsRep vs
def stepsList : List Val → Nat
  | [] => 0
  | v :: vs => steps v + stepsList vs
def stepsFields : List (Option Str × Val) → Nat
  | [] => 0
  | (_, v) :: fs => steps v + stepsFields fs
end

/-- `f` walks `d`: whatever `d` reads, `f` walks to the same remainder for `steps` units -/
def Follows (f : Pre) (d : Dec Val) : Prop :=
  ∀ bs v rest, d bs = some (v, rest) → ∀ b, steps v ≤ b → f bs b = some (rest, b - steps v)

theorem preRep_rep (f : Pre) (d : Dec Val) (hf : Follows f d) :
    ∀ n bs vs rest, Dec.rep d n bs = some (vs, rest) →
      ∀ b, stepsRep vs ≤ b → preRep f n bs b = some (rest, b - stepsRep vs) := by
  intro n
  induction n with
  | zero =>
    intro bs vs rest h b _
    simp only [Dec.rep, Option.some.injEq, Prod.mk.injEq] at h
    obtain ⟨rfl, rfl⟩ := h
    simp [preRep, stepsRep]
  | succ n ih =>
    intro bs vs rest h b hb
    simp only [Dec.rep] at h
    cases h1 : d bs with
    | none => simp [h1] at h
    | some p =>
      obtain ⟨a, r1⟩ := p
      simp only [h1] at h
      cases h2 : Dec.rep d n r1 with
      | none => simp [h2] at h
      | some q =>
        obtain ⟨as, r2⟩ := q
        simp only [h2, Option.some.injEq, Prod.mk.injEq] at h
        obtain ⟨rfl, rfl⟩ := h
        simp only [stepsRep] at hb ⊢
        have hb0 : b ≠ 0 := by omega
        have e1 := hf bs a r1 h1 (b - 1) (by omega)
        have e2 := ih r1 as r2 h2 (b - 1 - steps a) (by omega)
        simp only [preRep, if_neg hb0, e1, e2]
        congr 2
        omega

theorem preEach_decEach (f : Nat → Pre) (d : Nat → Dec Val) (hf : ∀ t, Follows (f t) (d t)) :
    ∀ ts bs vs rest, decEach d ts bs = some (vs, rest) →
      ∀ b, stepsList vs ≤ b → preEach f ts bs b = some (rest, b - stepsList vs) := by
  intro ts
  induction ts with
  | nil =>
    intro bs vs rest h b _
    simp only [decEach, Option.some.injEq, Prod.mk.injEq] at h
    obtain ⟨rfl, rfl⟩ := h
    simp [preEach, stepsList]
  | cons t ts ih =>
    intro bs vs rest h b hb
    simp only [decEach] at h
    cases h1 : d t bs with
    | none => simp [h1] at h
    | some p =>
      obtain ⟨a, r1⟩ := p
      simp only [h1] at h
      cases h2 : decEach d ts r1 with
      | none => simp [h2] at h
      | some q =>
        obtain ⟨as, r2⟩ := q
        simp only [h2, Option.some.injEq, Prod.mk.injEq] at h
        obtain ⟨rfl, rfl⟩ := h
        simp only [stepsList] at hb ⊢
        have e1 := hf t bs a r1 h1 b (by omega)
        have e2 := ih r1 as r2 h2 (b - steps a) (by omega)
        simp only [preEach, e1, e2]
        congr 2
        omega

theorem preEach_decFields (f : Nat → Pre) (d : Nat → Dec Val) (hf : ∀ t, Follows (f t) (d t)) :
    ∀ fs bs vs rest, decFields d fs bs = some (vs, rest) →
      ∀ b, stepsFields vs ≤ b → preEach f (fs.map (·.ty)) bs b = some (rest, b - stepsFields vs) := by
  intro fs
  induction fs with
  | nil =>
    intro bs vs rest h b _
    simp only [decFields, Option.some.injEq, Prod.mk.injEq] at h
    obtain ⟨rfl, rfl⟩ := h
    simp [preEach, stepsFields]
  | cons t ts ih =>
    intro bs vs rest h b hb
    simp only [decFields] at h
    cases h1 : d t.ty bs with
    | none => simp [h1] at h
    | some p =>
      obtain ⟨a, r1⟩ := p
      simp only [h1] at h
      cases h2 : decFields d ts r1 with
      | none => simp [h2] at h
      | some q =>
        obtain ⟨as, r2⟩ := q
        simp only [h2, Option.some.injEq, Prod.mk.injEq] at h
        obtain ⟨rfl, rfl⟩ := h
        simp only [stepsFields] at hb ⊢
        have e1 := hf t.ty bs a r1 h1 b (by omega)
        have e2 := ih r1 as r2 h2 (b - steps a) (by omega)
        simp only [List.map_cons, preEach, e1, e2]
        congr 2
        omega

/-- inversion of `Dec.map` -/
theorem map_some {α β} (g : α → β) (d : Dec α) (bs : Bytes) (y : β) (rest : Bytes)
    (h : Dec.map g d bs = some (y, rest)) : ∃ x, d bs = some (x, rest) ∧ y = g x := by
  simp only [Dec.map] at h
  cases h1 : d bs with
  | none => simp [h1] at h
  | some p =>
    obtain ⟨x, r⟩ := p
    simp only [h1, Option.some.injEq, Prod.mk.injEq] at h
    exact ⟨x, by rw [h.2], h.1.symm⟩

/-! ## leaves -/

theorem decPrimVal_steps (p : Prim) (bs : Bytes) (v : Val) (rest : Bytes)
    (h : decPrimVal p bs = some (v, rest)) : steps v = 1 := by
  cases p <;> simp only [decPrimVal, primBits] at h
  case bool =>
    split at h
    · split at h
      · simp only [Option.some.injEq, Prod.mk.injEq] at h; rw [← h.1]; rfl
      · split at h
        · simp only [Option.some.injEq, Prod.mk.injEq] at h; rw [← h.1]; rfl
        · cases h
    · cases h
  case char => cases h
  case str =>
    obtain ⟨x, _, rfl⟩ := map_some _ _ _ _ _ h
    rfl
  all_goals
    split at h
    · cases h
    · simp only [Option.some.injEq, Prod.mk.injEq] at h
      rw [← h.1]
      first | rfl | (split <;> rfl)

theorem steps_pos (v : Val) : 1 ≤ steps v := by
  cases v <;> simp only [steps] <;> omega

/-! ## bit sequences: the length prefix never exceeds the bits that follow -/

theorem decLe_length (k : Nat) (bs : Bytes) (v : Nat) (rest : Bytes) (h : decLe k bs = some (v, rest)) :
    bs.length = k + rest.length := by
  have := (decLe_canon k bs v rest h).2
  rw [this, List.length_append, le_length]

theorem decCompact_length (bs : Bytes) (n : Nat) (rest : Bytes) (h : decCompact bs = some (n, rest)) :
    rest.length ≤ bs.length := by
  have := (decCompact_canon bs n rest h).2
  rw [this, List.length_append]
  omega

theorem storeWidth_cases (reg : PortableRegistry) (s w : Nat) (h : storeWidth reg s = some w) :
    w = 8 ∨ w = 16 ∨ w = 32 ∨ w = 64 := by
  unfold storeWidth at h
  split at h
  · split at h <;> simp_all
  · cases h

theorem decBitChunks_length (w : Nat) (msb : Bool) (hw : 0 < w) (h8 : w = 8 * (w / 8)) :
    ∀ fuel n bs l rest, n ≤ fuel → decBitChunks w msb fuel n bs = some (l, rest) →
      n + 8 * rest.length ≤ 8 * bs.length := by
  intro fuel
  induction fuel with
  | zero =>
    intro n bs l rest hn h
    simp only [decBitChunks, Option.some.injEq, Prod.mk.injEq] at h
    rw [← h.2]
    omega
  | succ fuel ih =>
    intro n bs l rest hn h
    simp only [decBitChunks] at h
    split at h
    · simp only [Option.some.injEq, Prod.mk.injEq] at h
      rw [← h.2]
      omega
    · rename_i hn0
      cases h1 : decLe (w / 8) bs with
      | none => simp [h1] at h
      | some p =>
        obtain ⟨x, r1⟩ := p
        simp only [h1] at h
        cases h2 : decBitChunks w msb fuel (n - min w n) r1 with
        | none => simp [h2] at h
        | some q =>
          obtain ⟨more, r2⟩ := q
          simp only [h2, Option.some.injEq, Prod.mk.injEq] at h
          have hl := decLe_length _ _ _ _ h1
          have hi := ih (n - min w n) r1 more r2 (by omega) h2
          rw [← h.2]
          omega

/-! ## the pre-flight follows the decoder -/

theorem preflight_follows (reg : PortableRegistry) :
    ∀ fuel id, Follows (preflight reg fuel id) (decodeVal reg fuel id) := by
  intro fuel
  induction fuel with
  | zero => intro id bs v rest h; simp [decodeVal] at h
  | succ fuel ih =>
    intro id bs v rest h b hb
    have hpos : 1 ≤ steps v := steps_pos v
    have hb0 : b ≠ 0 := by omega
    have h0 := h
    simp only [decodeVal] at h
    cases hr : resolve reg id with
    | none => simp [hr] at h
    | some t =>
      simp only [hr] at h
      cases hd : t.def_ with
      | primitive p =>
        simp only [hd] at h
        have e : decodeVal reg 1 id bs = some (v, rest) := by simp only [decodeVal, hr, hd]; exact h
        have hs := decPrimVal_steps p bs v rest h
        simp only [preflight, if_neg hb0, hr, hd, e, hs]
      | composite fs =>
        simp only [hd] at h
        obtain ⟨x, hx, rfl⟩ := map_some _ _ _ _ _ h
        simp only [steps] at hb ⊢
        have e := preEach_decFields _ _ ih fs bs x rest hx (b - 1) (by omega)
        simp only [preflight, if_neg hb0, hr, hd, e]
        congr 2
        omega
      | variant vs =>
        simp only [hd] at h
        cases bs with
        | nil => simp at h
        | cons x xs =>
          simp only at h
          cases hf : vs.find? (fun v => v.index == x.toNat) with
          | none => simp [hf] at h
          | some vr =>
            simp only [hf] at h
            obtain ⟨y, hy, rfl⟩ := map_some _ _ _ _ _ h
            simp only [steps] at hb ⊢
            have e := preEach_decFields _ _ ih vr.fields xs y rest hy (b - 1) (by omega)
            simp only [preflight, if_neg hb0, hr, hd, hf, e]
            congr 2
            omega
      | sequence el =>
        simp only [hd] at h
        cases hc : decCompact bs with
        | none => simp [hc] at h
        | some q =>
          obtain ⟨n, r1⟩ := q
          simp only [hc] at h
          obtain ⟨y, hy, rfl⟩ := map_some _ _ _ _ _ h
          simp only [steps] at hb ⊢
          have e := preRep_rep _ _ (ih el) n r1 y rest hy (b - 1) (by omega)
          simp only [preflight, if_neg hb0, hr, hd, hc, e]
          congr 2
          omega
      | array n el =>
        simp only [hd] at h
        obtain ⟨y, hy, rfl⟩ := map_some _ _ _ _ _ h
        simp only [steps] at hb ⊢
        have e := preRep_rep _ _ (ih el) n bs y rest hy (b - 1) (by omega)
        simp only [preflight, if_neg hb0, hr, hd, e]
        congr 2
        omega
      | tuple ts =>
        simp only [hd] at h
        obtain ⟨y, hy, rfl⟩ := map_some _ _ _ _ _ h
        simp only [steps] at hb ⊢
        have e := preEach_decEach _ _ ih ts bs y rest hy (b - 1) (by omega)
        simp only [preflight, if_neg hb0, hr, hd, e]
        congr 2
        omega
      | compact el =>
        have e : decodeVal reg 1 id bs = some (v, rest) := by
          simp only [decodeVal, hr, hd]
          simp only [hd] at h
          exact h
        have hs : steps v = 1 := by
          simp only [hd] at h
          split at h
          · cases h
          · split at h
            · split at h
              · split at h
                · cases h
                · split at h
                  · simp only [Option.some.injEq, Prod.mk.injEq] at h
                    rw [← h.1]; rfl
                  · cases h
              · cases h
            · cases h
        simp only [preflight, if_neg hb0, hr, hd, e, hs]
      | bitSequence s o =>
        have e : decodeVal reg 1 id bs = some (v, rest) := by
          simp only [decodeVal, hr, hd]
          simp only [hd] at h
          exact h
        simp only [hd] at h
        cases hw : storeWidth reg s with
        | none => simp [hw] at h
        | some w =>
          cases hm : orderMsb reg o with
          | none => simp [hw, hm] at h
          | some msb =>
            simp only [hw, hm] at h
            cases hc : decCompact bs with
            | none => simp [hc] at h
            | some q =>
              obtain ⟨n, r1⟩ := q
              simp only [hc] at h
              obtain ⟨y, hy, rfl⟩ := map_some _ _ _ _ _ h
              have hw' := storeWidth_cases reg s w hw
              have hlen := decBitChunks_length w msb (by omega) (by omega) (n + 1) n r1 y rest (by omega) hy
              have hcl := decCompact_length bs n r1 hc
              have hn : ¬ n > 8 * bs.length := by omega
              have hs : steps (Val.bits w msb y) = 1 := rfl
              simp only [preflight, if_neg hb0, hr, hd, hc, if_neg hn, e, hs]

end Driver
end SIM
