/-
  SIM.Lemmas.Registry — depth-first interning of a type graph (`Registry.registerType`):
  invariant, post-condition of a call, boundary invariant of a history, totality, fuel monotonicity.
-/
import SIM.Model.Registry
import SIM.Model.Builder
import SIM.Lemmas.Types
import SIM.Lemmas.Interner
namespace SIM

/-! ## Definitions used in the statements of C01, C02, C05, C11 -/

/-- the id of an interned identity: its position in the interner -/
def idOf (s : RegState) (t : Nat) : Nat := s.table.vec.idxOf t

/-- `x` is reachable from `roots` along references of `env` -/
inductive Reach (env : Nat → Ty Nat) (roots : List Nat) : Nat → Prop
  | root {r} : r ∈ roots → Reach env roots r
  | step {a c} : Reach env roots a → c ∈ (env a).refs → Reach env roots c

def opRoots : Registry.Op → List Nat
  | .reg t => [t]
  | .regs ts => ts
  | .mip fs => fieldRefs fs

def histRoots (ops : List Registry.Op) : List Nat := ops.flatMap opRoots

namespace Reg
open Registry

/-! ## generic list facts -/

theorem idxOf_prefix {l l' : List Nat} (h : l <+: l') {x : Nat} (hx : x ∈ l) : l'.idxOf x = l.idxOf x := by
  obtain ⟨t, rfl⟩ := h
  simp [List.idxOf_append, hx]

theorem getElem?_prefix {α} {l l' : List α} (h : l <+: l') {i : Nat} {x : α} (hx : l[i]? = some x) :
    l'[i]? = some x := by
  obtain ⟨t, rfl⟩ := h
  have hi : i < l.length := by
    rcases Nat.lt_or_ge i l.length with h | h
    · exact h
    · rw [List.getElem?_eq_none h] at hx; cases hx
  rw [List.getElem?_append_left hi]; exact hx

theorem getElem?_idxOf {l : List Nat} {x : Nat} (hx : x ∈ l) : l[l.idxOf x]? = some x := by
  have h := List.idxOf_lt_length_of_mem hx
  rw [List.getElem?_eq_getElem h, List.getElem_idxOf]

theorem mem_of_getElem? {α} {l : List α} {i : Nat} {x : α} (h : l[i]? = some x) : x ∈ l :=
  List.mem_of_getElem? h

theorem prefix_length_le {α} {l l' : List α} (h : l <+: l') : l.length ≤ l'.length := h.length_le

theorem prefix_mem {α} {l l' : List α} (h : l <+: l') {x : α} (hx : x ∈ l) : x ∈ l' := h.subset hx

theorem idxOf_inj {l : List Nat} {x y : Nat} (hx : x ∈ l) (hy : y ∈ l) (h : l.idxOf x = l.idxOf y) : x = y := by
  have h1 := getElem?_idxOf hx
  have h2 := getElem?_idxOf hy
  rw [h] at h1
  rw [h1] at h2
  exact Option.some.inj h2

/-- a strictly increasing list whose members are exactly `a ≤ k < n` is `range' a (n - a)` -/
theorem eq_range'_of_sorted : ∀ (l : List Nat) (a n : Nat), l.Pairwise (· < ·) →
    (∀ k, k ∈ l ↔ a ≤ k ∧ k < n) → l = List.range' a (n - a)
  | [], a, n, _, hm => by
    have : n - a = 0 := by
      rcases Nat.lt_or_ge a n with h | h
      · exact absurd ((hm a).2 ⟨Nat.le_refl _, h⟩) (by simp)
      · omega
    rw [this]; rfl
  | x :: xs, a, n, hp, hm => by
    rw [List.pairwise_cons] at hp
    have hx := (hm x).1 (by simp)
    have ha : a = x := by
      have := (hm a).2 ⟨Nat.le_refl _, by omega⟩
      rcases List.mem_cons.1 this with h | h
      · exact h
      · have := hp.1 a h; omega
    subst ha
    have ih := eq_range'_of_sorted xs (a + 1) n hp.2 (by
      intro k
      constructor
      · intro hk
        have h1 := (hm k).1 (List.mem_cons_of_mem _ hk)
        have h2 := hp.1 k hk
        omega
      · intro hk
        have := (hm k).2 ⟨by omega, hk.2⟩
        rcases List.mem_cons.1 this with h | h
        · omega
        · exact h)
    have hn : n - a = (n - (a + 1)) + 1 := by omega
    rw [hn, List.range'_succ, ← ih]

/-- pigeonhole: a duplicate-free list of naturals below `N` has at most `N` elements -/
theorem nodup_length_le : ∀ (N : Nat) (l : List Nat), l.Nodup → (∀ x ∈ l, x < N) → l.length ≤ N
  | 0, l, _, hb => by
    cases l with
    | nil => simp
    | cons x xs => exact absurd (hb x (by simp)) (by omega)
  | N + 1, l, hn, hb => by
    have h1 : (l.erase N).length ≤ N := by
      apply nodup_length_le N _ (hn.erase N)
      intro x hx
      have hx' := (List.Nodup.mem_erase_iff hn).1 hx
      have := hb x hx'.2
      omega
    have h2 := List.length_erase_le (a := N) (l := l)
    by_cases hN : N ∈ l
    · rw [List.length_erase_of_mem hN] at h1; omega
    · rw [List.erase_of_not_mem hN] at h1; omega

/-! ## `insertSorted` -/

abbrev KeysSorted (l : List (Nat × Ty Nat)) : Prop := l.Pairwise (fun a b => a.1 < b.1)

theorem mem_insertSorted_self (k : Nat) (d : Ty Nat) (l : List (Nat × Ty Nat)) : (k, d) ∈ insertSorted k d l := by
  induction l with
  | nil => simp [insertSorted]
  | cons x xs ih =>
    obtain ⟨k', d'⟩ := x
    simp only [insertSorted]
    split
    · simp
    · split
      · simp
      · exact List.mem_cons_of_mem _ ih

theorem mem_insertSorted_of_mem (k : Nat) (d : Ty Nat) (l : List (Nat × Ty Nat)) (kd : Nat × Ty Nat)
    (h : kd ∈ l) (hne : kd.1 ≠ k) : kd ∈ insertSorted k d l := by
  induction l with
  | nil => cases h
  | cons x xs ih =>
    obtain ⟨k', d'⟩ := x
    simp only [insertSorted]
    split
    · exact List.mem_cons_of_mem _ h
    · split
      · rename_i hk
        rcases List.mem_cons.1 h with h | h
        · subst h; exact absurd hk.symm hne
        · exact List.mem_cons_of_mem _ h
      · rcases List.mem_cons.1 h with h | h
        · subst h; simp
        · exact List.mem_cons_of_mem _ (ih h)

theorem of_mem_insertSorted (k : Nat) (d : Ty Nat) (l : List (Nat × Ty Nat)) (kd : Nat × Ty Nat)
    (h : kd ∈ insertSorted k d l) : kd = (k, d) ∨ kd ∈ l := by
  induction l with
  | nil => simpa [insertSorted] using h
  | cons x xs ih =>
    obtain ⟨k', d'⟩ := x
    simp only [insertSorted] at h
    split at h
    · rcases List.mem_cons.1 h with h | h
      · exact Or.inl h
      · exact Or.inr h
    · split at h
      · rcases List.mem_cons.1 h with h | h
        · exact Or.inl h
        · exact Or.inr (List.mem_cons_of_mem _ h)
      · rcases List.mem_cons.1 h with h | h
        · exact Or.inr (by rw [h]; simp)
        · rcases ih h with h | h
          · exact Or.inl h
          · exact Or.inr (List.mem_cons_of_mem _ h)

theorem insertSorted_sorted (k : Nat) (d : Ty Nat) (l : List (Nat × Ty Nat)) (h : KeysSorted l) :
    KeysSorted (insertSorted k d l) := by
  induction l with
  | nil => simp [insertSorted, KeysSorted]
  | cons x xs ih =>
    obtain ⟨k', d'⟩ := x
    have h' := List.pairwise_cons.1 h
    simp only [insertSorted]
    split
    · rename_i hk
      refine List.pairwise_cons.2 ⟨?_, h⟩
      intro b hb
      rcases List.mem_cons.1 hb with hb | hb
      · subst hb; exact hk
      · have := h'.1 b hb
        show k < b.1
        simp only at this; omega
    · split
      · rename_i hk
        subst hk
        exact List.pairwise_cons.2 ⟨h'.1, h'.2⟩
      · rename_i h1 h2
        refine List.pairwise_cons.2 ⟨?_, ih h'.2⟩
        intro b hb
        rcases of_mem_insertSorted _ _ _ _ hb with hb | hb
        · subst hb; show k' < k; omega
        · exact h'.1 b hb

/-- under sorted keys a key determines its value -/
theorem sorted_unique {l : List (Nat × Ty Nat)} (h : KeysSorted l) {k : Nat} {d d' : Ty Nat}
    (h1 : (k, d) ∈ l) (h2 : (k, d') ∈ l) : d = d' := by
  induction l with
  | nil => cases h1
  | cons x xs ih =>
    have h' := List.pairwise_cons.1 h
    rcases List.mem_cons.1 h1 with e1 | e1 <;> rcases List.mem_cons.1 h2 with e2 | e2
    · rw [← e1] at e2; exact (Prod.mk.inj e2).2.symm
    · have := h'.1 _ e2; rw [← e1] at this; exact absurd this (Nat.lt_irrefl _)
    · have := h'.1 _ e1; rw [← e2] at this; exact absurd this (Nat.lt_irrefl _)
    · exact ih h'.2 e1 e2

/-! ## invariant, goodness of an entry, post-condition of a call -/

structure I (s : RegState) : Prop where
  inv : s.table.Inv
  nodup : s.table.vec.Nodup
  sorted : KeysSorted s.types
  bound : ∀ kd ∈ s.types, kd.1 < s.table.vec.length
  evals : s.evals = s.table.vec

theorem I_empty : I Registry.empty :=
  ⟨Interner.inv_empty, by simp [Registry.empty, Interner.empty], by simp [Registry.empty, KeysSorted],
   by simp [Registry.empty], rfl⟩

/-- entry `kd` describes the identity interned at its key: closed and faithful -/
def Good (env : Nat → Ty Nat) (vec : List Nat) (kd : Nat × Ty Nat) : Prop :=
  ∃ t, vec[kd.1]? = some t ∧ (∀ c ∈ (env t).refs, c ∈ vec) ∧ kd.2 = (env t).map (fun c => vec.idxOf c)

theorem Good.mono {env : Nat → Ty Nat} {vec vec' : List Nat} {kd : Nat × Ty Nat} (hp : vec <+: vec')
    (h : Good env vec kd) : Good env vec' kd := by
  obtain ⟨t, h1, h2, h3⟩ := h
  refine ⟨t, getElem?_prefix hp h1, fun c hc => prefix_mem hp (h2 c hc), ?_⟩
  rw [h3]
  apply Ty.map_congr
  intro c hc
  exact (idxOf_prefix hp (h2 c hc)).symm

theorem _root_.SIM.Reach.trans {env : Nat → Ty Nat} {roots roots' : List Nat} (h : ∀ r ∈ roots, Reach env roots' r)
    {x : Nat} (hx : Reach env roots x) : Reach env roots' x := by
  induction hx with
  | root hr => exact h _ hr
  | step _ hc ih => exact Reach.step ih hc

theorem _root_.SIM.Reach.mono {env : Nat → Ty Nat} {roots roots' : List Nat} (h : ∀ r ∈ roots, r ∈ roots')
    {x : Nat} (hx : Reach env roots x) : Reach env roots' x :=
  Reach.trans (fun r hr => Reach.root (h r hr)) hx

structure Post (env : Nat → Ty Nat) (src : List Nat) (s s' : RegState) : Prop where
  pre : s.table.vec <+: s'.table.vec
  keep : ∀ kd ∈ s.types, kd ∈ s'.types
  newd : ∀ kd ∈ s'.types, kd ∈ s.types ∨ (s.table.vec.length ≤ kd.1 ∧ Good env s'.table.vec kd)
  keys : ∀ k, s.table.vec.length ≤ k → k < s'.table.vec.length → ∃ d, (k, d) ∈ s'.types
  reach : ∀ x ∈ s'.table.vec, x ∈ s.table.vec ∨ Reach env src x

theorem Post.refl (env : Nat → Ty Nat) (src : List Nat) (s : RegState) : Post env src s s :=
  ⟨List.prefix_refl _, fun _ h => h, fun _ h => Or.inl h, fun k h1 h2 => by omega, fun _ h => Or.inl h⟩

theorem Post.trans {env : Nat → Ty Nat} {src1 src2 : List Nat} {s s1 s2 : RegState}
    (h1 : Post env src1 s s1) (h2 : Post env src2 s1 s2) : Post env (src1 ++ src2) s s2 := by
  refine ⟨h1.pre.trans h2.pre, fun kd h => h2.keep kd (h1.keep kd h), ?_, ?_, ?_⟩
  · intro kd hkd
    rcases h2.newd kd hkd with h | ⟨hl, hg⟩
    · rcases h1.newd kd h with h | ⟨hl, hg⟩
      · exact Or.inl h
      · exact Or.inr ⟨hl, hg.mono h2.pre⟩
    · exact Or.inr ⟨Nat.le_trans h1.pre.length_le hl, hg⟩
  · intro k hk1 hk2
    rcases Nat.lt_or_ge k s1.table.vec.length with h | h
    · obtain ⟨d, hd⟩ := h1.keys k hk1 h
      exact ⟨d, h2.keep _ hd⟩
    · exact h2.keys k h hk2
  · intro x hx
    rcases h2.reach x hx with h | h
    · rcases h1.reach x h with h | h
      · exact Or.inl h
      · exact Or.inr (h.mono (fun r hr => List.mem_append_left _ hr))
    · exact Or.inr (h.mono (fun r hr => List.mem_append_right _ hr))

theorem Post.src_mono {env : Nat → Ty Nat} {src src' : List Nat} {s s' : RegState}
    (h : Post env src s s') (hs : ∀ r ∈ src, Reach env src' r) : Post env src' s s' :=
  ⟨h.pre, h.keep, h.newd, h.keys, fun x hx => (h.reach x hx).imp id (Reach.trans hs)⟩

/-! ## the traversal -/

/-- what one call of the worker guarantees -/
def CallSpec (env : Nat → Ty Nat) (f : RegState → Nat → Option (RegState × Nat)) : Prop :=
  ∀ s r s' r', I s → f s r = some (s', r') →
    I s' ∧ Post env [r] s s' ∧ r ∈ s'.table.vec ∧ r' = idOf s' r

theorem travList_post (env : Nat → Ty Nat) (f : RegState → Nat → Option (RegState × Nat)) (hf : CallSpec env f) :
    ∀ (rs : List Nat) (s s' : RegState) (rs' : List Nat), I s → travList f s rs = some (s', rs') →
      I s' ∧ Post env rs s s' ∧ (∀ r ∈ rs, r ∈ s'.table.vec) ∧ rs' = rs.map (idOf s') := by
  intro rs
  induction rs with
  | nil =>
    intro s s' rs' hI h
    simp only [travList, Option.some.injEq, Prod.mk.injEq] at h
    obtain ⟨rfl, rfl⟩ := h
    exact ⟨hI, Post.refl _ _ _, by simp, rfl⟩
  | cons r rs ih =>
    intro s s' rs' hI h
    simp only [travList] at h
    split at h
    · cases h
    · rename_i s1 r' hfr
      split at h
      · cases h
      · rename_i s2 rs'' htl
        simp only [Option.some.injEq, Prod.mk.injEq] at h
        obtain ⟨rfl, rfl⟩ := h
        obtain ⟨hI1, hP1, hr1, hr'⟩ := hf s r s1 r' hI hfr
        obtain ⟨hI2, hP2, hr2, hrs⟩ := ih s1 s2 rs'' hI1 htl
        refine ⟨hI2, hP1.trans hP2, ?_, ?_⟩
        · intro x hx
          rcases List.mem_cons.1 hx with hx | hx
          · subst hx; exact prefix_mem hP2.pre hr1
          · exact hr2 x hx
        · rw [hr', hrs, List.map_cons]
          congr 1
          exact (idxOf_prefix hP2.pre hr1).symm

/-! ## one call of `registerType` -/

theorem intern_old {it : Interner Nat} (h : it.Inv) {x : Nat} (hx : x ∈ it.vec) :
    it.internOrGet x = (false, it.vec.idxOf x, it) := by
  unfold Interner.internOrGet
  rw [h x]; simp [hx]

theorem intern_new {it : Interner Nat} (h : it.Inv) {x : Nat} (hx : x ∉ it.vec) :
    it.internOrGet x =
      (true, it.vec.length, { map := it.map ++ [(x, it.vec.length)], vec := it.vec ++ [x] }) := by
  unfold Interner.internOrGet
  rw [h x]; simp [hx]

theorem intern_new_inv {it : Interner Nat} (h : it.Inv) {x : Nat} (hx : x ∉ it.vec) :
    Interner.Inv ({ map := it.map ++ [(x, it.vec.length)], vec := it.vec ++ [x] } : Interner Nat) := by
  have := (Interner.internOrGet_spec it h x).2.2.2
  rw [intern_new h hx] at this
  exact this

/-- the state in which the references of a newly interned identity are registered -/
def enter (s : RegState) (tid : Nat) : RegState :=
  { table := { map := s.table.map ++ [(tid, s.table.vec.length)], vec := s.table.vec ++ [tid] },
    types := s.types, evals := s.evals ++ [tid] }

theorem I_enter {s : RegState} (hI : I s) {tid : Nat} (hm : tid ∉ s.table.vec) : I (enter s tid) := by
  refine ⟨intern_new_inv hI.inv hm, ?_, hI.sorted, ?_, ?_⟩
  · have := DL.intern_nodup s.table.vec tid hI.nodup
    simpa [DL.intern, hm, enter] using this
  · intro kd hkd
    have := hI.bound kd hkd
    simp only [enter, List.length_append, List.length_singleton]
    omega
  · simp [enter, hI.evals]

theorem registerType_unfold_new (env : Nat → Ty Nat) (fuel : Nat) {s : RegState} (hI : I s) {tid : Nat}
    (hm : tid ∉ s.table.vec) :
    registerType env (fuel + 1) s tid =
      match travList (registerType env fuel) (enter s tid) (env tid).refs with
      | none => none
      | some (s', rs) =>
        some ({ table := s'.table, types := insertSorted s.table.vec.length ((env tid).fill rs) s'.types,
                evals := s'.evals }, s.table.vec.length) := by
  simp only [registerType, intern_new hI.inv hm, enter, if_true]
  rfl

theorem registerType_unfold_old (env : Nat → Ty Nat) (fuel : Nat) {s : RegState} (hI : s.table.Inv) {tid : Nat}
    (hm : tid ∈ s.table.vec) :
    registerType env (fuel + 1) s tid = some (s, s.table.vec.idxOf tid) := by
  simp [registerType, intern_old hI hm]

theorem registerType_post (env : Nat → Ty Nat) : ∀ fuel, CallSpec env (registerType env fuel)
  | 0 => by intro s r s' r' _ h; simp [registerType] at h
  | fuel + 1 => by
    intro s tid s' id hI h
    have ih := registerType_post env fuel
    by_cases hm : tid ∈ s.table.vec
    · rw [registerType_unfold_old env fuel hI.inv hm] at h
      simp only [Option.some.injEq, Prod.mk.injEq] at h
      obtain ⟨rfl, rfl⟩ := h
      exact ⟨hI, Post.refl _ _ _, hm, rfl⟩
    · rw [registerType_unfold_new env fuel hI hm] at h
      split at h
      · cases h
      · rename_i s1 rs htl
        simp only [Option.some.injEq, Prod.mk.injEq] at h
        obtain ⟨rfl, rfl⟩ := h
        obtain ⟨hI1, hP1, hr1, hrs⟩ := travList_post env _ ih _ _ _ _ (I_enter hI hm) htl
        have hpre0 : s.table.vec <+: (enter s tid).table.vec := by
          simp [enter]
        have hlen0 : (enter s tid).table.vec.length = s.table.vec.length + 1 := by
          simp [enter]
        have htid0 : (enter s tid).table.vec[s.table.vec.length]? = some tid := by
          simp [enter]
        have htid1 : s1.table.vec[s.table.vec.length]? = some tid := getElem?_prefix hP1.pre htid0
        have hlen1 : s.table.vec.length + 1 ≤ s1.table.vec.length := by
          rw [← hlen0]; exact hP1.pre.length_le
        have hmem1 : tid ∈ s1.table.vec := List.mem_of_getElem? htid1
        have hfill : (env tid).fill rs = (env tid).map (fun c => s1.table.vec.idxOf c) := by
          rw [hrs]; exact Ty.fill_map _ _
        have hidx : s1.table.vec.idxOf tid = s.table.vec.length := by
          rw [idxOf_prefix hP1.pre (by simp [enter])]
          simp [enter, List.idxOf_append, hm]
        refine ⟨⟨hI1.inv, hI1.nodup, insertSorted_sorted _ _ _ hI1.sorted, ?_, hI1.evals⟩, ⟨?_, ?_, ?_, ?_, ?_⟩, hmem1, ?_⟩
        · intro kd hkd
          rcases of_mem_insertSorted _ _ _ _ hkd with h | h
          · subst h; show s.table.vec.length < s1.table.vec.length; omega
          · exact hI1.bound kd h
        · exact hpre0.trans hP1.pre
        · intro kd hkd
          apply mem_insertSorted_of_mem _ _ _ _ (hP1.keep kd hkd)
          have := hI.bound kd hkd
          omega
        · intro kd hkd
          rcases of_mem_insertSorted _ _ _ _ hkd with h | h
          · subst h
            exact Or.inr ⟨Nat.le_refl _, tid, htid1, hr1, hfill⟩
          · rcases hP1.newd kd h with h | ⟨hl, hg⟩
            · exact Or.inl h
            · exact Or.inr ⟨by rw [hlen0] at hl; omega, hg⟩
        · intro k hk1 hk2
          by_cases hk : k = s.table.vec.length
          · subst hk; exact ⟨_, mem_insertSorted_self _ _ _⟩
          · obtain ⟨d, hd⟩ := hP1.keys k (by rw [hlen0]; omega) hk2
            exact ⟨d, mem_insertSorted_of_mem _ _ _ _ hd hk⟩
        · intro x hx
          rcases hP1.reach x hx with h | h
          · simp only [enter, List.mem_append, List.mem_singleton] at h
            rcases h with h | h
            · exact Or.inl h
            · subst h; exact Or.inr (Reach.root (by simp))
          · right
            refine Reach.trans ?_ h
            intro r hr
            exact Reach.step (Reach.root (by simp)) hr
        · exact hidx.symm

/-! ## operations and histories -/

/-- what the output of an operation must be, relative to an interner contents -/
def OutOk (vec : List Nat) : Op → Out → Prop
  | .reg t, .id n => n = vec.idxOf t ∧ t ∈ vec
  | .regs ts, .ids ns => ns = ts.map (fun t => vec.idxOf t) ∧ ∀ t ∈ ts, t ∈ vec
  | .mip fs, .fields gs => gs = fs.map (Field.map (fun t => vec.idxOf t)) ∧ ∀ t ∈ fieldRefs fs, t ∈ vec
  | _, _ => False

theorem OutOk.mono {vec vec' : List Nat} (hp : vec <+: vec') {op : Op} {o : Out} (h : OutOk vec op o) :
    OutOk vec' op o := by
  cases op <;> cases o <;> simp only [OutOk] at h ⊢
  · exact ⟨by rw [h.1, idxOf_prefix hp h.2], prefix_mem hp h.2⟩
  · refine ⟨?_, fun t ht => prefix_mem hp (h.2 t ht)⟩
    rw [h.1]
    apply List.map_congr_left
    intro t ht
    exact (idxOf_prefix hp (h.2 t ht)).symm
  · refine ⟨?_, fun t ht => prefix_mem hp (h.2 t ht)⟩
    rw [h.1]
    apply List.map_congr_left
    intro f hf
    have : f.ty ∈ vec := h.2 _ (by simp only [fieldRefs]; exact List.mem_map_of_mem hf)
    simp only [Field.map, idxOf_prefix hp this]

/-- pointwise `OutOk` -/
inductive OutsOk (vec : List Nat) : List Op → List Out → Prop
  | nil : OutsOk vec [] []
  | cons {op o ops os} : OutOk vec op o → OutsOk vec ops os → OutsOk vec (op :: ops) (o :: os)

theorem OutsOk.mono {vec vec' : List Nat} (hp : vec <+: vec') {ops : List Op} {os : List Out}
    (h : OutsOk vec ops os) : OutsOk vec' ops os := by
  induction h with
  | nil => exact .nil
  | cons h1 _ ih => exact .cons (h1.mono hp) ih

theorem OutsOk.length {vec : List Nat} {ops : List Op} {os : List Out} (h : OutsOk vec ops os) :
    os.length = ops.length := by
  induction h with
  | nil => rfl
  | cons _ _ ih => simp [ih]

theorem OutsOk.get {vec : List Nat} {ops : List Op} {os : List Out} (h : OutsOk vec ops os) :
    ∀ (i : Nat) (hi : i < ops.length) (ho : i < os.length), OutOk vec ops[i] os[i] := by
  induction h with
  | nil => intro i hi; cases hi
  | cons h1 _ ih =>
    intro i hi ho
    cases i with
    | zero => exact h1
    | succ i => exact ih i (by simpa using hi) (by simpa using ho)

theorem step_post (env : Nat → Ty Nat) (fuel : Nat) {s s' : RegState} {op : Op} {o : Out} (hI : I s)
    (h : step env fuel s op = some (s', o)) :
    I s' ∧ Post env (opRoots op) s s' ∧ (∀ r ∈ opRoots op, r ∈ s'.table.vec) ∧ OutOk s'.table.vec op o := by
  cases op with
  | reg t =>
    simp only [step, Option.map_eq_some_iff] at h
    obtain ⟨⟨s1, id⟩, h, heq⟩ := h
    simp only [Prod.mk.injEq] at heq
    obtain ⟨rfl, rfl⟩ := heq
    obtain ⟨h1, h2, h3, h4⟩ := registerType_post env fuel s t s1 id hI h
    refine ⟨h1, h2, ?_, ?_⟩
    · intro r hr
      simp only [opRoots, List.mem_singleton] at hr
      subst hr; exact h3
    · exact ⟨h4, h3⟩
  | regs ts =>
    simp only [step, Option.map_eq_some_iff, registerTypes] at h
    obtain ⟨⟨s1, ids⟩, h, heq⟩ := h
    simp only [Prod.mk.injEq] at heq
    obtain ⟨rfl, rfl⟩ := heq
    obtain ⟨h1, h2, h3, h4⟩ := travList_post env _ (registerType_post env fuel) ts s s1 ids hI h
    exact ⟨h1, h2, h3, h4, h3⟩
  | mip fs =>
    simp only [step, Option.map_eq_some_iff, mapIntoPortableFields] at h
    obtain ⟨⟨s1, gs⟩, h, heq⟩ := h
    simp only [Prod.mk.injEq] at heq
    obtain ⟨rfl, rfl⟩ := heq
    split at h
    · cases h
    · rename_i s2 rs htl
      simp only [Option.some.injEq, Prod.mk.injEq] at h
      obtain ⟨rfl, rfl⟩ := h
      obtain ⟨h1, h2, h3, h4⟩ := travList_post env _ (registerType_post env fuel) _ s s2 rs hI htl
      refine ⟨h1, h2, h3, ?_, h3⟩
      have := fillFields_map fs (fun t => s2.table.vec.idxOf t) []
      simp only [List.append_nil] at this
      rw [h4]
      show (fillFields fs (List.map (fun t => s2.table.vec.idxOf t) (fieldRefs fs))).1 = _
      rw [this]

theorem run_post (env : Nat → Ty Nat) (fuel : Nat) :
    ∀ (ops : List Op) (s s' : RegState) (outs : List Out), I s → run env fuel s ops = some (s', outs) →
      I s' ∧ Post env (histRoots ops) s s' ∧ (∀ r ∈ histRoots ops, r ∈ s'.table.vec) ∧
        OutsOk s'.table.vec ops outs := by
  intro ops
  induction ops with
  | nil =>
    intro s s' outs hI h
    simp only [run, Option.some.injEq, Prod.mk.injEq] at h
    obtain ⟨rfl, rfl⟩ := h
    exact ⟨hI, Post.refl _ _ _, by simp [histRoots], OutsOk.nil⟩
  | cons op ops ih =>
    intro s s' outs hI h
    simp only [run] at h
    split at h
    · cases h
    · rename_i s1 o hst
      split at h
      · cases h
      · rename_i s2 os hrun
        simp only [Option.some.injEq, Prod.mk.injEq] at h
        obtain ⟨rfl, rfl⟩ := h
        obtain ⟨hI1, hP1, hr1, ho1⟩ := step_post env fuel hI hst
        obtain ⟨hI2, hP2, hr2, ho2⟩ := ih s1 s2 os hI1 hrun
        have hroots : histRoots (op :: ops) = opRoots op ++ histRoots ops := by
          simp [histRoots]
        rw [hroots]
        refine ⟨hI2, hP1.trans hP2, ?_, OutsOk.cons (ho1.mono hP2.pre) ho2⟩
        intro r hr
        rcases List.mem_append.1 hr with hr | hr
        · exact prefix_mem hP2.pre (hr1 r hr)
        · exact hr2 r hr

/-! ## the boundary invariant: between operations every interned identity has its entry -/

structure Complete (env : Nat → Ty Nat) (s : RegState) : Prop where
  inv : I s
  allKeys : ∀ k, k < s.table.vec.length → ∃ d, (k, d) ∈ s.types
  good : ∀ kd ∈ s.types, Good env s.table.vec kd

theorem Complete.empty (env : Nat → Ty Nat) : Complete env Registry.empty :=
  ⟨I_empty, by simp [Registry.empty, Interner.empty], by simp [Registry.empty]⟩

theorem Complete.post {env : Nat → Ty Nat} {src : List Nat} {s s' : RegState} (hc : Complete env s) (hI : I s')
    (hP : Post env src s s') : Complete env s' := by
  refine ⟨hI, ?_, ?_⟩
  · intro k hk
    rcases Nat.lt_or_ge k s.table.vec.length with h | h
    · obtain ⟨d, hd⟩ := hc.allKeys k h
      exact ⟨d, hP.keep _ hd⟩
    · exact hP.keys k h hk
  · intro kd hkd
    rcases hP.newd kd hkd with h | ⟨_, hg⟩
    · exact (hc.good kd h).mono hP.pre
    · exact hg

theorem run_complete (env : Nat → Ty Nat) (fuel : Nat) {ops : List Op} {s s' : RegState} {outs : List Out}
    (hc : Complete env s) (h : run env fuel s ops = some (s', outs)) : Complete env s' := by
  obtain ⟨h1, h2, _, _⟩ := run_post env fuel ops s s' outs hc.inv h
  exact hc.post h1 h2

theorem Complete.keys_eq {env : Nat → Ty Nat} {s : RegState} (hc : Complete env s) :
    s.types.map (·.1) = List.range s.table.vec.length := by
  have := eq_range'_of_sorted (s.types.map (·.1)) 0 s.table.vec.length
    (by rw [List.pairwise_map]; exact hc.inv.sorted)
    (by
      intro k
      constructor
      · intro hk
        obtain ⟨kd, hkd, rfl⟩ := List.mem_map.1 hk
        exact ⟨Nat.zero_le _, hc.inv.bound kd hkd⟩
      · intro hk
        obtain ⟨d, hd⟩ := hc.allKeys k hk.2
        exact List.mem_map.2 ⟨(k, d), hd, rfl⟩)
  rw [this, List.range_eq_range', Nat.sub_zero]

theorem Complete.types_length {env : Nat → Ty Nat} {s : RegState} (hc : Complete env s) :
    s.types.length = s.table.vec.length := by
  have := congrArg List.length hc.keys_eq
  simpa using this

theorem Complete.types_getElem? {env : Nat → Ty Nat} {s : RegState} (hc : Complete env s) {k : Nat} {d : Ty Nat}
    (h : (k, d) ∈ s.types) : s.types[k]? = some (k, d) := by
  have hk : k < s.types.length := by rw [hc.types_length]; exact hc.inv.bound _ h
  have hkey : (s.types[k]).1 = k := by
    have h1 : (s.types.map (·.1))[k]? = (List.range s.table.vec.length)[k]? := by rw [hc.keys_eq]
    rw [List.getElem?_map, List.getElem?_eq_getElem hk, List.getElem?_range (by rw [← hc.types_length]; exact hk)] at h1
    simpa using h1
  have hmem : s.types[k] ∈ s.types := List.getElem_mem hk
  have : s.types[k] = (k, d) := by
    rcases hx : s.types[k] with ⟨k', d'⟩
    rw [hx] at hkey hmem
    simp only at hkey
    subst hkey
    rw [sorted_unique hc.inv.sorted hmem h]
  rw [List.getElem?_eq_getElem hk, this]

theorem Complete.portable_getElem? {env : Nat → Ty Nat} {s : RegState} (hc : Complete env s) {k : Nat} {d : Ty Nat}
    (h : (k, d) ∈ s.types) : (toPortable s)[k]? = some { id := k, ty := d } := by
  simp [toPortable, hc.types_getElem? h]

theorem Complete.resolve {env : Nat → Ty Nat} {s : RegState} (hc : Complete env s) {k : Nat} {d : Ty Nat}
    (h : (k, d) ∈ s.types) : resolve (toPortable s) k = some d := by
  simp [SIM.resolve, hc.portable_getElem? h]

theorem Complete.portable_length {env : Nat → Ty Nat} {s : RegState} (hc : Complete env s) :
    (toPortable s).length = s.table.vec.length := by
  simp [toPortable, hc.types_length]

/-- the entry of an interned identity is the image of its definition; its references are interned -/
theorem Complete.entry {env : Nat → Ty Nat} {s : RegState} (hc : Complete env s) {t : Nat} (ht : t ∈ s.table.vec) :
    (idOf s t, (env t).map (idOf s)) ∈ s.types ∧ ∀ c ∈ (env t).refs, c ∈ s.table.vec := by
  obtain ⟨d, hd⟩ := hc.allKeys (idOf s t) (List.idxOf_lt_length_of_mem ht)
  obtain ⟨t', h1, h2, h3⟩ := hc.good _ hd
  have : t' = t := by
    have := getElem?_idxOf ht
    simp only [idOf] at h1
    rw [this] at h1
    exact (Option.some.inj h1).symm
  subst this
  simp only at h3
  subst h3
  exact ⟨hd, h2⟩

theorem Complete.closed {env : Nat → Ty Nat} {s : RegState} (hc : Complete env s) {roots : List Nat}
    (hr : ∀ r ∈ roots, r ∈ s.table.vec) {x : Nat} (hx : Reach env roots x) : x ∈ s.table.vec := by
  induction hx with
  | root h => exact hr _ h
  | step _ hc' ih => exact (hc.entry ih).2 _ hc'

theorem Complete.wf {env : Nat → Ty Nat} {s : RegState} (hc : Complete env s) : WF (toPortable s) := by
  intro i hi
  rw [hc.portable_length] at hi
  obtain ⟨d, hd⟩ := hc.allKeys i hi
  have hget := hc.portable_getElem? hd
  have heq : (toPortable s)[i] = { id := i, ty := d } := by
    rw [List.getElem_eq_iff]; exact hget
  rw [heq]
  refine ⟨rfl, ?_⟩
  obtain ⟨t, h1, h2, h3⟩ := hc.good _ hd
  simp only at h3
  intro x hx
  simp only at hx
  rw [h3, Ty.refs_map] at hx
  obtain ⟨c, hc', rfl⟩ := List.mem_map.1 hx
  rw [hc.portable_length]
  exact List.idxOf_lt_length_of_mem (h2 c hc')

/-! ## totality: fuel `N + 1` suffices for a graph closed over `N` identities -/

theorem reach_lt {env : Nat → Ty Nat} {N : Nat} (hclosed : ∀ t < N, ∀ c ∈ (env t).refs, c < N) {roots : List Nat}
    (hr : ∀ r ∈ roots, r < N) {x : Nat} (hx : Reach env roots x) : x < N := by
  induction hx with
  | root h => exact hr _ h
  | step _ hc ih => exact hclosed _ ih _ hc

theorem travList_total {f : RegState → Nat → Option (RegState × Nat)} (P : RegState → Prop) (Q : Nat → Prop)
    (hf : ∀ s r, P s → Q r → ∃ s' r', f s r = some (s', r') ∧ P s') :
    ∀ (rs : List Nat) (s : RegState), P s → (∀ r ∈ rs, Q r) → ∃ s' rs', travList f s rs = some (s', rs') ∧ P s' := by
  intro rs
  induction rs with
  | nil => intro s hP _; exact ⟨s, [], rfl, hP⟩
  | cons r rs ih =>
    intro s hP hQ
    obtain ⟨s1, r', h1, hP1⟩ := hf s r hP (hQ r (by simp))
    obtain ⟨s2, rs', h2, hP2⟩ := ih s1 hP1 (fun x hx => hQ x (List.mem_cons_of_mem _ hx))
    exact ⟨s2, r' :: rs', by simp [travList, h1, h2], hP2⟩

/-- the state predicate threaded through the totality proof -/
def Below (N fuel : Nat) (s : RegState) : Prop :=
  I s ∧ (∀ x ∈ s.table.vec, x < N) ∧ N - s.table.vec.length < fuel

theorem registerType_total (env : Nat → Ty Nat) (N : Nat) (hclosed : ∀ t < N, ∀ c ∈ (env t).refs, c < N) :
    ∀ (fuel : Nat) (s : RegState) (tid : Nat), Below N fuel s → tid < N →
      ∃ s' id, registerType env fuel s tid = some (s', id) ∧ Below N fuel s'
  | 0, s, tid, hB, _ => absurd hB.2.2 (Nat.not_lt_zero _)
  | fuel + 1, s, tid, hB, ht => by
    obtain ⟨hI, hlt, hfuel⟩ := hB
    by_cases hm : tid ∈ s.table.vec
    · exact ⟨s, _, registerType_unfold_old env fuel hI.inv hm, hI, hlt, hfuel⟩
    · have hI0 := I_enter hI hm
      have hlt0 : ∀ x ∈ (enter s tid).table.vec, x < N := by
        intro x hx
        simp only [enter, List.mem_append, List.mem_singleton] at hx
        rcases hx with hx | hx
        · exact hlt x hx
        · subst hx; exact ht
      have hlen0 : (enter s tid).table.vec.length = s.table.vec.length + 1 := by simp [enter]
      have hle := nodup_length_le N _ hI0.nodup hlt0
      have hB0 : Below N fuel (enter s tid) := ⟨hI0, hlt0, by omega⟩
      have hrefs : ∀ r ∈ (env tid).refs, r < N := hclosed tid ht
      obtain ⟨s1, rs, htl, hB1⟩ := travList_total (Below N fuel) (· < N)
        (fun s r hP hQ => registerType_total env N hclosed fuel s r hP hQ) _ _ hB0 hrefs
      refine ⟨_, _, by rw [registerType_unfold_new env fuel hI hm, htl], ?_⟩
      obtain ⟨hI', hP', _, _⟩ := registerType_post env (fuel + 1) s tid _ _ hI
        (by rw [registerType_unfold_new env fuel hI hm, htl])
      refine ⟨hI', ?_, ?_⟩
      · exact hB1.2.1
      · have := hB1.2.2
        show N - s1.table.vec.length < fuel + 1
        omega

theorem step_total (env : Nat → Ty Nat) (N : Nat) (hclosed : ∀ t < N, ∀ c ∈ (env t).refs, c < N)
    (s : RegState) (op : Op) (hB : Below N (N + 1) s) (hr : ∀ t ∈ opRoots op, t < N) :
    ∃ s' o, step env (N + 1) s op = some (s', o) ∧ Below N (N + 1) s' := by
  cases op with
  | reg t =>
    obtain ⟨s', id, h, hB'⟩ := registerType_total env N hclosed (N + 1) s t hB (hr t (by simp [opRoots]))
    exact ⟨s', .id id, by simp [step, h], hB'⟩
  | regs ts =>
    obtain ⟨s', ids, h, hB'⟩ := travList_total (Below N (N + 1)) (· < N)
      (fun s r hP hQ => registerType_total env N hclosed (N + 1) s r hP hQ) ts s hB hr
    exact ⟨s', .ids ids, by simp [step, registerTypes, h], hB'⟩
  | mip fs =>
    obtain ⟨s', ids, h, hB'⟩ := travList_total (Below N (N + 1)) (· < N)
      (fun s r hP hQ => registerType_total env N hclosed (N + 1) s r hP hQ) (fieldRefs fs) s hB hr
    exact ⟨s', .fields (fillFields fs ids).1, by simp [step, mapIntoPortableFields, h], hB'⟩

theorem run_total (env : Nat → Ty Nat) (N : Nat) (hclosed : ∀ t < N, ∀ c ∈ (env t).refs, c < N) :
    ∀ (ops : List Op) (s : RegState), Below N (N + 1) s → (∀ t ∈ histRoots ops, t < N) →
      (run env (N + 1) s ops).isSome := by
  intro ops
  induction ops with
  | nil => intro s _ _; rfl
  | cons op ops ih =>
    intro s hB hr
    have hroots : histRoots (op :: ops) = opRoots op ++ histRoots ops := by simp [histRoots]
    rw [hroots] at hr
    obtain ⟨s1, o, h1, hB1⟩ := step_total env N hclosed s op hB (fun t ht => hr t (List.mem_append_left _ ht))
    have h2 := ih s1 hB1 (fun t ht => hr t (List.mem_append_right _ ht))
    obtain ⟨⟨s2, os⟩, h2⟩ := Option.isSome_iff_exists.1 h2
    simp [run, h1, h2]

theorem below_empty (N : Nat) : Below N (N + 1) Registry.empty :=
  ⟨I_empty, by simp [Registry.empty, Interner.empty], by simp [Registry.empty, Interner.empty]⟩

/-! ## fuel monotonicity -/

theorem travList_mono {σ R R' : Type} {f g : σ → R → Option (σ × R')}
    (h : ∀ s r res, f s r = some res → g s r = some res) :
    ∀ (rs : List R) (s : σ) (res : σ × List R'), travList f s rs = some res → travList g s rs = some res := by
  intro rs
  induction rs with
  | nil => intro s res h; exact h
  | cons r rs ih =>
    intro s res hh
    simp only [travList] at hh ⊢
    split at hh
    · cases hh
    · rename_i s1 r' hf
      split at hh
      · cases hh
      · rename_i s2 rs' ht
        simp only [h _ _ _ hf, ih _ _ ht]
        exact hh

theorem registerType_mono (env : Nat → Ty Nat) :
    ∀ (fuel : Nat) (s : RegState) (t : Nat) (res : RegState × Nat),
      registerType env fuel s t = some res → registerType env (fuel + 1) s t = some res
  | 0, s, t, res, h => by simp [registerType] at h
  | fuel + 1, s, t, res, h => by
    have ih := registerType_mono env fuel
    rw [registerType] at h ⊢
    cases hb : (s.table.internOrGet t).1
    · simpa [hb] using h
    · simp only [hb, if_true] at h ⊢
      split at h
      · cases h
      · rename_i s' rs ht
        rw [travList_mono ih _ _ _ ht]
        exact h

theorem step_mono (env : Nat → Ty Nat) (fuel : Nat) (s : RegState) (op : Op) (res : RegState × Out)
    (h : step env fuel s op = some res) : step env (fuel + 1) s op = some res := by
  have hm := registerType_mono env fuel
  cases op with
  | reg t =>
    simp only [step, Option.map_eq_some_iff] at h ⊢
    obtain ⟨a, h1, h2⟩ := h
    exact ⟨a, hm _ _ _ h1, h2⟩
  | regs ts =>
    simp only [step, Option.map_eq_some_iff, registerTypes] at h ⊢
    obtain ⟨a, h1, h2⟩ := h
    exact ⟨a, travList_mono hm _ _ _ h1, h2⟩
  | mip fs =>
    simp only [step, Option.map_eq_some_iff, mapIntoPortableFields] at h ⊢
    obtain ⟨a, h1, h2⟩ := h
    refine ⟨a, ?_, h2⟩
    split at h1
    · cases h1
    · rename_i s' rs ht
      rw [travList_mono hm _ _ _ ht]
      exact h1

theorem run_mono (env : Nat → Ty Nat) (fuel : Nat) :
    ∀ (ops : List Op) (s : RegState) (res : RegState × List Out),
      run env fuel s ops = some res → run env (fuel + 1) s ops = some res := by
  intro ops
  induction ops with
  | nil => intro s res h; exact h
  | cons op ops ih =>
    intro s res h
    simp only [run] at h ⊢
    split at h
    · cases h
    · rename_i s1 o hst
      split at h
      · cases h
      · rename_i s2 os hr
        simp only [step_mono env fuel _ _ _ hst, ih _ _ hr]
        exact h

theorem run_mono_add (env : Nat → Ty Nat) (fuel k : Nat) (ops : List Op) (s : RegState) (res : RegState × List Out)
    (h : run env fuel s ops = some res) : run env (fuel + k) s ops = some res := by
  induction k with
  | zero => exact h
  | succ k ih => exact run_mono env (fuel + k) ops s res ih

/-! ## `map` composes (any reference types) -/

theorem Field.map_comp {A B C : Type} (g : A → B) (h : B → C) (f : Field A) :
    (f.map g).map h = f.map (fun x => h (g x)) := rfl

theorem fields_map_comp {A B C : Type} (g : A → B) (h : B → C) (fs : List (Field A)) :
    (fs.map (Field.map g)).map (Field.map h) = fs.map (Field.map (fun x => h (g x))) := by
  rw [List.map_map]; rfl

theorem Variant.map_comp {A B C : Type} (g : A → B) (h : B → C) (v : Variant A) :
    (v.map g).map h = v.map (fun x => h (g x)) := by
  simp only [Variant.map, fields_map_comp]

theorem TypeParam.map_comp {A B C : Type} (g : A → B) (h : B → C) (p : TypeParam A) :
    (p.map g).map h = p.map (fun x => h (g x)) := by
  obtain ⟨n, ty⟩ := p
  cases ty <;> rfl

theorem TypeDef.map_comp {A B C : Type} (g : A → B) (h : B → C) (d : TypeDef A) :
    (d.map g).map h = d.map (fun x => h (g x)) := by
  cases d with
  | composite fs => simp only [TypeDef.map, fields_map_comp]
  | variant vs =>
    simp only [TypeDef.map, List.map_map]
    congr 1
    apply List.map_congr_left
    intro v _
    exact Variant.map_comp g h v
  | tuple ts => simp only [TypeDef.map, List.map_map]; rfl
  | _ => rfl

theorem Ty.map_comp {A B C : Type} (g : A → B) (h : B → C) (t : Ty A) :
    (t.map g).map h = t.map (fun x => h (g x)) := by
  obtain ⟨path, params, d, docs⟩ := t
  simp only [Ty.map, TypeDef.map_comp, List.map_map]
  congr 1
  apply List.map_congr_left
  intro p _
  exact TypeParam.map_comp g h p

/-! ## `Builder.finish` -/

theorem enumFrom_length (a : Nat) (l : List (Ty Nat)) : (Builder.enumFrom a l).length = l.length := by
  induction l generalizing a with
  | nil => rfl
  | cons t ts ih => simp [Builder.enumFrom, ih]

theorem enumFrom_getElem (a : Nat) (l : List (Ty Nat)) (i : Nat) (h : i < (Builder.enumFrom a l).length) :
    (Builder.enumFrom a l)[i] = { id := a + i, ty := l[i]'(by rw [enumFrom_length] at h; exact h) } := by
  induction l generalizing a i with
  | nil => simp [Builder.enumFrom] at h
  | cons t ts ih =>
    cases i with
    | zero => simp [Builder.enumFrom]
    | succ i =>
      simp only [Builder.enumFrom, List.getElem_cons_succ]
      rw [ih]
      congr 1
      omega

end Reg
end SIM
