/-
  SIM.Lemmas.Types — structural lemmas relating `refs`, `map` and `fill`.
  After these, the graph proofs never look inside a `Ty` again.
-/
import SIM.Model.Types
namespace SIM

variable {R R' R'' : Type}

/-! ### fields -/

theorem fillFields_map [Inhabited R'] (fs : List (Field R)) (g : R → R') (rest : List R') :
    fillFields fs ((fieldRefs fs).map g ++ rest) = (fs.map (Field.map g), rest) := by
  induction fs with
  | nil => simp [fillFields, fieldRefs]
  | cons f fs ih =>
    simp only [fieldRefs, List.map_cons, List.cons_append, fillFields, List.tail_cons, List.headD_cons] at ih ⊢
    rw [ih]
    rfl

theorem fieldRefs_map (fs : List (Field R)) (g : R → R') :
    fieldRefs (fs.map (Field.map g)) = (fieldRefs fs).map g := by
  simp [fieldRefs, Field.map, List.map_map, Function.comp_def]

/-! ### variants -/

theorem variantRefs_cons (v : Variant R) (vs : List (Variant R)) :
    variantRefs (v :: vs) = fieldRefs v.fields ++ variantRefs vs := by
  simp [variantRefs]

theorem fillVariants_map [Inhabited R'] (vs : List (Variant R)) (g : R → R') (rest : List R') :
    fillVariants vs ((variantRefs vs).map g ++ rest) = (vs.map (Variant.map g), rest) := by
  induction vs with
  | nil => simp [fillVariants, variantRefs]
  | cons v vs ih =>
    simp only [variantRefs_cons, List.map_append, List.append_assoc, fillVariants, fillFields_map, ih]
    rfl

theorem variantRefs_map (vs : List (Variant R)) (g : R → R') :
    variantRefs (vs.map (Variant.map g)) = (variantRefs vs).map g := by
  induction vs with
  | nil => simp [variantRefs]
  | cons v vs ih =>
    simp only [List.map_cons, variantRefs_cons, List.map_append, ih]
    simp [Variant.map, fieldRefs_map]

/-! ### type parameters -/

theorem paramRefs_cons_none (n : Str) (ps : List (TypeParam R)) :
    paramRefs ({ name := n, ty := none } :: ps) = paramRefs ps := by
  simp [paramRefs]

theorem paramRefs_cons_some (n : Str) (t : R) (ps : List (TypeParam R)) :
    paramRefs ({ name := n, ty := some t } :: ps) = t :: paramRefs ps := by
  simp [paramRefs]

theorem fillParams_map [Inhabited R'] (ps : List (TypeParam R)) (g : R → R') (rest : List R') :
    fillParams ps ((paramRefs ps).map g ++ rest) = (ps.map (TypeParam.map g), rest) := by
  induction ps with
  | nil => simp [fillParams, paramRefs]
  | cons p ps ih =>
    obtain ⟨name, ty⟩ := p
    cases ty with
    | none =>
      rw [paramRefs_cons_none]
      simp only [fillParams, ih]
      rfl
    | some t =>
      rw [paramRefs_cons_some]
      simp only [fillParams, List.map_cons, List.cons_append, List.tail_cons, List.headD_cons, ih]
      rfl

theorem paramRefs_map (ps : List (TypeParam R)) (g : R → R') :
    paramRefs (ps.map (TypeParam.map g)) = (paramRefs ps).map g := by
  induction ps with
  | nil => simp [paramRefs]
  | cons p ps ih =>
    obtain ⟨name, ty⟩ := p
    cases ty <;> simp_all [paramRefs, TypeParam.map]

/-! ### definitions and types -/

theorem TypeDef.fill_map [Inhabited R'] (d : TypeDef R) (g : R → R') : d.fill (d.refs.map g) = d.map g := by
  cases d with
  | composite fs =>
    have := fillFields_map fs g []
    simp only [List.append_nil] at this
    simp [TypeDef.fill, TypeDef.refs, TypeDef.map, this]
  | variant vs =>
    have := fillVariants_map vs g []
    simp only [List.append_nil] at this
    simp [TypeDef.fill, TypeDef.refs, TypeDef.map, this]
  | sequence t => simp [TypeDef.fill, TypeDef.refs, TypeDef.map]
  | array n t => simp [TypeDef.fill, TypeDef.refs, TypeDef.map]
  | tuple ts =>
    have : List.take ts.length (List.map g ts) = List.map g ts := by
      rw [List.take_of_length_le]; simp
    simp [TypeDef.fill, TypeDef.refs, TypeDef.map, this]
  | primitive p => simp [TypeDef.fill, TypeDef.map]
  | compact t => simp [TypeDef.fill, TypeDef.refs, TypeDef.map]
  | bitSequence s o => simp [TypeDef.fill, TypeDef.refs, TypeDef.map]

theorem TypeDef.refs_map (d : TypeDef R) (g : R → R') : (d.map g).refs = d.refs.map g := by
  cases d <;> simp [TypeDef.refs, TypeDef.map, fieldRefs_map, variantRefs_map]

/-- rebuilding a type around the image of its references is mapping the references -/
theorem Ty.fill_map [Inhabited R'] (t : Ty R) (g : R → R') : t.fill (t.refs.map g) = t.map g := by
  simp only [Ty.fill, Ty.refs, List.map_append, fillParams_map, TypeDef.fill_map, Ty.map]

theorem Ty.refs_map (t : Ty R) (g : R → R') : (t.map g).refs = t.refs.map g := by
  simp [Ty.refs, Ty.map, paramRefs_map, TypeDef.refs_map]

/-- `map` looks at nothing but the references -/
theorem Ty.map_congr (t : Ty R) (g g' : R → Nat) (h : ∀ c ∈ t.refs, g c = g' c) : t.map g = t.map g' := by
  rw [← Ty.fill_map, ← Ty.fill_map, List.map_congr_left h]

theorem Ty.map_map (t : Ty R) (g : R → Nat) (h : Nat → Nat) : (t.map g).map h = t.map (fun x => h (g x)) := by
  rw [← Ty.fill_map (t.map g), Ty.refs_map, List.map_map, ← Ty.fill_map t (fun x => h (g x))]
  -- `fill` depends only on the shape, which `map` keeps
  have hs : ∀ (rs : List Nat), (t.map g).fill rs = t.fill rs := by
    intro rs
    obtain ⟨path, params, d, docs⟩ := t
    have hp : ∀ (ps : List (TypeParam R)) (rs : List Nat),
        fillParams (ps.map (TypeParam.map g)) rs = fillParams ps rs := by
      intro ps
      induction ps with
      | nil => intro rs; rfl
      | cons p ps ih =>
        intro rs
        obtain ⟨n, ty⟩ := p
        cases ty <;> simp [fillParams, TypeParam.map, ih]
    have hf : ∀ (fs : List (Field R)) (rs : List Nat),
        fillFields (fs.map (Field.map g)) rs = fillFields fs rs := by
      intro fs
      induction fs with
      | nil => intro rs; rfl
      | cons f fs ih => intro rs; simp [fillFields, Field.map, ih]
    have hv : ∀ (vs : List (Variant R)) (rs : List Nat),
        fillVariants (vs.map (Variant.map g)) rs = fillVariants vs rs := by
      intro vs
      induction vs with
      | nil => intro rs; rfl
      | cons v vs ih => intro rs; simp [fillVariants, Variant.map, hf, ih]
    simp only [Ty.fill, Ty.map, hp]
    congr 1
    cases d <;> simp [TypeDef.fill, TypeDef.map, hf, hv]
  rw [hs]
  rfl

theorem Ty.map_id (t : Ty Nat) : t.map (fun x => x) = t := by
  obtain ⟨path, params, d, docs⟩ := t
  have hp : ∀ (ps : List (TypeParam Nat)), ps.map (TypeParam.map (fun x => x)) = ps := by
    intro ps
    induction ps with
    | nil => rfl
    | cons p ps ih => obtain ⟨n, ty⟩ := p; cases ty <;> simp [TypeParam.map, ih]
  have hf : ∀ (fs : List (Field Nat)), fs.map (Field.map (fun x => x)) = fs := by
    intro fs
    induction fs with
    | nil => rfl
    | cons f fs ih => simp [Field.map, ih]
  have hv : ∀ (vs : List (Variant Nat)), vs.map (Variant.map (fun x => x)) = vs := by
    intro vs
    induction vs with
    | nil => rfl
    | cons v vs ih => simp [Variant.map, hf, ih]
  simp only [Ty.map, hp]
  congr 1
  cases d <;> simp [TypeDef.map, hf, hv]

end SIM
