/-
  SIM.Lemmas.Docs — helper lemmas for C15 (the docs feature changes documentation strings only).
-/
import SIM.Spec.Docs
import SIM.Spec.Derive
import SIM.Model.Impls
namespace SIM
namespace DocsL
open Spec Registry

/-! ### refs -/

theorem fieldRefs_strip {R} (fs : List (Field R)) : fieldRefs (fs.map stripField) = fieldRefs fs := by
  unfold fieldRefs
  rw [List.map_map]
  rfl

theorem variantRefs_strip {R} (vs : List (Variant R)) : variantRefs (vs.map stripVariant) = variantRefs vs := by
  unfold variantRefs
  induction vs with
  | nil => rfl
  | cons v vs ih =>
    simp only [List.map_cons, List.flatMap_cons, ih]
    show fieldRefs (v.fields.map stripField) ++ _ = _
    rw [fieldRefs_strip]

theorem stripDef_refs {R} (d : TypeDef R) : (stripDef d).refs = d.refs := by
  cases d <;> simp only [stripDef, TypeDef.refs, fieldRefs_strip, variantRefs_strip]

/-! ### fill -/

theorem fillFields_strip {R R'} [Inhabited R'] (fs : List (Field R)) (rs : List R') :
    fillFields (fs.map stripField) rs = ((fillFields fs rs).1.map stripField, (fillFields fs rs).2) := by
  induction fs generalizing rs with
  | nil => rfl
  | cons f fs ih =>
    simp only [List.map_cons, fillFields, ih]
    rfl

theorem fillVariants_strip {R R'} [Inhabited R'] (vs : List (Variant R)) (rs : List R') :
    fillVariants (vs.map stripVariant) rs = ((fillVariants vs rs).1.map stripVariant, (fillVariants vs rs).2) := by
  induction vs generalizing rs with
  | nil => rfl
  | cons v vs ih =>
    simp only [List.map_cons, fillVariants]
    have h : (stripVariant v).fields = v.fields.map stripField := rfl
    rw [h, fillFields_strip]
    simp only [ih]
    rfl

theorem stripDef_fill {R R'} [Inhabited R'] (d : TypeDef R) (rs : List R') :
    (stripDef d).fill rs = stripDef (d.fill rs) := by
  cases d <;> simp only [stripDef, TypeDef.fill, fillFields_strip, fillVariants_strip]

/-! ### idempotence -/

theorem stripField_idem {R} (f : Field R) : stripField (stripField f) = stripField f := rfl

theorem stripVariant_idem {R} (v : Variant R) : stripVariant (stripVariant v) = stripVariant v := by
  unfold stripVariant
  simp only [List.map_map]
  congr 1

theorem stripDef_idem {R} (d : TypeDef R) : stripDef (stripDef d) = stripDef d := by
  cases d <;> simp only [stripDef, List.map_map]
  · congr 1
  · congr 1
    apply List.map_congr_left
    intro v _
    exact stripVariant_idem v

/-! ### registry -/

theorem insertSorted_strip (k : Nat) (d : Ty Nat) (l : List (Nat × Ty Nat)) :
    insertSorted k (stripDocs d) (l.map (fun kd => (kd.1, stripDocs kd.2))) =
      (insertSorted k d l).map (fun kd => (kd.1, stripDocs kd.2)) := by
  induction l with
  | nil => rfl
  | cons a l ih =>
    obtain ⟨k', d'⟩ := a
    simp only [List.map_cons, insertSorted]
    by_cases h1 : k < k'
    · simp only [if_pos h1, List.map_cons]
    · simp only [if_neg h1]
      by_cases h2 : k = k'
      · simp only [if_pos h2, List.map_cons]
      · simp only [if_neg h2, List.map_cons, ih]

theorem travList_strip {R R' : Type} (f f' : RegState → R → Option (RegState × R'))
    (h : ∀ s r, f' (stripState s) r = (f s r).map (fun x => (stripState x.1, x.2))) (s : RegState) (rs : List R) :
    travList f' (stripState s) rs = (travList f s rs).map (fun x => (stripState x.1, x.2)) := by
  induction rs generalizing s with
  | nil => rfl
  | cons r rs ih =>
    simp only [travList, h]
    cases hf : f s r with
    | none => rfl
    | some x =>
      obtain ⟨s1, r'⟩ := x
      simp only [Option.map_some, ih]
      cases travList f s1 rs with
      | none => rfl
      | some y => rfl

theorem toPortable_strip (s : RegState) : toPortable (stripState s) = stripReg (toPortable s) := by
  unfold toPortable stripReg stripState
  simp only [List.map_map]
  rfl


/-! ### derive -/

open Derive

/-- the members of a derived type with their docs erased: no mention of the docs feature or of capture_docs -/
def membersNoDocs (tn : Str → Str) (fs : List FieldD) : List (Field TyExpr) :=
  (fs.filter (fun f => !f.skip && !Impls.isPhantom (if f.compact then .compact f.ty else f.ty))).map (fun f =>
    { name := (match f.rename with | some r => some r | none => f.ident),
      ty := if f.compact then .compact f.ty else f.ty,
      typeName := some (tn f.tyText),
      docs := [] })

def variantsNoDocs (tn : Str → Str) (vs : List VariantD) : List (Variant TyExpr) :=
  (enumFrom 0 (vs.filter (fun v => !v.skip))).map (fun iv =>
    { name := iv.2.ident,
      fields := membersNoDocs tn (shapeFields iv.2.shape),
      index := (match iv.2.codecIndex with
                | some n => n
                | none => match iv.2.discriminant with | some d => d | none => iv.1) % 256,
      docs := [] })

theorem members_strip (tn : Str → Str) (b : Bool) (c : Capture) (fs : List FieldD) :
    (membersExpected tn b c fs).map stripField = membersNoDocs tn fs := by
  unfold membersExpected membersNoDocs
  rw [List.map_map]
  rfl

theorem variants_strip (tn : Str → Str) (b : Bool) (c : Capture) (vs : List VariantD) :
    (variantsExpected tn b c vs).map stripVariant = variantsNoDocs tn vs := by
  unfold variantsExpected variantsNoDocs
  rw [List.map_map]
  apply List.map_congr_left
  intro iv _
  show stripVariant _ = _
  unfold stripVariant
  simp only [members_strip]
  rfl

end DocsL
end SIM
