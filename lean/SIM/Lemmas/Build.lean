/-
  SIM.Lemmas.Build — helper lemmas for C17: a fold that keeps "the last set value" computes `lastSome`.
-/
import SIM.Spec.Build
namespace SIM
namespace Build
open Spec

/-! ### lastSome -/

theorem lastSome_eq {α β} (sel : α → Option β) (l : List α) :
    lastSome sel l = l.foldl (fun acc a => (sel a).or acc) none := by
  unfold lastSome
  congr 1
  funext acc a
  cases sel a <;> rfl

theorem foldl_or {α β} (sel : α → Option β) (l : List α) (acc : Option β) :
    l.foldl (fun acc a => (sel a).or acc) acc = (lastSome sel l).or acc := by
  rw [lastSome_eq]
  induction l generalizing acc with
  | nil => simp
  | cons a l ih =>
    simp only [List.foldl_cons]
    rw [ih, ih (acc := (sel a).or none)]
    cases sel a <;> cases List.foldl (fun acc a => (sel a).or acc) none l <;> simp

@[simp] theorem lastSome_nil {α β} (sel : α → Option β) : lastSome sel [] = none := rfl

theorem lastSome_cons {α β} (sel : α → Option β) (a : α) (l : List α) :
    lastSome sel (a :: l) = (lastSome sel l).or (sel a) := by
  rw [lastSome_eq, List.foldl_cons, foldl_or]
  cases sel a <;> rfl

/-! ### docs -/

theorem applyDocs_eq (cfg : Cfg) (cur : List Str) (f : Free) : applyDocs cfg cur f = (docsArg cfg f).getD cur := by
  cases f <;> simp [applyDocs, docsArg]
  all_goals (split <;> simp)

/-! ### field builder -/

theorem FB.fold_name {R} (cfg : Cfg) (calls : List (FCall R)) (fb : FB R) :
    (calls.foldl (FB.step cfg) fb).name = (lastSome fNameArg calls).or fb.name := by
  induction calls generalizing fb with
  | nil => simp
  | cons c cs ih =>
    rw [List.foldl_cons, ih, lastSome_cons]
    cases h : lastSome fNameArg cs <;> simp
    rcases c with s | r | f
    · simp [FB.step, fNameArg]
    · simp [FB.step, fNameArg]
    · cases f <;> simp [FB.step, fNameArg]

theorem FB.fold_ty {R} (cfg : Cfg) (calls : List (FCall R)) (fb : FB R) :
    (calls.foldl (FB.step cfg) fb).ty = (lastSome fTyArg calls).or fb.ty := by
  induction calls generalizing fb with
  | nil => simp
  | cons c cs ih =>
    rw [List.foldl_cons, ih, lastSome_cons]
    cases h : lastSome fTyArg cs <;> simp
    rcases c with s | r | f
    · simp [FB.step, fTyArg]
    · simp [FB.step, fTyArg]
    · cases f <;> simp [FB.step, fTyArg]

theorem FB.fold_typeName {R} (cfg : Cfg) (calls : List (FCall R)) (fb : FB R) :
    (calls.foldl (FB.step cfg) fb).typeName = (lastSome fTypeNameArg calls).or fb.typeName := by
  induction calls generalizing fb with
  | nil => simp
  | cons c cs ih =>
    rw [List.foldl_cons, ih, lastSome_cons]
    cases h : lastSome fTypeNameArg cs <;> simp
    rcases c with s | r | f
    · simp [FB.step, fTypeNameArg]
    · simp [FB.step, fTypeNameArg]
    · cases f <;> simp [FB.step, fTypeNameArg]

theorem FB.fold_docs {R} (cfg : Cfg) (calls : List (FCall R)) (fb : FB R) :
    (calls.foldl (FB.step cfg) fb).docs = (lastSome (fDocsArg cfg) calls).getD fb.docs := by
  induction calls generalizing fb with
  | nil => simp
  | cons c cs ih =>
    rw [List.foldl_cons, ih, lastSome_cons]
    cases h : lastSome (fDocsArg cfg) cs <;> simp
    rcases c with s | r | f
    · simp [FB.step, fDocsArg]
    · simp [FB.step, fDocsArg]
    · cases f <;> simp [FB.step, fDocsArg, applyDocs_eq, docsArg]

/-! ### variant builder -/

theorem VB.fold_index {R} (cfg : Cfg) (isPhantom : R → Bool) (calls : List (VCall R)) (vb : VB R) :
    (calls.foldl (VB.step cfg isPhantom) vb).index = (lastSome vIndexArg calls).or vb.index := by
  induction calls generalizing vb with
  | nil => simp
  | cons c cs ih =>
    rw [List.foldl_cons, ih, lastSome_cons]
    cases h : lastSome vIndexArg cs <;> simp
    cases c <;> simp [VB.step, vIndexArg]

theorem VB.fold_fields {R} (cfg : Cfg) (isPhantom : R → Bool) (calls : List (VCall R)) (vb : VB R) :
    (calls.foldl (VB.step cfg isPhantom) vb).fields =
      match lastSome vFieldsArg calls with
      | none => vb.fields
      | some fbs => fieldsOf cfg isPhantom fbs := by
  induction calls generalizing vb with
  | nil => simp
  | cons c cs ih =>
    rw [List.foldl_cons, ih, lastSome_cons]
    cases h : lastSome vFieldsArg cs <;> simp
    cases c <;> simp [VB.step, vFieldsArg]

theorem VB.fold_docs {R} (cfg : Cfg) (isPhantom : R → Bool) (calls : List (VCall R)) (vb : VB R) :
    (calls.foldl (VB.step cfg isPhantom) vb).docs = (lastSome (vDocsArg cfg) calls).getD vb.docs := by
  induction calls generalizing vb with
  | nil => simp
  | cons c cs ih =>
    rw [List.foldl_cons, ih, lastSome_cons]
    cases h : lastSome (vDocsArg cfg) cs <;> simp
    cases c <;> simp [VB.step, vDocsArg, applyDocs_eq]

/-! ### type builder -/

theorem TB.fold_path {R} (cfg : Cfg) (calls : List (TCall R)) (tb : TB R) :
    (calls.foldl (TB.step cfg) tb).path = (lastSome tPathArg calls).or tb.path := by
  induction calls generalizing tb with
  | nil => simp
  | cons c cs ih =>
    rw [List.foldl_cons, ih, lastSome_cons]
    cases h : lastSome tPathArg cs <;> simp
    cases c <;> simp [TB.step, tPathArg]

theorem TB.fold_params {R} (cfg : Cfg) (calls : List (TCall R)) (tb : TB R) :
    (calls.foldl (TB.step cfg) tb).params = (lastSome tParamsArg calls).getD tb.params := by
  induction calls generalizing tb with
  | nil => simp
  | cons c cs ih =>
    rw [List.foldl_cons, ih, lastSome_cons]
    cases h : lastSome tParamsArg cs <;> simp
    cases c <;> simp [TB.step, tParamsArg]

theorem TB.fold_docs {R} (cfg : Cfg) (calls : List (TCall R)) (tb : TB R) :
    (calls.foldl (TB.step cfg) tb).docs = (lastSome (tDocsArg cfg) calls).getD tb.docs := by
  induction calls generalizing tb with
  | nil => simp
  | cons c cs ih =>
    rw [List.foldl_cons, ih, lastSome_cons]
    cases h : lastSome (tDocsArg cfg) cs <;> simp
    cases c <;> simp [TB.step, tDocsArg, applyDocs_eq]

/-! ### lists of builders -/

theorem fieldsOf_eq_mapM {R} (cfg : Cfg) (isPhantom : R → Bool) (fbs : List (List (FCall R))) :
    fieldsOf cfg isPhantom fbs = (fbs.mapM (fieldOf cfg)).map (fun fs => fs.filter (fun f => !isPhantom f.ty)) := by
  induction fbs with
  | nil => simp [fieldsOf]
  | cons c cs ih =>
    simp only [fieldsOf, List.mapM_cons, ih]
    cases fieldOf cfg c with
    | none => simp
    | some f =>
      cases List.mapM (fieldOf cfg) cs with
      | none => simp
      | some fs => cases h : isPhantom f.ty <;> simp [h]

theorem variantsOf_eq_mapM {R} (cfg : Cfg) (isPhantom : R → Bool) (vs : List (Str × List (VCall R))) :
    variantsOf cfg isPhantom vs = vs.mapM (fun nc => variantOf cfg isPhantom nc.1 nc.2) := by
  induction vs with
  | nil => simp [variantsOf]
  | cons c cs ih =>
    obtain ⟨n, c⟩ := c
    simp only [variantsOf, List.mapM_cons, ih]
    cases variantOf cfg isPhantom n c with
    | none => simp
    | some v =>
      cases List.mapM (fun nc => variantOf cfg isPhantom nc.1 nc.2) cs <;> simp

/-- the result of a successful `mapM` in `Option`, elementwise -/
theorem mapM_some_forall {α β} (f : α → Option β) (P : β → Prop) (hf : ∀ a b, f a = some b → P b) :
    ∀ (l : List α) (bs : List β), l.mapM f = some bs → ∀ b ∈ bs, P b := by
  intro l
  induction l with
  | nil => intro bs h; simp at h; subst h; simp
  | cons a l ih =>
    intro bs h
    rw [List.mapM_cons] at h
    cases ha : f a with
    | none => simp [ha] at h
    | some b0 =>
      cases hl : List.mapM f l with
      | none => simp [ha, hl] at h
      | some bs0 =>
        simp [ha, hl] at h
        subst h
        intro b hb
        rcases List.mem_cons.mp hb with rfl | hb
        · exact hf a _ ha
        · exact ih bs0 hl b hb

end Build
end SIM
