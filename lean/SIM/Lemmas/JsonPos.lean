/-
  SIM.Lemmas.JsonPos — helper lemmas for the positional form (`posOfRegistry`) read back by
  `toRegistry`, the positional pairing `zipKeys`, and the numeric-range inversion of the reader
  (whatever is accepted has every id / length / index inside the range of its Rust type).
-/
import SIM.Lemmas.Json
namespace SIM
namespace JsonM
open Codec

/-! ## positional pairing -/

theorem zipKeys_surplus (spec : List Key) (l : List Json) (h : spec.length < l.length) :
    zipKeys spec l = none := by
  induction spec generalizing l with
  | nil =>
    cases l with
    | nil => simp at h
    | cons j js => rfl
  | cons k ks ih =>
    cases l with
    | nil => simp at h
    | cons j js =>
      have h' : ks.length < js.length := by simpa using h
      simp only [zipKeys, ih js h']

theorem zipKeys_prefix (spec : List Key) (l : List Json) (h : l.length ≤ spec.length) :
    zipKeys spec l = some ((spec.take l.length).zip l) := by
  induction spec generalizing l with
  | nil =>
    cases l with
    | nil => rfl
    | cons j js => simp at h
  | cons k ks ih =>
    cases l with
    | nil => rfl
    | cons j js =>
      have h' : js.length ≤ ks.length := by simpa using h
      simp only [zipKeys, ih js h', List.length_cons, List.take_succ_cons, List.zip_cons_cons]

theorem asStruct_surplus (spec : List Key) (l : List Json) (h : spec.length < l.length) :
    asStruct spec (.arr l) = .error .reject := by
  simp only [asStruct, zipKeys_surplus spec l h]

theorem asStruct_prefix (spec : List Key) (l : List Json) (h : l.length ≤ spec.length) :
    asStruct spec (.arr l) = .ok ((spec.take l.length).zip l) := by
  simp only [asStruct, zipKeys_prefix spec l h]

/-! ## the positional form reads back -/

theorem deOpt_posOpt (o : Option Str) : deOpt deStr (posOpt o) = .ok o := by
  cases o <;> rfl

theorem deField_posField (f : Field Nat) (h : okField f) : deField (posField f) = .ok f := by
  have h' : f.ty < 4294967296 := h.2.1
  simp [posField, deField, asStruct, zipKeys, req, dflt, getKey, deOpt_posOpt, deStrs_jStrs,
    deU32, deU, h']

theorem deFields_posFields (fs : List (Field Nat)) (h : okFields fs) :
    deArr deField (.arr (fs.map posField)) = .ok fs :=
  deArr_map deField posField fs (fun f hf => deField_posField f (h.2 f hf))

theorem deVariant_posVariant (v : Variant Nat) (h : okVariant v) : deVariant (posVariant v) = .ok v := by
  have h' : v.index < 256 := h.2.2.1
  simp [posVariant, deVariant, asStruct, zipKeys, req, dflt, getKey, deStrs_jStrs,
    deFields_posFields v.fields h.2.1, deU8, deU, h', jStr, deStr]

theorem dePrim_pos (p : Prim) : dePrim (.obj [(.other (primName p), .null)]) = .ok p := by
  simp only [dePrim, Key.text, primOfName_primName]

theorem deTypeDef_posTypeDef (d : TypeDef Nat) (h : okTypeDef d) : deTypeDef (posTypeDef d) = .ok d := by
  cases d with
  | composite fs =>
    simp [posTypeDef, deTypeDef, asStruct, zipKeys, dflt, getKey, deFields_posFields fs h]
  | variant vs =>
    have hv : deArr deVariant (.arr (vs.map posVariant)) = .ok vs :=
      deArr_map deVariant posVariant vs (fun v hv => deVariant_posVariant v (h.2 v hv))
    simp [posTypeDef, deTypeDef, asStruct, zipKeys, dflt, getKey, hv]
  | sequence t =>
    have h' : t < 4294967296 := h
    simp [posTypeDef, deTypeDef, deTypeOnly, asStruct, zipKeys, req, getKey, deU32, deU, h']
  | array n t =>
    have h1 : n < 4294967296 := h.1
    have h2 : t < 4294967296 := h.2
    simp [posTypeDef, deTypeDef, asStruct, zipKeys, req, getKey, deU32, deU, h1, h2]
  | tuple ts =>
    simp only [posTypeDef, deTypeDef,
      deArr_map deU32 Json.num ts (fun t ht => deU_num (h.2 t ht))]
  | primitive p =>
    simp only [posTypeDef, deTypeDef, dePrim_pos]
  | compact t =>
    have h' : t < 4294967296 := h
    simp [posTypeDef, deTypeDef, deTypeOnly, asStruct, zipKeys, req, getKey, deU32, deU, h']
  | bitSequence s o =>
    have h1 : s < 4294967296 := h.1
    have h2 : o < 4294967296 := h.2
    simp [posTypeDef, deTypeDef, asStruct, zipKeys, req, getKey, deU32, deU, h1, h2]

theorem deParam_posParam (p : TypeParam Nat) (h : okParam p) : deParam (posParam p) = .ok p := by
  obtain ⟨name, ty⟩ := p
  cases ty with
  | none => rfl
  | some t =>
    have h' : t < 4294967296 := h.2
    simp [posParam, deParam, asStruct, zipKeys, req, getKey, jStr, deStr, deOpt, deU32, deU, h']

theorem deTy_posTy (t : Ty Nat) (h : okTy t) : deTy (posTy t) = .ok t := by
  have hp : deArr deParam (.arr (t.params.map posParam)) = .ok t.params :=
    deArr_map deParam posParam t.params (fun p hp => deParam_posParam p (h.2.1.2 p hp))
  simp [posTy, deTy, asStruct, zipKeys, req, dflt, getKey, deStrs_jStrs, hp,
    deTypeDef_posTypeDef t.def_ h.2.2.1]

theorem dePType_posPType (p : PType) (h : okPType p) : dePType (posPType p) = .ok p := by
  have h' : p.id < 4294967296 := h.1
  simp [posPType, dePType, asStruct, zipKeys, req, getKey, deU32, deU, h', deTy_posTy p.ty h.2]

theorem toRegistry_posOfRegistry (r : PortableRegistry) (h : Bounded r) :
    toRegistry (posOfRegistry r) = .ok r := by
  have hr : deArr dePType (.arr (r.map posPType)) = .ok r :=
    deArr_map dePType posPType r (fun p hp => dePType_posPType p (h.2 p hp))
  simp [posOfRegistry, toRegistry, asStruct, zipKeys, req, getKey, hr]

/-! ## inversion: what an accepted document yields -/

theorem deU_ok {b : Nat} {j : Json} {n : Nat} (h : deU b j = .ok n) : n < b := by
  unfold deU at h
  split at h
  · split at h
    · cases h; assumption
    · cases h
  · cases h

theorem req_ok {α} {kv : List (Key × Json)} {k : Key} {f : Json → De α} {a : α}
    (h : req kv k f = .ok a) : ∃ v, f v = .ok a := by
  unfold req at h
  split at h
  · cases h
  · exact ⟨_, h⟩

theorem dflt_ok {α} {kv : List (Key × Json)} {k : Key} {d : α} {f : Json → De α} {a : α}
    (h : dflt kv k d f = .ok a) : a = d ∨ ∃ v, f v = .ok a := by
  unfold dflt at h
  split at h
  · cases h; exact .inl rfl
  · exact .inr ⟨_, h⟩

theorem deOpt_ok {α} {f : Json → De α} {j : Json} {o : Option α} (h : deOpt f j = .ok o) :
    o = none ∨ ∃ a, o = some a ∧ f j = .ok a := by
  unfold deOpt at h
  split at h
  · cases h; exact .inl rfl
  · split at h
    · cases h
    · cases h; exact .inr ⟨_, rfl, by assumption⟩

theorem deList_ok {α} {f : Json → De α} {P : α → Prop} (hf : ∀ j a, f j = .ok a → P a) :
    ∀ (l : List Json) (r : List α), deList f l = .ok r → ∀ a ∈ r, P a := by
  intro l
  induction l with
  | nil =>
    intro r h a ha
    simp only [deList] at h
    cases h
    cases ha
  | cons j js ih =>
    intro r h a ha
    simp only [deList] at h
    split at h
    · cases h
    · rename_i x hx
      split at h
      · cases h
      · rename_i xs hxs
        cases h
        cases ha with
        | head => exact hf _ _ hx
        | tail _ ha' => exact ih xs hxs a ha'

theorem deArr_ok {α} {f : Json → De α} {P : α → Prop} (hf : ∀ j a, f j = .ok a → P a)
    {j : Json} {r : List α} (h : deArr f j = .ok r) : ∀ a ∈ r, P a := by
  unfold deArr at h
  split at h
  · exact deList_ok hf _ _ h
  · cases h

/-- a defaulted list member: either the default (empty) or an accepted array -/
theorem dflt_arr_ok {α} {f : Json → De α} {P : α → Prop} (hf : ∀ j a, f j = .ok a → P a)
    {kv : List (Key × Json)} {k : Key} {r : List α} (h : dflt kv k [] (deArr f) = .ok r) :
    ∀ a ∈ r, P a := by
  rcases dflt_ok h with rfl | ⟨v, hv⟩
  · intro a ha; cases ha
  · exact deArr_ok hf hv

theorem deU32_ok {j : Json} {n : Nat} (h : deU32 j = .ok n) : n < 4294967296 := deU_ok h
theorem deU8_ok {j : Json} {n : Nat} (h : deU8 j = .ok n) : n < 256 := deU_ok h

theorem deTypeOnly_ok {j : Json} {n : Nat} (h : deTypeOnly j = .ok n) : n < 4294967296 := by
  unfold deTypeOnly at h
  split at h
  · cases h
  · obtain ⟨v, hv⟩ := req_ok h
    exact deU32_ok hv

theorem deField_ty_ok {j : Json} {f : Field Nat} (h : deField j = .ok f) : f.ty < 4294967296 := by
  unfold deField at h
  split at h
  · cases h
  · split at h
    · cases h
    · split at h
      · cases h
      · rename_i ty hty
        split at h
        · cases h
        · split at h
          · cases h
          · cases h
            obtain ⟨v, hv⟩ := req_ok hty
            exact deU32_ok hv

theorem deVariant_ok {j : Json} {v : Variant Nat} (h : deVariant j = .ok v) :
    (∀ f ∈ v.fields, f.ty < 4294967296) ∧ v.index < 256 := by
  unfold deVariant at h
  split at h
  · cases h
  · split at h
    · cases h
    · split at h
      · cases h
      · rename_i fs hfs
        split at h
        · cases h
        · rename_i idx hidx
          split at h
          · cases h
          · cases h
            refine ⟨dflt_arr_ok (fun _ _ => deField_ty_ok) hfs, ?_⟩
            obtain ⟨w, hw⟩ := req_ok hidx
            exact deU8_ok hw

theorem deParam_ok {j : Json} {p : TypeParam Nat} (h : deParam j = .ok p) :
    ∀ t, p.ty = some t → t < 4294967296 := by
  unfold deParam at h
  split at h
  · cases h
  · split at h
    · cases h
    · split at h
      · cases h
      · rename_i ty hty
        cases h
        intro t ht
        have key : ∀ (kv : List (Key × Json)),
            (req kv .type_ (deOpt deU32) = .ok ty ∨ dflt kv .type_ none (deOpt deU32) = .ok ty) →
            t < 4294967296 := by
          intro kv hk
          have hv : ty = none ∨ ∃ v, deOpt deU32 v = .ok ty := by
            rcases hk with hk | hk
            · exact .inr (req_ok hk)
            · exact dflt_ok hk
          rcases hv with hv | ⟨v, hv⟩
          · simp only [hv] at ht; cases ht
          · rcases deOpt_ok hv with hn | ⟨a, ha, hav⟩
            · simp only [hn] at ht; cases ht
            · simp only [ha] at ht
              cases ht
              exact deU32_ok hav
        split at hty
        · exact key _ (.inl hty)
        · exact key _ (.inr hty)

end JsonM
end SIM
