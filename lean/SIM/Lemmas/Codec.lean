/-
  SIM.Lemmas.Codec — the encoder/decoder pair of `SIM.Model.Codec` is a bijection between
  bounded values and canonical byte strings (`Good`), built compositionally.
-/
import SIM.Model.Codec
namespace SIM
namespace Codec

/-- `dec` inverts `enc` on `ok` values with exact consumption, and accepts nothing else. -/
structure Good {α} (enc : α → Bytes) (dec : Dec α) (ok : α → Prop) : Prop where
  rt    : ∀ x rest, ok x → dec (enc x ++ rest) = some (x, rest)
  canon : ∀ bs x rest, dec bs = some (x, rest) → ok x ∧ bs = enc x ++ rest

/-! ## consequences of `Good` -/

theorem Good.prefix_free {α} {enc : α → Bytes} {dec : Dec α} {ok : α → Prop} (g : Good enc dec ok)
    (a b : α) (x y : Bytes) (ha : ok a) (hb : ok b) (h : enc a ++ x = enc b ++ y) : a = b ∧ x = y := by
  have h1 := g.rt a x ha
  have h2 := g.rt b y hb
  rw [h, h2] at h1
  simp at h1
  exact ⟨h1.1.symm, h1.2.symm⟩

theorem Good.inj {α} {enc : α → Bytes} {dec : Dec α} {ok : α → Prop} (g : Good enc dec ok)
    (a b : α) (ha : ok a) (hb : ok b) (h : enc a = enc b) : a = b :=
  (g.prefix_free a b [] [] ha hb (by simp [h])).1

theorem Good.mono {α} {enc : α → Bytes} {dec : Dec α} {ok ok' : α → Prop} (g : Good enc dec ok)
    (h : ∀ x, ok x ↔ ok' x) : Good enc dec ok' :=
  ⟨fun x rest hx => g.rt x rest ((h x).2 hx),
   fun bs x rest hd => ⟨(h x).1 (g.canon bs x rest hd).1, (g.canon bs x rest hd).2⟩⟩

/-! ## little endian -/

theorem decLe_le (k : Nat) : ∀ n rest, n < 256 ^ k → decLe k (le k n ++ rest) = some (n, rest) := by
  induction k with
  | zero => intro n rest h; simp at h; simp [decLe, le, h]
  | succ k ih =>
    intro n rest h
    have h' : n / 256 < 256 ^ k := by
      rw [Nat.pow_succ] at h; omega
    simp only [le, List.cons_append, decLe, ih _ rest h']
    have : (UInt8.ofNat (n % 256)).toNat = n % 256 := by
      simp [UInt8.toNat_ofNat']
    rw [this]
    congr 2
    omega

theorem decLe_canon (k : Nat) : ∀ bs x rest, decLe k bs = some (x, rest) → x < 256 ^ k ∧ bs = le k x ++ rest := by
  induction k with
  | zero => intro bs x rest h; simp [decLe] at h; simp [le, h.1.symm, h.2]
  | succ k ih =>
    intro bs x rest h
    cases bs with
    | nil => simp [decLe] at h
    | cons b t =>
      simp only [decLe] at h
      split at h
      · simp at h
      · rename_i v rest' heq
        simp at h
        obtain ⟨hx, hr⟩ := h
        subst hr
        obtain ⟨hv, ht⟩ := ih _ _ _ heq
        have hb := UInt8.toNat_lt b
        refine ⟨by rw [Nat.pow_succ]; omega, ?_⟩
        have h1 : x % 256 = b.toNat := by omega
        have h2 : x / 256 = v := by omega
        simp only [le, h1, h2, List.cons_append, UInt8.ofNat_toNat, ht]

theorem le_length (k : Nat) : ∀ n, (le k n).length = k := by
  induction k with
  | zero => intro n; rfl
  | succ k ih => intro n; simp [le, ih]

theorem good_le (k : Nat) : Good (le k) (decLe k) (· < 256 ^ k) :=
  ⟨decLe_le k, decLe_canon k⟩

/-! ## inversion of the combinators -/

theorem Dec.map_eq_some {α β} (f : α → β) (d : Dec α) (bs : Bytes) (y : β) (r : Bytes) :
    Dec.map f d bs = some (y, r) ↔ ∃ a, d bs = some (a, r) ∧ f a = y := by
  unfold Dec.map
  split
  · simp [*]
  · rename_i a rest h; simp [h]; grind

theorem Dec.filter_eq_some {α} (p : α → Bool) (d : Dec α) (bs : Bytes) (x : α) (r : Bytes) :
    Dec.filter p d bs = some (x, r) ↔ d bs = some (x, r) ∧ p x = true := by
  unfold Dec.filter
  split
  · simp [*]
  · rename_i a rest h; simp [h]; grind

theorem Dec.pair_eq_some {α β} (d1 : Dec α) (d2 : Dec β) (bs : Bytes) (x : α × β) (r : Bytes) :
    Dec.pair d1 d2 bs = some (x, r) ↔ ∃ r1, d1 bs = some (x.1, r1) ∧ d2 r1 = some (x.2, r) := by
  unfold Dec.pair
  split
  · simp [*]
  · rename_i a rest h
    split
    · rename_i h2; simp [h]; grind
    · rename_i b rest' h2; simp [h]; grind

/-! ## compact -/

theorem decCompact_cons (b : UInt8) (rest : Bytes) :
    decCompact (b :: rest) =
      if b.toNat % 4 = 0 then some (b.toNat / 4, rest)
      else if b.toNat % 4 = 1 then Dec.filter (fun n => 64 ≤ n) (Dec.map (· / 4) (decLe 2)) (b :: rest)
      else if b.toNat % 4 = 2 then Dec.filter (fun n => 16384 ≤ n) (Dec.map (· / 4) (decLe 4)) (b :: rest)
      else if b.toNat = 3 then Dec.filter (fun n => 1073741824 ≤ n) (decLe 4) rest else none := by
  simp only [decCompact]
  split <;> simp_all

theorem le_succ_append (k m : Nat) (rest : Bytes) :
    le (k + 1) m ++ rest = UInt8.ofNat (m % 256) :: (le k (m / 256) ++ rest) := by
  simp [le]

theorem toNat_ofNat_mod (m : Nat) : (UInt8.ofNat (m % 256)).toNat = m % 256 := by
  simp [UInt8.toNat_ofNat']

theorem decCompact_enc (n : Nat) (rest : Bytes) (h : n < 4294967296) :
    decCompact (encCompact n ++ rest) = some (n, rest) := by
  unfold encCompact
  split
  · rw [le_succ_append, decCompact_cons, toNat_ofNat_mod]
    have : 4 * n % 256 % 4 = 0 := by omega
    simp [this, le]; omega
  split
  · have hd := decLe_le 2 (4 * n + 1) rest (by omega)
    have e := le_succ_append 1 (4 * n + 1) rest
    rw [e] at hd ⊢
    rw [decCompact_cons, toNat_ofNat_mod]
    have : (4 * n + 1) % 256 % 4 = 1 := by omega
    simp only [this]
    simp [Dec.filter, Dec.map, hd]; omega
  split
  · have hd := decLe_le 4 (4 * n + 2) rest (by omega)
    have e := le_succ_append 3 (4 * n + 2) rest
    rw [e] at hd ⊢
    rw [decCompact_cons, toNat_ofNat_mod]
    have : (4 * n + 2) % 256 % 4 = 2 := by omega
    simp only [this]
    simp [Dec.filter, Dec.map, hd]; omega
  · have hd := decLe_le 4 n rest (by omega)
    rw [List.cons_append, decCompact_cons]
    simp [Dec.filter, hd]; omega

theorem decCompact_canon (bs : Bytes) (x : Nat) (rest : Bytes) (h : decCompact bs = some (x, rest)) :
    x < 4294967296 ∧ bs = encCompact x ++ rest := by
  cases bs with
  | nil => simp [decCompact] at h
  | cons b t =>
    rw [decCompact_cons] at h
    have hb := UInt8.toNat_lt b
    split at h
    · rename_i h0
      simp at h
      obtain ⟨hx, ht⟩ := h
      subst ht
      have : x < 64 := by omega
      have e : 4 * x = b.toNat := by omega
      refine ⟨by omega, ?_⟩
      simp [encCompact, this, le, e]
    split at h
    · rename_i h0 h1
      rw [Dec.filter_eq_some, Dec.map_eq_some] at h
      obtain ⟨⟨v, hv, hvx⟩, hx⟩ := h
      obtain ⟨hlt, hbs⟩ := decLe_canon 2 _ _ _ hv
      rw [le_succ_append] at hbs
      have hh := (List.cons.inj hbs).1
      have hbv : b.toNat = v % 256 := by rw [hh, toNat_ofNat_mod]
      simp at hx hvx
      have e : 4 * x + 1 = v := by omega
      have h64 : ¬ x < 64 := by omega
      have h16 : x < 16384 := by omega
      refine ⟨by omega, ?_⟩
      simp only [encCompact, h64, h16, if_true, if_false, e]
      rw [le_succ_append]; exact hbs
    split at h
    · rename_i h0 h1 h2
      rw [Dec.filter_eq_some, Dec.map_eq_some] at h
      obtain ⟨⟨v, hv, hvx⟩, hx⟩ := h
      obtain ⟨hlt, hbs⟩ := decLe_canon 4 _ _ _ hv
      rw [le_succ_append] at hbs
      have hh := (List.cons.inj hbs).1
      have hbv : b.toNat = v % 256 := by rw [hh, toNat_ofNat_mod]
      simp at hx hvx
      have e : 4 * x + 2 = v := by omega
      have h64 : ¬ x < 64 := by omega
      have h16 : ¬ x < 16384 := by omega
      have h30 : x < 1073741824 := by omega
      refine ⟨by omega, ?_⟩
      simp only [encCompact, h64, h16, h30, if_true, if_false, e]
      rw [le_succ_append]; exact hbs
    split at h
    · rename_i h0 h1 h2 h3
      rw [Dec.filter_eq_some] at h
      obtain ⟨hv, hx⟩ := h
      obtain ⟨hlt, hbs⟩ := decLe_canon 4 _ _ _ hv
      simp at hx
      have h64 : ¬ x < 64 := by omega
      have h16 : ¬ x < 16384 := by omega
      have h30 : ¬ x < 1073741824 := by omega
      refine ⟨by omega, ?_⟩
      have e3 : b = 3 := by
        have := UInt8.ofNat_toNat (x := b); rw [h3] at this; exact this.symm
      simp only [encCompact, h64, h16, h30, if_false, List.cons_append, e3, hbs]
    · simp at h

theorem good_compact : Good encCompact decCompact (· < 4294967296) :=
  ⟨fun x rest h => decCompact_enc x rest h, decCompact_canon⟩

theorem good_u8 : Good encU8 decU8 (· < 256) := good_le 1
theorem good_u32 : Good encU32 decU32 (· < 4294967296) := good_le 4

/-! ## closure lemmas -/

theorem Good.pair {α β} {e1 : α → Bytes} {d1 : Dec α} {ok1 : α → Prop} {e2 : β → Bytes} {d2 : Dec β}
    {ok2 : β → Prop} (g1 : Good e1 d1 ok1) (g2 : Good e2 d2 ok2) :
    Good (fun x : α × β => e1 x.1 ++ e2 x.2) (Dec.pair d1 d2) (fun x => ok1 x.1 ∧ ok2 x.2) := by
  constructor
  · intro x rest h
    simp only [List.append_assoc, Dec.pair, g1.rt x.1 _ h.1, g2.rt x.2 _ h.2]
  · intro bs x rest h
    rw [Dec.pair_eq_some] at h
    obtain ⟨r1, h1, h2⟩ := h
    obtain ⟨o1, b1⟩ := g1.canon _ _ _ h1
    obtain ⟨o2, b2⟩ := g2.canon _ _ _ h2
    exact ⟨⟨o1, o2⟩, by simp [b1, b2]⟩

theorem Good.iso {α β} {enc : α → Bytes} {dec : Dec α} {ok : α → Prop} (g : Good enc dec ok)
    (f : α → β) (inv : β → α) (h1 : ∀ a, inv (f a) = a) (h2 : ∀ b, f (inv b) = b)
    {enc' : β → Bytes} {ok' : β → Prop} (he : ∀ b, enc' b = enc (inv b)) (hok : ∀ b, ok' b ↔ ok (inv b)) :
    Good enc' (Dec.map f dec) ok' := by
  constructor
  · intro x rest h
    rw [he, Dec.map_eq_some]
    exact ⟨inv x, g.rt _ _ ((hok x).1 h), h2 x⟩
  · intro bs x rest h
    rw [Dec.map_eq_some] at h
    obtain ⟨a, ha, hfa⟩ := h
    subst hfa
    obtain ⟨o, b⟩ := g.canon _ _ _ ha
    rw [hok, he, h1]
    exact ⟨o, b⟩

theorem Good.opt {α} {e : α → Bytes} {d : Dec α} {ok : α → Prop} (g : Good e d ok) :
    Good (encOpt e) (decOpt d) (fun o => ∀ a, o = some a → ok a) := by
  constructor
  · intro x rest h
    cases x with
    | none => simp [encOpt, decOpt]
    | some a =>
      simp [encOpt, decOpt, Dec.map, g.rt a rest (h a rfl)]
  · intro bs x rest h
    cases bs with
    | nil => simp [decOpt] at h
    | cons b t =>
      simp only [decOpt] at h
      split at h
      · rename_i h0
        simp at h
        obtain ⟨hx, ht⟩ := h
        subst hx ht
        have : b = 0 := by
          have := UInt8.ofNat_toNat (x := b); rw [h0] at this; exact this.symm
        simp [encOpt, this]
      split at h
      · rename_i h0 h1
        rw [Dec.map_eq_some] at h
        obtain ⟨a, ha, hax⟩ := h
        subst hax
        obtain ⟨o, hb⟩ := g.canon _ _ _ ha
        have : b = 1 := by
          have := UInt8.ofNat_toNat (x := b); rw [h1] at this; exact this.symm
        refine ⟨?_, by simp [encOpt, this, hb]⟩
        intro a' ha'; cases ha'; exact o
      · simp at h

theorem rep_rt {α} {e : α → Bytes} {d : Dec α} {ok : α → Prop} (g : Good e d ok) :
    ∀ (l : List α) (rest : Bytes), (∀ x ∈ l, ok x) → Dec.rep d l.length (l.flatMap e ++ rest) = some (l, rest) := by
  intro l
  induction l with
  | nil => intro rest _; simp [Dec.rep]
  | cons a l ih =>
    intro rest h
    simp only [List.length_cons, List.flatMap_cons, List.append_assoc, Dec.rep,
      g.rt a _ (h a (by simp)), ih rest (fun x hx => h x (by simp [hx]))]

theorem rep_canon {α} {e : α → Bytes} {d : Dec α} {ok : α → Prop} (g : Good e d ok) :
    ∀ (n : Nat) (bs : Bytes) (l : List α) (rest : Bytes), Dec.rep d n bs = some (l, rest) →
      l.length = n ∧ (∀ x ∈ l, ok x) ∧ bs = l.flatMap e ++ rest := by
  intro n
  induction n with
  | zero => intro bs l rest h; simp [Dec.rep] at h; obtain ⟨rfl, rfl⟩ := h; simp
  | succ n ih =>
    intro bs l rest h
    simp only [Dec.rep] at h
    split at h
    · simp at h
    · rename_i a r1 h1
      split at h
      · simp at h
      · rename_i as r2 h2
        simp at h
        obtain ⟨hl, hr⟩ := h
        subst hl hr
        obtain ⟨oa, ba⟩ := g.canon _ _ _ h1
        obtain ⟨len, oas, bas⟩ := ih _ _ _ h2
        refine ⟨by simp [len], ?_, by simp [ba, bas]⟩
        intro x hx
        simp at hx
        rcases hx with rfl | hx
        · exact oa
        · exact oas x hx

theorem Good.vec {α} {e : α → Bytes} {d : Dec α} {ok : α → Prop} (g : Good e d ok) :
    Good (encVec e) (decVec d) (fun l => l.length < 4294967296 ∧ ∀ x ∈ l, ok x) := by
  constructor
  · intro l rest h
    simp only [encVec, List.append_assoc, decVec, decCompact_enc _ _ h.1, rep_rt g l rest h.2]
  · intro bs l rest h
    simp only [decVec] at h
    split at h
    · simp at h
    · rename_i n r1 h1
      obtain ⟨on, bn⟩ := decCompact_canon _ _ _ h1
      obtain ⟨len, oas, bas⟩ := rep_canon g _ _ _ _ h
      subst len
      exact ⟨⟨on, oas⟩, by simp [encVec, bn, bas]⟩

/-! ## strings -/

theorem good_str : Good encStr decStr okStr := by
  constructor
  · intro s rest h
    simp only [encStr, List.append_assoc, decStr, decCompact_enc _ _ h.1]
    simp [take?, h.2]
  · intro bs s rest h
    simp only [decStr] at h
    split at h
    · simp at h
    · rename_i n r1 h1
      obtain ⟨on, bn⟩ := decCompact_canon _ _ _ h1
      split at h
      · simp at h
      · rename_i s' rest' h2
        split at h
        · rename_i hv
          simp at h
          obtain ⟨hs, hr⟩ := h
          subst hs hr
          simp only [take?] at h2
          split at h2
          · rename_i hle
            simp at h2
            obtain ⟨e1, e2⟩ := h2
            have hlen : s'.length = n := by rw [← e1]; simp; omega
            refine ⟨⟨by omega, hv⟩, ?_⟩
            rw [bn, encStr, hlen, ← e1, ← e2]; simp
          · simp at h2
        · simp at h

/-! ## assembling the type description -/

theorem good_id : Good encCompact decCompact okId := good_compact

theorem good_optStr : Good (encOpt encStr) (decOpt decStr) okOptStr :=
  good_str.opt.mono (by intro x; cases x <;> simp [okOptStr])

theorem good_strs : Good (encVec encStr) (decVec decStr) okStrs :=
  good_str.vec.mono (fun _ => Iff.rfl)

theorem good_field : Good encField decField okField :=
  (good_optStr.pair (good_id.pair (good_optStr.pair good_strs))).iso _
    (fun f => (f.name, f.ty, f.typeName, f.docs)) (fun _ => rfl) (fun _ => rfl)
    (by intro b; simp [encField]) (fun _ => Iff.rfl)

theorem good_fields : Good (encVec encField) (decVec decField) okFields :=
  good_field.vec.mono (fun _ => Iff.rfl)

theorem good_variant : Good encVariant decVariant okVariant :=
  (good_str.pair (good_fields.pair (good_u8.pair good_strs))).iso _
    (fun v => (v.name, v.fields, v.index, v.docs)) (fun _ => rfl) (fun _ => rfl)
    (by intro b; simp [encVariant]) (fun _ => Iff.rfl)

theorem good_param : Good encParam decParam okParam :=
  (good_str.pair good_id.opt).iso _
    (fun p => (p.name, p.ty)) (fun _ => rfl) (fun _ => rfl)
    (by intro b; simp [encParam])
    (by intro b; rcases b with ⟨n, t⟩; cases t <;> simp [okParam])

/-! ## primitives and definitions -/

theorem primOfTag_primTag (p : Prim) : primOfTag (primTag p) = some p := by
  cases p <;> rfl

theorem primTag_of_primOfTag (n : Nat) (p : Prim) (h : primOfTag n = some p) : primTag p = n := by
  unfold primOfTag at h
  split at h <;> simp at h <;> subst h <;> rfl

theorem primTag_lt (p : Prim) : primTag p < 15 := by
  cases p <;> decide

theorem primOfTag_none (n : Nat) (h : 15 ≤ n) : primOfTag n = none := by
  unfold primOfTag
  split <;> first | omega | rfl

theorem good_prim : Good (fun p => encU8 (primTag p)) decPrim (fun _ => True) := by
  constructor
  · intro p rest _
    have := primTag_lt p
    simp only [decPrim, good_u8.rt (primTag p) rest (by omega), primOfTag_primTag]
  · intro bs p rest h
    simp only [decPrim] at h
    split at h
    · simp at h
    · rename_i t r1 h1
      split at h
      · simp at h
      · rename_i p' hp
        simp at h
        obtain ⟨rfl, rfl⟩ := h
        obtain ⟨_, b⟩ := good_u8.canon _ _ _ h1
        rw [primTag_of_primOfTag _ _ hp]
        exact ⟨trivial, b⟩

theorem decTypeDef_cons (tag : UInt8) (rest : Bytes) :
    decTypeDef (tag :: rest) =
      if tag.toNat = 0 then Dec.map TypeDef.composite (decVec decField) rest
      else if tag.toNat = 1 then Dec.map TypeDef.variant (decVec decVariant) rest
      else if tag.toNat = 2 then Dec.map TypeDef.sequence decCompact rest
      else if tag.toNat = 3 then
        Dec.map (fun (x : Nat × Nat) => TypeDef.array x.1 x.2) (Dec.pair decU32 decCompact) rest
      else if tag.toNat = 4 then Dec.map TypeDef.tuple (decVec decCompact) rest
      else if tag.toNat = 5 then Dec.map TypeDef.primitive decPrim rest
      else if tag.toNat = 6 then Dec.map TypeDef.compact decCompact rest
      else if tag.toNat = 7 then
        Dec.map (fun (x : Nat × Nat) => TypeDef.bitSequence x.1 x.2) (Dec.pair decCompact decCompact) rest
      else none := by
  simp only [decTypeDef]
  split <;> simp_all

theorem u8_eq_of_toNat (b : UInt8) (n : Nat) (h : b.toNat = n) : b = UInt8.ofNat n := by
  rw [← h, UInt8.ofNat_toNat]

theorem good_variants : Good (encVec encVariant) (decVec decVariant)
    (fun vs => vs.length < 4294967296 ∧ ∀ v ∈ vs, okVariant v) := good_variant.vec

theorem good_ids : Good (encVec encCompact) (decVec decCompact)
    (fun ts => ts.length < 4294967296 ∧ ∀ t ∈ ts, okId t) := good_id.vec

theorem good_array : Good (fun x : Nat × Nat => encU32 x.1 ++ encCompact x.2) (Dec.pair decU32 decCompact)
    (fun x => x.1 < 4294967296 ∧ okId x.2) := good_u32.pair good_id

theorem good_bitseq : Good (fun x : Nat × Nat => encCompact x.1 ++ encCompact x.2) (Dec.pair decCompact decCompact)
    (fun x => okId x.1 ∧ okId x.2) := good_id.pair good_id

theorem decTypeDef_enc (d : TypeDef Nat) (rest : Bytes) (h : okTypeDef d) :
    decTypeDef (encTypeDef d ++ rest) = some (d, rest) := by
  cases d with
  | composite fs =>
    simp only [encTypeDef, List.cons_append, decTypeDef_cons]
    simp [Dec.map, good_fields.rt fs rest h]
  | variant vs =>
    simp only [encTypeDef, List.cons_append, decTypeDef_cons]
    simp [Dec.map, good_variants.rt vs rest h]
  | sequence t =>
    simp only [encTypeDef, List.cons_append, decTypeDef_cons]
    simp [Dec.map, good_id.rt t rest h]
  | array n t =>
    simp only [encTypeDef, List.cons_append, decTypeDef_cons]
    have e := good_array.rt (n, t) rest h
    simp only [List.append_assoc] at e
    simp [Dec.map, e]
  | tuple ts =>
    simp only [encTypeDef, List.cons_append, decTypeDef_cons]
    simp [Dec.map, good_ids.rt ts rest h]
  | primitive p =>
    simp only [encTypeDef, List.cons_append, decTypeDef_cons]
    simp [Dec.map, good_prim.rt p rest trivial]
  | compact t =>
    simp only [encTypeDef, List.cons_append, decTypeDef_cons]
    simp [Dec.map, good_id.rt t rest h]
  | bitSequence s o =>
    simp only [encTypeDef, List.cons_append, decTypeDef_cons]
    have e := good_bitseq.rt (s, o) rest h
    simp only [List.append_assoc] at e
    simp [Dec.map, e]

theorem decTypeDef_canon (bs : Bytes) (d : TypeDef Nat) (rest : Bytes) (h : decTypeDef bs = some (d, rest)) :
    okTypeDef d ∧ bs = encTypeDef d ++ rest := by
  cases bs with
  | nil => simp [decTypeDef] at h
  | cons tag t =>
    rw [decTypeDef_cons] at h
    split at h
    · rename_i ht
      rw [Dec.map_eq_some] at h; obtain ⟨a, ha, rfl⟩ := h
      obtain ⟨o, b⟩ := good_fields.canon _ _ _ ha
      exact ⟨o, by simp [encTypeDef, u8_eq_of_toNat _ _ ht, b]⟩
    split at h
    · rename_i ht
      rw [Dec.map_eq_some] at h; obtain ⟨a, ha, rfl⟩ := h
      obtain ⟨o, b⟩ := good_variants.canon _ _ _ ha
      exact ⟨o, by simp [encTypeDef, u8_eq_of_toNat _ _ ht, b]⟩
    split at h
    · rename_i ht
      rw [Dec.map_eq_some] at h; obtain ⟨a, ha, rfl⟩ := h
      obtain ⟨o, b⟩ := good_id.canon _ _ _ ha
      exact ⟨o, by simp [encTypeDef, u8_eq_of_toNat _ _ ht, b]⟩
    split at h
    · rename_i ht
      rw [Dec.map_eq_some] at h; obtain ⟨a, ha, rfl⟩ := h
      obtain ⟨o, b⟩ := good_array.canon _ _ _ ha
      exact ⟨o, by simp [encTypeDef, u8_eq_of_toNat _ _ ht, b]⟩
    split at h
    · rename_i ht
      rw [Dec.map_eq_some] at h; obtain ⟨a, ha, rfl⟩ := h
      obtain ⟨o, b⟩ := good_ids.canon _ _ _ ha
      exact ⟨o, by simp [encTypeDef, u8_eq_of_toNat _ _ ht, b]⟩
    split at h
    · rename_i ht
      rw [Dec.map_eq_some] at h; obtain ⟨a, ha, rfl⟩ := h
      obtain ⟨o, b⟩ := good_prim.canon _ _ _ ha
      exact ⟨o, by simp [encTypeDef, u8_eq_of_toNat _ _ ht, b]⟩
    split at h
    · rename_i ht
      rw [Dec.map_eq_some] at h; obtain ⟨a, ha, rfl⟩ := h
      obtain ⟨o, b⟩ := good_id.canon _ _ _ ha
      exact ⟨o, by simp [encTypeDef, u8_eq_of_toNat _ _ ht, b]⟩
    split at h
    · rename_i ht
      rw [Dec.map_eq_some] at h; obtain ⟨a, ha, rfl⟩ := h
      obtain ⟨o, b⟩ := good_bitseq.canon _ _ _ ha
      exact ⟨o, by simp [encTypeDef, u8_eq_of_toNat _ _ ht, b]⟩
    · simp at h

theorem good_typeDef : Good encTypeDef decTypeDef okTypeDef :=
  ⟨decTypeDef_enc, decTypeDef_canon⟩

theorem good_params : Good (encVec encParam) (decVec decParam)
    (fun ps => ps.length < 4294967296 ∧ ∀ p ∈ ps, okParam p) := good_param.vec

theorem good_ty : Good encTy decTy okTy :=
  (good_strs.pair (good_params.pair (good_typeDef.pair good_strs))).iso _
    (fun t => (t.path, t.params, t.def_, t.docs)) (fun _ => rfl) (fun _ => rfl)
    (by intro b; simp [encTy]) (fun _ => Iff.rfl)

theorem good_ptype : Good encPType decPType okPType :=
  (good_id.pair good_ty).iso _
    (fun p => (p.id, p.ty)) (fun _ => rfl) (fun _ => rfl)
    (by intro b; simp [encPType]) (fun _ => Iff.rfl)

/-- the registry codec is a bijection between `Bounded` registries and accepted byte strings -/
theorem good_registry : Good encode decode Bounded :=
  good_ptype.vec.mono (fun _ => Iff.rfl)

end Codec
end SIM
