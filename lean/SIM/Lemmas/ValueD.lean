/-
  SIM.Lemmas.ValueD — values of derived (and built-in) types are well typed against a registry that describes
  them faithfully (`FaithfulD`): the induction of `builtin_typed_aux` carried over to `ValOfD`, plus the two
  derived cases (struct / enum) through `Derive.typeInfo_def`.
-/
import SIM.Lemmas.Value
import SIM.Lemmas.DeriveDef
import SIM.Spec.TypingD
import SIM.Props.C16
namespace SIM
namespace Value
open Codec Spec Impls Derive

/-! ## lists -/

theorem enumFrom_getElem? {α} (l : List α) : ∀ (k i : Nat) (x : α), l[i]? = some x → (enumFrom k l)[i]? = some (k + i, x) := by
  induction l with
  | nil => intro k i x h; simp at h
  | cons a l ih =>
    intro k i x h
    cases i with
    | zero =>
      simp only [List.getElem?_cons_zero, Option.some.injEq] at h
      subst h
      simp [enumFrom]
    | succ i =>
      simp only [List.getElem?_cons_succ] at h
      have := ih (k + 1) i x h
      simp only [enumFrom, List.getElem?_cons_succ, this]
      congr 2
      omega

/-- in a list with pairwise distinct keys the first element carrying the key of position `i` is the one at position `i` -/
theorem find?_of_nodup_key {α} (key : α → Nat) (l : List α) : ∀ (i : Nat) (x : α), (l.map key).Nodup → l[i]? = some x →
    l.find? (fun y => key y == key x) = some x := by
  induction l with
  | nil => intro i x _ h; simp at h
  | cons a l ih =>
    intro i x hnd h
    simp only [List.map_cons, List.nodup_cons] at hnd
    cases i with
    | zero =>
      simp only [List.getElem?_cons_zero, Option.some.injEq] at h
      subst h
      simp
    | succ i =>
      simp only [List.getElem?_cons_succ] at h
      have hx : x ∈ l := List.mem_of_getElem? h
      have hne : (key a == key x) = false := by
        apply Bool.eq_false_iff.2
        intro he
        have he' : key a = key x := by simpa using he
        exact hnd.1 (by rw [he']; exact List.mem_map_of_mem hx)
      rw [List.find?_cons, hne]
      exact ih i x hnd.2 h

/-! ## the description of a type through its aliases -/

section DerivedTyped

variable {docs : Bool} {env : TyExpr → Option Decl} {S : TyExpr → Prop} {reg : PortableRegistry} {idOf : TyExpr → Nat}

theorem typeInfoD_congr (docs : Bool) (env : TyExpr → Option Decl) {s t : TyExpr} (h : identity s = identity t) :
    typeInfoD docs env s = typeInfoD docs env t := by
  unfold typeInfoD
  rw [h]

/-- `t` is described in the registry at `idOf t`: some member of `S` declares the same identity (the transparent
    wrappers `Box<T>`, `&T`, … share it with `T`), hence the same id and the same `type_info` -/
def DescD (S : TyExpr → Prop) (t : TyExpr) : Prop := ∃ s, S s ∧ identity s = identity t

theorem DescD.of {t : TyExpr} (h : S t) : DescD S t := ⟨t, h, rfl⟩

theorem DescD.info (hf : FaithfulD docs env S reg idOf) {t : TyExpr} (hd : DescD S t) (ty : Ty TyExpr)
    (hty : typeInfoD docs env t = some ty) :
    resolve reg (idOf t) = some (ty.map idOf) ∧ ∀ r ∈ ty.refs, DescD S r := by
  obtain ⟨s, hs, hid⟩ := hd
  rw [← typeInfoD_congr docs env hid] at hty
  refine ⟨?_, fun r hr => DescD.of (hf.closed s ty hs hty r hr)⟩
  rw [hf.ident t, ← hid, ← hf.ident s]; exact hf.res s ty hs hty

theorem DescD.unwrap (hf : FaithfulD docs env S reg idOf) {t' t : TyExpr} (hid : identity t' = identity t)
    (hd : DescD S t') : idOf t' = idOf t ∧ DescD S t := by
  have e : idOf t' = idOf t := by rw [hf.ident t', hf.ident t, hid]
  obtain ⟨s, hs, hid'⟩ := hd
  exact ⟨e, s, hs, hid'.trans hid⟩

theorem DescD.adt (hadt : ∀ t n a, S t → identity t = .adt n a → S (.adt n a)) {n : Nat} {a : TyExpr}
    (hd : DescD S (.adt n a)) : S (.adt n a) := by
  obtain ⟨s, hs, hid⟩ := hd
  exact hadt s n a hs hid

theorem hasTyD_uint (hf : FaithfulD docs env S reg idOf) (w : W) (n : Nat) (hd : DescD S (.uint w))
    (hn : n < 2 ^ w.bits) : HasTy reg (idOf (.uint w)) (.uint w.bits n) := by
  obtain ⟨hres, _⟩ := hd.info hf _ rfl
  exact HasTy.uint hres rfl (primBits_uint w) hn

theorem hasTyD_sint (hf : FaithfulD docs env S reg idOf) (w : W) (z : Int) (hd : DescD S (.sint w))
    (hlo : -(2 ^ (w.bits - 1) : Int) ≤ z) (hhi : z < (2 ^ (w.bits - 1) : Int)) :
    HasTy reg (idOf (.sint w)) (.sint w.bits z) := by
  obtain ⟨hres, _⟩ := hd.info hf _ rfl
  exact HasTy.sint hres rfl (primBits_sint w) hlo hhi

theorem hasTyD_slice (hf : FaithfulD docs env S reg idOf) (t : TyExpr) (vs : List Val) (hd : DescD S (.slice t))
    (hlen : vs.length < 4294967296) (ih : ∀ v, v ∈ vs → DescD S t → HasTy reg (idOf t) v) :
    HasTy reg (idOf (.slice t)) (.seq vs) := by
  obtain ⟨hres, hcl⟩ := hd.info hf _ rfl
  exact HasTy.seq hres rfl hlen (fun v hv => ih v hv (hcl t (by simp [Ty.refs, Build.ofDef, paramRefs, TypeDef.refs])))

theorem hasTyD_compact (hf : FaithfulD docs env S reg idOf) (w : W) (n : Nat) (hd : DescD S (.compact (.uint w)))
    (hn : n < 2 ^ w.bits) : HasTy reg (idOf (.compact (.uint w))) (.compact w.bits n) := by
  obtain ⟨hres, hcl⟩ := hd.info hf _ rfl
  have hu : DescD S (.uint w) := hcl _ (by simp [Ty.refs, Build.ofDef, paramRefs, TypeDef.refs])
  obtain ⟨hres', _⟩ := hu.info hf _ rfl
  exact HasTy.compact hres rfl hres' rfl (primBits_uint w) (W.bits_le w) hn

theorem isPhantom_compact (t : TyExpr) : isPhantom (.compact t) = false := by simp [isPhantom, identity]

/-! ### `membersExpected` on a cons -/

theorem membersExpected_skip (tn : Str → Str) (c : Capture) (f : FieldD) (fs : List FieldD) (h : f.skip = true) :
    membersExpected tn docs c (f :: fs) = membersExpected tn docs c fs := by
  simp [membersExpected, h]

theorem membersExpected_phantom (tn : Str → Str) (c : Capture) (f : FieldD) (fs : List FieldD)
    (hc : f.compact = false) (hp : isPhantom f.ty = true) :
    membersExpected tn docs c (f :: fs) = membersExpected tn docs c fs := by
  simp [membersExpected, hc, hp]

/-- the description of a plain / compact member -/
def plainField (tn : Str → Str) (docs : Bool) (c : Capture) (f : FieldD) : Field TyExpr :=
  { name := (match f.rename with | some r => some r | none => f.ident), ty := f.ty,
    typeName := some (tn f.tyText), docs := capturedDocs docs c f.docs }

def compactField (tn : Str → Str) (docs : Bool) (c : Capture) (f : FieldD) : Field TyExpr :=
  { name := (match f.rename with | some r => some r | none => f.ident), ty := .compact f.ty,
    typeName := some (tn f.tyText), docs := capturedDocs docs c f.docs }

theorem membersExpected_plain (tn : Str → Str) (c : Capture) (f : FieldD) (fs : List FieldD)
    (hs : f.skip = false) (hc : f.compact = false) (hp : isPhantom f.ty = false) :
    membersExpected tn docs c (f :: fs) = plainField tn docs c f :: membersExpected tn docs c fs := by
  simp [membersExpected, plainField, hs, hc, hp]
  rfl

theorem membersExpected_compact (tn : Str → Str) (c : Capture) (f : FieldD) (fs : List FieldD)
    (hs : f.skip = false) (hc : f.compact = true) :
    membersExpected tn docs c (f :: fs) = compactField tn docs c f :: membersExpected tn docs c fs := by
  simp [membersExpected, compactField, hs, hc, isPhantom_compact]
  rfl

/-! ### the main induction -/

theorem derived_typed_aux (hf : FaithfulD docs env S reg idOf)
    (hadt : ∀ t n a, S t → identity t = .adt n a → S (.adt n a)) (t : TyExpr) (v : Val) (hv : ValOfD env t v) :
    DescD S t → HasTy reg (idOf t) v := by
  refine ValOfD.rec (env := env)
    (motive_1 := fun t v _ => DescD S t → HasTy reg (idOf t) v)
    (motive_2 := fun ts vs _ => (∀ t, t ∈ ts → isPhantom t = false → DescD S t) →
      ElemsTy reg ((ts.filter (fun t => !isPhantom t)).map idOf) vs ∧
      FieldsTy reg ((pushed (ts.map uf)).map (Field.map idOf)) (vs.map (fun v => (none, v))))
    (motive_3 := fun fs vs _ => ∀ c : Capture, (∀ m, m ∈ membersExpected cleanTypeString docs c fs → DescD S m.ty) →
      FieldsTy reg ((membersExpected cleanTypeString docs c fs).map (Field.map idOf)) vs)
    ?bool ?uint ?sint ?string ?str ?array ?tuple0 ?tuple ?slice ?vec ?vecDeque ?none ?some ?ok ?err
    ?box_ ?rc ?arc ?ref_ ?refMut ?cow ?btreeMap ?btreeSet ?binaryHeap ?compact ?range ?rangeIncl
    ?nonZeroU ?nonZeroI ?duration ?phantom ?bitVec ?adtStruct ?adtEnum ?mnil ?mskip ?mcons
    ?fnil ?fskip ?fphantom ?fplain ?fcompact hv
  case bool =>
    intro b hd
    obtain ⟨hres, _⟩ := hd.info hf _ rfl
    exact HasTy.bool hres rfl
  case uint => intro w n hn hd; exact hasTyD_uint hf w n hd hn
  case sint => intro w z hlo hhi hd; exact hasTyD_sint hf w z hd hlo hhi
  case string =>
    intro s hs hd
    obtain ⟨hres, _⟩ := hd.info hf _ rfl
    exact HasTy.str hres rfl hs
  case str =>
    intro s hs hd
    obtain ⟨hres, _⟩ := hd.info hf _ rfl
    exact HasTy.str hres rfl hs
  case array =>
    intro n t vs hlen hn _ ih hd
    obtain ⟨hres, hcl⟩ := hd.info hf _ rfl
    refine HasTy.array hres rfl (by rw [hlen, Nat.mod_eq_of_lt hn]) (fun v hv => ih v hv (hcl t ?_))
    simp [Ty.refs, Build.ofDef, paramRefs, TypeDef.refs]
  case tuple0 =>
    intro hd
    obtain ⟨hres, _⟩ := hd.info hf _ rfl
    exact HasTy.tuple hres rfl ElemsTy.nil
  case tuple =>
    intro h r vs _ ih hd
    obtain ⟨hres, hcl⟩ := hd.info hf _ rfl
    refine HasTy.tuple hres rfl (ih (fun t ht hph => hcl t ?_)).1
    simp only [Ty.refs, Build.ofDef, paramRefs, TypeDef.refs, Build.tupleNew, List.filterMap_nil, List.nil_append,
      List.mem_filter]
    exact ⟨ht, by simp [hph]⟩
  case slice => intro t vs hlen _ ih hd; exact hasTyD_slice hf t vs hd hlen ih
  case vec =>
    intro t vs hlen _ ih hd
    obtain ⟨hres, hcl⟩ := hd.info hf _ rfl
    exact HasTy.seq hres rfl hlen (fun v hv => ih v hv (hcl t (by simp [Ty.refs, Build.ofDef, paramRefs, TypeDef.refs])))
  case vecDeque =>
    intro t vs hlen _ ih hd
    obtain ⟨hres, hcl⟩ := hd.info hf _ rfl
    exact HasTy.seq hres rfl hlen (fun v hv => ih v hv (hcl t (by simp [Ty.refs, Build.ofDef, paramRefs, TypeDef.refs])))
  case none =>
    intro t hd
    obtain ⟨hres, _⟩ := hd.info hf _ rfl
    exact HasTy.variant (v := Variant.map idOf { name := sNone, fields := [], index := 0, docs := [] })
      (idx := 0) (vs := []) hres rfl rfl (by decide) FieldsTy.nil
  case some =>
    intro t vs _ ih hd
    obtain ⟨hres, hcl⟩ := hd.info hf _ rfl
    have hm := (ih (fun t' ht' _ => hcl t' (by
      simp only [List.mem_singleton] at ht'; subst ht'
      simp [Ty.refs, mk, tp, paramRefs]))).2
    exact HasTy.variant (v := Variant.map idOf { name := sSome, fields := pushed [uf t], index := 1, docs := [] })
      (idx := 1) hres rfl rfl (by decide) hm
  case ok =>
    intro t e vs _ ih hd
    obtain ⟨hres, hcl⟩ := hd.info hf _ rfl
    have hm := (ih (fun t' ht' _ => hcl t' (by
      simp only [List.mem_singleton] at ht'; subst ht'
      simp [Ty.refs, mk, tp, paramRefs]))).2
    exact HasTy.variant (v := Variant.map idOf { name := sOk, fields := pushed [uf t], index := 0, docs := [] })
      (idx := 0) hres rfl rfl (by decide) hm
  case err =>
    intro t e vs _ ih hd
    obtain ⟨hres, hcl⟩ := hd.info hf _ rfl
    have hm := (ih (fun t' ht' _ => hcl t' (by
      simp only [List.mem_singleton] at ht'; subst ht'
      simp [Ty.refs, mk, tp, paramRefs]))).2
    exact HasTy.variant (v := Variant.map idOf { name := sErr, fields := pushed [uf e], index := 1, docs := [] })
      (idx := 1) hres rfl rfl (by decide) hm
  case box_ =>
    intro t v _ ih hd
    obtain ⟨e, hd'⟩ := DescD.unwrap hf (t' := .box_ t) (t := t) rfl hd
    rw [e]; exact ih hd'
  case rc =>
    intro t v _ ih hd
    obtain ⟨e, hd'⟩ := DescD.unwrap hf (t' := .rc t) (t := t) rfl hd
    rw [e]; exact ih hd'
  case arc =>
    intro t v _ ih hd
    obtain ⟨e, hd'⟩ := DescD.unwrap hf (t' := .arc t) (t := t) rfl hd
    rw [e]; exact ih hd'
  case ref_ =>
    intro t v _ ih hd
    obtain ⟨e, hd'⟩ := DescD.unwrap hf (t' := .ref_ t) (t := t) rfl hd
    rw [e]; exact ih hd'
  case refMut =>
    intro t v _ ih hd
    obtain ⟨e, hd'⟩ := DescD.unwrap hf (t' := .refMut t) (t := t) rfl hd
    rw [e]; exact ih hd'
  case cow =>
    intro t vs _ ih hd
    obtain ⟨hres, hcl⟩ := hd.info hf _ rfl
    have hm := (ih (fun t' ht' _ => hcl t' (by
      simp only [List.mem_singleton] at ht'; subst ht'
      simp [Ty.refs, mk, tp, paramRefs]))).2
    exact HasTy.composite hres rfl hm
  case btreeMap =>
    intro k v ps hlen _ ih hd
    have hty : Impls.typeInfo docs (.btreeMap k v) = some (mk [sBTreeMap] [tp sK k, tp sV v]
        (.composite [uf (.slice (.tupleCons k (.tupleCons v .tuple0)))])) := by
      simp only [Impls.typeInfo, pushed_one _ (isPhantom_slice _)]
    obtain ⟨hres, hcl⟩ := hd.info hf _ hty
    have hs : DescD S (.slice (.tupleCons k (.tupleCons v .tuple0))) :=
      hcl _ (by simp [Ty.refs, mk, TypeDef.refs, fieldRefs, uf])
    exact HasTy.composite hres rfl (fieldsTy_one _ _ (hasTyD_slice hf _ ps hs hlen ih))
  case btreeSet =>
    intro t vs hlen _ ih hd
    have hty : Impls.typeInfo docs (.btreeSet t) = some (mk [sBTreeSet] [tp sT t] (.composite [uf (.slice t)])) := by
      simp only [Impls.typeInfo, pushed_one _ (isPhantom_slice _)]
    obtain ⟨hres, hcl⟩ := hd.info hf _ hty
    have hs : DescD S (.slice t) := hcl _ (by simp [Ty.refs, mk, TypeDef.refs, fieldRefs, uf])
    exact HasTy.composite hres rfl (fieldsTy_one _ _ (hasTyD_slice hf _ vs hs hlen ih))
  case binaryHeap =>
    intro t vs hlen _ ih hd
    have hty : Impls.typeInfo docs (.binaryHeap t) = some (mk [sBinaryHeap] [tp sT t] (.composite [uf (.slice t)])) := by
      simp only [Impls.typeInfo, pushed_one _ (isPhantom_slice _)]
    obtain ⟨hres, hcl⟩ := hd.info hf _ hty
    have hs : DescD S (.slice t) := hcl _ (by simp [Ty.refs, mk, TypeDef.refs, fieldRefs, uf])
    exact HasTy.composite hres rfl (fieldsTy_one _ _ (hasTyD_slice hf _ vs hs hlen ih))
  case compact =>
    intro w n hn hd
    obtain ⟨hres, hcl⟩ := hd.info hf _ rfl
    have hu : DescD S (.uint w) := hcl _ (by simp [Ty.refs, Build.ofDef, paramRefs, TypeDef.refs])
    obtain ⟨hres', _⟩ := hu.info hf _ rfl
    exact HasTy.compact hres rfl hres' rfl (primBits_uint w) (W.bits_le w) hn
  case range =>
    intro t a b _ _ hph iha ihb hd
    have hty : Impls.typeInfo docs (.range t) = some (mk [sRange] [tp sIdx t] (.composite
        [{ name := some sstart, ty := t, typeName := some sIdx, docs := [] },
         { name := some send, ty := t, typeName := some sIdx, docs := [] }])) := by
      simp [Impls.typeInfo, pushed, hph]
    obtain ⟨hres, hcl⟩ := hd.info hf _ hty
    have ht : DescD S t := hcl _ (by simp [Ty.refs, mk, tp, paramRefs])
    exact HasTy.composite hres rfl
      (FieldsTy.cons (f := Field.map idOf { name := some sstart, ty := t, typeName := some sIdx, docs := [] }) (iha ht)
        (FieldsTy.cons (f := Field.map idOf { name := some send, ty := t, typeName := some sIdx, docs := [] }) (ihb ht)
          FieldsTy.nil))
  case rangeIncl =>
    intro t a b _ _ hph iha ihb hd
    have hty : Impls.typeInfo docs (.rangeIncl t) = some (mk [sRangeInclusive] [tp sIdx t] (.composite
        [{ name := some sstart, ty := t, typeName := some sIdx, docs := [] },
         { name := some send, ty := t, typeName := some sIdx, docs := [] }])) := by
      simp [Impls.typeInfo, pushed, hph]
    obtain ⟨hres, hcl⟩ := hd.info hf _ hty
    have ht : DescD S t := hcl _ (by simp [Ty.refs, mk, tp, paramRefs])
    exact HasTy.composite hres rfl
      (FieldsTy.cons (f := Field.map idOf { name := some sstart, ty := t, typeName := some sIdx, docs := [] }) (iha ht)
        (FieldsTy.cons (f := Field.map idOf { name := some send, ty := t, typeName := some sIdx, docs := [] }) (ihb ht)
          FieldsTy.nil))
  case nonZeroU =>
    intro w n hn hd
    have hty : Impls.typeInfo docs (.nonZeroU w) = some (mk [nonZeroUName w] [] (.composite [uf (.uint w)])) := by
      simp only [Impls.typeInfo, pushed_one _ (isPhantom_uint w)]
    obtain ⟨hres, hcl⟩ := hd.info hf _ hty
    have hu : DescD S (.uint w) := hcl _ (by simp [Ty.refs, mk, paramRefs, TypeDef.refs, fieldRefs, uf])
    exact HasTy.composite hres rfl (fieldsTy_one _ _ (hasTyD_uint hf w n hu hn))
  case nonZeroI =>
    intro w z hlo hhi hd
    have hty : Impls.typeInfo docs (.nonZeroI w) = some (mk [nonZeroIName w] [] (.composite [uf (.sint w)])) := by
      simp only [Impls.typeInfo, pushed_one _ (isPhantom_sint w)]
    obtain ⟨hres, hcl⟩ := hd.info hf _ hty
    have hu : DescD S (.sint w) := hcl _ (by simp [Ty.refs, mk, paramRefs, TypeDef.refs, fieldRefs, uf])
    exact HasTy.composite hres rfl (fieldsTy_one _ _ (hasTyD_sint hf w z hu hlo hhi))
  case duration =>
    intro s n hs hn hd
    have hty : Impls.typeInfo docs .duration = some (mk [sDuration] [] (.composite
        [{ name := none, ty := .uint .w64, typeName := some su64, docs := [] },
         { name := none, ty := .uint .w32, typeName := some su32, docs := [] }])) := by
      simp [Impls.typeInfo, pushed, isPhantom_uint]
    obtain ⟨hres, hcl⟩ := hd.info hf _ hty
    have h64 : DescD S (.uint .w64) := hcl _ (by simp [Ty.refs, mk, paramRefs, TypeDef.refs, fieldRefs])
    have h32 : DescD S (.uint .w32) := hcl _ (by simp [Ty.refs, mk, paramRefs, TypeDef.refs, fieldRefs])
    exact HasTy.composite hres rfl
      (FieldsTy.cons (f := Field.map idOf { name := none, ty := .uint .w64, typeName := some su64, docs := [] })
        (hasTyD_uint hf .w64 s h64 hs)
        (FieldsTy.cons (f := Field.map idOf { name := none, ty := .uint .w32, typeName := some su32, docs := [] })
          (hasTyD_uint hf .w32 n h32 hn) FieldsTy.nil))
  case phantom =>
    intro t hd
    obtain ⟨hres, _⟩ := hd.info hf _ rfl
    exact HasTy.composite hres rfl FieldsTy.nil
  case bitVec =>
    intro w msb bs hw hlen hd
    obtain ⟨hres, hcl⟩ := hd.info hf _ rfl
    have hu : DescD S (.uint w) := hcl _ (by simp [Ty.refs, Build.ofDef, paramRefs, TypeDef.refs])
    have ho : DescD S (if msb then .msb0 else .lsb0) :=
      hcl _ (by simp [Ty.refs, Build.ofDef, paramRefs, TypeDef.refs])
    obtain ⟨hresu, _⟩ := hu.info hf _ rfl
    have hsw : storeWidth reg (idOf (.uint w)) = some w.bits := by
      simp only [storeWidth, hresu]
      cases w <;> first | rfl | exact absurd rfl hw
    have hom : orderMsb reg (idOf (if msb then TyExpr.msb0 else TyExpr.lsb0)) = some msb := by
      cases msb
      · obtain ⟨hreso, _⟩ := DescD.info hf (t := .lsb0) ho _ rfl
        simp only [Bool.false_eq_true, if_false, orderMsb, hreso]
        rfl
      · obtain ⟨hreso, _⟩ := DescD.info hf (t := .msb0) ho _ rfl
        simp only [if_true, orderMsb, hreso]
        rfl
    exact HasTy.bits hres rfl hsw hom hlen
  case adtStruct =>
    intro n a d s vs henv hbody _ ih hd
    obtain ⟨_, hsome⟩ := hf.decls n a d (hd.adt hadt) henv
    obtain ⟨ty, hty⟩ := Option.isSome_iff_exists.1 hsome
    have hD : typeInfoD docs env (.adt n a) = some ty := by
      show (env (.adt n a)).bind (Derive.typeInfo docs) = some ty
      rw [henv]; exact hty
    obtain ⟨hres, hcl⟩ := hd.info hf ty hD
    have hdef := Derive.typeInfo_def docs d ty hty
    rw [hbody] at hdef
    have hdef' : (ty.map idOf).def_ =
        .composite ((membersExpected cleanTypeString docs d.capture (shapeFields s)).map (Field.map idOf)) := by
      show ty.def_.map idOf = _
      rw [hdef]; rfl
    refine HasTy.composite hres hdef' (ih d.capture (fun m hm => hcl m.ty ?_))
    simp only [Ty.refs, hdef, TypeDef.refs, fieldRefs, List.mem_append, List.mem_map]
    exact Or.inr ⟨m, hm, rfl⟩
  case adtEnum =>
    intro n a d vars i v vs henv hbody hi _ ih hd
    obtain ⟨hdist, hsome⟩ := hf.decls n a d (hd.adt hadt) henv
    obtain ⟨ty, hty⟩ := Option.isSome_iff_exists.1 hsome
    have hD : typeInfoD docs env (.adt n a) = some ty := by
      show (env (.adt n a)).bind (Derive.typeInfo docs) = some ty
      rw [henv]; exact hty
    obtain ⟨hres, hcl⟩ := hd.info hf ty hD
    have hdef := Derive.typeInfo_def docs d ty hty
    rw [hbody] at hdef
    simp only [variantsExpected_eq] at hdef
    unfold DistinctIdx at hdist
    rw [hbody] at hdist
    simp only at hdist
    have hi' := enumFrom_getElem? _ 0 i v hi
    rw [Nat.zero_add] at hi'
    have hfind := find?_of_nodup_key (fun iv : Nat × VariantD => variantIndex iv.2 iv.1) _ i (i, v) hdist hi'
    have hmem : variantExp cleanTypeString docs d.capture (i, v) ∈
        (enumFrom 0 (vars.filter (fun x => !x.skip))).map (variantExp cleanTypeString docs d.capture) :=
      List.mem_map_of_mem (List.mem_of_getElem? hi')
    have hdef' : (ty.map idOf).def_ =
        .variant (((enumFrom 0 (vars.filter (fun x => !x.skip))).map (variantExp cleanTypeString docs d.capture)).map
          (Variant.map idOf)) := by
      show ty.def_.map idOf = _
      rw [hdef]; rfl
    have hfind' : (((enumFrom 0 (vars.filter (fun x => !x.skip))).map (variantExp cleanTypeString docs d.capture)).map
          (Variant.map idOf)).find? (fun x => x.index == variantIndex v i) =
        some (Variant.map idOf (variantExp cleanTypeString docs d.capture (i, v))) := by
      rw [List.map_map, List.find?_map]
      have : ((fun x : Variant Nat => x.index == variantIndex v i) ∘
          (Variant.map idOf ∘ variantExp cleanTypeString docs d.capture)) =
          (fun y : Nat × VariantD => variantIndex y.2 y.1 == variantIndex (i, v).2 (i, v).1) := rfl
      rw [this, hfind]; rfl
    have hlt : variantIndex v i < 256 := Nat.mod_lt _ (by decide)
    refine HasTy.variant (v := Variant.map idOf (variantExp cleanTypeString docs d.capture (i, v)))
      (idx := variantIndex v i) hres hdef' hfind' hlt (ih d.capture (fun m hm => hcl m.ty ?_))
    simp only [Ty.refs, hdef, TypeDef.refs, variantRefs, fieldRefs, List.mem_append, List.mem_flatMap, List.mem_map]
    exact Or.inr ⟨_, ⟨(i, v), List.mem_of_getElem? hi', rfl⟩, m, hm, rfl⟩
  case mnil => intro _; exact ⟨ElemsTy.nil, FieldsTy.nil⟩
  case mskip =>
    intro t ts vs hph _ ih h
    have ih' := ih (fun t' ht' => h t' (List.mem_cons_of_mem _ ht'))
    have e1 : (t :: ts).filter (fun t => !isPhantom t) = ts.filter (fun t => !isPhantom t) := by simp [hph]
    have e2 : pushed ((t :: ts).map uf) = pushed (ts.map uf) := by simp [pushed, uf, hph]
    rw [e1, e2]; exact ih'
  case mcons =>
    intro t ts v vs hph _ _ ihv ih h
    have ih' := ih (fun t' ht' => h t' (List.mem_cons_of_mem _ ht'))
    have hv' := ihv (h t (by simp) hph)
    have e1 : (t :: ts).filter (fun t => !isPhantom t) = t :: ts.filter (fun t => !isPhantom t) := by simp [hph]
    have e2 : pushed ((t :: ts).map uf) = uf t :: pushed (ts.map uf) := by simp [pushed, uf, hph]
    rw [e1, e2]
    exact ⟨ElemsTy.cons hv' ih'.1, FieldsTy.cons (f := Field.map idOf (uf t)) hv' ih'.2⟩
  case fnil => intro c _; exact FieldsTy.nil
  case fskip =>
    intro f fs vs hs _ ih c h
    rw [membersExpected_skip _ c f fs hs] at h ⊢
    exact ih c h
  case fphantom =>
    intro f fs vs _ hc hp _ ih c h
    rw [membersExpected_phantom _ c f fs hc hp] at h ⊢
    exact ih c h
  case fplain =>
    intro f fs v vs hs hc _ hp _ _ ihv ih c h
    rw [membersExpected_plain _ c f fs hs hc hp] at h ⊢
    exact FieldsTy.cons
      (f := Field.map idOf (plainField cleanTypeString docs c f))
      (ihv (h _ (List.mem_cons_self ..))) (ih c (fun m hm => h m (List.mem_cons_of_mem _ hm)))
  case fcompact =>
    intro f fs w n vs hs hc hty hn _ ih c h
    rw [membersExpected_compact _ c f fs hs hc] at h ⊢
    have hd : DescD S (.compact (.uint w)) := by
      have := h _ (List.mem_cons_self ..)
      have e : (compactField cleanTypeString docs c f).ty = .compact (.uint w) := by
        show TyExpr.compact f.ty = _
        rw [hty]
      rwa [e] at this
    have hv := hasTyD_compact hf w n hd hn
    rw [← hty] at hv
    exact FieldsTy.cons
      (f := Field.map idOf (compactField cleanTypeString docs c f))
      hv (ih c (fun m hm => h m (List.mem_cons_of_mem _ hm)))

end DerivedTyped

end Value
end SIM
