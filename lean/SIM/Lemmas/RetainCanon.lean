/-
  SIM.Lemmas.RetainCanon — the output of `retain` is in canonical (depth-first, first-reached) numbering.

  Route: a simulation.  Fix a finished first run (`M` its map, `r'` its registry).  A state `st` of the first
  run is related to a state `st2` of the second run (`retain r' (fun _ => true)`) when
  `st2.map = idmap st.map.length`.  A call `retainType _ st id = some (st', n)` of the first run is matched by
  the call `retainType _ st2 n` of the second run (`retainType_sim`); the second run's loop over `0, 1, 2, …`
  is matched against the first run's loop by skipping the first run's calls that do not add anything
  (`retainLoop_advance`, `loop2`).  The registry of the second run is then recovered from `retain_facts`.
-/
import SIM.Lemmas.Retain
namespace SIM
namespace Retain
open Registry

/-! ### the identity map -/

def idmap (k : Nat) : List (Nat × Nat) := (List.range k).map (fun i => (i, i))

theorem idmap_succ (k : Nat) : idmap (k + 1) = idmap k ++ [(k, k)] := by
  simp [idmap, List.range_succ]

@[simp] theorem idmap_length (k : Nat) : (idmap k).length = k := by simp [idmap]

theorem lookup_idmap (k n : Nat) : lookup (idmap k) n = if n < k then some n else none := by
  induction k with
  | zero => simp [idmap, lookup]
  | succ k ih =>
    rw [idmap_succ, lookup_append, ih]
    by_cases h : n < k
    · have : n < k + 1 := by omega
      simp [h, this]
    · by_cases e : k = n
      · subst e; simp [lookup]
      · have : ¬ n < k + 1 := by omega
        simp [h, this, lookup, e]

theorem lookup_idmap_lt {k n : Nat} (h : n < k) : lookup (idmap k) n = some n := by
  rw [lookup_idmap, if_pos h]

theorem lookup_idmap_ge {k n : Nat} (h : k ≤ n) : lookup (idmap k) n = none := by
  rw [lookup_idmap, if_neg (by omega)]

theorem idmap_getElem? {k n : Nat} (h : n < k) : (idmap k)[n]? = some (n, n) := by
  simp [idmap, List.getElem?_map, List.getElem?_range h]

/-! ### small facts about one call -/

theorem retainType_hit {fuel : Nat} {st st' : RetState} {id n v : Nat} (hl : lookup st.map id = some v)
    (h : retainType fuel st id = some (st', n)) : st' = st ∧ n = v := by
  cases fuel with
  | zero => simp [retainType] at h
  | succ fuel =>
    simp only [retainType, hl, Option.some.injEq, Prod.mk.injEq] at h
    exact ⟨h.1.symm, h.2.symm⟩

theorem retainType_miss {fuel : Nat} {st st' : RetState} {id n : Nat} (hl : lookup st.map id = none)
    (h : retainType fuel st id = some (st', n)) : n = st.new.length := by
  cases fuel with
  | zero => simp [retainType] at h
  | succ fuel =>
    simp only [retainType, hl] at h
    split at h
    · cases h
    · split at h
      · cases h
      · simp only [Option.some.injEq, Prod.mk.injEq] at h
        exact h.2.symm

theorem Inv.val_lt {r Q st} (hi : Inv r Q st) {k v : Nat} (hl : lookup st.map k = some v) :
    v < st.map.length := by
  have hmem : v ∈ st.map.map (·.2) := List.mem_map.2 ⟨(k, v), mem_of_lookup hl, rfl⟩
  rw [hi.vals] at hmem
  have := List.mem_range.1 hmem
  rw [hi.new_len] at this
  exact this

/-! ### the context: a finished first run -/

structure Ctx (r r' : PortableRegistry) (M : List (Nat × Nat)) (Q Q2 : Nat → Prop) : Prop where
  hQ : ∀ a e c, Q a → r[a]? = some e → c ∈ e.ty.refs → Q c
  hQ2 : ∀ a e c, Q2 a → r'[a]? = some e → c ∈ e.ty.refs → Q2 c
  hQ2n : ∀ n, n < r'.length → Q2 n
  hQ2lt : ∀ n, Q2 n → n < r'.length
  hfin : ∀ n, n < r'.length → Final r M r' n
  hvals : M.map (·.2) = List.range r'.length

theorem Ctx.M_len {r r' M Q Q2} (C : Ctx r r' M Q Q2) : M.length = r'.length := by
  simpa using congrArg List.length C.hvals

theorem Ctx.val_lt {r r' M Q Q2} (C : Ctx r r' M Q Q2) {k v : Nat} (hl : lookup M k = some v) :
    v < r'.length := by
  have hmem : v ∈ M.map (·.2) := List.mem_map.2 ⟨(k, v), mem_of_lookup hl, rfl⟩
  rw [C.hvals] at hmem
  exact List.mem_range.1 hmem

/-- the renumbering of the first run -/
def gmap (M : List (Nat × Nat)) : Nat → Nat := fun x => (lookup M x).getD 0

/-- one call of the second run matches one call of the first run -/
def SimSpec (r r' : PortableRegistry) (M : List (Nat × Nat)) (Q Q2 : Nat → Prop)
    (F F2 : RetState → Nat → Option (RetState × Nat)) : Prop :=
  ∀ st id st' n st2 st2' n2, Inv r Q st → Q id → F st id = some (st', n) → (∃ ext, M = st'.map ++ ext) →
    Inv r' Q2 st2 → st2.map = idmap st.map.length → F2 st2 n = some (st2', n2) →
    st2'.map = idmap st'.map.length

theorem travList_sim {r r' M Q Q2 F F2} (C : Ctx r r' M Q Q2) (hF : StepSpec r Q F) (hF2 : StepSpec r' Q2 F2)
    (hS : SimSpec r r' M Q Q2 F F2) :
    ∀ (ids : List Nat) (st st' : RetState) (ns : List Nat) (st2 st2' : RetState) (ns2 : List Nat),
      Inv r Q st → (∀ c ∈ ids, Q c) → travList F st ids = some (st', ns) → (∃ ext, M = st'.map ++ ext) →
      Inv r' Q2 st2 → st2.map = idmap st.map.length → travList F2 st2 (ids.map (gmap M)) = some (st2', ns2) →
      st2'.map = idmap st'.map.length := by
  intro ids
  induction ids with
  | nil =>
    intro st st' ns st2 st2' ns2 _ _ h _ _ hm h2
    simp only [travList, Option.some.injEq, Prod.mk.injEq] at h
    simp only [List.map_nil, travList, Option.some.injEq, Prod.mk.injEq] at h2
    obtain ⟨rfl, _⟩ := h
    obtain ⟨rfl, _⟩ := h2
    exact hm
  | cons c ids ih =>
    intro st st' ns st2 st2' ns2 hi hq h hpre hi2 hm h2
    simp only [travList] at h
    split at h
    · cases h
    · next s1 n1 h1 =>
      split at h
      · cases h
      · next sE ns' hrest =>
        simp only [Option.some.injEq, Prod.mk.injEq] at h
        obtain ⟨rfl, _⟩ := h
        have hqc : Q c := hq c (by simp)
        have hqr : ∀ c' ∈ ids, Q c' := fun c' hc' => hq c' (by simp [hc'])
        obtain ⟨hi1, hp1, hl1⟩ := hF st c s1 n1 hi hqc h1
        obtain ⟨_, hpr, _, _⟩ := travList_spec hF ids s1 sE ns' hi1 hqr hrest
        obtain ⟨e2, he2⟩ := hpr.map_ext
        obtain ⟨ext, hext⟩ := hpre
        have hpre1 : ∃ ext, M = s1.map ++ ext := ⟨e2 ++ ext, by rw [hext, he2, List.append_assoc]⟩
        have hlM : lookup M c = some n1 := by
          obtain ⟨x, hx⟩ := hpre1
          rw [hx]; exact lookup_append_some x hl1
        have hg : gmap M c = n1 := by simp [gmap, hlM]
        simp only [List.map_cons, travList, hg] at h2
        split at h2
        · cases h2
        · next s21 n21 h21 =>
          split at h2
          · cases h2
          · next sE2 ns2' hrest2 =>
            simp only [Option.some.injEq, Prod.mk.injEq] at h2
            obtain ⟨rfl, _⟩ := h2
            have hm1 := hS st c s1 n1 st2 s21 n21 hi hqc h1 hpre1 hi2 hm h21
            obtain ⟨hi21, _, _⟩ := hF2 st2 n1 s21 n21 hi2 (C.hQ2n n1 (C.val_lt hlM)) h21
            exact ih s1 sE ns' s21 sE2 ns2' hi1 hqr hrest ⟨ext, hext⟩ hi21 hm1 hrest2

theorem retainType_sim {r r' M Q Q2} (C : Ctx r r' M Q Q2) :
    ∀ fuel fuel2, SimSpec r r' M Q Q2 (retainType fuel) (retainType fuel2) := by
  intro fuel
  induction fuel with
  | zero => intro fuel2 st id st' n st2 st2' n2 _ _ h; simp [retainType] at h
  | succ fuel ih =>
    intro fuel2 st id st' n st2 st2' n2 hi hq h hpre hi2 hm2 h2
    cases fuel2 with
    | zero => simp [retainType] at h2
    | succ fuel2 =>
      simp only [retainType] at h
      split at h
      · next v hv =>
        simp only [Option.some.injEq, Prod.mk.injEq] at h
        obtain ⟨rfl, rfl⟩ := h
        have hlt : v < st.map.length := hi.val_lt hv
        have hl2 : lookup st2.map v = some v := by rw [hm2]; exact lookup_idmap_lt hlt
        obtain ⟨rfl, _⟩ := retainType_hit hl2 h2
        exact hm2
      · next hnone =>
        split at h
        · cases h
        · next ty hty =>
          split at h
          · cases h
          · next stm rs htrav =>
            simp only [Option.some.injEq, Prod.mk.injEq] at h
            obtain ⟨rfl, rfl⟩ := h
            simp only at hpre ⊢
            have hlen := hi.new_len
            have hlen2 : st2.new.length = st.map.length := by rw [hi2.new_len, hm2, idmap_length]
            rw [hlen] at h2
            have hl2 : lookup st2.map st.map.length = none := by
              rw [hm2]; exact lookup_idmap_ge (Nat.le_refl _)
            have hrid : r[id]? = some ty := by rw [← hi.old_eq id hnone]; exact hty
            have hi1 := hi.reserve hq hnone
            have hqrefs : ∀ c ∈ ty.ty.refs, Q c := fun c hc => C.hQ id ty c hq hrid hc
            obtain ⟨_, hp, _, _⟩ := travList_spec (retainType_spec C.hQ fuel) ty.ty.refs _ stm rs hi1 hqrefs htrav
            obtain ⟨e1, he1⟩ := hp.map_ext
            simp only at he1
            obtain ⟨ext, hext⟩ := hpre
            -- position `st.map.length` of `M` holds `(id, st.map.length)`
            have hMk : M[st.map.length]? = some (id, st.new.length) := by
              rw [hext, he1, List.append_assoc, List.append_assoc, List.getElem?_append_right (Nat.le_refl _)]
              simp
            have hklt : st.map.length < r'.length := by
              rw [← C.M_len]
              apply Classical.byContradiction; intro hc
              rw [List.getElem?_eq_none (by omega)] at hMk; cases hMk
            obtain ⟨o, e, f1, f2, f3, _⟩ := C.hfin _ hklt
            rw [hMk] at f1
            simp only [Option.some.injEq, Prod.mk.injEq] at f1
            obtain ⟨rfl, _⟩ := f1
            rw [hrid] at f2
            cases f2
            -- unfold the second call
            simp only [retainType, hl2] at h2
            split at h2
            · cases h2
            · next ty2 hty2 =>
              split at h2
              · cases h2
              · next stm2 rs2 htrav2 =>
                simp only [Option.some.injEq, Prod.mk.injEq] at h2
                obtain ⟨rfl, _⟩ := h2
                simp only
                have hty2' : ty2 = { id := st.map.length, ty := ty.ty.map (gmap M) } := by
                  rw [hi2.old_eq _ hl2, f3] at hty2
                  exact (Option.some.inj hty2).symm
                have hq2 : Q2 st.map.length := C.hQ2n _ hklt
                have hi21 := hi2.reserve hq2 hl2
                have hrefs : ty2.ty.refs = ty.ty.refs.map (gmap M) := by
                  rw [hty2']; exact Ty.refs_map _ _
                rw [hrefs] at htrav2
                refine travList_sim C (retainType_spec C.hQ fuel) (retainType_spec C.hQ2 fuel2) (ih fuel2)
                  ty.ty.refs _ stm rs _ stm2 rs2 hi1 hqrefs htrav ⟨ext, hext⟩ hi21 ?_ htrav2
                simp only [List.length_append, List.length_singleton]
                rw [idmap_succ, hm2, hlen2]

/-! ### the two loops -/

/-- in a loop that still adds something there is a next call that adds something -/
theorem retainLoop_advance {r : PortableRegistry} {Q : Nat → Prop}
    (hQ : ∀ a e c, Q a → r[a]? = some e → c ∈ e.ty.refs → Q c) (keep : Nat → Bool) (fuel : Nat) :
    ∀ (ids : List Nat) (st fin : RetState), Inv r Q st → (∀ c ∈ ids, keep c = true → Q c) →
      retainLoop keep fuel ids st = some fin → st.map.length < fin.map.length →
      ∃ id ids' st', Q id ∧ retainType fuel st id = some (st', st.map.length) ∧
        st.map.length < st'.map.length ∧ (∀ c ∈ ids', keep c = true → Q c) ∧
        retainLoop keep fuel ids' st' = some fin := by
  intro ids
  induction ids with
  | nil =>
    intro st fin _ _ h hlt
    simp only [retainLoop, Option.some.injEq] at h
    subst h; omega
  | cons c ids ih =>
    intro st fin hi hq h hlt
    have hqr : ∀ c' ∈ ids, keep c' = true → Q c' := fun c' hc' => hq c' (by simp [hc'])
    simp only [retainLoop] at h
    split at h
    · next hk =>
      split at h
      · cases h
      · next s1 n1 h1 =>
        have hqc : Q c := hq c (by simp) hk
        cases hl : lookup st.map c with
        | some v =>
          obtain ⟨rfl, _⟩ := retainType_hit hl h1
          exact ih s1 fin hi hqr h hlt
        | none =>
          have hn := retainType_miss hl h1
          obtain ⟨_, hp1, hl1⟩ := retainType_spec hQ fuel st c s1 n1 hi hqc h1
          obtain ⟨e, he⟩ := hp1.map_ext
          have hgt : st.map.length < s1.map.length := by
            rw [he]
            cases e with
            | nil => rw [he, List.append_nil, hl] at hl1; cases hl1
            | cons a e => simp
          rw [hn, hi.new_len] at h1
          exact ⟨c, ids, s1, hqc, h1, hgt, hqr, h⟩
    · exact ih st fin hi hqr h hlt

/-- the second run's loop over `j, j+1, …` stays matched with the first run's loop -/
theorem loop2 {r r' M Q Q2} (C : Ctx r r' M Q Q2) (keep : Nat → Bool) (fuel fuel2 : Nat) (fin : RetState)
    (hfinM : fin.map = M) :
    ∀ (len j : Nat) (st2 st2' : RetState), Inv r' Q2 st2 → j ≤ st2.map.length → j + len = r'.length →
      (∃ ids st, Inv r Q st ∧ (∀ c ∈ ids, keep c = true → Q c) ∧ retainLoop keep fuel ids st = some fin ∧
        st2.map = idmap st.map.length) →
      retainLoop (fun _ => true) fuel2 (List.range' j len) st2 = some st2' →
      ∃ k, st2'.map = idmap k ∧ r'.length ≤ k := by
  intro len
  induction len with
  | zero =>
    intro j st2 st2' _ hj hjl ⟨ids, st, _, _, _, hm⟩ h
    simp only [List.range'_zero, retainLoop, Option.some.injEq] at h
    subst h
    refine ⟨st.map.length, hm, ?_⟩
    rw [hm, idmap_length] at hj
    omega
  | succ len ih =>
    intro j st2 st2' hi2 hj hjl ⟨ids, st, hi, hq, hloop, hm⟩ h
    rw [List.range'_succ] at h
    simp only [retainLoop, if_true] at h
    split at h
    · cases h
    · next s21 n21 h21 =>
      have hlen2 : st2.map.length = st.map.length := by rw [hm, idmap_length]
      by_cases hlt : j < st2.map.length
      · -- already present: nothing happens
        have hl2 : lookup st2.map j = some j := by
          rw [hm]; exact lookup_idmap_lt (by omega)
        obtain ⟨rfl, _⟩ := retainType_hit hl2 h21
        exact ih (j + 1) s21 st2' hi2 (by omega) (by omega) ⟨ids, st, hi, hq, hloop, hm⟩ h
      · -- `j` is the next fresh number: the first run still has a call that adds something
        have hjk : j = st.map.length := by omega
        have hlast : st.map.length < fin.map.length := by
          rw [hfinM, C.M_len]; omega
        obtain ⟨id, ids', st', hqid, h1, hgt, hq', hloop'⟩ :=
          retainLoop_advance C.hQ keep fuel ids st fin hi hq hloop hlast
        obtain ⟨hi', _, _⟩ := retainType_spec C.hQ fuel st id st' _ hi hqid h1
        obtain ⟨_, hp', _⟩ := retainLoop_spec C.hQ keep fuel ids' st' fin hi' hq' hloop'
        obtain ⟨ext, hext⟩ := hp'.map_ext
        rw [hfinM] at hext
        rw [hjk] at h21
        have hm' := retainType_sim C fuel fuel2 st id st' _ st2 s21 n21 hi hqid h1 ⟨ext, hext⟩ hi2 hm h21
        obtain ⟨hi21, _, _⟩ := retainType_spec C.hQ2 fuel2 st2 _ s21 n21 hi2 (C.hQ2n _ (by omega)) h21
        refine ih (j + 1) s21 st2' hi21 ?_ (by omega) ⟨ids', st', hi', hq', hloop', hm'⟩ h
        rw [hm', idmap_length]; omega

/-! ### nothing accepted -/

theorem retainLoop_none (fuel : Nat) : ∀ (ids : List Nat) (st : RetState),
    retainLoop (fun _ => false) fuel ids st = some st := by
  intro ids
  induction ids with
  | nil => intro st; rfl
  | cons c ids ih => intro st; simp [retainLoop, ih]

/-! ### the canonical-numbering theorem, well-formedness of the result given -/

theorem retain_canon_core {r : PortableRegistry} (hw : WF r) (keep : Nat → Bool) {r' : PortableRegistry}
    {m : List (Nat × Nat)} (h : retain r keep = some (r', m)) (hw' : WF r') :
    retain r' (fun _ => true) = some (r', idmap r'.length) := by
  -- the second run succeeds
  have hsome := retain_isSome hw' (fun _ => true)
  cases h2 : retain r' (fun _ => true) with
  | none => rw [h2] at hsome; cases hsome
  | some p =>
    obtain ⟨r'', m2⟩ := p
    obtain ⟨_, hv, hkeys, hfin, _⟩ := retain_facts hw keep h
    obtain ⟨_, hv2, _, hfin2, _⟩ := retain_facts hw' (fun _ => true) h2
    -- the context
    have C : Ctx r r' m (RQ r keep) (RQ r' (fun _ => true)) :=
      ⟨RQ_closed hw keep, RQ_closed hw' _, fun n hn => ⟨hn, ReachR.root ⟨hn, rfl⟩⟩, fun n hn => hn.1, hfin, hv⟩
    -- the second map is the identity
    have hm2 : m2 = idmap r'.length := by
      simp only [retain] at h h2
      split at h
      · cases h
      · next fin hfinl =>
        simp only [Option.some.injEq, Prod.mk.injEq] at h
        obtain ⟨_, hfm⟩ := h
        split at h2
        · cases h2
        · next fin2 hfin2l =>
          simp only [Option.some.injEq, Prod.mk.injEq] at h2
          obtain ⟨_, rfl⟩ := h2
          rw [List.range_eq_range'] at hfin2l
          obtain ⟨k, hk, hge⟩ := loop2 C keep (r.length + 1) (r'.length + 1) fin hfm r'.length 0
            { old := r', new := [], map := [] } fin2 (Inv.init r' _) (Nat.zero_le _) (by omega)
            ⟨List.range r.length, { old := r, new := [], map := [] }, Inv.init r _,
              fun c hc hk => ⟨List.mem_range.1 hc, ReachR.root ⟨List.mem_range.1 hc, hk⟩⟩, hfinl, rfl⟩
            hfin2l
          obtain ⟨hi2, _, _⟩ := retainLoop_spec C.hQ2 (fun _ => true) _ _ _ fin2 (Inv.init r' _)
            (fun c hc _ => ⟨List.mem_range.1 hc, ReachR.root ⟨List.mem_range.1 hc, rfl⟩⟩)
            (by rw [List.range_eq_range']; exact hfin2l)
          have hle := hi2.map_len_le C.hQ2lt
          rw [hk, idmap_length] at hle
          have : k = r'.length := by omega
          rw [hk, this]
    subst hm2
    -- the second registry is the first one
    have hlen : r''.length = r'.length := by
      have := congrArg List.length hv2
      simpa using this.symm
    have hreg : r'' = r' := by
      apply List.ext_getElem?
      intro n
      by_cases hn : n < r'.length
      · obtain ⟨o, e, f1, f2, f3, _⟩ := hfin2 n (by omega)
        rw [idmap_getElem? hn] at f1
        simp only [Option.some.injEq, Prod.mk.injEq] at f1
        obtain ⟨rfl, _⟩ := f1
        rw [f3, f2]
        have hwn := hw' n hn
        rw [List.getElem?_eq_getElem hn] at f2
        cases f2
        have hmap : (r'[n]).ty.map (fun x => (lookup (idmap r'.length) x).getD 0) = (r'[n]).ty := by
          rw [Ty.map_congr _ _ (fun x => x), Ty.map_id]
          intro c hc
          rw [lookup_idmap_lt (hwn.2 c hc)]; rfl
        rw [hmap]
        congr 1
        cases hr : r'[n] with
        | mk id ty =>
          rw [hr] at hwn
          simp only at hwn ⊢
          rw [hwn.1]
      · rw [List.getElem?_eq_none (by omega), List.getElem?_eq_none (by omega)]
    rw [hreg]

end Retain
end SIM
