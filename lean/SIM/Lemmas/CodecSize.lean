/-
  SIM.Lemmas.CodecSize — a size measure on registries (one unit per node, per list element and per string
  byte) and the fact that every encoder emits at least that many bytes.
-/
import SIM.Lemmas.Codec
namespace SIM
namespace Codec

/-! ## the measure -/

def sizeStr (s : Str) : Nat := 1 + s.length
def sizeStrs (l : List Str) : Nat := 1 + (l.map sizeStr).sum
def sizeOptStr : Option Str → Nat | none => 1 | some s => 1 + sizeStr s
def sizeField (f : Field Nat) : Nat := sizeOptStr f.name + 1 + sizeOptStr f.typeName + sizeStrs f.docs
def sizeFields (fs : List (Field Nat)) : Nat := 1 + (fs.map sizeField).sum
def sizeVariant (v : Variant Nat) : Nat := sizeStr v.name + sizeFields v.fields + 1 + sizeStrs v.docs
def sizeTypeDef : TypeDef Nat → Nat
  | .composite fs => 1 + sizeFields fs
  | .variant vs => 2 + (vs.map sizeVariant).sum
  | .sequence _ => 2
  | .array _ _ => 3
  | .tuple ts => 2 + ts.length
  | .primitive _ => 2
  | .compact _ => 2
  | .bitSequence _ _ => 3
def sizeParam (p : TypeParam Nat) : Nat := sizeStr p.name + 1 + (match p.ty with | none => 0 | some _ => 1)
def sizeTy (t : Ty Nat) : Nat := sizeStrs t.path + 1 + (t.params.map sizeParam).sum + sizeTypeDef t.def_ + sizeStrs t.docs
def sizePType (p : PType) : Nat := 1 + sizeTy p.ty
def sizeRegistry (r : PortableRegistry) : Nat := 1 + (r.map sizePType).sum

/-! ## primitives -/

theorem encCompact_length_pos (n : Nat) : 1 ≤ (encCompact n).length := by
  unfold encCompact
  repeat' split
  all_goals simp [le_length]

theorem encU8_length (n : Nat) : (encU8 n).length = 1 := le_length 1 n
theorem encU32_length (n : Nat) : (encU32 n).length = 4 := le_length 4 n

/-! ## `Vec`, `String`, `Option` -/

theorem sum_le_flatMap_length {α} (f : α → Bytes) (sz : α → Nat) :
    ∀ l : List α, (∀ a ∈ l, sz a ≤ (f a).length) → (l.map sz).sum ≤ (l.flatMap f).length
  | [], _ => by simp
  | a :: l, h => by
    have h1 := h a (List.mem_cons_self ..)
    have h2 := sum_le_flatMap_length f sz l (fun b hb => h b (List.mem_cons_of_mem _ hb))
    simp only [List.map_cons, List.sum_cons, List.flatMap_cons, List.length_append]
    omega

theorem sum_map_one {α} : ∀ l : List α, (l.map (fun _ => 1)).sum = l.length
  | [] => rfl
  | _ :: l => by
    have ih := sum_map_one l
    simp only [List.map_cons, List.sum_cons, List.length_cons]
    omega

/-- a `Vec` costs one byte for its length plus what its elements cost -/
theorem encVec_length_ge {α} (f : α → Bytes) (sz : α → Nat) (l : List α)
    (h : ∀ a ∈ l, sz a ≤ (f a).length) : 1 + (l.map sz).sum ≤ (encVec f l).length := by
  have h1 := encCompact_length_pos l.length
  have h2 := sum_le_flatMap_length f sz l h
  simp only [encVec, List.length_append]
  omega

theorem sizeStr_le (s : Str) : sizeStr s ≤ (encStr s).length := by
  have h1 := encCompact_length_pos s.length
  simp only [sizeStr, encStr, List.length_append]
  omega

theorem sizeStrs_le (l : List Str) : sizeStrs l ≤ (encVec encStr l).length :=
  encVec_length_ge encStr sizeStr l (fun s _ => sizeStr_le s)

theorem sizeOptStr_le : ∀ o : Option Str, sizeOptStr o ≤ (encOpt encStr o).length
  | none => by simp [sizeOptStr, encOpt]
  | some s => by
    have h := sizeStr_le s
    simp only [sizeOptStr, encOpt, List.length_cons]
    omega

/-! ## the type description -/

theorem sizeField_le (f : Field Nat) : sizeField f ≤ (encField f).length := by
  have h1 := sizeOptStr_le f.name
  have h2 := encCompact_length_pos f.ty
  have h3 := sizeOptStr_le f.typeName
  have h4 := sizeStrs_le f.docs
  simp only [sizeField, encField, List.length_append]
  omega

theorem sizeFields_le (fs : List (Field Nat)) : sizeFields fs ≤ (encVec encField fs).length :=
  encVec_length_ge encField sizeField fs (fun f _ => sizeField_le f)

theorem sizeVariant_le (v : Variant Nat) : sizeVariant v ≤ (encVariant v).length := by
  have h1 := sizeStr_le v.name
  have h2 := sizeFields_le v.fields
  have h3 := encU8_length v.index
  have h4 := sizeStrs_le v.docs
  simp only [sizeVariant, encVariant, List.length_append]
  omega

theorem sizeTypeDef_le : ∀ d : TypeDef Nat, sizeTypeDef d ≤ (encTypeDef d).length
  | .composite fs => by
    have h := sizeFields_le fs
    simp only [sizeTypeDef, encTypeDef, List.length_cons]
    omega
  | .variant vs => by
    have h := encVec_length_ge encVariant sizeVariant vs (fun v _ => sizeVariant_le v)
    simp only [sizeTypeDef, encTypeDef, List.length_cons]
    omega
  | .sequence t => by
    have h := encCompact_length_pos t
    simp only [sizeTypeDef, encTypeDef, List.length_cons]
    omega
  | .array n t => by
    have h1 := encU32_length n
    have h2 := encCompact_length_pos t
    simp only [sizeTypeDef, encTypeDef, List.length_cons, List.length_append]
    omega
  | .tuple ts => by
    have h := encVec_length_ge encCompact (fun _ => 1) ts (fun t _ => encCompact_length_pos t)
    have hs := sum_map_one ts
    simp only [sizeTypeDef, encTypeDef, List.length_cons]
    omega
  | .primitive p => by
    have h := encU8_length (primTag p)
    simp only [sizeTypeDef, encTypeDef, List.length_cons]
    omega
  | .compact t => by
    have h := encCompact_length_pos t
    simp only [sizeTypeDef, encTypeDef, List.length_cons]
    omega
  | .bitSequence s o => by
    have h1 := encCompact_length_pos s
    have h2 := encCompact_length_pos o
    simp only [sizeTypeDef, encTypeDef, List.length_cons, List.length_append]
    omega

theorem sizeParam_le (p : TypeParam Nat) : sizeParam p ≤ (encParam p).length := by
  have h1 := sizeStr_le p.name
  cases p with
  | mk name ty =>
    cases ty with
    | none =>
      simp only [sizeParam, encParam, encOpt, List.length_append, List.length_cons, List.length_nil] at h1 ⊢
      omega
    | some t =>
      have h2 := encCompact_length_pos t
      simp only [sizeParam, encParam, encOpt, List.length_append, List.length_cons] at h1 ⊢
      omega

theorem sizeTy_le (t : Ty Nat) : sizeTy t ≤ (encTy t).length := by
  have h1 := sizeStrs_le t.path
  have h2 := encVec_length_ge encParam sizeParam t.params (fun p _ => sizeParam_le p)
  have h3 := sizeTypeDef_le t.def_
  have h4 := sizeStrs_le t.docs
  simp only [sizeTy, encTy, List.length_append]
  omega

theorem sizePType_le (p : PType) : sizePType p ≤ (encPType p).length := by
  have h1 := encCompact_length_pos p.id
  have h2 := sizeTy_le p.ty
  simp only [sizePType, encPType, List.length_append]
  omega

theorem sizeRegistry_le (r : PortableRegistry) : sizeRegistry r ≤ (encode r).length :=
  encVec_length_ge encPType sizePType r (fun p _ => sizePType_le p)

/-- the measure dominates the number of entries -/
theorem length_le_sizeRegistry (r : PortableRegistry) : r.length ≤ sizeRegistry r := by
  have h : ∀ l : PortableRegistry, l.length ≤ (l.map sizePType).sum := by
    intro l
    induction l with
    | nil => simp
    | cons p l ih =>
      simp only [List.map_cons, List.sum_cons, List.length_cons, sizePType]
      omega
  have := h r
  simp only [sizeRegistry]
  omega

end Codec
end SIM
