/-
  SIM.Lemmas.Sigs — the generic automaton over the extracted builder signatures (C20sigs) and the helper lemmas relating it to
  small specialised automata: definitions and lemmas only; the property theorems are in SIM/Props/C20sigs.lean.
-/
import SIM.Model.TypestateExpected
import SIM.Model.Typestate
namespace SIM
namespace C20
open Typestate


/-! the source spellings, as bytes -/
def bField : Str := [70, 105, 101, 108, 100, 66, 117, 105, 108, 100, 101, 114]   -- `FieldBuilder`
def bFields : Str := [70, 105, 101, 108, 100, 115, 66, 117, 105, 108, 100, 101, 114]   -- `FieldsBuilder`
def bVariant : Str := [86, 97, 114, 105, 97, 110, 116, 66, 117, 105, 108, 100, 101, 114]   -- `VariantBuilder`
def bType : Str := [84, 121, 112, 101, 66, 117, 105, 108, 100, 101, 114]   -- `TypeBuilder`
def bTy : Str := [84, 121, 112, 101]   -- `Type`
def bFieldT : Str := [70, 105, 101, 108, 100]   -- `Field`
def bVariantT : Str := [86, 97, 114, 105, 97, 110, 116]   -- `Variant`
def fMeta : Str := [77, 101, 116, 97, 70, 111, 114, 109]   -- `MetaForm`
def fPortable : Str := [80, 111, 114, 116, 97, 98, 108, 101, 70, 111, 114, 109]   -- `PortableForm`
def nNo : Str := [78, 97, 109, 101, 78, 111, 116, 65, 115, 115, 105, 103, 110, 101, 100]   -- `NameNotAssigned`
def nYes : Str := [78, 97, 109, 101, 65, 115, 115, 105, 103, 110, 101, 100]   -- `NameAssigned`
def tNo : Str := [84, 121, 112, 101, 78, 111, 116, 65, 115, 115, 105, 103, 110, 101, 100]   -- `TypeNotAssigned`
def tYes : Str := [84, 121, 112, 101, 65, 115, 115, 105, 103, 110, 101, 100]   -- `TypeAssigned`
def iNo : Str := [73, 110, 100, 101, 120, 78, 111, 116, 65, 115, 115, 105, 103, 110, 101, 100]   -- `IndexNotAssigned`
def iYes : Str := [73, 110, 100, 101, 120, 65, 115, 115, 105, 103, 110, 101, 100]   -- `IndexAssigned`
def pNo : Str := [80, 97, 116, 104, 78, 111, 116, 65, 115, 115, 105, 103, 110, 101, 100]   -- `PathNotAssigned`
def pYes : Str := [80, 97, 116, 104, 65, 115, 115, 105, 103, 110, 101, 100]   -- `PathAssigned`
def kNamed : Str := [78, 97, 109, 101, 100, 70, 105, 101, 108, 100, 115]   -- `NamedFields`
def kUnnamed : Str := [85, 110, 110, 97, 109, 101, 100, 70, 105, 101, 108, 100, 115]   -- `UnnamedFields`
def kNone : Str := [78, 111, 70, 105, 101, 108, 100, 115]   -- `NoFields`
def mName : Str := [110, 97, 109, 101]   -- `name`
def mTy : Str := [116, 121]   -- `ty`
def mCompact : Str := [99, 111, 109, 112, 97, 99, 116]   -- `compact`
def mTypeName : Str := [116, 121, 112, 101, 95, 110, 97, 109, 101]   -- `type_name`
def mDocs : Str := [100, 111, 99, 115]   -- `docs`
def mDocsAlways : Str := [100, 111, 99, 115, 95, 97, 108, 119, 97, 121, 115]   -- `docs_always`
def mDocsPortable : Str := [100, 111, 99, 115, 95, 112, 111, 114, 116, 97, 98, 108, 101]   -- `docs_portable`
def mIndex : Str := [105, 110, 100, 101, 120]   -- `index`
def mDiscriminant : Str := [100, 105, 115, 99, 114, 105, 109, 105, 110, 97, 110, 116]   -- `discriminant`
def mFields : Str := [102, 105, 101, 108, 100, 115]   -- `fields`
def mPath : Str := [112, 97, 116, 104]   -- `path`
def mTypeParams : Str := [116, 121, 112, 101, 95, 112, 97, 114, 97, 109, 115]   -- `type_params`
def mComposite : Str := [99, 111, 109, 112, 111, 115, 105, 116, 101]   -- `composite`
def mVariant : Str := [118, 97, 114, 105, 97, 110, 116]   -- `variant`
def mField : Str := [102, 105, 101, 108, 100]   -- `field`
def mFieldPortable : Str := [102, 105, 101, 108, 100, 95, 112, 111, 114, 116, 97, 98, 108, 101]   -- `field_portable`
def mFinalize : Str := [102, 105, 110, 97, 108, 105, 122, 101]   -- `finalize`

/-! ### the generic automaton over the signature table -/

abbrev Sig := Str × List Str × Str × Str × List Str × List Str × List Str
abbrev Env := List (Str × Str)

def isVar (s : Str) : Bool := s.head? == some 63    -- `?X`

/-- unify a receiver pattern with concrete type arguments -/
def unify : List Str → List Str → Env → Option Env
  | [], [], env => some env
  | p :: ps, a :: as, env =>
    if isVar p then
      match env.lookup p with
      | some b => if b == a then unify ps as env else none
      | none => unify ps as ((p, a) :: env)
    else if p == a then unify ps as env else none
  | _, _, _ => none

def subst (env : Env) (args : List Str) : List Str := args.map (fun a => if isVar a then (env.lookup a).getD a else a)

/-- a value's type: builder name and type arguments -/
abbrev TyState := Str × List Str

/-- one method call: the first row of the receiver's type and that method whose pattern unifies -/
def stepSig (sigs : List Sig) (st : TyState) (m : Str) : Option TyState :=
  sigs.findSome? (fun r =>
    if r.1 == st.1 && r.2.2.1 == m then
      match unify r.2.1 st.2 [] with
      | some env => some (r.2.2.2.1, subst env r.2.2.2.2.1)
      | none => none
    else none)

def runSig (sigs : List Sig) : TyState → List Str → Option TyState
  | st, [] => some st
  | st, m :: ms => match stepSig sigs st m with
    | some st' => runSig sigs st' ms
    | none => none

/-- the closure bound of a method taking a builder closure: (argument type, result type), defaults filled in -/
def fillDefaults (t : List Str) : TyState :=
  match t with
  | [] => ([], [])
  | b :: args => (b, args ++ (((Expected.Typestate.defaults.lookup b).getD []).drop args.length))

def closureOf (recv : TyState) (m : Str) : Option (TyState × TyState) :=
  Expected.Typestate.sigs.findSome? (fun r =>
    if r.1 == recv.1 && r.2.2.1 == m && r.2.1 == recv.2 && !r.2.2.2.2.2.1.isEmpty then
      some (fillDefaults r.2.2.2.2.2.1, fillDefaults r.2.2.2.2.2.2)
    else none)

/-! ### member builders -/

/-- the method a step of the model stands for (`ty` also stands for `compact`; docs by form) -/
def fMethod (portable : Bool) : FStep → Str
  | .name => mName | .ty => mTy | .typeName => mTypeName | .docs => if portable then mDocsPortable else mDocs

def form (portable : Bool) : Str := if portable then fPortable else fMeta

/-! helpers: the specialised automaton and its agreement with the generic one -/

def fEnc (p : Bool) (s : Bool × Bool) : TyState :=
  (bField, [form p, if s.1 then nYes else nNo, if s.2 then tYes else tNo])

def fNext (s : Bool × Bool) : FStep → Option (Bool × Bool)
  | .name => if s.1 then none else some (true, s.2)
  | .ty => if s.2 then none else some (s.1, true)
  | _ => some s

def fRun : Bool × Bool → List FStep → Option (Bool × Bool)
  | s, [] => some s
  | s, c :: cs => match fNext s c with
    | some s' => fRun s' cs
    | none => none

theorem fStep_eq (p n t : Bool) (c : FStep) :
    stepSig Expected.Typestate.sigs (fEnc p (n, t)) (fMethod p c) = (fNext (n, t) c).map (fEnc p) := by
  cases p <;> cases n <;> cases t <;> cases c <;> decide

theorem fRun_eq (p : Bool) (calls : List FStep) : ∀ s : Bool × Bool,
    runSig Expected.Typestate.sigs (fEnc p s) (calls.map (fMethod p)) = (fRun s calls).map (fEnc p) := by
  induction calls with
  | nil => intro s; rfl
  | cons c cs ih =>
    intro s
    obtain ⟨n, t⟩ := s
    simp only [List.map_cons, runSig, fRun, fStep_eq]
    cases h : fNext (n, t) c with
    | none => rfl
    | some s' => simpa using ih s'

theorem fRun_spec (calls : List FStep) : ∀ n t n' t' : Bool,
    fRun (n, t) calls = some (n', t') ↔
      (n.toNat + calls.count .name = n'.toNat ∧ t.toNat + calls.count .ty = t'.toNat) := by
  induction calls with
  | nil => intro n t n' t'; cases n <;> cases t <;> cases n' <;> cases t' <;> simp [fRun]
  | cons c cs ih =>
    intro n t n' t'
    cases c <;> cases n <;> cases t <;> cases n' <;> cases t' <;>
      simp only [fRun, fNext, ih, List.count_cons, Bool.toNat_true, Bool.toNat_false, beq_self_eq_true, if_true, if_false,
        Bool.false_eq_true, reduceCtorEq, beq_iff_eq, false_and, and_false, iff_false, false_iff] <;> omega

theorem fEnc_inj (p : Bool) (s s' : Bool × Bool) : fEnc p s = fEnc p s' ↔ s = s' := by
  obtain ⟨n, t⟩ := s; obtain ⟨n', t'⟩ := s'
  cases p <;> cases n <;> cases t <;> cases n' <;> cases t' <;> decide

theorem fEnc_map (p : Bool) (x : Option (Bool × Bool)) (s : Bool × Bool) :
    x.map (fEnc p) = some (fEnc p s) ↔ x = some s := by
  cases x with
  | none => simp
  | some y => simp [fEnc_inj]

/-! ### variant builders -/

def vMethod (portable : Bool) : VStep → Str
  | .index => mIndex | .discriminant => mDiscriminant | .docs => if portable then mDocsPortable else mDocs | .fields _ => mFields

/-! helpers: the specialised automaton and its agreement with the generic one -/

def vEnc (p : Bool) (i : Bool) : TyState := (bVariant, [form p, if i then iYes else iNo])

def vNext (i : Bool) : VStep → Option Bool
  | .index => if i then none else some true
  | _ => some i

def vRun : Bool → List VStep → Option Bool
  | s, [] => some s
  | s, c :: cs => match vNext s c with
    | some s' => vRun s' cs
    | none => none

theorem vStep_eq (p i : Bool) (c : VStep) :
    stepSig Expected.Typestate.sigs (vEnc p i) (vMethod p c) = (vNext i c).map (vEnc p) := by
  cases p <;> cases i <;> cases c <;> simp only [vMethod, vNext] <;> decide

theorem vRun_eq (p : Bool) (calls : List VStep) : ∀ s : Bool,
    runSig Expected.Typestate.sigs (vEnc p s) (calls.map (vMethod p)) = (vRun s calls).map (vEnc p) := by
  induction calls with
  | nil => intro s; rfl
  | cons c cs ih =>
    intro s
    simp only [List.map_cons, runSig, vRun, vStep_eq]
    cases h : vNext s c with
    | none => rfl
    | some s' => simpa using ih s'

theorem vRun_spec (calls : List VStep) : ∀ i i' : Bool,
    vRun i calls = some i' ↔ i.toNat + (calls.filter isIndex).length = i'.toNat := by
  induction calls with
  | nil => intro i i'; cases i <;> cases i' <;> simp [vRun]
  | cons c cs ih =>
    intro i i'
    cases c <;> cases i <;> cases i' <;>
      simp only [vRun, vNext, ih, List.filter_cons, isIndex, List.length_cons, Bool.toNat_true, Bool.toNat_false, if_true, if_false,
        Bool.false_eq_true, reduceCtorEq, iff_false, false_iff] <;> omega

theorem vEnc_inj (p : Bool) (s s' : Bool) : vEnc p s = vEnc p s' ↔ s = s' := by
  cases p <;> cases s <;> cases s' <;> decide

theorem vEnc_map (p : Bool) (x : Option Bool) (s : Bool) :
    x.map (vEnc p) = some (vEnc p s) ↔ x = some s := by
  cases x with
  | none => simp
  | some y => simp [vEnc_inj]

/-! ### type builders -/

def tMethod (portable : Bool) : TStep → Str
  | .path => mPath | .typeParams => mTypeParams | .docs => if portable then mDocsPortable else mDocs
  | .composite _ => mComposite | .variant _ => mVariant

/-! helpers: the specialised automaton and its agreement with the generic one -/

inductive TS | no | yes | done
  deriving DecidableEq

def tEnc (p : Bool) : TS → TyState
  | .no => (bType, [form p, pNo])
  | .yes => (bType, [form p, pYes])
  | .done => (bTy, [form p])

def tNext : TS → TStep → Option TS
  | .no, .path => some .yes
  | .no, .typeParams => some .no
  | .no, .docs => some .no
  | .yes, .typeParams => some .yes
  | .yes, .docs => some .yes
  | .yes, .composite _ => some .done
  | .yes, .variant _ => some .done
  | _, _ => none

def tRun : TS → List TStep → Option TS
  | s, [] => some s
  | s, c :: cs => match tNext s c with
    | some s' => tRun s' cs
    | none => none

theorem tStep_eq (p : Bool) (s : TS) (c : TStep) :
    stepSig Expected.Typestate.sigs (tEnc p s) (tMethod p c) = (tNext s c).map (tEnc p) := by
  cases p <;> cases s <;> cases c <;> simp only [tMethod, tNext] <;> decide

theorem tRun_eq (p : Bool) (prog : List TStep) : ∀ s : TS,
    runSig Expected.Typestate.sigs (tEnc p s) (prog.map (tMethod p)) = (tRun s prog).map (tEnc p) := by
  induction prog with
  | nil => intro s; rfl
  | cons c cs ih =>
    intro s
    simp only [List.map_cons, runSig, tRun, tStep_eq]
    cases h : tNext s c with
    | none => rfl
    | some s' => simpa using ih s'

theorem tEnc_inj (p : Bool) (s s' : TS) : tEnc p s = tEnc p s' ↔ s = s' := by
  cases p <;> cases s <;> cases s' <;> decide

theorem tEnc_map (p : Bool) (x : Option TS) (s : TS) :
    x.map (tEnc p) = some (tEnc p s) ↔ x = some s := by
  cases x with
  | none => simp
  | some y => simp [tEnc_inj]

def lastT (prog : List TStep) : Prop := prog.getLast?.map isTerminal = some true

theorem lastT_cons (c : TStep) (cs : List TStep) :
    lastT (c :: cs) ↔ (cs = [] ∧ isTerminal c = true) ∨ lastT cs := by
  cases cs with
  | nil => simp [lastT]
  | cons d ds => simp [lastT, List.getLast?_cons_cons]

theorem lastT_pos (cs : List TStep) (h : lastT cs) : (cs.filter isTerminal).length ≠ 0 := by
  unfold lastT at h
  cases hl : cs.getLast? with
  | none => simp [hl] at h
  | some x =>
    simp [hl] at h
    have hm : x ∈ cs.filter isTerminal := List.mem_filter.mpr ⟨List.mem_of_getLast? hl, h⟩
    intro h0
    have := List.eq_nil_of_length_eq_zero h0
    rw [this] at hm
    cases hm

theorem tRun_done (prog : List TStep) : tRun .done prog = some .done ↔ prog = [] := by
  cases prog with
  | nil => simp [tRun]
  | cons c cs => simp [tRun, tNext]

theorem tRun_spec (prog : List TStep) :
    (tRun .yes prog = some .done ↔
      ((prog.filter isPath).length = 0 ∧ (prog.filter isTerminal).length = 1 ∧ lastT prog)) ∧
    (tRun .no prog = some .done ↔
      ((prog.filter isPath).length = 1 ∧ (prog.filter isTerminal).length = 1 ∧ lastT prog)) := by
  induction prog with
  | nil => simp [tRun, lastT]
  | cons c cs ih =>
    obtain ⟨ihY, ihN⟩ := ih
    have hpos := lastT_pos cs
    have key : (cs = [] ↔ (List.filter isPath cs).length = 0 ∧ (List.filter isTerminal cs).length + 1 = 1 ∧ (cs = [] ∨ lastT cs)) ∧
        ¬((List.filter isPath cs).length = 1 ∧ (List.filter isTerminal cs).length + 1 = 1 ∧ (cs = [] ∨ lastT cs)) := by
      refine ⟨⟨fun h => by subst h; simp, fun ⟨_, ht, hl⟩ => ?_⟩, fun ⟨hp, ht, hl⟩ => ?_⟩
      · rcases hl with h | h
        · exact h
        · exact absurd (by omega) (hpos h)
      · rcases hl with h | h
        · subst h; simp at hp
        · exact hpos h (by omega)
    cases c <;>
      simp only [tRun, tNext, ihY, ihN, tRun_done, lastT_cons, List.filter_cons, isPath, isTerminal, List.length_cons,
        if_true, if_false, Bool.false_eq_true, reduceCtorEq, and_false, and_true, false_or, false_iff]
    · refine ⟨fun h => h.1, ?_⟩
      constructor <;> (rintro ⟨a, b, c⟩; exact ⟨by omega, b, c⟩)
    · exact key
    · exact key


end C20
end SIM
