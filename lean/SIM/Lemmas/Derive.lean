/-
  SIM.Lemmas.Derive — helper lemmas for C09: `str::replace` only touches spaces when pattern and
  replacement differ only in spaces; the builder-call lists the derive emits compute to the
  declarative description.
-/
import SIM.Spec.Derive
import SIM.Spec.Build
import SIM.Lemmas.Build
import SIM.Props.C17
namespace SIM
namespace Derive
open Spec Build

/-! ### stripSpaces -/

theorem stripSpaces_append (a b : Str) : stripSpaces (a ++ b) = stripSpaces a ++ stripSpaces b := by
  simp [stripSpaces]

theorem stripSpaces_cons (c : UInt8) (s : Str) :
    stripSpaces (c :: s) = if c != 32 then c :: stripSpaces s else stripSpaces s := by
  simp only [stripSpaces, List.filter_cons]

theorem isPrefix_eq (pat s : Str) (h : isPrefix pat s = true) : s = pat ++ s.drop pat.length := by
  induction pat generalizing s with
  | nil => simp
  | cons a as ih =>
    cases s with
    | nil => simp [isPrefix] at h
    | cons b bs =>
      simp only [isPrefix, Bool.and_eq_true, beq_iff_eq] at h
      obtain ⟨rfl, h2⟩ := h
      have := ih bs h2
      simp only [List.length_cons, List.drop_succ_cons, List.cons_append]
      rw [← this]

theorem replaceAllFuel_spaces (pat rep : Str) (h : stripSpaces pat = stripSpaces rep) (fuel : Nat) (s : Str) :
    stripSpaces (replaceAllFuel pat rep fuel s) = stripSpaces s := by
  induction fuel generalizing s with
  | zero => rfl
  | succ n ih =>
    cases s with
    | nil => rfl
    | cons c cs =>
      simp only [replaceAllFuel]
      split
      · rename_i hc
        simp only [Bool.and_eq_true] at hc
        have hp := isPrefix_eq pat (c :: cs) hc.2
        rw [stripSpaces_append, ih, ← h, ← stripSpaces_append, ← hp]
      · rw [stripSpaces_cons, stripSpaces_cons, ih]

/-! ### lastSome over explicit lists -/

theorem lastSome_append {α β} (sel : α → Option β) (l1 l2 : List α) :
    lastSome sel (l1 ++ l2) = (lastSome sel l2).or (lastSome sel l1) := by
  induction l1 with
  | nil => simp
  | cons a l ih =>
    rw [List.cons_append, lastSome_cons, lastSome_cons, ih]
    cases lastSome sel l2 <;> simp

theorem lastSome_none {α β} (sel : α → Option β) (l : List α) (h : ∀ a ∈ l, sel a = none) : lastSome sel l = none := by
  induction l with
  | nil => rfl
  | cons a l ih =>
    rw [lastSome_cons, ih (fun x hx => h x (List.mem_cons_of_mem _ hx)), h a (List.mem_cons_self ..)]
    rfl

theorem mapM_eq_some_map {α β} (f : α → Option β) (g : α → β) (l : List α) (h : ∀ a ∈ l, f a = some (g a)) :
    l.mapM f = some (l.map g) := by
  induction l with
  | nil => simp
  | cons a l ih =>
    rw [List.mapM_cons, h a (List.mem_cons_self ..), ih (fun x hx => h x (List.mem_cons_of_mem _ hx))]
    rfl

/-! ### docs -/

theorem docsArg_docsCall (docs : Bool) (c : Capture) (ds : List Str) :
    (lastSome (docsArg { docs := docs }) (docsCall c ds)).getD [] = capturedDocs docs c ds := by
  unfold docsCall capturedDocs
  cases ds with
  | nil => cases c <;> cases docs <;> rfl
  | cons d ds =>
    cases c <;> cases docs <;> rfl

theorem docsCall_typeName (c : Capture) (ds : List Str) : ∀ f ∈ docsCall c ds, ∀ s, f ≠ .typeName s := by
  intro f hf s
  unfold docsCall at hf
  split at hf
  · simp at hf
  · cases c <;> simp at hf <;> subst hf <;> simp

/-! ### the emitted builder closures compute to the declarative members -/

theorem field_expected (docs : Bool) (c : Capture) (f : FieldD) :
    fieldExpected { docs := docs } (fieldCalls c f) =
      some { name := (match f.rename with | some r => some r | none => f.ident),
             ty := if f.compact then .compact f.ty else f.ty,
             typeName := some (cleanTypeString f.tyText),
             docs := capturedDocs docs c f.docs } := by
  obtain ⟨ident, ty, tyText, skip, compact, encodedAs, rename, ds⟩ := f
  cases rename <;> cases ident <;> cases ds <;> cases c <;> cases docs <;> rfl

theorem fields_expected (docs : Bool) (c : Capture) (fs : List FieldD) :
    fieldsExpected { docs := docs } Impls.isPhantom (fieldsCalls c fs) =
      some (membersExpected cleanTypeString docs c fs) := by
  unfold fieldsExpected fieldsCalls
  rw [List.mapM_map, mapM_eq_some_map (fieldExpected { docs := docs } ∘ fieldCalls c) _ _ (fun f _ => field_expected docs c f)]
  simp only [membersExpected, List.filter_map, List.filter_filter]
  congr 2
  apply List.filter_congr
  intro f _
  simp [Bool.and_comm]

theorem variant_expected (docs : Bool) (c : Capture) (v : VariantD) (i : Nat) :
    variantExpected { docs := docs } Impls.isPhantom (variantCalls c v i).1 (variantCalls c v i).2 =
      some { name := v.ident,
             fields := membersExpected cleanTypeString docs c (shapeFields v.shape),
             index := variantIndex v i,
             docs := capturedDocs docs c v.docs } := by
  obtain ⟨ident, shape, skip, ci, di, ds⟩ := v
  cases shape <;> cases ds <;> cases c <;> cases docs <;>
    simp [variantExpected, variantCalls, docsCall, lastSome, vIndexArg, vFieldsArg, vDocsArg, docsArg,
      fields_expected, capturedDocs, shapeFields, membersExpected]

end Derive
end SIM
