/-
  SIM.Lemmas.JsonJunk — a writer that is `ofRegistry` with an unknown member `(.other s, v)` in EVERY
  struct object (at the front of some, in the middle or at the end of others), but not in the
  one-member maps of the externally tagged definition; and the round-trip lemmas
  `de* (junk* x) = .ok x`, bottom-up, mirroring `SIM.Lemmas.Json`.
-/
import SIM.Lemmas.Json
namespace SIM
namespace JsonM
open Codec

/-! ## the writer -/

/-- `ofField` with an unknown member at the front -/
def junkField (s : Str) (v : Json) (f : Field Nat) : Json :=
  match ofField f with | .obj kv => .obj ((.other s, v) :: kv) | j => j

/-- `ofVariant` with an unknown member between `fields` and `index` -/
def junkVariant (s : Str) (v : Json) (x : Variant Nat) : Json :=
  .obj ([(.name, jStr x.name)] ++ optMember (!x.fields.isEmpty) .fields (.arr (x.fields.map (junkField s v)))
    ++ [(.other s, v), (.index, .num x.index)]
    ++ optMember (!x.docs.isEmpty) .docs (jStrs x.docs))

/-- `ofTypeDef` with an unknown member in every payload struct; the one-member tag maps are untouched -/
def junkTypeDef (s : Str) (v : Json) : TypeDef Nat → Json
  | .composite fs => .obj [(.composite, .obj (optMember (!fs.isEmpty) .fields (.arr (fs.map (junkField s v))) ++ [(.other s, v)]))]
  | .variant vs => .obj [(.variant, .obj ((.other s, v) :: optMember (!vs.isEmpty) .variants (.arr (vs.map (junkVariant s v)))))]
  | .sequence t => .obj [(.sequence, .obj [(.other s, v), (.type_, .num t)])]
  | .array n t => .obj [(.array, .obj [(.len, .num n), (.other s, v), (.type_, .num t)])]
  | .tuple ts => .obj [(.tuple, .arr (ts.map .num))]
  | .primitive p => .obj [(.primitive, .str (primName p))]
  | .compact t => .obj [(.compact, .obj [(.type_, .num t), (.other s, v)])]
  | .bitSequence a b => .obj [(.bitsequence, .obj [(.other s, v), (.bitStoreType, .num a), (.bitOrderType, .num b)])]

/-- `ofParam` with an unknown member in the middle -/
def junkParam (s : Str) (v : Json) (p : TypeParam Nat) : Json :=
  .obj [(.name, jStr p.name), (.other s, v), (.type_, match p.ty with | some t => .num t | none => .null)]

/-- `ofTy` with an unknown member at the front -/
def junkTy (s : Str) (v : Json) (t : Ty Nat) : Json :=
  .obj ([(.other s, v)] ++ optMember (!t.path.isEmpty) .path (jStrs t.path)
    ++ optMember (!t.params.isEmpty) .params (.arr (t.params.map (junkParam s v)))
    ++ [(.def_, junkTypeDef s v t.def_)]
    ++ optMember (!t.docs.isEmpty) .docs (jStrs t.docs))

/-- `ofPType` with an unknown member at the end -/
def junkPType (s : Str) (v : Json) (p : PType) : Json :=
  .obj [(.id, .num p.id), (.type_, junkTy s v p.ty), (.other s, v)]

/-- `ofRegistry` with an unknown member in every struct object (registry, entry, type, parameter, field, variant, and the
    payload structs of composite / variant / sequence / array / compact / bitsequence) -/
def junkOfRegistry (s : Str) (v : Json) (r : PortableRegistry) : Json :=
  .obj [(.other s, v), (.types, .arr (r.map (junkPType s v)))]

/-! ## `getKey` skips a member under another key -/

theorem getKey_cons_ne {k' k : Key} (v : Json) (kv : List (Key × Json)) (h : k' ≠ k) :
    getKey ((k', v) :: kv) k = getKey kv k := by
  simp only [getKey, if_neg h]

/-- an unknown member at the front is skipped when looking up any named key -/
theorem getKey_other_cons (s : Str) (v : Json) (kv : List (Key × Json)) (k : Key) (h : k ≠ .other s) :
    getKey ((.other s, v) :: kv) k = getKey kv k :=
  getKey_cons_ne v kv (fun e => h e.symm)

theorem getKey_append_none {kv : List (Key × Json)} {k : Key} (kv' : List (Key × Json))
    (h : getKey kv k = none) : getKey (kv ++ kv') k = getKey kv' k := by
  induction kv with
  | nil => rfl
  | cons a kv ih =>
    obtain ⟨k', x⟩ := a
    simp only [getKey, List.cons_append] at h ⊢
    by_cases e : k' = k
    · simp [e] at h
    · simp only [if_neg e] at h ⊢; exact ih h

theorem getKey_append_some {kv : List (Key × Json)} {k : Key} {x : Json} (kv' : List (Key × Json))
    (h : getKey kv k = some x) : getKey (kv ++ kv') k = some x := by
  induction kv with
  | nil => simp [getKey] at h
  | cons a kv ih =>
    obtain ⟨k', y⟩ := a
    simp only [getKey, List.cons_append] at h ⊢
    by_cases e : k' = k
    · simp only [if_pos e] at h ⊢; exact h
    · simp only [if_neg e] at h ⊢; exact ih h

/-- an unknown member at the end changes no lookup of a named key -/
theorem getKey_append_other (s : Str) (v : Json) (kv : List (Key × Json)) (k : Key) (h : k ≠ .other s) :
    getKey (kv ++ [(.other s, v)]) k = getKey kv k := by
  cases hk : getKey kv k with
  | none =>
    rw [getKey_append_none _ hk, getKey_other_cons s v [] k h]; rfl
  | some x => exact getKey_append_some _ hk

/-! ## fields -/

theorem junk_field_keys (s : Str) (v : Json) (f : Field Nat) : ∃ kv, junkField s v f = .obj kv ∧
    getKey kv .name = (match f.name with | none => none | some s => some (jStr s)) ∧
    getKey kv .type_ = some (.num f.ty) ∧
    getKey kv .typeName = (match f.typeName with | none => none | some s => some (jStr s)) ∧
    getKey kv .docs = (if f.docs.isEmpty then none else some (.arr (f.docs.map jStr))) := by
  obtain ⟨kv, he, -, h1, h2, h3, h4⟩ := field_keys f
  refine ⟨(.other s, v) :: kv, by simp only [junkField, he], ?_, ?_, ?_, ?_⟩
  · exact (getKey_other_cons s v kv _ (by simp)).trans h1
  · exact (getKey_other_cons s v kv _ (by simp)).trans h2
  · exact (getKey_other_cons s v kv _ (by simp)).trans h3
  · exact (getKey_other_cons s v kv _ (by simp)).trans h4

theorem deField_junkField (s : Str) (v : Json) (f : Field Nat) (h : okField f) :
    deField (junkField s v f) = .ok f := by
  obtain ⟨kv, he, h1, h2, h3, h4⟩ := junk_field_keys s v f
  simp only [he, deField, asStruct]
  rw [dflt_optStr f.name h1, req_some _ h2, dflt_optStr f.typeName h3,
    dflt_list deStr jStr f.docs h4 (fun _ _ => rfl)]
  simp only [deU32, deU_num h.2.1]

/-! ## variants -/

theorem junk_variant_keys (s : Str) (v : Json) (x : Variant Nat) : ∃ kv, junkVariant s v x = .obj kv ∧
    getKey kv .name = some (jStr x.name) ∧
    getKey kv .fields = (if x.fields.isEmpty then none else some (.arr (x.fields.map (junkField s v)))) ∧
    getKey kv .index = some (.num x.index) ∧
    getKey kv .docs = (if x.docs.isEmpty then none else some (.arr (x.docs.map jStr))) := by
  refine ⟨_, rfl, ?_⟩
  obtain ⟨name, fields, index, docs⟩ := x
  cases fields <;> cases docs <;> exact ⟨rfl, rfl, rfl, rfl⟩

theorem deVariant_junkVariant (s : Str) (v : Json) (x : Variant Nat) (h : okVariant x) :
    deVariant (junkVariant s v x) = .ok x := by
  obtain ⟨kv, he, h1, h2, h3, h4⟩ := junk_variant_keys s v x
  simp only [he, deVariant, asStruct]
  rw [req_some _ h1,
    dflt_list deField (junkField s v) x.fields h2 (fun f hf => deField_junkField s v f (h.2.1.2 f hf)),
    req_some _ h3, dflt_list deStr jStr x.docs h4 (fun _ _ => rfl)]
  simp only [deU8, deU_num h.2.2.1, jStr, deStr]

/-! ## definitions -/

theorem junk_fields_key (s : Str) (v : Json) (fs : List (Field Nat)) :
    getKey (optMember (!fs.isEmpty) .fields (.arr (fs.map (junkField s v))) ++ [(.other s, v)]) .fields
      = (if fs.isEmpty then none else some (.arr (fs.map (junkField s v)))) := by
  rw [getKey_append_other s v _ _ (by simp)]
  cases fs <;> rfl

theorem junk_variants_key (s : Str) (v : Json) (vs : List (Variant Nat)) :
    getKey ((.other s, v) :: optMember (!vs.isEmpty) .variants (.arr (vs.map (junkVariant s v)))) .variants
      = (if vs.isEmpty then none else some (.arr (vs.map (junkVariant s v)))) := by
  rw [getKey_other_cons s v _ _ (by simp)]
  cases vs <;> rfl

theorem deTypeDef_junkTypeDef (s : Str) (v : Json) (d : TypeDef Nat) (h : okTypeDef d) :
    deTypeDef (junkTypeDef s v d) = .ok d := by
  cases d with
  | composite fs =>
    have h' : okFields fs := h
    simp only [junkTypeDef, deTypeDef, asStruct,
      dflt_list deField (junkField s v) fs (junk_fields_key s v fs) (fun f hf => deField_junkField s v f (h'.2 f hf))]
  | variant vs =>
    simp only [junkTypeDef, deTypeDef, asStruct,
      dflt_list deVariant (junkVariant s v) vs (junk_variants_key s v vs)
        (fun x hx => deVariant_junkVariant s v x (h.2 x hx))]
  | sequence t =>
    have h' : t < 4294967296 := h
    simp [junkTypeDef, deTypeDef, deTypeOnly, asStruct, req, getKey, deU32, deU, h']
  | array n t =>
    have h1 : n < 4294967296 := h.1
    have h2 : t < 4294967296 := h.2
    simp [junkTypeDef, deTypeDef, asStruct, req, getKey, deU32, deU, h1, h2]
  | tuple ts =>
    simp only [junkTypeDef, deTypeDef,
      deArr_map deU32 Json.num ts (fun t ht => deU_num (h.2 t ht))]
  | primitive p =>
    simp only [junkTypeDef, deTypeDef, dePrim, primOfName_primName]
  | compact t =>
    have h' : t < 4294967296 := h
    simp [junkTypeDef, deTypeDef, deTypeOnly, asStruct, req, getKey, deU32, deU, h']
  | bitSequence a b =>
    have h1 : a < 4294967296 := h.1
    have h2 : b < 4294967296 := h.2
    simp [junkTypeDef, deTypeDef, asStruct, req, getKey, deU32, deU, h1, h2]

/-! ## parameters -/

theorem deParam_junkParam (s : Str) (v : Json) (p : TypeParam Nat) (h : okParam p) :
    deParam (junkParam s v p) = .ok p := by
  obtain ⟨name, ty⟩ := p
  cases ty with
  | none => simp [junkParam, deParam, asStruct, req, dflt, getKey, jStr, deStr, deOpt]
  | some t =>
    have h' : t < 4294967296 := h.2
    simp [junkParam, deParam, asStruct, req, dflt, getKey, jStr, deStr, deOpt, deU32, deU, h']

/-! ## types -/

theorem junk_ty_keys (s : Str) (v : Json) (t : Ty Nat) : ∃ kv, junkTy s v t = .obj kv ∧
    getKey kv .path = (if t.path.isEmpty then none else some (.arr (t.path.map jStr))) ∧
    getKey kv .params = (if t.params.isEmpty then none else some (.arr (t.params.map (junkParam s v)))) ∧
    getKey kv .def_ = some (junkTypeDef s v t.def_) ∧
    getKey kv .docs = (if t.docs.isEmpty then none else some (.arr (t.docs.map jStr))) := by
  refine ⟨_, rfl, ?_⟩
  obtain ⟨path, params, d, docs⟩ := t
  cases path <;> cases params <;> cases docs <;> exact ⟨rfl, rfl, rfl, rfl⟩

theorem deTy_junkTy (s : Str) (v : Json) (t : Ty Nat) (h : okTy t) : deTy (junkTy s v t) = .ok t := by
  obtain ⟨kv, he, h1, h2, h3, h4⟩ := junk_ty_keys s v t
  simp only [he, deTy, asStruct]
  rw [dflt_list deStr jStr t.path h1 (fun _ _ => rfl),
    dflt_list deParam (junkParam s v) t.params h2 (fun p hp => deParam_junkParam s v p (h.2.1.2 p hp)),
    req_some _ h3, dflt_list deStr jStr t.docs h4 (fun _ _ => rfl)]
  simp only [deTypeDef_junkTypeDef s v t.def_ h.2.2.1]

/-! ## portable types and the registry -/

theorem dePType_junkPType (s : Str) (v : Json) (p : PType) (h : okPType p) :
    dePType (junkPType s v p) = .ok p := by
  have h' : p.id < 4294967296 := h.1
  simp [junkPType, dePType, asStruct, req, getKey, deU32, deU, h', deTy_junkTy s v p.ty h.2]

theorem toRegistry_junkOfRegistry (s : Str) (v : Json) (r : PortableRegistry) (h : Bounded r) :
    toRegistry (junkOfRegistry s v r) = .ok r := by
  simp only [junkOfRegistry, toRegistry, asStruct]
  rw [req_some _ (v := .arr (r.map (junkPType s v))) (by rw [getKey_other_cons s v _ _ (by simp)]; rfl)]
  exact deArr_map dePType (junkPType s v) r (fun p hp => dePType_junkPType s v p (h.2 p hp))

end JsonM
end SIM
