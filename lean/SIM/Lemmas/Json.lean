/-
  SIM.Lemmas.Json — helper lemmas for C08: `toRegistry ∘ ofRegistry` and `jsonShape ∘ ofRegistry`,
  bottom-up, one round-trip lemma and one shape lemma per syntactic category.
-/
import SIM.Model.Json
import SIM.Model.Codec
import SIM.Spec.JsonShape
namespace SIM
namespace JsonM
open Codec Spec

/-! ## generic combinators -/

theorem deList_map {α} (f : Json → De α) (g : α → Json) (l : List α)
    (h : ∀ x ∈ l, f (g x) = .ok x) : deList f (l.map g) = .ok l := by
  induction l with
  | nil => rfl
  | cons a l ih =>
    simp only [List.map_cons, deList]
    rw [h a (by simp), ih (fun x hx => h x (by simp [hx]))]

theorem deArr_map {α} (f : Json → De α) (g : α → Json) (l : List α)
    (h : ∀ x ∈ l, f (g x) = .ok x) : deArr f (.arr (l.map g)) = .ok l := by
  simp only [deArr]; exact deList_map f g l h

theorem req_some {α} {kv : List (Key × Json)} {k : Key} {v : Json} (f : Json → De α)
    (h : getKey kv k = some v) : req kv k f = f v := by
  simp only [req, h]

theorem dflt_some {α} {kv : List (Key × Json)} {k : Key} {v : Json} (d : α) (f : Json → De α)
    (h : getKey kv k = some v) : dflt kv k d f = f v := by
  simp only [dflt, h]

theorem dflt_none {α} {kv : List (Key × Json)} {k : Key} (d : α) (f : Json → De α)
    (h : getKey kv k = none) : dflt kv k d f = .ok d := by
  simp only [dflt, h]

/-- a `#[serde(default)]` list member that is omitted when empty -/
theorem dflt_list {α} {kv : List (Key × Json)} {k : Key} (f : Json → De α) (g : α → Json) (l : List α)
    (hk : getKey kv k = if l.isEmpty then none else some (.arr (l.map g)))
    (h : ∀ x ∈ l, f (g x) = .ok x) : dflt kv k [] (deArr f) = .ok l := by
  cases l with
  | nil => exact dflt_none _ _ (by simpa using hk)
  | cons a l =>
    rw [dflt_some _ _ (by simpa using hk)]
    exact deArr_map f g (a :: l) h

/-- an optional-name member that is omitted when absent -/
theorem dflt_optStr {kv : List (Key × Json)} {k : Key} (o : Option Str)
    (hk : getKey kv k = match o with | none => none | some s => some (jStr s)) :
    dflt kv k none (deOpt deStr) = .ok o := by
  cases o with
  | none => exact dflt_none _ _ hk
  | some s => rw [dflt_some _ _ hk]; rfl

theorem deStrs_jStrs (l : List Str) : deArr deStr (jStrs l) = .ok l :=
  deArr_map deStr jStr l (fun _ _ => rfl)

theorem deU_num {b n : Nat} (h : n < b) : deU b (.num n) = .ok n := by
  simp [deU, h]

theorem primOfName_primName (p : Prim) : primOfName (primName p) = some p := by
  cases p <;> rfl

/-! ## shape combinators -/

theorem optKey_list {kv : List (Key × Json)} {k : Key} (p : Json → Bool) {α} (g : α → Json) (l : List α)
    (hk : getKey kv k = if l.isEmpty then none else some (.arr (l.map g)))
    (h : ∀ x ∈ l, p (g x) = true) : optKey kv k (nonEmptyArr p) = true := by
  cases l with
  | nil =>
    have : getKey kv k = none := by simpa using hk
    simp [optKey, this]
  | cons a l =>
    have : getKey kv k = some (.arr (g a :: l.map g)) := by simpa using hk
    simp only [optKey, this, nonEmptyArr, Bool.and_eq_true, List.all_eq_true, List.mem_map]
    refine ⟨h a (by simp), ?_⟩
    rintro _ ⟨x, hx, rfl⟩
    exact h x (by simp [hx])

theorem optKey_optStr {kv : List (Key × Json)} {k : Key} (o : Option Str)
    (hk : getKey kv k = match o with | none => none | some s => some (jStr s)) :
    optKey kv k isStr = true := by
  cases o with
  | none => simp only [optKey, hk]
  | some s => simp only [optKey, hk]; rfl

theorem reqKey_some {kv : List (Key × Json)} {k : Key} {v : Json} (p : Json → Bool)
    (hk : getKey kv k = some v) (h : p v = true) : reqKey kv k p = true := by
  simp only [reqKey, hk, h]

theorem arrOf_map (p : Json → Bool) {α} (g : α → Json) (l : List α) (h : ∀ x ∈ l, p (g x) = true) :
    arrOf p (.arr (l.map g)) = true := by
  simp only [arrOf, List.all_eq_true, List.mem_map]
  rintro _ ⟨x, hx, rfl⟩
  exact h x hx

/-! ## fields -/

theorem field_keys (f : Field Nat) : ∃ kv, ofField f = .obj kv ∧
    allowed kv [.name, .type_, .typeName, .docs] = true ∧
    getKey kv .name = (match f.name with | none => none | some s => some (jStr s)) ∧
    getKey kv .type_ = some (.num f.ty) ∧
    getKey kv .typeName = (match f.typeName with | none => none | some s => some (jStr s)) ∧
    getKey kv .docs = (if f.docs.isEmpty then none else some (.arr (f.docs.map jStr))) := by
  refine ⟨_, rfl, ?_⟩
  obtain ⟨name, ty, typeName, docs⟩ := f
  cases name <;> cases typeName <;> cases docs <;> exact ⟨rfl, rfl, rfl, rfl, rfl⟩

theorem deField_ofField (f : Field Nat) (h : okField f) : deField (ofField f) = .ok f := by
  obtain ⟨kv, he, -, h1, h2, h3, h4⟩ := field_keys f
  simp only [he, deField, asStruct]
  rw [dflt_optStr f.name h1, req_some _ h2, dflt_optStr f.typeName h3,
    dflt_list deStr jStr f.docs h4 (fun _ _ => rfl)]
  simp only [deU32, deU_num h.2.1]

theorem fieldShape_ofField (f : Field Nat) : fieldShape (ofField f) = true := by
  obtain ⟨kv, he, ha, h1, h2, h3, h4⟩ := field_keys f
  simp only [he, fieldShape, ha, optKey_optStr f.name h1, reqKey_some isNum h2 rfl,
    optKey_optStr f.typeName h3, optKey_list isStr jStr f.docs h4 (fun _ _ => rfl), Bool.and_self]

theorem fields_keys (fs : List (Field Nat)) :
    allowed (ofFields fs) [.fields] = true ∧
    getKey (ofFields fs) .fields = (if fs.isEmpty then none else some (.arr (fs.map ofField))) := by
  cases fs <;> exact ⟨rfl, rfl⟩

theorem deFields_ofFields (fs : List (Field Nat)) (h : okFields fs) :
    dflt (ofFields fs) .fields [] (deArr deField) = .ok fs :=
  dflt_list deField ofField fs (fields_keys fs).2 (fun f hf => deField_ofField f (h.2 f hf))

theorem fieldsShape_ofFields (fs : List (Field Nat)) :
    optKey (ofFields fs) .fields (nonEmptyArr fieldShape) = true :=
  optKey_list fieldShape ofField fs (fields_keys fs).2 (fun f _ => fieldShape_ofField f)

/-! ## variants -/

theorem variant_keys (v : Variant Nat) : ∃ kv, ofVariant v = .obj kv ∧
    allowed kv [.name, .fields, .index, .docs] = true ∧
    getKey kv .name = some (jStr v.name) ∧
    getKey kv .fields = (if v.fields.isEmpty then none else some (.arr (v.fields.map ofField))) ∧
    getKey kv .index = some (.num v.index) ∧
    getKey kv .docs = (if v.docs.isEmpty then none else some (.arr (v.docs.map jStr))) := by
  refine ⟨_, rfl, ?_⟩
  obtain ⟨name, fields, index, docs⟩ := v
  cases fields <;> cases docs <;> exact ⟨rfl, rfl, rfl, rfl, rfl⟩

theorem deVariant_ofVariant (v : Variant Nat) (h : okVariant v) : deVariant (ofVariant v) = .ok v := by
  obtain ⟨kv, he, -, h1, h2, h3, h4⟩ := variant_keys v
  simp only [he, deVariant, asStruct]
  rw [req_some _ h1, dflt_list deField ofField v.fields h2 (fun f hf => deField_ofField f (h.2.1.2 f hf)),
    req_some _ h3, dflt_list deStr jStr v.docs h4 (fun _ _ => rfl)]
  simp only [deU8, deU_num h.2.2.1, jStr, deStr]

theorem variantShape_ofVariant (v : Variant Nat) : variantShape (ofVariant v) = true := by
  obtain ⟨kv, he, ha, h1, h2, h3, h4⟩ := variant_keys v
  simp only [he, variantShape, ha, reqKey_some isStr h1 rfl,
    optKey_list fieldShape ofField v.fields h2 (fun f _ => fieldShape_ofField f), reqKey_some isNum h3 rfl,
    optKey_list isStr jStr v.docs h4 (fun _ _ => rfl), Bool.and_self]

theorem variants_keys (vs : List (Variant Nat)) :
    allowed (optMember (!vs.isEmpty) .variants (.arr (vs.map ofVariant))) [.variants] = true ∧
    getKey (optMember (!vs.isEmpty) .variants (.arr (vs.map ofVariant))) .variants
      = (if vs.isEmpty then none else some (.arr (vs.map ofVariant))) := by
  cases vs <;> exact ⟨rfl, rfl⟩

/-! ## definitions -/

theorem deTypeDef_ofTypeDef (d : TypeDef Nat) (h : okTypeDef d) : deTypeDef (ofTypeDef d) = .ok d := by
  cases d with
  | composite fs =>
    simp only [ofTypeDef, deTypeDef, asStruct, deFields_ofFields fs h]
  | variant vs =>
    simp only [ofTypeDef, deTypeDef, asStruct,
      dflt_list deVariant ofVariant vs (variants_keys vs).2 (fun v hv => deVariant_ofVariant v (h.2 v hv))]
  | sequence t =>
    have h' : t < 4294967296 := h
    simp [ofTypeDef, deTypeDef, deTypeOnly, asStruct, req, getKey, deU32, deU, h']
  | array n t =>
    have h1 : n < 4294967296 := h.1
    have h2 : t < 4294967296 := h.2
    simp [ofTypeDef, deTypeDef, asStruct, req, getKey, deU32, deU, h1, h2]
  | tuple ts =>
    simp only [ofTypeDef, deTypeDef,
      deArr_map deU32 Json.num ts (fun t ht => deU_num (h.2 t ht))]
  | primitive p =>
    simp only [ofTypeDef, deTypeDef, dePrim, primOfName_primName]
  | compact t =>
    have h' : t < 4294967296 := h
    simp [ofTypeDef, deTypeDef, deTypeOnly, asStruct, req, getKey, deU32, deU, h']
  | bitSequence s o =>
    have h1 : s < 4294967296 := h.1
    have h2 : o < 4294967296 := h.2
    simp [ofTypeDef, deTypeDef, asStruct, req, getKey, deU32, deU, h1, h2]

theorem defShape_ofTypeDef (d : TypeDef Nat) : defShape (ofTypeDef d) = true := by
  cases d with
  | composite fs =>
    simp only [ofTypeDef, defShape, (fields_keys fs).1, fieldsShape_ofFields fs, Bool.and_self]
  | variant vs =>
    simp only [ofTypeDef, defShape, (variants_keys vs).1,
      optKey_list variantShape ofVariant vs (variants_keys vs).2 (fun v _ => variantShape_ofVariant v),
      Bool.and_self]
  | sequence t => rfl
  | array n t => rfl
  | tuple ts =>
    simp only [ofTypeDef, defShape, arrOf_map isNum Json.num ts (fun _ _ => rfl)]
  | primitive p =>
    simp only [ofTypeDef, defShape, isPrimName, primOfName_primName, Option.isSome_some]
  | compact t => rfl
  | bitSequence s o => rfl

/-! ## parameters -/

theorem deParam_ofParam (p : TypeParam Nat) (h : okParam p) : deParam (ofParam p) = .ok p := by
  obtain ⟨name, ty⟩ := p
  cases ty with
  | none => rfl
  | some t =>
    have h' : t < 4294967296 := h.2
    simp [ofParam, deParam, asStruct, req, dflt, getKey, jStr, deStr, deOpt, deU32, deU, h']

theorem paramShape_ofParam (p : TypeParam Nat) : paramShape (ofParam p) = true := by
  obtain ⟨name, ty⟩ := p
  cases ty <;> rfl

/-! ## types -/

theorem ty_keys (t : Ty Nat) : ∃ kv, ofTy t = .obj kv ∧
    allowed kv [.path, .params, .def_, .docs] = true ∧
    getKey kv .path = (if t.path.isEmpty then none else some (.arr (t.path.map jStr))) ∧
    getKey kv .params = (if t.params.isEmpty then none else some (.arr (t.params.map ofParam))) ∧
    getKey kv .def_ = some (ofTypeDef t.def_) ∧
    getKey kv .docs = (if t.docs.isEmpty then none else some (.arr (t.docs.map jStr))) := by
  refine ⟨_, rfl, ?_⟩
  obtain ⟨path, params, d, docs⟩ := t
  cases path <;> cases params <;> cases docs <;> exact ⟨rfl, rfl, rfl, rfl, rfl⟩

theorem deTy_ofTy (t : Ty Nat) (h : okTy t) : deTy (ofTy t) = .ok t := by
  obtain ⟨kv, he, -, h1, h2, h3, h4⟩ := ty_keys t
  simp only [he, deTy, asStruct]
  rw [dflt_list deStr jStr t.path h1 (fun _ _ => rfl),
    dflt_list deParam ofParam t.params h2 (fun p hp => deParam_ofParam p (h.2.1.2 p hp)),
    req_some _ h3, dflt_list deStr jStr t.docs h4 (fun _ _ => rfl)]
  simp only [deTypeDef_ofTypeDef t.def_ h.2.2.1]

theorem tyShape_ofTy (t : Ty Nat) : tyShape (ofTy t) = true := by
  obtain ⟨kv, he, ha, h1, h2, h3, h4⟩ := ty_keys t
  simp only [he, tyShape, ha, optKey_list isStr jStr t.path h1 (fun _ _ => rfl),
    optKey_list paramShape ofParam t.params h2 (fun p _ => paramShape_ofParam p),
    reqKey_some defShape h3 (defShape_ofTypeDef t.def_),
    optKey_list isStr jStr t.docs h4 (fun _ _ => rfl), Bool.and_self]

/-! ## portable types and the registry -/

theorem dePType_ofPType (p : PType) (h : okPType p) : dePType (ofPType p) = .ok p := by
  have h' : p.id < 4294967296 := h.1
  simp [ofPType, dePType, asStruct, req, getKey, deU32, deU, h', deTy_ofTy p.ty h.2]

theorem ptypeShape_ofPType (p : PType) : ptypeShape (ofPType p) = true := by
  have ha : allowed [(Key.id, Json.num p.id), (Key.type_, ofTy p.ty)] [.id, .type_] = true := rfl
  simp [ofPType, ptypeShape, ha, reqKey, getKey, isNum, tyShape_ofTy]

theorem toRegistry_ofRegistry (r : PortableRegistry) (h : Bounded r) : toRegistry (ofRegistry r) = .ok r := by
  simp only [ofRegistry, toRegistry, asStruct]
  rw [req_some _ (v := .arr (r.map ofPType)) rfl]
  exact deArr_map dePType ofPType r (fun p hp => dePType_ofPType p (h.2 p hp))

theorem jsonShape_ofRegistry (r : PortableRegistry) : jsonShape (ofRegistry r) = true := by
  have ha : allowed [(Key.types, Json.arr (r.map ofPType))] [.types] = true := rfl
  simp only [ofRegistry, jsonShape, ha, Bool.true_and]
  exact reqKey_some _ (v := .arr (r.map ofPType)) rfl
    (arrOf_map ptypeShape ofPType r (fun p _ => ptypeShape_ofPType p))

end JsonM
end SIM
