/-
  SIM.Lemmas.Schema — helper lemmas for C19: one-level unfoldings of `SchemaM.validates` for the
  node shapes schemars emits, the `lookupDef` table of `Expected.schemaDefs`, and one acceptance lemma
  per definition of the schema, bottom-up, each for every fuel above its threshold.
-/
import SIM.Model.Schema
import SIM.Model.SchemaExpected
import SIM.Lemmas.Json
namespace SIM
namespace SchemaM
open JsonM

/-! ## one-level unfoldings of `validates` for the node shapes that occur -/

theorem all_const_true {α} (l : List α) : (l.all fun _ => true) = true := by
  induction l <;> simp_all

/-- a pure `$ref` node -/
theorem validates_ref (defs : List (Str × Schema)) (f : Nat) (n : Str) (j : Json) :
    validates defs (f + 1) (.node [] [] [] none (some n) [] [] [] none false none) j
      = (match lookupDef defs n with
          | some s => validates defs f s j
          | none => false) := by
  cases j <;> simp [validates, lookupProp, all_const_true] <;> rfl

/-- a single-element `allOf` node -/
theorem validates_allOf1 (defs : List (Str × Schema)) (f : Nat) (s : Schema) (j : Json) :
    validates defs (f + 1) (.node [] [] [] none none [s] [] [] none false none) j
      = validates defs f s j := by
  cases j <;> simp [validates, lookupProp, all_const_true]

/-- a two-element `anyOf` node -/
theorem validates_anyOf2 (defs : List (Str × Schema)) (f : Nat) (s t : Schema) (j : Json) :
    validates defs (f + 1) (.node [] [] [] none none [] [s, t] [] none false none) j
      = (validates defs f s j || validates defs f t j) := by
  cases j <;> simp [validates, lookupProp, all_const_true]

/-- a `oneOf` node -/
theorem validates_oneOf (defs : List (Str × Schema)) (f : Nat) (ss : List Schema) (j : Json) :
    validates defs (f + 1) (.node [] [] [] none none [] [] ss none false none) j
      = (ss.isEmpty || (ss.filter (fun s => validates defs f s j)).length == 1) := by
  cases j <;> simp [validates, lookupProp, all_const_true]

/-- a typed array node applied to an array -/
theorem validates_arr (defs : List (Str × Schema)) (f : Nat) (s : Schema) (l : List Json) :
    validates defs (f + 1) (.node [.array] [] [] (some s) none [] [] [] none false none) (.arr l)
      = l.all (fun x => validates defs f s x) := by
  simp [validates, typeOk]

/-- an object node applied to an object -/
theorem validates_obj (defs : List (Str × Schema)) (f : Nat) (req : List Key) (props : List (Key × Schema))
    (na : Bool) (kv : List (Key × Json)) :
    validates defs (f + 1) (.node [.object] req props none none [] [] [] none na none) (.obj kv)
      = (req.all (fun k => (getKey kv k).isSome)
          && kv.all (fun p => match lookupProp props p.1 with
              | some s => validates defs f s p.2
              | none => !na)) := by
  simp [validates, typeOk]
  rfl

/-- an object node applied to an object without one of the required members -/
theorem validates_obj_missing (defs : List (Str × Schema)) (f : Nat) (req : List Key) (props : List (Key × Schema))
    (na : Bool) (kv : List (Key × Json)) (k : Key) (hk : k ∈ req) (hm : getKey kv k = none) :
    validates defs f (.node [.object] req props none none [] [] [] none na none) (.obj kv) = false := by
  cases f with
  | zero => simp [validates]
  | succ f =>
    rw [validates_obj]
    have : req.all (fun k => (getKey kv k).isSome) = false := by
      rw [List.all_eq_false]
      exact ⟨k, hk, by simp [hm]⟩
    simp [this]

theorem validates_string (defs : List (Str × Schema)) (f : Nat) (s : Str) :
    validates defs (f + 1) (.node [.string] [] [] none none [] [] [] none false none) (.str s) = true := by
  simp [validates, typeOk]

theorem validates_stringOrNull_str (defs : List (Str × Schema)) (f : Nat) (s : Str) :
    validates defs (f + 1) (.node [.string, .null] [] [] none none [] [] [] none false none) (.str s) = true := by
  simp [validates, typeOk]

theorem validates_null (defs : List (Str × Schema)) (f : Nat) :
    validates defs (f + 1) (.node [.null] [] [] none none [] [] [] none false none) .null = true := by
  simp [validates, typeOk]

theorem validates_uint (defs : List (Str × Schema)) (f : Nat) (n : Nat) :
    validates defs (f + 1) (.node [.integer] [] [] none none [] [] [] none false (some 0)) (.num n) = true := by
  simp [validates, typeOk]

/-- an array of strings -/
theorem validates_strs (defs : List (Str × Schema)) (f : Nat) (l : List Str) :
    validates defs (f + 2) (.node [.array] [] [] (some (.node [.string] [] [] none none [] [] [] none false none))
      none [] [] [] none false none) (jStrs l) = true := by
  rw [jStrs, validates_arr, List.all_map, List.all_eq_true]
  intro s _
  exact validates_string defs f s
/-! ## the definitions table of `Expected.schemaDefs` -/

local notation "D" => Expected.schemaDefs

/-- "Field_for_PortableForm" -/
local notation "nField" => ([70, 105, 101, 108, 100, 95, 102, 111, 114, 95, 80, 111, 114, 116, 97, 98, 108, 101, 70, 111, 114, 109] : Str)
/-- "PortableType" -/
local notation "nPortableType" => ([80, 111, 114, 116, 97, 98, 108, 101, 84, 121, 112, 101] : Str)
/-- "TypeDefArray_for_PortableForm" -/
local notation "nTDArray" => ([84, 121, 112, 101, 68, 101, 102, 65, 114, 114, 97, 121, 95, 102, 111, 114, 95, 80, 111, 114, 116, 97, 98, 108, 101, 70, 111, 114, 109] : Str)
/-- "TypeDefBitSequence_for_PortableForm" -/
local notation "nTDBitSeq" => ([84, 121, 112, 101, 68, 101, 102, 66, 105, 116, 83, 101, 113, 117, 101, 110, 99, 101, 95, 102, 111, 114, 95, 80, 111, 114, 116, 97, 98, 108, 101, 70, 111, 114, 109] : Str)
/-- "TypeDefCompact_for_PortableForm" -/
local notation "nTDCompact" => ([84, 121, 112, 101, 68, 101, 102, 67, 111, 109, 112, 97, 99, 116, 95, 102, 111, 114, 95, 80, 111, 114, 116, 97, 98, 108, 101, 70, 111, 114, 109] : Str)
/-- "TypeDefComposite_for_PortableForm" -/
local notation "nTDComposite" => ([84, 121, 112, 101, 68, 101, 102, 67, 111, 109, 112, 111, 115, 105, 116, 101, 95, 102, 111, 114, 95, 80, 111, 114, 116, 97, 98, 108, 101, 70, 111, 114, 109] : Str)
/-- "TypeDefPrimitive" -/
local notation "nTDPrimitive" => ([84, 121, 112, 101, 68, 101, 102, 80, 114, 105, 109, 105, 116, 105, 118, 101] : Str)
/-- "TypeDefSequence_for_PortableForm" -/
local notation "nTDSequence" => ([84, 121, 112, 101, 68, 101, 102, 83, 101, 113, 117, 101, 110, 99, 101, 95, 102, 111, 114, 95, 80, 111, 114, 116, 97, 98, 108, 101, 70, 111, 114, 109] : Str)
/-- "TypeDefVariant_for_PortableForm" -/
local notation "nTDVariant" => ([84, 121, 112, 101, 68, 101, 102, 86, 97, 114, 105, 97, 110, 116, 95, 102, 111, 114, 95, 80, 111, 114, 116, 97, 98, 108, 101, 70, 111, 114, 109] : Str)
/-- "TypeDef_for_PortableForm" -/
local notation "nTypeDef" => ([84, 121, 112, 101, 68, 101, 102, 95, 102, 111, 114, 95, 80, 111, 114, 116, 97, 98, 108, 101, 70, 111, 114, 109] : Str)
/-- "TypeParameter_for_PortableForm" -/
local notation "nTypeParam" => ([84, 121, 112, 101, 80, 97, 114, 97, 109, 101, 116, 101, 114, 95, 102, 111, 114, 95, 80, 111, 114, 116, 97, 98, 108, 101, 70, 111, 114, 109] : Str)
/-- "Type_for_PortableForm" -/
local notation "nType" => ([84, 121, 112, 101, 95, 102, 111, 114, 95, 80, 111, 114, 116, 97, 98, 108, 101, 70, 111, 114, 109] : Str)
/-- "UntrackedSymbol" -/
local notation "nUS" => ([85, 110, 116, 114, 97, 99, 107, 101, 100, 83, 121, 109, 98, 111, 108] : Str)
/-- "Variant_for_PortableForm" -/
local notation "nVariant" => ([86, 97, 114, 105, 97, 110, 116, 95, 102, 111, 114, 95, 80, 111, 114, 116, 97, 98, 108, 101, 70, 111, 114, 109] : Str)

/-- a `$ref` to the definition named `n` -/
local notation "ref(" n ")" => Schema.node [] [] [] none (some n) [] [] [] none false none

theorem lookup_Field : lookupDef D nField = some Expected.def_Field_for_PortableForm := rfl
theorem lookup_PortableType : lookupDef D nPortableType = some Expected.def_PortableType := rfl
theorem lookup_TDArray : lookupDef D nTDArray = some Expected.def_TypeDefArray_for_PortableForm := rfl
theorem lookup_TDBitSeq : lookupDef D nTDBitSeq = some Expected.def_TypeDefBitSequence_for_PortableForm := rfl
theorem lookup_TDCompact : lookupDef D nTDCompact = some Expected.def_TypeDefCompact_for_PortableForm := rfl
theorem lookup_TDComposite : lookupDef D nTDComposite = some Expected.def_TypeDefComposite_for_PortableForm := rfl
theorem lookup_TDPrimitive : lookupDef D nTDPrimitive = some Expected.def_TypeDefPrimitive := rfl
theorem lookup_TDSequence : lookupDef D nTDSequence = some Expected.def_TypeDefSequence_for_PortableForm := rfl
theorem lookup_TDVariant : lookupDef D nTDVariant = some Expected.def_TypeDefVariant_for_PortableForm := rfl
theorem lookup_TypeDef : lookupDef D nTypeDef = some Expected.def_TypeDef_for_PortableForm := rfl
theorem lookup_TypeParam : lookupDef D nTypeParam = some Expected.def_TypeParameter_for_PortableForm := rfl
theorem lookup_Type : lookupDef D nType = some Expected.def_Type_for_PortableForm := rfl
theorem lookup_US : lookupDef D nUS = some Expected.def_UntrackedSymbol := rfl
theorem lookup_Variant : lookupDef D nVariant = some Expected.def_Variant_for_PortableForm := rfl

/-! ## acceptance, bottom-up; each lemma holds for every fuel above its threshold -/

theorem acc_ref {f : Nat} {n : Str} {s : Schema} {j : Json} (hl : lookupDef D n = some s)
    (h : validates D f s j = true) : validates D (f + 1) ref(n) j = true := by
  rw [validates_ref, hl]; exact h

theorem acc_refUS (f : Nat) (hf : 2 ≤ f) (n : Nat) : validates D f ref(nUS) (.num n) = true := by
  obtain ⟨g, rfl⟩ : ∃ g, f = g + 2 := ⟨f - 2, by omega⟩
  exact acc_ref lookup_US (validates_uint D g n)

theorem acc_allOfUS (f : Nat) (hf : 3 ≤ f) (n : Nat) :
    validates D f (.node [] [] [] none none [ref(nUS)] [] [] none false none) (.num n) = true := by
  obtain ⟨g, rfl⟩ : ∃ g, f = g + 3 := ⟨f - 3, by omega⟩
  rw [validates_allOf1]
  exact acc_refUS _ (by omega) n

theorem acc_Field (f : Nat) (hf : 4 ≤ f) (fld : Field Nat) :
    validates D f Expected.def_Field_for_PortableForm (ofField fld) = true := by
  obtain ⟨g, rfl⟩ : ∃ g, f = g + 4 := ⟨f - 4, by omega⟩
  obtain ⟨name, ty, typeName, docs⟩ := fld
  have h1 := acc_allOfUS (g + 3) (by omega) ty
  have hd := validates_strs D (g + 1) docs
  unfold Expected.def_Field_for_PortableForm
  cases name <;> cases typeName <;> cases docs <;>
    simp [ofField, optMember, validates_obj, getKey, lookupProp, h1, hd, validates_stringOrNull_str, jStr]

theorem acc_refField (f : Nat) (hf : 5 ≤ f) (fld : Field Nat) :
    validates D f ref(nField) (ofField fld) = true := by
  obtain ⟨g, rfl⟩ : ∃ g, f = g + 1 := ⟨f - 1, by omega⟩
  exact acc_ref lookup_Field (acc_Field g (by omega) fld)

/-- an array whose items are `$ref`s, applied to a mapped list -/
theorem acc_arrMap {α} (f : Nat) (s : Schema) (g : α → Json) (l : List α)
    (h : ∀ x ∈ l, validates D f s (g x) = true) :
    validates D (f + 1) (.node [.array] [] [] (some s) none [] [] [] none false none) (.arr (l.map g)) = true := by
  rw [validates_arr, List.all_map, List.all_eq_true]
  exact h

theorem acc_fieldsArr (f : Nat) (hf : 6 ≤ f) (fs : List (Field Nat)) :
    validates D f (.node [.array] [] [] (some ref(nField)) none [] [] [] none false none)
      (.arr (fs.map ofField)) = true := by
  obtain ⟨g, rfl⟩ : ∃ g, f = g + 1 := ⟨f - 1, by omega⟩
  exact acc_arrMap g _ ofField fs (fun x _ => acc_refField g (by omega) x)

theorem acc_Variant (f : Nat) (hf : 7 ≤ f) (v : Variant Nat) :
    validates D f Expected.def_Variant_for_PortableForm (ofVariant v) = true := by
  obtain ⟨g, rfl⟩ : ∃ g, f = g + 7 := ⟨f - 7, by omega⟩
  obtain ⟨name, fields, index, docs⟩ := v
  have hfs := acc_fieldsArr (g + 6) (by omega) fields
  have hd := validates_strs D (g + 4) docs
  unfold Expected.def_Variant_for_PortableForm
  simp only [ofVariant, ofFields]
  generalize Json.arr (fields.map ofField) = jf at hfs ⊢
  cases fields <;> cases docs <;>
    simp [optMember, validates_obj, getKey, lookupProp, hfs, hd, validates_string, validates_uint, jStr]

theorem acc_refVariant (f : Nat) (hf : 8 ≤ f) (v : Variant Nat) :
    validates D f ref(nVariant) (ofVariant v) = true := by
  obtain ⟨g, rfl⟩ : ∃ g, f = g + 1 := ⟨f - 1, by omega⟩
  exact acc_ref lookup_Variant (acc_Variant g (by omega) v)

theorem acc_TDComposite (f : Nat) (hf : 7 ≤ f) (fs : List (Field Nat)) :
    validates D f Expected.def_TypeDefComposite_for_PortableForm (.obj (ofFields fs)) = true := by
  obtain ⟨g, rfl⟩ : ∃ g, f = g + 7 := ⟨f - 7, by omega⟩
  have hfs := acc_fieldsArr (g + 6) (by omega) fs
  unfold Expected.def_TypeDefComposite_for_PortableForm
  simp only [ofFields]
  generalize Json.arr (fs.map ofField) = jf at hfs ⊢
  cases fs <;> simp [optMember, validates_obj, getKey, lookupProp, hfs]

theorem acc_refTDComposite (f : Nat) (hf : 8 ≤ f) (fs : List (Field Nat)) :
    validates D f ref(nTDComposite) (.obj (ofFields fs)) = true := by
  obtain ⟨g, rfl⟩ : ∃ g, f = g + 1 := ⟨f - 1, by omega⟩
  exact acc_ref lookup_TDComposite (acc_TDComposite g (by omega) fs)

theorem acc_TDVariant (f : Nat) (hf : 10 ≤ f) (vs : List (Variant Nat)) :
    validates D f Expected.def_TypeDefVariant_for_PortableForm
      (.obj (optMember (!vs.isEmpty) .variants (.arr (vs.map ofVariant)))) = true := by
  obtain ⟨g, rfl⟩ : ∃ g, f = g + 10 := ⟨f - 10, by omega⟩
  have hvs := acc_arrMap (g + 8) ref(nVariant) ofVariant vs (fun x _ => acc_refVariant _ (by omega) x)
  unfold Expected.def_TypeDefVariant_for_PortableForm
  generalize Json.arr (vs.map ofVariant) = jf at hvs ⊢
  cases vs <;> simp [optMember, validates_obj, getKey, lookupProp, hvs]

theorem acc_refTDVariant (f : Nat) (hf : 11 ≤ f) (vs : List (Variant Nat)) :
    validates D f ref(nTDVariant) (.obj (optMember (!vs.isEmpty) .variants (.arr (vs.map ofVariant)))) = true := by
  obtain ⟨g, rfl⟩ : ∃ g, f = g + 1 := ⟨f - 1, by omega⟩
  exact acc_ref lookup_TDVariant (acc_TDVariant g (by omega) vs)

theorem acc_refTDSequence (f : Nat) (hf : 5 ≤ f) (t : Nat) :
    validates D f ref(nTDSequence) (.obj [(.type_, .num t)]) = true := by
  obtain ⟨g, rfl⟩ : ∃ g, f = g + 5 := ⟨f - 5, by omega⟩
  refine acc_ref lookup_TDSequence ?_
  have h1 := acc_allOfUS (g + 3) (by omega) t
  unfold Expected.def_TypeDefSequence_for_PortableForm
  simp [validates_obj, getKey, lookupProp, h1]

theorem acc_refTDCompact (f : Nat) (hf : 5 ≤ f) (t : Nat) :
    validates D f ref(nTDCompact) (.obj [(.type_, .num t)]) = true := by
  obtain ⟨g, rfl⟩ : ∃ g, f = g + 5 := ⟨f - 5, by omega⟩
  refine acc_ref lookup_TDCompact ?_
  have h1 := acc_allOfUS (g + 3) (by omega) t
  unfold Expected.def_TypeDefCompact_for_PortableForm
  simp [validates_obj, getKey, lookupProp, h1]

theorem acc_refTDArray (f : Nat) (hf : 5 ≤ f) (n t : Nat) :
    validates D f ref(nTDArray) (.obj [(.len, .num n), (.type_, .num t)]) = true := by
  obtain ⟨g, rfl⟩ : ∃ g, f = g + 5 := ⟨f - 5, by omega⟩
  refine acc_ref lookup_TDArray ?_
  have h1 := acc_allOfUS (g + 3) (by omega) t
  unfold Expected.def_TypeDefArray_for_PortableForm
  simp [validates_obj, getKey, lookupProp, h1, validates_uint]

theorem acc_refTDBitSeq (f : Nat) (hf : 5 ≤ f) (s o : Nat) :
    validates D f ref(nTDBitSeq) (.obj [(.bitStoreType, .num s), (.bitOrderType, .num o)]) = true := by
  obtain ⟨g, rfl⟩ : ∃ g, f = g + 5 := ⟨f - 5, by omega⟩
  refine acc_ref lookup_TDBitSeq ?_
  have h1 := acc_allOfUS (g + 3) (by omega) s
  have h2 := acc_allOfUS (g + 3) (by omega) o
  unfold Expected.def_TypeDefBitSequence_for_PortableForm
  simp [validates_obj, getKey, lookupProp, h1, h2]

theorem acc_tupleArr (f : Nat) (hf : 3 ≤ f) (ts : List Nat) :
    validates D f (.node [.array] [] [] (some ref(nUS)) none [] [] [] none false none)
      (.arr (ts.map .num)) = true := by
  obtain ⟨g, rfl⟩ : ∃ g, f = g + 1 := ⟨f - 1, by omega⟩
  exact acc_arrMap g _ Json.num ts (fun x _ => acc_refUS g (by omega) x)

/-- a single-value string `enum` -/
theorem validates_enum (defs : List (Str × Schema)) (f : Nat) (vals : List Str) (s : Str) :
    validates defs (f + 1) (.node [.string] [] [] none none [] [] [] (some vals) false none) (.str s)
      = vals.contains s := by
  simp [validates, typeOk]

theorem acc_TDPrimitive (f : Nat) (hf : 2 ≤ f) (p : Prim) :
    validates D f Expected.def_TypeDefPrimitive (.str (primName p)) = true := by
  obtain ⟨g, rfl⟩ : ∃ g, f = g + 2 := ⟨f - 2, by omega⟩
  unfold Expected.def_TypeDefPrimitive
  rw [validates_oneOf]
  cases p <;> simp [validates_enum, primName]

theorem acc_refTDPrimitive (f : Nat) (hf : 3 ≤ f) (p : Prim) :
    validates D f ref(nTDPrimitive) (.str (primName p)) = true := by
  obtain ⟨g, rfl⟩ : ∃ g, f = g + 1 := ⟨f - 1, by omega⟩
  exact acc_ref lookup_TDPrimitive (acc_TDPrimitive g (by omega) p)

/-- exactly one alternative of the 8-way `oneOf` accepts: the one whose tag is the single member present -/
theorem acc_TypeDef (f : Nat) (hf : 13 ≤ f) (d : TypeDef Nat) :
    validates D f Expected.def_TypeDef_for_PortableForm (ofTypeDef d) = true := by
  obtain ⟨g, rfl⟩ : ∃ g, f = g + 13 := ⟨f - 13, by omega⟩
  unfold Expected.def_TypeDef_for_PortableForm
  rw [validates_oneOf]
  cases d with
  | composite fs =>
    have h := acc_refTDComposite (g + 11) (by omega) fs
    simp [ofTypeDef, validates_obj, getKey, lookupProp, h]
  | variant vs =>
    have h := acc_refTDVariant (g + 11) (by omega) vs
    simp [ofTypeDef, validates_obj, getKey, lookupProp, h]
  | sequence t =>
    have h := acc_refTDSequence (g + 11) (by omega) t
    simp [ofTypeDef, validates_obj, getKey, lookupProp, h]
  | array n t =>
    have h := acc_refTDArray (g + 11) (by omega) n t
    simp [ofTypeDef, validates_obj, getKey, lookupProp, h]
  | tuple ts =>
    have h := acc_tupleArr (g + 11) (by omega) ts
    simp only [ofTypeDef]
    generalize Json.arr (ts.map Json.num) = jt at h ⊢
    simp [validates_obj, getKey, lookupProp, h]
  | primitive p =>
    have h := acc_refTDPrimitive (g + 11) (by omega) p
    simp [ofTypeDef, validates_obj, getKey, lookupProp, h]
  | compact t =>
    have h := acc_refTDCompact (g + 11) (by omega) t
    simp [ofTypeDef, validates_obj, getKey, lookupProp, h]
  | bitSequence s o =>
    have h := acc_refTDBitSeq (g + 11) (by omega) s o
    simp [ofTypeDef, validates_obj, getKey, lookupProp, h]

theorem acc_refTypeDef (f : Nat) (hf : 14 ≤ f) (d : TypeDef Nat) :
    validates D f ref(nTypeDef) (ofTypeDef d) = true := by
  obtain ⟨g, rfl⟩ : ∃ g, f = g + 1 := ⟨f - 1, by omega⟩
  exact acc_ref lookup_TypeDef (acc_TypeDef g (by omega) d)

theorem acc_TypeParam (f : Nat) (hf : 4 ≤ f) (p : TypeParam Nat) :
    validates D f Expected.def_TypeParameter_for_PortableForm (ofParam p) = true := by
  obtain ⟨g, rfl⟩ : ∃ g, f = g + 4 := ⟨f - 4, by omega⟩
  obtain ⟨name, ty⟩ := p
  unfold Expected.def_TypeParameter_for_PortableForm
  cases ty with
  | none =>
    simp [ofParam, validates_obj, getKey, lookupProp, validates_string, validates_anyOf2, validates_null, jStr]
  | some t =>
    have h := acc_refUS (g + 2) (by omega) t
    simp [ofParam, validates_obj, getKey, lookupProp, validates_string, validates_anyOf2, h, jStr]

theorem acc_refTypeParam (f : Nat) (hf : 5 ≤ f) (p : TypeParam Nat) :
    validates D f ref(nTypeParam) (ofParam p) = true := by
  obtain ⟨g, rfl⟩ : ∃ g, f = g + 1 := ⟨f - 1, by omega⟩
  exact acc_ref lookup_TypeParam (acc_TypeParam g (by omega) p)

theorem acc_Type (f : Nat) (hf : 16 ≤ f) (t : Ty Nat) :
    validates D f Expected.def_Type_for_PortableForm (ofTy t) = true := by
  obtain ⟨g, rfl⟩ : ∃ g, f = g + 16 := ⟨f - 16, by omega⟩
  obtain ⟨path, params, d, docs⟩ := t
  have hp := validates_strs D (g + 13) path
  have hd := validates_strs D (g + 13) docs
  have hps := acc_arrMap (g + 14) ref(nTypeParam) ofParam params (fun x _ => acc_refTypeParam _ (by omega) x)
  have hdef : validates D (g + 15) (.node [] [] [] none none [ref(nTypeDef)] [] [] none false none) (ofTypeDef d) = true := by
    rw [validates_allOf1]; exact acc_refTypeDef _ (by omega) d
  unfold Expected.def_Type_for_PortableForm
  simp only [ofTy]
  generalize Json.arr (params.map ofParam) = jp at hps ⊢
  generalize ofTypeDef d = jd at hdef ⊢
  cases path <;> cases params <;> cases docs <;>
    simp [optMember, validates_obj, getKey, lookupProp, hp, hd, hps, hdef]

theorem acc_refType (f : Nat) (hf : 17 ≤ f) (t : Ty Nat) :
    validates D f ref(nType) (ofTy t) = true := by
  obtain ⟨g, rfl⟩ : ∃ g, f = g + 1 := ⟨f - 1, by omega⟩
  exact acc_ref lookup_Type (acc_Type g (by omega) t)

theorem acc_PortableType (f : Nat) (hf : 19 ≤ f) (p : PType) :
    validates D f Expected.def_PortableType (ofPType p) = true := by
  obtain ⟨g, rfl⟩ : ∃ g, f = g + 19 := ⟨f - 19, by omega⟩
  have ht : validates D (g + 18) (.node [] [] [] none none [ref(nType)] [] [] none false none) (ofTy p.ty) = true := by
    rw [validates_allOf1]; exact acc_refType _ (by omega) p.ty
  unfold Expected.def_PortableType
  simp only [ofPType]
  generalize ofTy p.ty = jt at ht ⊢
  simp [validates_obj, getKey, lookupProp, ht, validates_uint]

theorem acc_refPortableType (f : Nat) (hf : 20 ≤ f) (p : PType) :
    validates D f ref(nPortableType) (ofPType p) = true := by
  obtain ⟨g, rfl⟩ : ∃ g, f = g + 1 := ⟨f - 1, by omega⟩
  exact acc_ref lookup_PortableType (acc_PortableType g (by omega) p)

/-- the root schema accepts every serialised registry, for every fuel from 22 up -/
theorem acc_root (f : Nat) (hf : 22 ≤ f) (r : PortableRegistry) :
    validates D f Expected.schemaRoot (ofRegistry r) = true := by
  obtain ⟨g, rfl⟩ : ∃ g, f = g + 22 := ⟨f - 22, by omega⟩
  have h := acc_arrMap (g + 20) ref(nPortableType) ofPType r (fun x _ => acc_refPortableType _ (by omega) x)
  unfold Expected.schemaRoot
  simp only [ofRegistry]
  generalize Json.arr (r.map ofPType) = jr at h ⊢
  simp [validates_obj, getKey, lookupProp, h]

end SchemaM
end SIM
