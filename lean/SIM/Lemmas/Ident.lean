/-
  SIM.Lemmas.Ident — reading of the atoms of the extracted identifier rule (C18ident): definitions and helper lemmas only.
-/
import SIM.Model.IdentExpected
import SIM.Model.Path
namespace SIM
namespace C18
open PathM

def aEq : Str := [101, 113]   -- `eq`
def aLower : Str := [105, 115, 95, 97, 115, 99, 105, 105, 95, 108, 111, 119, 101, 114, 99, 97, 115, 101]   -- `is_ascii_lowercase`
def aUpper : Str := [105, 115, 95, 97, 115, 99, 105, 105, 95, 117, 112, 112, 101, 114, 99, 97, 115, 101]   -- `is_ascii_uppercase`
def aDigit : Str := [105, 115, 95, 97, 115, 99, 105, 105, 95, 100, 105, 103, 105, 116]   -- `is_ascii_digit`

/-- reading of one disjunct on a byte: `x == b'c'`, or one of Rust's `u8::is_ascii_*` classes (lowercase a–z, uppercase A–Z, digit 0–9);
    an atom the reading does not know is false -/
def atomHolds (a : Str × Nat) (b : UInt8) : Bool :=
  if a.1 == aEq then b.toNat == a.2
  else if a.1 == aLower then isLower b
  else if a.1 == aUpper then isUpper b
  else if a.1 == aDigit then isDigit b
  else false

theorem atom_eq (n : Nat) (b : UInt8) : atomHolds (aEq, n) b = (b.toNat == n) := by
  simp [atomHolds]
theorem atom_lower (n : Nat) (b : UInt8) : atomHolds (aLower, n) b = isLower b := by
  have : (aLower == aEq) = false := by decide
  simp [atomHolds, this]
theorem atom_upper (n : Nat) (b : UInt8) : atomHolds (aUpper, n) b = isUpper b := by
  have h1 : (aUpper == aEq) = false := by decide
  have h2 : (aUpper == aLower) = false := by decide
  simp [atomHolds, h1, h2]
theorem atom_digit (n : Nat) (b : UInt8) : atomHolds (aDigit, n) b = isDigit b := by
  have h1 : (aDigit == aEq) = false := by decide
  have h2 : (aDigit == aLower) = false := by decide
  have h3 : (aDigit == aUpper) = false := by decide
  simp [atomHolds, h1, h2, h3]
theorem beq95 (b : UInt8) : (b == 95) = (b.toNat == 95) := by
  rw [Bool.eq_iff_iff]; simp [← UInt8.toNat_inj]

end C18
end SIM
