/-
  SIM.Lemmas.Interner — the interner's `map` and `vec` describe one duplicate-free table.
-/
import SIM.Model.Interner
import SIM.Model.Builder
namespace SIM
namespace Interner
variable {α : Type} [DecidableEq α]

/-- `map` is the inverse of `vec`: looking a value up gives its first (only) position. -/
def Inv (it : Interner α) : Prop :=
  ∀ x, mapGet it.map x = if x ∈ it.vec then some (it.vec.idxOf x) else none

theorem inv_empty : Inv (empty : Interner α) := by
  intro x; simp [empty, mapGet]

theorem mapGet_append (m : List (α × Nat)) (k : α) (v : Nat) (x : α) :
    mapGet (m ++ [(k, v)]) x = match mapGet m x with
      | some i => some i
      | none => if k = x then some v else none := by
  induction m with
  | nil => simp [mapGet]
  | cons kv rest ih =>
    obtain ⟨k', v'⟩ := kv
    simp only [List.cons_append, mapGet]
    split
    · rfl
    · exact ih

theorem internOrGet_spec (it : Interner α) (h : Inv it) (x : α) :
    (internOrGet it x).1 = (DL.intern it.vec x).1 ∧
    (internOrGet it x).2.1 = (DL.intern it.vec x).2.1 ∧
    (internOrGet it x).2.2.vec = (DL.intern it.vec x).2.2 ∧
    Inv (internOrGet it x).2.2 := by
  have hx := h x
  unfold internOrGet DL.intern
  by_cases hm : x ∈ it.vec
  · simp only [hm, if_true] at hx ⊢
    rw [hx]
    exact ⟨rfl, rfl, rfl, h⟩
  · simp only [hm, if_false] at hx ⊢
    rw [hx]
    refine ⟨rfl, rfl, rfl, ?_⟩
    intro y
    simp only [mapGet_append]
    have hy := h y
    by_cases hym : y ∈ it.vec
    · simp only [hym, if_true] at hy
      rw [hy]
      have : y ∈ it.vec ++ [x] := List.mem_append_left _ hym
      simp only [this, if_true, List.idxOf_append, hym]
    · simp only [hym, if_false] at hy
      rw [hy]
      by_cases hxy : x = y
      · subst hxy
        simp [List.idxOf_append, hm]
      · have : ¬ y ∈ it.vec ++ [x] := by
          simp [hym, Ne.symm hxy]
        simp [hxy, this]

theorem get_spec (it : Interner α) (h : Inv it) (x : α) : it.get x = DL.get it.vec x := by
  unfold get DL.get; exact h x

omit [DecidableEq α] in
theorem resolve_spec (it : Interner α) (i : Nat) : it.resolve i = DL.resolve it.vec i := by
  unfold resolve DL.resolve
  split
  · rename_i h; simp [List.getElem?_eq_none h]
  · rfl

end Interner

namespace DL
variable {α : Type} [DecidableEq α]

theorem intern_nodup (l : List α) (x : α) (h : l.Nodup) : (intern l x).2.2.Nodup := by
  unfold intern
  split
  · exact h
  · rename_i hx
    simp only
    rw [List.nodup_append]
    refine ⟨h, by simp, ?_⟩
    intro a ha b hb
    simp at hb
    subst hb
    intro hab; subst hab; exact hx ha

end DL
end SIM
