/-
  SIM.Lemmas.Impls — helper lemmas about `Impls.identity`, `Impls.typeInfo`, `Spec.aliasNorm`.
-/
import SIM.Model.Impls
import SIM.Spec.Alias
namespace SIM
namespace Impls
open Spec

theorem identity_idem' (t : TyExpr) : identity (identity t) = identity t := by
  induction t <;> simp_all [identity]

theorem typeInfo_identity' (docs : Bool) (t : TyExpr) : typeInfo docs (identity t) = typeInfo docs t := by
  induction t <;> simp_all [identity, typeInfo]

theorem identity_eq_aliasNorm' (t : TyExpr) : identity t = aliasNorm t := by
  induction t <;> simp_all [identity, aliasNorm]

theorem aliasEq_identity (t : TyExpr) : AliasEq t (identity t) := by
  induction t with
  | box_ t ih => exact .trans (.box_ t) (by simpa [identity] using ih)
  | rc t ih => exact .trans (.rc t) (by simpa [identity] using ih)
  | arc t ih => exact .trans (.arc t) (by simpa [identity] using ih)
  | ref_ t ih => exact .trans (.ref_ t) (by simpa [identity] using ih)
  | refMut t ih => exact .trans (.refMut t) (by simpa [identity] using ih)
  | vec t _ => simpa [identity] using AliasEq.vec t
  | vecDeque t _ => simpa [identity] using AliasEq.vecDeque t
  | string => simpa [identity] using AliasEq.string
  | phantom t _ => simpa [identity] using AliasEq.phantom t .tuple0
  | _ => simpa [identity] using AliasEq.refl _

theorem identity_of_aliasEq {a b : TyExpr} (h : AliasEq a b) : identity a = identity b := by
  induction h with
  | refl => rfl
  | symm _ ih => exact ih.symm
  | trans _ _ ih1 ih2 => exact ih1.trans ih2
  | _ => simp [identity]

theorem one_le_sizeOf (t : TyExpr) : 1 ≤ sizeOf t := by
  cases t <;> simp <;> omega

theorem sizeOf_identity_le (t : TyExpr) : sizeOf (identity t) ≤ sizeOf t := by
  induction t with
  | phantom t _ => have := one_le_sizeOf t; simp [identity]; omega
  | _ => simp [identity] <;> omega

theorem identity_ne_cow (t : TyExpr) : identity t ≠ .cow t := by
  intro h
  have h1 := sizeOf_identity_le t
  rw [h] at h1
  simp at h1
  omega

/-- the fields kept by `pushed` are not phantom -/
theorem pushed_not_phantom (fs : List (Field TyExpr)) : ∀ f ∈ pushed fs, isPhantom f.ty = false := by
  intro f hf
  simp [pushed] at hf
  simpa using hf.2

theorem tupleNew_not_phantom (ts : List TyExpr) :
    ∀ r ∈ ts.filter (fun t => !isPhantom t), isPhantom r = false := by
  intro r hr
  simp at hr
  simpa using hr.2

end Impls
end SIM
