/-
  SIM.Lemmas.DeriveDef — the definition part (fields / variants) of `Derive.typeInfo`: whenever the derive
  produces a type, its `def_` is the declarative `membersExpected` / `variantsExpected` of `SIM.Spec.Derive`.
-/
import SIM.Model.Derive
import SIM.Spec.Derive
import SIM.Lemmas.Build
namespace SIM
namespace Derive
open Build Spec

/-! ### docs -/

theorem capturedDocs_nil (docs : Bool) (c : Capture) : capturedDocs docs c [] = [] := by
  cases c <;> cases docs <;> rfl

/-- folding the (only) docs call of `docsCall` over a field builder -/
theorem fb_docs {R} (docs : Bool) (c : Capture) (l : List Str) (fb : FB R) (h0 : fb.docs = []) :
    (((docsCall c l).map FCall.free).foldl (FB.step { docs := docs }) fb) =
      { fb with docs := capturedDocs docs c l } := by
  cases l with
  | nil =>
    simp only [docsCall, List.isEmpty_nil, if_true, List.map_nil, List.foldl_nil, capturedDocs_nil]
    cases fb; simp_all
  | cons a l =>
    cases fb
    cases c <;> cases docs <;> simp_all [docsCall, FB.step, applyDocs, capturedDocs]

theorem vb_docs {R} (docs : Bool) (isPh : R → Bool) (c : Capture) (l : List Str) (vb : VB R) (h0 : vb.docs = []) :
    (((docsCall c l).map VCall.free).foldl (VB.step { docs := docs } isPh) vb) =
      { vb with docs := capturedDocs docs c l } := by
  cases l with
  | nil =>
    simp only [docsCall, List.isEmpty_nil, if_true, List.map_nil, List.foldl_nil, capturedDocs_nil]
    cases vb; simp_all
  | cons a l =>
    cases vb
    cases c <;> cases docs <;> simp_all [docsCall, VB.step, applyDocs, capturedDocs]

/-! ### members -/

/-- the field one `.field(|f| ..)` closure of the derive builds -/
def fieldExp (tn : Str → Str) (docs : Bool) (c : Capture) (f : FieldD) : Field TyExpr :=
  { name := (match f.rename with | some r => some r | none => f.ident),
    ty := if f.compact then .compact f.ty else f.ty,
    typeName := some (tn f.tyText),
    docs := capturedDocs docs c f.docs }

theorem fieldOf_fieldCalls (docs : Bool) (c : Capture) (f : FieldD) :
    fieldOf { docs := docs } (fieldCalls c f) = some (fieldExp cleanTypeString docs c f) := by
  unfold fieldOf fieldCalls
  simp only [List.foldl_append]
  rw [fb_docs]
  · cases hr : f.rename with
    | some r => simp [FB.step, fieldExp, hr]
    | none =>
      cases hi : f.ident with
      | some i => simp [FB.step, fieldExp, hr, hi]
      | none => simp [FB.step, fieldExp, hr, hi]
  · cases hr : f.rename with
    | some r => simp [FB.step]
    | none =>
      cases hi : f.ident with
      | some i => simp [FB.step]
      | none => simp [FB.step]

theorem membersExpected_eq (tn : Str → Str) (docs : Bool) (c : Capture) (fs : List FieldD) :
    membersExpected tn docs c fs =
      (fs.filter (fun f => !f.skip && !Impls.isPhantom (if f.compact then .compact f.ty else f.ty))).map (fieldExp tn docs c) := rfl

theorem fieldsOf_fieldsCalls (docs : Bool) (c : Capture) (fs : List FieldD) :
    fieldsOf { docs := docs } Impls.isPhantom (fieldsCalls c fs) = some (membersExpected cleanTypeString docs c fs) := by
  induction fs with
  | nil => rfl
  | cons f fs ih =>
    unfold fieldsCalls at ih ⊢
    rw [membersExpected_eq] at ih ⊢
    cases hs : f.skip with
    | true => simpa [List.filter_cons, hs] using ih
    | false =>
      simp only [List.filter_cons, hs, Bool.not_false, if_true, List.map_cons, fieldsOf, fieldOf_fieldCalls, ih,
        Bool.true_and]
      cases hp : Impls.isPhantom (if f.compact then TyExpr.compact f.ty else f.ty) with
      | true => simp [fieldExp, hp]
      | false => simp [fieldExp, hp]

/-! ### variants -/

def variantExp (tn : Str → Str) (docs : Bool) (c : Capture) (iv : Nat × VariantD) : Variant TyExpr :=
  { name := iv.2.ident,
    fields := membersExpected tn docs c (shapeFields iv.2.shape),
    index := variantIndex iv.2 iv.1,
    docs := capturedDocs docs c iv.2.docs }

theorem variantsExpected_eq (tn : Str → Str) (docs : Bool) (c : Capture) (vs : List VariantD) :
    variantsExpected tn docs c vs = (enumFrom 0 (vs.filter (fun v => !v.skip))).map (variantExp tn docs c) := rfl

theorem variantOf_variantCalls (docs : Bool) (c : Capture) (v : VariantD) (i : Nat) :
    variantOf { docs := docs } Impls.isPhantom (variantCalls c v i).1 (variantCalls c v i).2 =
      some (variantExp cleanTypeString docs c (i, v)) := by
  unfold variantOf variantCalls
  simp only [List.foldl_append]
  rw [vb_docs]
  · cases hsh : v.shape with
    | unit => simp [VB.step, variantExp, hsh, shapeFields, membersExpected]
    | named fs => simp [VB.step, variantExp, hsh, fieldsOf_fieldsCalls]
    | unnamed fs => simp [VB.step, variantExp, hsh, fieldsOf_fieldsCalls]
  · cases hsh : v.shape <;> simp [VB.step]

theorem variantsOf_enumFrom (docs : Bool) (c : Capture) (l : List VariantD) : ∀ k,
    variantsOf { docs := docs } Impls.isPhantom ((enumFrom k l).map (fun iv => variantCalls c iv.2 iv.1)) =
      some ((enumFrom k l).map (variantExp cleanTypeString docs c)) := by
  induction l with
  | nil => intro k; rfl
  | cons v l ih =>
    intro k
    simp only [enumFrom, List.map_cons]
    have h := variantOf_variantCalls docs c v k
    generalize hvc : variantCalls c v k = vc at h
    obtain ⟨nm, calls⟩ := vc
    simp only [variantsOf, h, ih (k + 1)]

theorem variantsOf_variantsCalls (docs : Bool) (c : Capture) (vs : List VariantD) :
    variantsOf { docs := docs } Impls.isPhantom (variantsCalls c vs) = some (variantsExpected cleanTypeString docs c vs) := by
  rw [variantsExpected_eq]
  exact variantsOf_enumFrom docs c _ 0

/-! ### the type -/

theorem run_composite {R} (cfg : Cfg) (isPh : R → Bool) (calls : List (TCall R)) (fbs : List (List (FCall R))) (t : Ty R)
    (h : Build.run cfg isPh calls (.composite fbs) = some t) :
    ∃ fs, fieldsOf cfg isPh fbs = some fs ∧ t.def_ = .composite fs := by
  simp only [Build.run] at h
  cases hp : (List.foldl (TB.step cfg) {} calls).path with
  | none => simp [hp] at h
  | some p =>
    cases hb : fieldsOf cfg isPh fbs with
    | none => simp [hp, hb] at h
    | some fs =>
      simp [hp, hb] at h
      subst h
      exact ⟨fs, rfl, rfl⟩

theorem run_variant {R} (cfg : Cfg) (isPh : R → Bool) (calls : List (TCall R)) (vs : List (Str × List (VCall R))) (t : Ty R)
    (h : Build.run cfg isPh calls (.variant vs) = some t) :
    ∃ vs', variantsOf cfg isPh vs = some vs' ∧ t.def_ = .variant vs' := by
  simp only [Build.run] at h
  cases hp : (List.foldl (TB.step cfg) {} calls).path with
  | none => simp [hp] at h
  | some p =>
    cases hb : variantsOf cfg isPh vs with
    | none => simp [hp, hb] at h
    | some vs' =>
      simp [hp, hb] at h
      subst h
      exact ⟨vs', rfl, rfl⟩

/-- the fields / variants of a derived type are exactly those the declaration lists (`C09` restricted to `def_`) -/
theorem typeInfo_def (docs : Bool) (d : Decl) (t : Ty TyExpr) (h : Derive.typeInfo docs d = some t) :
    t.def_ = (match d.body with
      | .struct s => .composite (membersExpected cleanTypeString docs d.capture (shapeFields s))
      | .enum vs => .variant (variantsExpected cleanTypeString docs d.capture vs)) := by
  unfold Derive.typeInfo at h
  cases hp : PathM.newWithReplace d.ident d.modulePath d.replace with
  | none => simp [hp] at h
  | some p =>
    simp only [hp] at h
    unfold term at h
    cases hb : d.body with
    | struct s =>
      simp only [hb] at h ⊢
      obtain ⟨fs, h1, h2⟩ := run_composite _ _ _ _ _ h
      rw [fieldsOf_fieldsCalls] at h1
      cases h1
      exact h2
    | «enum» vs =>
      simp only [hb] at h ⊢
      obtain ⟨vs', h1, h2⟩ := run_variant _ _ _ _ _ h
      rw [variantsOf_variantsCalls] at h1
      cases h1
      exact h2

end Derive
end SIM
