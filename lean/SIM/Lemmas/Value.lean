/-
  SIM.Lemmas.Value — the schema-directed decoder `decodeVal` inverts the SCALE encoder `encode`
  on well-typed values: leaf round trips (two's complement, big compact integers, bit sequences),
  fuel monotonicity, and the main induction on the typing derivation.
-/
import SIM.Model.Value
import SIM.Spec.Typing
import SIM.Lemmas.Codec
import SIM.Lemmas.Types
namespace SIM
namespace Value
open Codec Spec

/-! ## powers -/

theorem pow256 (k : Nat) : 256 ^ k = 2 ^ (8 * k) := by
  rw [Nat.pow_mul]

/-! ## two's complement -/

theorem two_pow_pred (bits : Nat) (h : 0 < bits) : 2 ^ bits = 2 * 2 ^ (bits - 1) := by
  cases bits with
  | zero => omega
  | succ b => simp [Nat.pow_succ, Nat.mul_comm]

theorem twos_lt (bits : Nat) (z : Int) : twos bits z < 2 ^ bits := by
  unfold twos
  have hpos : (0 : Int) < (2 ^ bits : Int) := Int.pow_pos (by decide)
  have h1 := Int.emod_nonneg z (Int.ne_of_gt hpos)
  have h2 := Int.emod_lt_of_pos z hpos
  have h3 : ((2 ^ bits : Nat) : Int) = (2 ^ bits : Int) := by simp
  omega

theorem ofTwos_twos (bits : Nat) (z : Int) (hb : 0 < bits)
    (hlo : -(2 ^ (bits - 1) : Int) ≤ z) (hhi : z < (2 ^ (bits - 1) : Int)) :
    ofTwos bits (twos bits z) = z := by
  unfold ofTwos twos
  have e : (2 ^ bits : Int) = 2 * (2 ^ (bits - 1) : Int) := by
    have := two_pow_pred bits hb
    have h3 : ((2 ^ bits : Nat) : Int) = (2 ^ bits : Int) := by simp
    have h4 : ((2 ^ (bits - 1) : Nat) : Int) = (2 ^ (bits - 1) : Int) := by simp
    omega
  have h4 : ((2 ^ (bits - 1) : Nat) : Int) = (2 ^ (bits - 1) : Int) := by simp
  have hpos : (0 : Int) < (2 ^ (bits - 1) : Int) := Int.pow_pos (by decide)
  rw [e]
  generalize (2 ^ (bits - 1) : Int) = H at *
  generalize (2 ^ (bits - 1) : Nat) = Hn at *
  by_cases hz : 0 ≤ z
  · have : z % (2 * H) = z := Int.emod_eq_of_lt hz (by omega)
    rw [this]
    have : z.toNat < Hn := by omega
    simp only [this, if_true]
    omega
  · have : z % (2 * H) = z + 2 * H := by
      rw [← Int.add_mul_emod_self_left z (2 * H) 1]
      simp only [Int.mul_one]
      exact Int.emod_eq_of_lt (by omega) (by omega)
    rw [this]
    have : ¬ (z + 2 * H).toNat < Hn := by omega
    simp only [this, if_false]
    omega

/-! ## big compact integers -/

theorem leLen_spec (f : Nat) : ∀ n, n < 256 ^ f → 0 < n →
    256 ^ (leLen f n - 1) ≤ n ∧ n < 256 ^ (leLen f n) ∧ 0 < leLen f n ∧ leLen f n ≤ f := by
  induction f with
  | zero => intro n h h0; simp at h; omega
  | succ f ih =>
    intro n h h0
    have hne : n ≠ 0 := by omega
    simp only [leLen, hne, if_false]
    by_cases hq : n / 256 = 0
    · have hl : leLen f (n / 256) = 0 := by
        rw [hq]; cases f <;> simp [leLen]
      rw [hl]
      simp
      omega
    · have hlt : n / 256 < 256 ^ f := by rw [Nat.pow_succ] at h; omega
      obtain ⟨h1, h2, h3, h4⟩ := ih (n / 256) hlt (by omega)
      generalize leLen f (n / 256) = L at *
      have e1 : 1 + L - 1 = (L - 1) + 1 := by omega
      have e2 : 1 + L = L + 1 := by omega
      rw [e1, e2, Nat.pow_succ, Nat.pow_succ]
      refine ⟨by omega, by omega, by omega, by omega⟩

theorem encCompact_head_mod (n : Nat) (h : n < 1073741824) :
    ∃ b t, encCompact n = b :: t ∧ b.toNat % 4 ≠ 3 := by
  unfold encCompact
  split
  · refine ⟨_, _, rfl, ?_⟩; rw [toNat_ofNat_mod]; omega
  split
  · refine ⟨_, _, rfl, ?_⟩; rw [toNat_ofNat_mod]; omega
  · refine ⟨_, _, rfl, ?_⟩; rw [toNat_ofNat_mod]; omega

theorem decCompactBig_enc (n : Nat) (rest : Bytes) (h : n < 2 ^ 128) :
    decCompactBig (encCompactBig n ++ rest) = some (n, rest) := by
  unfold encCompactBig
  split
  · rename_i hlt
    obtain ⟨b, t, e, hb⟩ := encCompact_head_mod n hlt
    have hd := decCompact_enc n rest (by omega)
    rw [e] at hd ⊢
    simp only [List.cons_append, decCompactBig, hb, if_false] at hd ⊢
    exact hd
  · rename_i hge
    have h256 : n < 256 ^ 64 := by
      have : (2:Nat) ^ 128 ≤ 256 ^ 64 := by decide
      omega
    obtain ⟨h1, h2, h3, h4⟩ := leLen_spec 64 n h256 (by omega)
    have hL16 : leLen 64 n ≤ 16 := by
      apply Decidable.byContradiction
      intro hc
      have : 256 ^ 16 ≤ 256 ^ (leLen 64 n - 1) := Nat.pow_le_pow_right (by decide) (by omega)
      have e : (256:Nat) ^ 16 = 2 ^ 128 := by decide
      omega
    have hL4 : 4 ≤ leLen 64 n := by
      apply Decidable.byContradiction
      intro hc
      have : 256 ^ (leLen 64 n) ≤ 256 ^ 3 := Nat.pow_le_pow_right (by decide) (by omega)
      have e : (256:Nat) ^ 3 = 16777216 := by decide
      omega
    generalize leLen 64 n = L at *
    have hmax : max 4 L = L := by omega
    simp only [hmax, List.cons_append, decCompactBig]
    have hb : (UInt8.ofNat ((L - 4) * 4 + 3)).toNat = (L - 4) * 4 + 3 := by
      rw [UInt8.toNat_ofNat']; omega
    rw [hb]
    have e1 : ((L - 4) * 4 + 3) % 4 = 3 := by omega
    have e2 : ((L - 4) * 4 + 3) / 4 + 4 = L := by omega
    simp only [e1, e2, if_true, decLe_le L n rest h2]
    have n1 : ¬ n < 1073741824 := hge
    have n2 : ¬ (L > 4 ∧ n < 256 ^ (L - 1)) := by omega
    simp only [n1, n2, if_false]

/-! ## bit sequences: `chunkVal` / `bitsOfChunk` -/

/-- position of bit `i` of a chunk inside the store element -/
def posOf (w : Nat) (msb : Bool) (i : Nat) : Nat := if msb then w - 1 - i else i

/-- `chunkVal` with a generalised offset -/
def sumFrom (w : Nat) (msb : Bool) : Nat → List Bool → Nat
  | _, [] => 0
  | off, b :: c => (if b then 2 ^ posOf w msb off else 0) + sumFrom w msb (off + 1) c

/-- `bitsOfChunk` with a generalised offset -/
def bitsFrom (w : Nat) (msb : Bool) (v : Nat) (off k : Nat) : List Bool :=
  (List.range k).map (fun i => v.testBit (posOf w msb (off + i)))

theorem chunkVal_eq_sumFrom_aux (w : Nat) (msb : Bool) (c : List Bool) : ∀ off,
    ((c.zipIdx off).map (fun (p : Bool × Nat) => if p.1 then 2 ^ (if msb then w - 1 - p.2 else p.2) else 0)).sum
      = sumFrom w msb off c := by
  induction c with
  | nil => intro off; simp [sumFrom]
  | cons b c ih =>
    intro off
    simp only [List.zipIdx_cons, List.map_cons, List.sum_cons, sumFrom, ih (off + 1), posOf]

theorem chunkVal_eq_sumFrom (w : Nat) (msb : Bool) (c : List Bool) : chunkVal w msb c = sumFrom w msb 0 c :=
  chunkVal_eq_sumFrom_aux w msb c 0

theorem bitsOfChunk_eq_bitsFrom (w : Nat) (msb : Bool) (v k : Nat) : bitsOfChunk w msb v k = bitsFrom w msb v 0 k := by
  unfold bitsOfChunk bitsFrom
  apply List.map_congr_left
  intro i _
  simp only [Nat.zero_add, posOf, Nat.testBit_eq_decide_div_mod_eq]

theorem bitsFrom_succ (w : Nat) (msb : Bool) (v off k : Nat) :
    bitsFrom w msb v off (k + 1) = v.testBit (posOf w msb off) :: bitsFrom w msb v (off + 1) k := by
  unfold bitsFrom
  rw [List.range_succ_eq_map]
  simp only [List.map_cons, List.map_map, Nat.add_zero]
  congr 1
  apply List.map_congr_left
  intro i _
  simp only [Function.comp, Nat.succ_eq_add_one]
  congr 2
  omega

/-! ### Lsb0 -/

theorem sumFrom_lsb_dvd (w : Nat) (c : List Bool) : ∀ off, ∃ a, sumFrom w false off c = 2 ^ off * a := by
  induction c with
  | nil => intro off; exact ⟨0, by simp [sumFrom]⟩
  | cons b c ih =>
    intro off
    obtain ⟨a, ha⟩ := ih (off + 1)
    simp only [sumFrom, ha, posOf, Bool.false_eq_true, if_false]
    cases b
    · exact ⟨2 * a, by simp [Nat.pow_succ, Nat.mul_assoc]⟩
    · exact ⟨1 + 2 * a, by simp [Nat.pow_succ, Nat.mul_add, Nat.mul_assoc]⟩

theorem sumFrom_lsb_lt (w : Nat) (c : List Bool) : ∀ off, sumFrom w false off c < 2 ^ (off + c.length) := by
  induction c with
  | nil => intro off; simp [sumFrom]; exact Nat.pow_pos (by decide)
  | cons b c ih =>
    intro off
    have h1 := ih (off + 1)
    obtain ⟨a, ha⟩ := sumFrom_lsb_dvd w c (off + 1)
    have e : off + (b :: c).length = off + 1 + c.length := by simp; omega
    simp only [sumFrom, posOf, Bool.false_eq_true, if_false, e]
    -- the sum of the tail is a multiple of `2^(off+1)` below `2^(off+1+len)`, the head is below `2^(off+1)`
    have hb : (if b = true then 2 ^ off else 0) < 2 ^ (off + 1) := by
      have : 2 ^ off < 2 ^ (off + 1) := Nat.pow_lt_pow_right (by decide) (by omega)
      split <;> omega
    rw [ha] at h1 ⊢
    rw [Nat.pow_add 2 (off + 1) c.length] at h1 ⊢
    have ha' : a < 2 ^ c.length := Nat.lt_of_mul_lt_mul_left h1
    have hp : 0 < 2 ^ (off + 1) := Nat.pow_pos (by decide)
    generalize 2 ^ (off + 1) = P at *
    generalize 2 ^ c.length = Q at *
    calc (if b = true then 2 ^ off else 0) + P * a < P + P * a := by omega
      _ = P * (a + 1) := by rw [Nat.mul_add]; omega
      _ ≤ P * Q := Nat.mul_le_mul_left P (by omega)

theorem bitsFrom_sumFrom_lsb (w : Nat) (c : List Bool) : ∀ off,
    bitsFrom w false (sumFrom w false off c) off c.length = c := by
  induction c with
  | nil => intro off; simp [bitsFrom]
  | cons b c ih =>
    intro off
    obtain ⟨a, ha⟩ := sumFrom_lsb_dvd w c (off + 1)
    have ih' := ih (off + 1)
    rw [List.length_cons, bitsFrom_succ]
    simp only [sumFrom, posOf, Bool.false_eq_true, if_false]
    have hb : (if b = true then 2 ^ off else 0) < 2 ^ (off + 1) := by
      have : 2 ^ off < 2 ^ (off + 1) := Nat.pow_lt_pow_right (by decide) (by omega)
      split <;> omega
    rw [ha] at ih' ⊢
    rw [Nat.add_comm (if b = true then 2 ^ off else 0)]
    congr 1
    · rw [Nat.testBit_two_pow_mul_add a hb]
      simp only [Nat.lt_succ_self, if_true]
      cases b <;> simp
    · refine Eq.trans ?_ ih'
      unfold bitsFrom
      apply List.map_congr_left
      intro i _
      simp only [posOf, Bool.false_eq_true, if_false]
      rw [Nat.testBit_two_pow_mul_add a hb, Nat.testBit_two_pow_mul]
      have : ¬ off + 1 + i < off + 1 := by omega
      simp [this]

/-! ### Msb0 -/

theorem sumFrom_msb_lt (w : Nat) (c : List Bool) : ∀ off, off + c.length ≤ w →
    sumFrom w true off c < 2 ^ (w - off) := by
  induction c with
  | nil => intro off _; simp [sumFrom]; exact Nat.pow_pos (by decide)
  | cons b c ih =>
    intro off h
    simp only [List.length_cons] at h
    have h1 := ih (off + 1) (by omega)
    simp only [sumFrom, posOf, if_true]
    have e : w - off = (w - 1 - off) + 1 := by omega
    have e' : w - (off + 1) = w - 1 - off := by omega
    rw [e, Nat.pow_succ]
    rw [e'] at h1
    split <;> omega

theorem bitsFrom_sumFrom_msb (w : Nat) (c : List Bool) : ∀ off, off + c.length ≤ w →
    bitsFrom w true (sumFrom w true off c) off c.length = c := by
  induction c with
  | nil => intro off _; simp [bitsFrom]
  | cons b c ih =>
    intro off h
    simp only [List.length_cons] at h
    have ih' := ih (off + 1) (by omega)
    have hlt := sumFrom_msb_lt w c (off + 1) (by omega)
    have e' : w - (off + 1) = w - 1 - off := by omega
    rw [e'] at hlt
    rw [List.length_cons, bitsFrom_succ]
    simp only [sumFrom, posOf, if_true]
    have hv : (if b = true then 2 ^ (w - 1 - off) else 0) + sumFrom w true (off + 1) c
        = 2 ^ (w - 1 - off) * (if b = true then 1 else 0) + sumFrom w true (off + 1) c := by
      cases b <;> simp
    rw [hv]
    congr 1
    · rw [Nat.testBit_two_pow_mul_add _ hlt]
      simp only [Nat.lt_irrefl, if_false, Nat.sub_self]
      cases b <;> simp
    · refine Eq.trans ?_ ih'
      unfold bitsFrom
      apply List.map_congr_left
      intro i hi
      simp only [List.mem_range] at hi
      simp only [posOf, if_true]
      rw [Nat.testBit_two_pow_mul_add _ hlt]
      have : w - 1 - (off + 1 + i) < w - 1 - off := by omega
      simp only [this, if_true]

/-! ### the inverse pair -/

theorem chunkVal_lt (w : Nat) (msb : Bool) (c : List Bool) (h : c.length ≤ w) : chunkVal w msb c < 2 ^ w := by
  rw [chunkVal_eq_sumFrom]
  cases msb
  · have := sumFrom_lsb_lt w c 0
    have h2 : 2 ^ (0 + c.length) ≤ 2 ^ w := Nat.pow_le_pow_right (by decide) (by omega)
    omega
  · have := sumFrom_msb_lt w c 0 (by omega)
    simpa using this

theorem bitsOfChunk_chunkVal (w : Nat) (msb : Bool) (c : List Bool) (h : c.length ≤ w) :
    bitsOfChunk w msb (chunkVal w msb c) c.length = c := by
  rw [bitsOfChunk_eq_bitsFrom, chunkVal_eq_sumFrom]
  cases msb
  · exact bitsFrom_sumFrom_lsb w c 0
  · exact bitsFrom_sumFrom_msb w c 0 (by omega)

/-! ### `decBitChunks` inverts the chunk encoder -/

theorem decBitChunks_chunks (w : Nat) (msb : Bool) (hw : 0 < w) (h8 : 256 ^ (w / 8) = 2 ^ w) (rest : Bytes) :
    ∀ (fuel : Nat) (bs : List Bool), bs.length < fuel →
      decBitChunks w msb fuel bs.length
        ((chunks w fuel bs).flatMap (fun c => le (w / 8) (chunkVal w msb c)) ++ rest) = some (bs, rest) := by
  intro fuel
  induction fuel with
  | zero => intro bs h; omega
  | succ fuel ih =>
    intro bs h
    cases bs with
    | nil => simp [decBitChunks, chunks]
    | cons b bs' =>
      have hne : ((b :: bs').length = 0) = False := by simp
      have hem : (b :: bs').isEmpty = false := rfl
      simp only [decBitChunks, chunks, hne, hem, if_false, Bool.false_eq_true, List.flatMap_cons, List.append_assoc]
      generalize hbs : b :: bs' = l at *
      have hl : 0 < l.length := by rw [← hbs]; simp
      have htl : (l.take w).length = min w l.length := List.length_take
      have hcv : chunkVal w msb (l.take w) < 256 ^ (w / 8) := by
        rw [h8]; exact chunkVal_lt w msb _ (by rw [htl]; omega)
      rw [decLe_le _ _ _ hcv]
      have hdl : (l.drop w).length = l.length - min w l.length := by
        rw [List.length_drop]; omega
      have := ih (l.drop w) (by rw [hdl]; omega)
      rw [hdl] at this
      simp only [this]
      have hb := bitsOfChunk_chunkVal w msb (l.take w) (by rw [htl]; omega)
      rw [htl] at hb
      rw [hb, List.take_append_drop]

theorem decBits_enc (w : Nat) (msb : Bool) (hw : w = 8 ∨ w = 16 ∨ w = 32 ∨ w = 64) (bs : List Bool) (rest : Bytes) :
    decBitChunks w msb (bs.length + 1) bs.length
      ((chunks w (bs.length + 1) bs).flatMap (fun c => le (w / 8) (chunkVal w msb c)) ++ rest) = some (bs, rest) := by
  apply decBitChunks_chunks w msb (by omega) ?_ rest _ bs (by omega)
  rcases hw with rfl | rfl | rfl | rfl <;> decide

/-! ## primitive leaves -/

theorem primBits_cases (p : Prim) (sg : Bool) (bits : Nat) (h : primBits p = some (sg, bits)) :
    0 < bits ∧ 256 ^ (bits / 8) = 2 ^ bits ∧
    ∀ bs, decPrimVal p bs =
      match decLe (bits / 8) bs with
      | none => none
      | some (n, rest) => some (if sg then .sint bits (ofTwos bits n) else .uint bits n, rest) := by
  cases p <;> simp only [primBits, Option.some.injEq, Prod.mk.injEq, reduceCtorEq] at h <;>
    obtain ⟨rfl, rfl⟩ := h <;> refine ⟨by decide, by decide, fun bs => ?_⟩ <;> simp only [decPrimVal, primBits] <;> rfl

theorem decPrimVal_uint (p : Prim) (bits n : Nat) (rest : Bytes) (h : primBits p = some (false, bits))
    (hn : n < 2 ^ bits) : decPrimVal p (le (bits / 8) n ++ rest) = some (.uint bits n, rest) := by
  obtain ⟨_, h8, hd⟩ := primBits_cases p false bits h
  rw [hd, decLe_le _ _ _ (by rw [h8]; exact hn)]
  simp

theorem decPrimVal_sint (p : Prim) (bits : Nat) (z : Int) (rest : Bytes) (h : primBits p = some (true, bits))
    (hlo : -(2 ^ (bits - 1) : Int) ≤ z) (hhi : z < (2 ^ (bits - 1) : Int)) :
    decPrimVal p (le (bits / 8) (twos bits z) ++ rest) = some (.sint bits z, rest) := by
  obtain ⟨hb, h8, hd⟩ := primBits_cases p true bits h
  rw [hd, decLe_le _ _ _ (by rw [h8]; exact twos_lt bits z)]
  simp [ofTwos_twos bits z hb hlo hhi]

theorem storeWidth_cases (reg : PortableRegistry) (s w : Nat) (h : storeWidth reg s = some w) :
    w = 8 ∨ w = 16 ∨ w = 32 ∨ w = 64 := by
  unfold storeWidth at h
  split at h
  · split at h <;> simp at h <;> omega
  · simp at h

/-! ## fuel monotonicity -/

/-- `d'` answers wherever `d` does, with the same answer -/
def DLe {α} (d d' : Dec α) : Prop := ∀ bs r, d bs = some r → d' bs = some r

theorem DLe.map {α β} (f : α → β) {d d' : Dec α} (h : DLe d d') : DLe (Dec.map f d) (Dec.map f d') := by
  intro bs r hr
  obtain ⟨y, r'⟩ := r
  rw [Dec.map_eq_some] at hr ⊢
  obtain ⟨a, ha, hf⟩ := hr
  exact ⟨a, h _ _ ha, hf⟩

theorem DLe.rep {α} {d d' : Dec α} (h : DLe d d') : ∀ n, DLe (Dec.rep d n) (Dec.rep d' n) := by
  intro n
  induction n with
  | zero => intro bs r hr; exact hr
  | succ n ih =>
    intro bs r hr
    simp only [Dec.rep] at hr ⊢
    split at hr
    · simp at hr
    · rename_i a r1 h1
      split at hr
      · simp at hr
      · rename_i as r2 h2
        simp only [h _ _ h1, ih _ _ h2]
        exact hr

theorem DLe.fields {f f' : Nat → Dec Val} (h : ∀ id, DLe (f id) (f' id)) :
    ∀ fs, DLe (decFields f fs) (decFields f' fs) := by
  intro fs
  induction fs with
  | nil => intro bs r hr; exact hr
  | cons fld fs ih =>
    intro bs r hr
    simp only [decFields] at hr ⊢
    split at hr
    · simp at hr
    · rename_i a r1 h1
      split at hr
      · simp at hr
      · rename_i as r2 h2
        simp only [h _ _ _ h1, ih _ _ h2]
        exact hr

theorem DLe.each {f f' : Nat → Dec Val} (h : ∀ id, DLe (f id) (f' id)) :
    ∀ ts, DLe (decEach f ts) (decEach f' ts) := by
  intro ts
  induction ts with
  | nil => intro bs r hr; exact hr
  | cons t ts ih =>
    intro bs r hr
    simp only [decEach] at hr ⊢
    split at hr
    · simp at hr
    · rename_i a r1 h1
      split at hr
      · simp at hr
      · rename_i as r2 h2
        simp only [h _ _ _ h1, ih _ _ h2]
        exact hr

theorem decodeVal_succ (reg : PortableRegistry) : ∀ f id, DLe (decodeVal reg f id) (decodeVal reg (f + 1) id) := by
  intro f
  induction f with
  | zero => intro id bs r hr; simp [decodeVal] at hr
  | succ f ih =>
    intro id bs r hr
    rw [decodeVal] at hr ⊢
    cases hres : resolve reg id with
    | none => simp [hres] at hr
    | some t =>
      simp only [hres] at hr ⊢
      cases hd : t.def_ with
      | primitive p => simpa only [hd] using hr
      | composite fs =>
        simp only [hd] at hr ⊢
        exact (DLe.fields ih fs).map _ _ _ hr
      | variant vs =>
        simp only [hd] at hr ⊢
        cases bs with
        | nil => simp at hr
        | cons b rest =>
          simp only at hr ⊢
          cases hfind : List.find? (fun v => v.index == b.toNat) vs with
          | none => simp [hfind] at hr
          | some v =>
            simp only [hfind] at hr ⊢
            exact (DLe.fields ih v.fields).map _ _ _ hr
      | sequence e =>
        simp only [hd] at hr ⊢
        cases hc : decCompact bs with
        | none => simp [hc] at hr
        | some x =>
          obtain ⟨n, rest⟩ := x
          simp only [hc] at hr ⊢
          exact (DLe.rep (ih e) n).map _ _ _ hr
      | array n e =>
        simp only [hd] at hr ⊢
        exact (DLe.rep (ih e) n).map _ _ _ hr
      | tuple ts =>
        simp only [hd] at hr ⊢
        exact (DLe.each ih ts).map _ _ _ hr
      | compact e => simpa only [hd] using hr
      | bitSequence s o => simpa only [hd] using hr

theorem decodeVal_add (reg : PortableRegistry) (f k id : Nat) : DLe (decodeVal reg f id) (decodeVal reg (f + k) id) := by
  induction k with
  | zero => intro bs r hr; exact hr
  | succ k ih => intro bs r hr; exact decodeVal_succ reg (f + k) id _ _ (ih _ _ hr)

theorem decodeVal_le (reg : PortableRegistry) {f f' : Nat} (h : f ≤ f') (id : Nat) :
    DLe (decodeVal reg f id) (decodeVal reg f' id) := by
  have := decodeVal_add reg f (f' - f) id
  rwa [Nat.add_sub_cancel' h] at this

/-! ## the main induction -/

/-- `v` decodes back from its encoding at type `id` -/
def Decodes (reg : PortableRegistry) (id : Nat) (v : Val) : Prop :=
  ∀ rest, ∃ fuel, decodeVal reg fuel id (encode v ++ rest) = some (v, rest)

def DecodesFields (reg : PortableRegistry) (fs : List (Field Nat)) (vs : List (Option Str × Val)) : Prop :=
  ∀ rest, ∃ fuel, decFields (decodeVal reg fuel) fs (encodeFields vs ++ rest) = some (vs, rest)

def DecodesEach (reg : PortableRegistry) (ts : List Nat) (vs : List Val) : Prop :=
  ∀ rest, ∃ fuel, decEach (decodeVal reg fuel) ts (encodeList vs ++ rest) = some (vs, rest)

theorem decodes_rep (reg : PortableRegistry) (e : Nat) : ∀ (vs : List Val), (∀ v, v ∈ vs → Decodes reg e v) →
    ∀ rest, ∃ fuel, Dec.rep (decodeVal reg fuel e) vs.length (encodeList vs ++ rest) = some (vs, rest) := by
  intro vs
  induction vs with
  | nil => intro _ rest; exact ⟨0, by simp [Dec.rep, encodeList]⟩
  | cons v vs ih =>
    intro h rest
    obtain ⟨f1, h1⟩ := h v (by simp) (encodeList vs ++ rest)
    obtain ⟨f2, h2⟩ := ih (fun x hx => h x (by simp [hx])) rest
    refine ⟨max f1 f2, ?_⟩
    have h1' := decodeVal_le reg (Nat.le_max_left f1 f2) e _ _ h1
    have h2' := DLe.rep (decodeVal_le reg (Nat.le_max_right f1 f2) e) _ _ _ h2
    simp only [List.length_cons, encodeList, List.append_assoc, Dec.rep, h1', h2']

theorem decodes_fields_cons (reg : PortableRegistry) (f : Field Nat) (fs : List (Field Nat)) (v : Val)
    (vs : List (Option Str × Val)) (hv : Decodes reg f.ty v) (hvs : DecodesFields reg fs vs) :
    DecodesFields reg (f :: fs) ((f.name, v) :: vs) := by
  intro rest
  obtain ⟨f1, h1⟩ := hv (encodeFields vs ++ rest)
  obtain ⟨f2, h2⟩ := hvs rest
  refine ⟨max f1 f2, ?_⟩
  have h1' := decodeVal_le reg (Nat.le_max_left f1 f2) f.ty _ _ h1
  have h2' := DLe.fields (fun id => decodeVal_le reg (Nat.le_max_right f1 f2) id) _ _ _ h2
  simp only [encodeFields, List.append_assoc, decFields, h1', h2']

theorem decodes_each_cons (reg : PortableRegistry) (t : Nat) (ts : List Nat) (v : Val)
    (vs : List Val) (hv : Decodes reg t v) (hvs : DecodesEach reg ts vs) :
    DecodesEach reg (t :: ts) (v :: vs) := by
  intro rest
  obtain ⟨f1, h1⟩ := hv (encodeList vs ++ rest)
  obtain ⟨f2, h2⟩ := hvs rest
  refine ⟨max f1 f2, ?_⟩
  have h1' := decodeVal_le reg (Nat.le_max_left f1 f2) t _ _ h1
  have h2' := DLe.each (fun id => decodeVal_le reg (Nat.le_max_right f1 f2) id) _ _ _ h2
  simp only [encodeList, List.append_assoc, decEach, h1', h2']

theorem toNat_ofNat_lt (n : Nat) (h : n < 256) : (UInt8.ofNat n).toNat = n := by
  rw [UInt8.toNat_ofNat']; omega

theorem hasTy_decodes (reg : PortableRegistry) (id : Nat) (v : Val) (h : HasTy reg id v) : Decodes reg id v := by
  refine HasTy.rec (reg := reg)
    (motive_1 := fun id v _ => Decodes reg id v)
    (motive_2 := fun fs vs _ => DecodesFields reg fs vs)
    (motive_3 := fun ts vs _ => DecodesEach reg ts vs)
    ?uint ?sint ?bool ?str ?composite ?variant ?seq ?array ?tuple ?compact ?bits ?fnil ?fcons ?enil ?econs h
  case uint =>
    intro id t p bits n hres hd hp hn rest
    refine ⟨1, ?_⟩
    simp only [decodeVal, hres, hd, encode]
    exact decPrimVal_uint p bits n rest hp hn
  case sint =>
    intro id t p bits z hres hd hp hlo hhi rest
    refine ⟨1, ?_⟩
    simp only [decodeVal, hres, hd, encode]
    exact decPrimVal_sint p bits z rest hp hlo hhi
  case bool =>
    intro id t b hres hd rest
    refine ⟨1, ?_⟩
    simp only [decodeVal, hres, hd, encode]
    cases b <;> simp [decPrimVal]
  case str =>
    intro id t s hres hd hs rest
    refine ⟨1, ?_⟩
    simp only [decodeVal, hres, hd, encode, decPrimVal, Dec.map, good_str.rt s rest hs]
  case composite =>
    intro id t fs vs hres hd _ ih rest
    obtain ⟨f, hf⟩ := ih rest
    refine ⟨f + 1, ?_⟩
    simp only [decodeVal, hres, hd, encode, Dec.map, hf]
  case variant =>
    intro id t vars v idx vs hres hd hfind hidx _ ih rest
    obtain ⟨f, hf⟩ := ih rest
    refine ⟨f + 1, ?_⟩
    have hidx' : v.index = idx := by
      have := List.find?_some hfind
      simpa using this
    simp only [decodeVal, hres, hd, encode, List.cons_append, toNat_ofNat_lt idx hidx, hfind, Dec.map, hf, hidx']
  case seq =>
    intro id t e vs hres hd hlen _ ih rest
    obtain ⟨f, hf⟩ := decodes_rep reg e vs ih rest
    refine ⟨f + 1, ?_⟩
    simp only [decodeVal, hres, hd, encode, List.append_assoc, decCompact_enc _ _ hlen, Dec.map, hf]
  case array =>
    intro id t n e vs hres hd hlen _ ih rest
    obtain ⟨f, hf⟩ := decodes_rep reg e vs ih rest
    refine ⟨f + 1, ?_⟩
    subst hlen
    simp only [decodeVal, hres, hd, encode, Dec.map, hf]
  case tuple =>
    intro id t ts vs hres hd _ ih rest
    obtain ⟨f, hf⟩ := ih rest
    refine ⟨f + 1, ?_⟩
    simp only [decodeVal, hres, hd, encode, Dec.map, hf]
  case compact =>
    intro id t e te p bits n hres hd hres' hd' hp hb hn rest
    refine ⟨1, ?_⟩
    have h128 : n < 2 ^ 128 := Nat.lt_of_lt_of_le hn (Nat.pow_le_pow_right (by decide) hb)
    simp only [decodeVal, hres, hd, hres', hd', hp, encode, decCompactBig_enc n rest h128, hn, if_true]
  case bits =>
    intro id t s o w msb bs hres hd hw ho hlen rest
    refine ⟨1, ?_⟩
    have hw' := storeWidth_cases reg s w hw
    simp only [decodeVal, hres, hd, hw, ho, encode, encBits, List.append_assoc, decCompact_enc _ _ hlen,
      Dec.map, decBits_enc w msb hw' bs rest]
  case fnil => intro rest; exact ⟨0, by simp [decFields, encodeFields]⟩
  case fcons =>
    intro f fs v vs _ _ ih1 ih2
    exact decodes_fields_cons reg f fs v vs ih1 ih2
  case enil => intro rest; exact ⟨0, by simp [decEach, encodeList]⟩
  case econs =>
    intro t ts v vs _ _ ih1 ih2
    exact decodes_each_cons reg t ts v vs ih1 ih2

/-! ## values of built-in types are well typed -/

section Builtin
open Impls

variable {docs : Bool} {S : TyExpr → Prop} {reg : PortableRegistry} {idOf : TyExpr → Nat}

/-- `t` is described in the registry at `idOf t`: some member of `S` shares its id and its `type_info`
    (the transparent wrappers `Box<T>`, `&T`, … share both with `T`) -/
def Desc (docs : Bool) (S : TyExpr → Prop) (idOf : TyExpr → Nat) (t : TyExpr) : Prop :=
  ∃ s, S s ∧ idOf s = idOf t ∧ typeInfo docs s = typeInfo docs t

theorem Desc.of {t : TyExpr} (h : S t) : Desc docs S idOf t := ⟨t, h, rfl, rfl⟩

theorem Desc.info (hf : Faithful docs S reg idOf) {t : TyExpr} (hd : Desc docs S idOf t) (ty : Ty TyExpr)
    (hty : typeInfo docs t = some ty) :
    resolve reg (idOf t) = some (ty.map idOf) ∧ ∀ r ∈ ty.refs, Desc docs S idOf r := by
  obtain ⟨s, hs, hid, hti⟩ := hd
  rw [← hti] at hty
  refine ⟨?_, fun r hr => Desc.of (hf.closed s ty hs hty r hr)⟩
  rw [← hid]; exact hf.res s ty hs hty

theorem Desc.unwrap (hf : Faithful docs S reg idOf) {t' t : TyExpr} (hid : identity t' = identity t)
    (hti : typeInfo docs t' = typeInfo docs t) (hd : Desc docs S idOf t') :
    idOf t' = idOf t ∧ Desc docs S idOf t := by
  have e : idOf t' = idOf t := by rw [hf.ident t', hf.ident t, hid]
  obtain ⟨s, hs, hid', hti'⟩ := hd
  exact ⟨e, s, hs, by rw [hid', e], by rw [hti', hti]⟩

theorem primBits_uint (w : W) : primBits (primOfUint w) = some (false, w.bits) := by cases w <;> rfl
theorem primBits_sint (w : W) : primBits (primOfSint w) = some (true, w.bits) := by cases w <;> rfl
theorem W.bits_le (w : W) : w.bits ≤ 128 := by cases w <;> decide

theorem isPhantom_uint (w : W) : isPhantom (.uint w) = false := by simp [isPhantom, identity]
theorem isPhantom_sint (w : W) : isPhantom (.sint w) = false := by simp [isPhantom, identity]
theorem isPhantom_slice (t : TyExpr) : isPhantom (.slice t) = false := by simp [isPhantom, identity]

theorem hasTy_uint (hf : Faithful docs S reg idOf) (w : W) (n : Nat) (hd : Desc docs S idOf (.uint w))
    (hn : n < 2 ^ w.bits) : HasTy reg (idOf (.uint w)) (.uint w.bits n) := by
  obtain ⟨hres, _⟩ := hd.info hf _ rfl
  exact HasTy.uint hres rfl (primBits_uint w) hn

theorem hasTy_sint (hf : Faithful docs S reg idOf) (w : W) (z : Int) (hd : Desc docs S idOf (.sint w))
    (hlo : -(2 ^ (w.bits - 1) : Int) ≤ z) (hhi : z < (2 ^ (w.bits - 1) : Int)) :
    HasTy reg (idOf (.sint w)) (.sint w.bits z) := by
  obtain ⟨hres, _⟩ := hd.info hf _ rfl
  exact HasTy.sint hres rfl (primBits_sint w) hlo hhi

theorem hasTy_slice (hf : Faithful docs S reg idOf) (t : TyExpr) (vs : List Val) (hd : Desc docs S idOf (.slice t))
    (hlen : vs.length < 4294967296) (ih : ∀ v, v ∈ vs → Desc docs S idOf t → HasTy reg (idOf t) v) :
    HasTy reg (idOf (.slice t)) (.seq vs) := by
  obtain ⟨hres, hcl⟩ := hd.info hf _ rfl
  exact HasTy.seq hres rfl hlen (fun v hv => ih v hv (hcl t (by simp [Ty.refs, Build.ofDef, paramRefs, TypeDef.refs])))

/-- a single unnamed member -/
theorem fieldsTy_one (t : TyExpr) (v : Val) (h : HasTy reg (idOf t) v) :
    FieldsTy reg [Field.map idOf (uf t)] [(none, v)] :=
  FieldsTy.cons (f := Field.map idOf (uf t)) h FieldsTy.nil

theorem pushed_one (t : TyExpr) (h : isPhantom t = false) : pushed [uf t] = [uf t] := by
  simp [pushed, uf, h]

theorem builtin_typed_aux (hf : Faithful docs S reg idOf) (t : TyExpr) (v : Val) (hv : ValOf t v) :
    Desc docs S idOf t → HasTy reg (idOf t) v := by
  refine ValOf.rec
    (motive_1 := fun t v _ => Desc docs S idOf t → HasTy reg (idOf t) v)
    (motive_2 := fun ts vs _ => (∀ t, t ∈ ts → isPhantom t = false → Desc docs S idOf t) →
      ElemsTy reg ((ts.filter (fun t => !isPhantom t)).map idOf) vs ∧
      FieldsTy reg ((pushed (ts.map uf)).map (Field.map idOf)) (vs.map (fun v => (none, v))))
    ?bool ?uint ?sint ?string ?str ?array ?tuple0 ?tuple ?slice ?vec ?vecDeque ?none ?some ?ok ?err
    ?box_ ?rc ?arc ?ref_ ?refMut ?cow ?btreeMap ?btreeSet ?binaryHeap ?compact ?range ?rangeIncl
    ?nonZeroU ?nonZeroI ?duration ?phantom ?bitVec ?mnil ?mskip ?mcons hv
  case bool =>
    intro b hd
    obtain ⟨hres, _⟩ := hd.info hf _ rfl
    exact HasTy.bool hres rfl
  case uint => intro w n hn hd; exact hasTy_uint hf w n hd hn
  case sint => intro w z hlo hhi hd; exact hasTy_sint hf w z hd hlo hhi
  case string =>
    intro s hs hd
    obtain ⟨hres, _⟩ := hd.info hf _ rfl
    exact HasTy.str hres rfl hs
  case str =>
    intro s hs hd
    obtain ⟨hres, _⟩ := hd.info hf _ rfl
    exact HasTy.str hres rfl hs
  case array =>
    intro n t vs hlen hn _ ih hd
    obtain ⟨hres, hcl⟩ := hd.info hf _ rfl
    refine HasTy.array hres rfl (by rw [hlen, Nat.mod_eq_of_lt hn]) (fun v hv => ih v hv (hcl t ?_))
    simp [Ty.refs, Build.ofDef, paramRefs, TypeDef.refs]
  case tuple0 =>
    intro hd
    obtain ⟨hres, _⟩ := hd.info hf _ rfl
    exact HasTy.tuple hres rfl ElemsTy.nil
  case tuple =>
    intro h r vs _ ih hd
    obtain ⟨hres, hcl⟩ := hd.info hf _ rfl
    refine HasTy.tuple hres rfl (ih (fun t ht hph => hcl t ?_)).1
    simp only [Ty.refs, Build.ofDef, paramRefs, TypeDef.refs, Build.tupleNew, List.filterMap_nil, List.nil_append,
      List.mem_filter]
    exact ⟨ht, by simp [hph]⟩
  case slice => intro t vs hlen _ ih hd; exact hasTy_slice hf t vs hd hlen ih
  case vec =>
    intro t vs hlen _ ih hd
    obtain ⟨hres, hcl⟩ := hd.info hf _ rfl
    exact HasTy.seq hres rfl hlen (fun v hv => ih v hv (hcl t (by simp [Ty.refs, Build.ofDef, paramRefs, TypeDef.refs])))
  case vecDeque =>
    intro t vs hlen _ ih hd
    obtain ⟨hres, hcl⟩ := hd.info hf _ rfl
    exact HasTy.seq hres rfl hlen (fun v hv => ih v hv (hcl t (by simp [Ty.refs, Build.ofDef, paramRefs, TypeDef.refs])))
  case none =>
    intro t hd
    obtain ⟨hres, _⟩ := hd.info hf _ rfl
    exact HasTy.variant (v := Variant.map idOf { name := sNone, fields := [], index := 0, docs := [] })
      (idx := 0) (vs := []) hres rfl rfl (by decide) FieldsTy.nil
  case some =>
    intro t vs _ ih hd
    obtain ⟨hres, hcl⟩ := hd.info hf _ rfl
    have hm := (ih (fun t' ht' _ => hcl t' (by
      simp only [List.mem_singleton] at ht'; subst ht'
      simp [Ty.refs, mk, tp, paramRefs]))).2
    exact HasTy.variant (v := Variant.map idOf { name := sSome, fields := pushed [uf t], index := 1, docs := [] })
      (idx := 1) hres rfl rfl (by decide) hm
  case ok =>
    intro t e vs _ ih hd
    obtain ⟨hres, hcl⟩ := hd.info hf _ rfl
    have hm := (ih (fun t' ht' _ => hcl t' (by
      simp only [List.mem_singleton] at ht'; subst ht'
      simp [Ty.refs, mk, tp, paramRefs]))).2
    exact HasTy.variant (v := Variant.map idOf { name := sOk, fields := pushed [uf t], index := 0, docs := [] })
      (idx := 0) hres rfl rfl (by decide) hm
  case err =>
    intro t e vs _ ih hd
    obtain ⟨hres, hcl⟩ := hd.info hf _ rfl
    have hm := (ih (fun t' ht' _ => hcl t' (by
      simp only [List.mem_singleton] at ht'; subst ht'
      simp [Ty.refs, mk, tp, paramRefs]))).2
    exact HasTy.variant (v := Variant.map idOf { name := sErr, fields := pushed [uf e], index := 1, docs := [] })
      (idx := 1) hres rfl rfl (by decide) hm
  case box_ =>
    intro t v _ ih hd
    obtain ⟨e, hd'⟩ := Desc.unwrap hf (t' := .box_ t) (t := t) rfl rfl hd
    rw [e]; exact ih hd'
  case rc =>
    intro t v _ ih hd
    obtain ⟨e, hd'⟩ := Desc.unwrap hf (t' := .rc t) (t := t) rfl rfl hd
    rw [e]; exact ih hd'
  case arc =>
    intro t v _ ih hd
    obtain ⟨e, hd'⟩ := Desc.unwrap hf (t' := .arc t) (t := t) rfl rfl hd
    rw [e]; exact ih hd'
  case ref_ =>
    intro t v _ ih hd
    obtain ⟨e, hd'⟩ := Desc.unwrap hf (t' := .ref_ t) (t := t) rfl rfl hd
    rw [e]; exact ih hd'
  case refMut =>
    intro t v _ ih hd
    obtain ⟨e, hd'⟩ := Desc.unwrap hf (t' := .refMut t) (t := t) rfl rfl hd
    rw [e]; exact ih hd'
  case cow =>
    intro t vs _ ih hd
    obtain ⟨hres, hcl⟩ := hd.info hf _ rfl
    have hm := (ih (fun t' ht' _ => hcl t' (by
      simp only [List.mem_singleton] at ht'; subst ht'
      simp [Ty.refs, mk, tp, paramRefs]))).2
    exact HasTy.composite hres rfl hm
  case btreeMap =>
    intro k v ps hlen _ ih hd
    have hty : typeInfo docs (.btreeMap k v) = some (mk [sBTreeMap] [tp sK k, tp sV v]
        (.composite [uf (.slice (.tupleCons k (.tupleCons v .tuple0)))])) := by
      simp only [typeInfo, pushed_one _ (isPhantom_slice _)]
    obtain ⟨hres, hcl⟩ := hd.info hf _ hty
    have hs : Desc docs S idOf (.slice (.tupleCons k (.tupleCons v .tuple0))) :=
      hcl _ (by simp [Ty.refs, mk, TypeDef.refs, fieldRefs, uf])
    exact HasTy.composite hres rfl (fieldsTy_one _ _ (hasTy_slice hf _ ps hs hlen ih))
  case btreeSet =>
    intro t vs hlen _ ih hd
    have hty : typeInfo docs (.btreeSet t) = some (mk [sBTreeSet] [tp sT t] (.composite [uf (.slice t)])) := by
      simp only [typeInfo, pushed_one _ (isPhantom_slice _)]
    obtain ⟨hres, hcl⟩ := hd.info hf _ hty
    have hs : Desc docs S idOf (.slice t) := hcl _ (by simp [Ty.refs, mk, TypeDef.refs, fieldRefs, uf])
    exact HasTy.composite hres rfl (fieldsTy_one _ _ (hasTy_slice hf _ vs hs hlen ih))
  case binaryHeap =>
    intro t vs hlen _ ih hd
    have hty : typeInfo docs (.binaryHeap t) = some (mk [sBinaryHeap] [tp sT t] (.composite [uf (.slice t)])) := by
      simp only [typeInfo, pushed_one _ (isPhantom_slice _)]
    obtain ⟨hres, hcl⟩ := hd.info hf _ hty
    have hs : Desc docs S idOf (.slice t) := hcl _ (by simp [Ty.refs, mk, TypeDef.refs, fieldRefs, uf])
    exact HasTy.composite hres rfl (fieldsTy_one _ _ (hasTy_slice hf _ vs hs hlen ih))
  case compact =>
    intro w n hn hd
    obtain ⟨hres, hcl⟩ := hd.info hf _ rfl
    have hu : Desc docs S idOf (.uint w) := hcl _ (by simp [Ty.refs, Build.ofDef, paramRefs, TypeDef.refs])
    obtain ⟨hres', _⟩ := hu.info hf _ rfl
    exact HasTy.compact hres rfl hres' rfl (primBits_uint w) (W.bits_le w) hn
  case range =>
    intro t a b _ _ hph iha ihb hd
    have hty : typeInfo docs (.range t) = some (mk [sRange] [tp sIdx t] (.composite
        [{ name := some sstart, ty := t, typeName := some sIdx, docs := [] },
         { name := some send, ty := t, typeName := some sIdx, docs := [] }])) := by
      simp [typeInfo, pushed, hph]
    obtain ⟨hres, hcl⟩ := hd.info hf _ hty
    have ht : Desc docs S idOf t := hcl _ (by simp [Ty.refs, mk, tp, paramRefs])
    exact HasTy.composite hres rfl
      (FieldsTy.cons (f := Field.map idOf { name := some sstart, ty := t, typeName := some sIdx, docs := [] }) (iha ht)
        (FieldsTy.cons (f := Field.map idOf { name := some send, ty := t, typeName := some sIdx, docs := [] }) (ihb ht)
          FieldsTy.nil))
  case rangeIncl =>
    intro t a b _ _ hph iha ihb hd
    have hty : typeInfo docs (.rangeIncl t) = some (mk [sRangeInclusive] [tp sIdx t] (.composite
        [{ name := some sstart, ty := t, typeName := some sIdx, docs := [] },
         { name := some send, ty := t, typeName := some sIdx, docs := [] }])) := by
      simp [typeInfo, pushed, hph]
    obtain ⟨hres, hcl⟩ := hd.info hf _ hty
    have ht : Desc docs S idOf t := hcl _ (by simp [Ty.refs, mk, tp, paramRefs])
    exact HasTy.composite hres rfl
      (FieldsTy.cons (f := Field.map idOf { name := some sstart, ty := t, typeName := some sIdx, docs := [] }) (iha ht)
        (FieldsTy.cons (f := Field.map idOf { name := some send, ty := t, typeName := some sIdx, docs := [] }) (ihb ht)
          FieldsTy.nil))
  case nonZeroU =>
    intro w n hn hd
    have hty : typeInfo docs (.nonZeroU w) = some (mk [nonZeroUName w] [] (.composite [uf (.uint w)])) := by
      simp only [typeInfo, pushed_one _ (isPhantom_uint w)]
    obtain ⟨hres, hcl⟩ := hd.info hf _ hty
    have hu : Desc docs S idOf (.uint w) := hcl _ (by simp [Ty.refs, mk, paramRefs, TypeDef.refs, fieldRefs, uf])
    exact HasTy.composite hres rfl (fieldsTy_one _ _ (hasTy_uint hf w n hu hn))
  case nonZeroI =>
    intro w z hlo hhi hd
    have hty : typeInfo docs (.nonZeroI w) = some (mk [nonZeroIName w] [] (.composite [uf (.sint w)])) := by
      simp only [typeInfo, pushed_one _ (isPhantom_sint w)]
    obtain ⟨hres, hcl⟩ := hd.info hf _ hty
    have hu : Desc docs S idOf (.sint w) := hcl _ (by simp [Ty.refs, mk, paramRefs, TypeDef.refs, fieldRefs, uf])
    exact HasTy.composite hres rfl (fieldsTy_one _ _ (hasTy_sint hf w z hu hlo hhi))
  case duration =>
    intro s n hs hn hd
    have hty : typeInfo docs .duration = some (mk [sDuration] [] (.composite
        [{ name := none, ty := .uint .w64, typeName := some su64, docs := [] },
         { name := none, ty := .uint .w32, typeName := some su32, docs := [] }])) := by
      simp [typeInfo, pushed, isPhantom_uint]
    obtain ⟨hres, hcl⟩ := hd.info hf _ hty
    have h64 : Desc docs S idOf (.uint .w64) := hcl _ (by simp [Ty.refs, mk, paramRefs, TypeDef.refs, fieldRefs])
    have h32 : Desc docs S idOf (.uint .w32) := hcl _ (by simp [Ty.refs, mk, paramRefs, TypeDef.refs, fieldRefs])
    exact HasTy.composite hres rfl
      (FieldsTy.cons (f := Field.map idOf { name := none, ty := .uint .w64, typeName := some su64, docs := [] })
        (hasTy_uint hf .w64 s h64 hs)
        (FieldsTy.cons (f := Field.map idOf { name := none, ty := .uint .w32, typeName := some su32, docs := [] })
          (hasTy_uint hf .w32 n h32 hn) FieldsTy.nil))
  case phantom =>
    intro t hd
    obtain ⟨hres, _⟩ := hd.info hf _ rfl
    exact HasTy.composite hres rfl FieldsTy.nil
  case bitVec =>
    intro w msb bs hw hlen hd
    obtain ⟨hres, hcl⟩ := hd.info hf _ rfl
    have hu : Desc docs S idOf (.uint w) := hcl _ (by simp [Ty.refs, Build.ofDef, paramRefs, TypeDef.refs])
    have ho : Desc docs S idOf (if msb then .msb0 else .lsb0) :=
      hcl _ (by simp [Ty.refs, Build.ofDef, paramRefs, TypeDef.refs])
    obtain ⟨hresu, _⟩ := hu.info hf _ rfl
    have hsw : storeWidth reg (idOf (.uint w)) = some w.bits := by
      simp only [storeWidth, hresu]
      cases w <;> first | rfl | exact absurd rfl hw
    have hom : orderMsb reg (idOf (if msb then TyExpr.msb0 else TyExpr.lsb0)) = some msb := by
      cases msb
      · obtain ⟨hreso, _⟩ := Desc.info hf (t := .lsb0) ho _ rfl
        simp only [Bool.false_eq_true, if_false, orderMsb, hreso]
        rfl
      · obtain ⟨hreso, _⟩ := Desc.info hf (t := .msb0) ho _ rfl
        simp only [if_true, orderMsb, hreso]
        rfl
    exact HasTy.bits hres rfl hsw hom hlen
  case mnil => intro _; exact ⟨ElemsTy.nil, FieldsTy.nil⟩
  case mskip =>
    intro t ts vs hph _ ih h
    have ih' := ih (fun t' ht' => h t' (List.mem_cons_of_mem _ ht'))
    have e1 : (t :: ts).filter (fun t => !isPhantom t) = ts.filter (fun t => !isPhantom t) := by simp [hph]
    have e2 : pushed ((t :: ts).map uf) = pushed (ts.map uf) := by simp [pushed, uf, hph]
    rw [e1, e2]; exact ih'
  case mcons =>
    intro t ts v vs hph _ _ ihv ih h
    have ih' := ih (fun t' ht' => h t' (List.mem_cons_of_mem _ ht'))
    have hv' := ihv (h t (by simp) hph)
    have e1 : (t :: ts).filter (fun t => !isPhantom t) = t :: ts.filter (fun t => !isPhantom t) := by simp [hph]
    have e2 : pushed ((t :: ts).map uf) = uf t :: pushed (ts.map uf) := by simp [pushed, uf, hph]
    rw [e1, e2]
    exact ⟨ElemsTy.cons hv' ih'.1, FieldsTy.cons (f := Field.map idOf (uf t)) hv' ih'.2⟩

end Builtin

end Value
end SIM
