/-
  SIM.Lemmas.RegistryCanon — a registry produced by `Registry.registerType` is already in the numbering
  `Retain.retain` gives it (both are depth-first renumberings entering a node before visiting its references).

  Route: a simulation, as in `SIM.Lemmas.RetainCanon`, but the "first run" is the run of the `Registry`.
  Fix the finished registry state `fin` (`V = fin.table.vec` the interned identities in id order,
  `r = toPortable fin`).  A state `s` of the registration run (its interner a prefix of `V`) is related to a
  state `st2` of `retain r (fun _ => true)` when `st2.map = idmap s.table.vec.length`.  A call
  `registerType env _ s tid = some (s', _)` is matched by the call `retainType _ st2 (V.idxOf tid)`
  (`retainType_sim`); a history is flattened to one `travList` over its roots (`run_flat`), and the loop of
  `retain` over `0, 1, 2, …` is matched against it by skipping the roots that are already interned
  (`trav_advance`, `loop2`).
-/
import SIM.Lemmas.Registry
import SIM.Lemmas.RetainCanon
namespace SIM
namespace RegCanon
open Registry

/-! ### the context: a finished registration run -/

/-- `r` lists, by id, the definitions of the identities `V`, references rewritten to ids -/
structure RCtx (env : Nat → Ty Nat) (V : List Nat) (r : PortableRegistry) : Prop where
  len : r.length = V.length
  entry : ∀ k t, V[k]? = some t → r[k]? = some ({ id := k, ty := (env t).map (fun c => V.idxOf c) } : PType)
  wf : WF r

abbrev Q2 (r : PortableRegistry) : Nat → Prop := fun n => n < r.length

theorem Q2_closed {r : PortableRegistry} (hw : WF r) :
    ∀ a e c, Q2 r a → r[a]? = some e → c ∈ e.ty.refs → Q2 r c := by
  intro a e c ha he hc
  have := hw a ha
  rw [List.getElem?_eq_getElem ha] at he
  cases he
  exact this.2 c hc

theorem RCtx.of_complete {env : Nat → Ty Nat} {fin : RegState} (hc : Reg.Complete env fin) :
    RCtx env fin.table.vec (toPortable fin) := by
  refine ⟨hc.portable_length, ?_, hc.wf⟩
  intro k t hk
  have ht : t ∈ fin.table.vec := List.mem_of_getElem? hk
  have he := (hc.entry ht).1
  have hidx : idOf fin t = k := by
    have h1 := Reg.getElem?_idxOf ht
    have hk' : k < fin.table.vec.length := by
      apply Classical.byContradiction; intro hcon
      rw [List.getElem?_eq_none (by omega)] at hk; cases hk
    have hi' : fin.table.vec.idxOf t < fin.table.vec.length := List.idxOf_lt_length_of_mem ht
    rw [List.getElem?_eq_getElem hi'] at h1
    rw [List.getElem?_eq_getElem hk'] at hk
    have : fin.table.vec[fin.table.vec.idxOf t] = fin.table.vec[k] := by
      rw [Option.some.inj h1, Option.some.inj hk]
    exact (List.getElem_inj hc.inv.nodup).1 this
  rw [hidx] at he
  exact hc.portable_getElem? he

/-! ### one call -/

/-- one call of `retainType` matches one call of `registerType` -/
def SimSpec (V : List Nat) (r : PortableRegistry)
    (F : RegState → Nat → Option (RegState × Nat)) (F2 : RetState → Nat → Option (RetState × Nat)) : Prop :=
  ∀ s tid s' id st2 st2' n2, Reg.I s → F s tid = some (s', id) → s'.table.vec <+: V →
    Retain.Inv r (Q2 r) st2 → st2.map = Retain.idmap s.table.vec.length →
    F2 st2 (V.idxOf tid) = some (st2', n2) →
    st2'.map = Retain.idmap s'.table.vec.length

theorem travList_sim {env : Nat → Ty Nat} {V : List Nat} {r : PortableRegistry} {F F2}
    (C : RCtx env V r) (hF : Reg.CallSpec env F) (hF2 : Retain.StepSpec r (Q2 r) F2) (hS : SimSpec V r F F2) :
    ∀ (ids : List Nat) (s s' : RegState) (ns : List Nat) (st2 st2' : RetState) (ns2 : List Nat),
      Reg.I s → travList F s ids = some (s', ns) → s'.table.vec <+: V →
      Retain.Inv r (Q2 r) st2 → st2.map = Retain.idmap s.table.vec.length →
      travList F2 st2 (ids.map (fun c => V.idxOf c)) = some (st2', ns2) →
      st2'.map = Retain.idmap s'.table.vec.length := by
  intro ids
  induction ids with
  | nil =>
    intro s s' ns st2 st2' ns2 _ h _ _ hm h2
    simp only [travList, Option.some.injEq, Prod.mk.injEq] at h
    simp only [List.map_nil, travList, Option.some.injEq, Prod.mk.injEq] at h2
    obtain ⟨rfl, _⟩ := h
    obtain ⟨rfl, _⟩ := h2
    exact hm
  | cons c ids ih =>
    intro s s' ns st2 st2' ns2 hI h hpre hi2 hm h2
    simp only [travList] at h
    split at h
    · cases h
    · next s1 n1 h1 =>
      split at h
      · cases h
      · next sE ns' hrest =>
        simp only [Option.some.injEq, Prod.mk.injEq] at h
        obtain ⟨rfl, _⟩ := h
        obtain ⟨hI1, _, hc1, _⟩ := hF s c s1 n1 hI h1
        obtain ⟨_, hPr, _, _⟩ := Reg.travList_post env F hF ids s1 sE ns' hI1 hrest
        have hpre1 : s1.table.vec <+: V := hPr.pre.trans hpre
        have hcV : c ∈ V := Reg.prefix_mem hpre1 hc1
        have hq : Q2 r (V.idxOf c) := by
          show V.idxOf c < r.length
          rw [C.len]; exact List.idxOf_lt_length_of_mem hcV
        simp only [List.map_cons, travList] at h2
        split at h2
        · cases h2
        · next s21 n21 h21 =>
          split at h2
          · cases h2
          · next sE2 ns2' hrest2 =>
            simp only [Option.some.injEq, Prod.mk.injEq] at h2
            obtain ⟨rfl, _⟩ := h2
            have hm1 := hS s c s1 n1 st2 s21 n21 hI h1 hpre1 hi2 hm h21
            obtain ⟨hi21, _, _⟩ := hF2 st2 _ s21 n21 hi2 hq h21
            exact ih s1 sE ns' s21 sE2 ns2' hI1 hrest hpre hi21 hm1 hrest2

theorem enter_vec (s : RegState) (tid : Nat) : (Reg.enter s tid).table.vec = s.table.vec ++ [tid] := rfl

theorem retainType_sim {env : Nat → Ty Nat} {V : List Nat} {r : PortableRegistry} (C : RCtx env V r) :
    ∀ fuel fuel2, SimSpec V r (registerType env fuel) (Retain.retainType fuel2) := by
  intro fuel
  induction fuel with
  | zero => intro fuel2 s tid s' id st2 st2' n2 _ h; simp [registerType] at h
  | succ fuel ih =>
    intro fuel2 s tid s' id st2 st2' n2 hI h hpre hi2 hm2 h2
    cases fuel2 with
    | zero => simp [Retain.retainType] at h2
    | succ fuel2 =>
      by_cases hmem : tid ∈ s.table.vec
      · -- already interned: both calls are memo hits
        rw [Reg.registerType_unfold_old env fuel hI.inv hmem] at h
        simp only [Option.some.injEq, Prod.mk.injEq] at h
        obtain ⟨rfl, _⟩ := h
        have hidx : V.idxOf tid = s.table.vec.idxOf tid := Reg.idxOf_prefix hpre hmem
        have hlt : s.table.vec.idxOf tid < s.table.vec.length := List.idxOf_lt_length_of_mem hmem
        have hl2 : Retain.lookup st2.map (V.idxOf tid) = some (V.idxOf tid) := by
          rw [hm2, hidx]; exact Retain.lookup_idmap_lt hlt
        obtain ⟨rfl, _⟩ := Retain.retainType_hit hl2 h2
        exact hm2
      · -- new: both calls reserve the next number and visit the references
        rw [Reg.registerType_unfold_new env fuel hI hmem] at h
        split at h
        · cases h
        · next s1 rs htl =>
          simp only [Option.some.injEq, Prod.mk.injEq] at h
          obtain ⟨rfl, _⟩ := h
          simp only at hpre ⊢
          have hI0 := Reg.I_enter hI hmem
          obtain ⟨_, hP1, _, _⟩ := Reg.travList_post env _ (Reg.registerType_post env fuel) _ _ _ _ hI0 htl
          have hpre0 : (Reg.enter s tid).table.vec <+: V := hP1.pre.trans hpre
          have hidx : V.idxOf tid = s.table.vec.length := by
            rw [Reg.idxOf_prefix hpre0 (by simp [enter_vec])]
            simp [enter_vec, List.idxOf_append, hmem]
          have hVk : V[s.table.vec.length]? = some tid :=
            Reg.getElem?_prefix hpre0 (by simp [enter_vec])
          have hklt : s.table.vec.length < r.length := by
            rw [C.len]
            apply Classical.byContradiction; intro hcon
            rw [List.getElem?_eq_none (by omega)] at hVk; cases hVk
          have hrk := C.entry _ _ hVk
          rw [hidx] at h2
          have hlen2 : st2.new.length = s.table.vec.length := by
            rw [hi2.new_len, hm2, Retain.idmap_length]
          have hl2 : Retain.lookup st2.map s.table.vec.length = none := by
            rw [hm2]; exact Retain.lookup_idmap_ge (Nat.le_refl _)
          simp only [Retain.retainType, hl2] at h2
          split at h2
          · cases h2
          · next ty2 hty2 =>
            split at h2
            · cases h2
            · next stm2 rs2 htrav2 =>
              simp only [Option.some.injEq, Prod.mk.injEq] at h2
              obtain ⟨rfl, _⟩ := h2
              simp only
              have hty2' : ty2 = { id := s.table.vec.length, ty := (env tid).map (fun c => V.idxOf c) } := by
                rw [hi2.old_eq _ hl2, hrk] at hty2
                exact (Option.some.inj hty2).symm
              have hi21 := hi2.reserve (Q := Q2 r) hklt hl2
              have hrefs : ty2.ty.refs = (env tid).refs.map (fun c => V.idxOf c) := by
                rw [hty2']; exact Ty.refs_map _ _
              rw [hrefs] at htrav2
              refine travList_sim C (Reg.registerType_post env fuel)
                (Retain.retainType_spec (Q2_closed C.wf) fuel2) (ih fuel2)
                (env tid).refs _ s1 rs _ stm2 rs2 hI0 htl hpre hi21 ?_ htrav2
              simp only [enter_vec, List.length_append, List.length_singleton]
              rw [Retain.idmap_succ, hm2, hlen2]

/-! ### a history is one traversal of its roots -/

theorem travList_append_some {σ R R' : Type} (f : σ → R → Option (σ × R')) :
    ∀ (a : List R) (b : List R) (s s1 s2 : σ) (ra rb : List R'),
      travList f s a = some (s1, ra) → travList f s1 b = some (s2, rb) →
      travList f s (a ++ b) = some (s2, ra ++ rb) := by
  intro a
  induction a with
  | nil =>
    intro b s s1 s2 ra rb h1 h2
    simp only [travList, Option.some.injEq, Prod.mk.injEq] at h1
    obtain ⟨rfl, rfl⟩ := h1
    simpa using h2
  | cons x a ih =>
    intro b s s1 s2 ra rb h1 h2
    simp only [travList] at h1
    split at h1
    · cases h1
    · next sx rx hx =>
      split at h1
      · cases h1
      · next sa ra' ha =>
        simp only [Option.some.injEq, Prod.mk.injEq] at h1
        obtain ⟨rfl, rfl⟩ := h1
        have := ih b sx sa s2 ra' rb ha h2
        simp only [List.cons_append, travList, hx, this]

theorem step_flat (env : Nat → Ty Nat) (fuel : Nat) {s s' : RegState} {op : Op} {o : Out}
    (h : step env fuel s op = some (s', o)) :
    ∃ ids, travList (registerType env fuel) s (opRoots op) = some (s', ids) := by
  cases op with
  | reg t =>
    simp only [step, Option.map_eq_some_iff] at h
    obtain ⟨⟨s1, id⟩, h, heq⟩ := h
    simp only [Prod.mk.injEq] at heq
    obtain ⟨rfl, _⟩ := heq
    exact ⟨[id], by simp [opRoots, travList, h]⟩
  | regs ts =>
    simp only [step, Option.map_eq_some_iff, registerTypes] at h
    obtain ⟨⟨s1, ids⟩, h, heq⟩ := h
    simp only [Prod.mk.injEq] at heq
    obtain ⟨rfl, _⟩ := heq
    exact ⟨ids, h⟩
  | mip fs =>
    simp only [step, Option.map_eq_some_iff, mapIntoPortableFields] at h
    obtain ⟨⟨s1, gs⟩, h, heq⟩ := h
    simp only [Prod.mk.injEq] at heq
    obtain ⟨rfl, _⟩ := heq
    split at h
    · cases h
    · next s2 rs htl =>
      simp only [Option.some.injEq, Prod.mk.injEq] at h
      obtain ⟨rfl, _⟩ := h
      exact ⟨rs, htl⟩

theorem run_flat (env : Nat → Ty Nat) (fuel : Nat) :
    ∀ (ops : List Op) (s s' : RegState) (outs : List Out), run env fuel s ops = some (s', outs) →
      ∃ ids, travList (registerType env fuel) s (histRoots ops) = some (s', ids) := by
  intro ops
  induction ops with
  | nil =>
    intro s s' outs h
    simp only [run, Option.some.injEq, Prod.mk.injEq] at h
    obtain ⟨rfl, _⟩ := h
    exact ⟨[], rfl⟩
  | cons op ops ih =>
    intro s s' outs h
    simp only [run] at h
    split at h
    · cases h
    · next s1 o hst =>
      split at h
      · cases h
      · next s2 os hrun =>
        simp only [Option.some.injEq, Prod.mk.injEq] at h
        obtain ⟨rfl, _⟩ := h
        obtain ⟨ids1, h1⟩ := step_flat env fuel hst
        obtain ⟨ids2, h2⟩ := ih s1 s2 os hrun
        have hroots : histRoots (op :: ops) = opRoots op ++ histRoots ops := by simp [histRoots]
        rw [hroots]
        exact ⟨ids1 ++ ids2, travList_append_some _ _ _ _ _ _ _ _ h1 h2⟩

/-! ### the two loops -/

theorem registerType_new {env : Nat → Ty Nat} {fuel : Nat} {s s' : RegState} {tid id : Nat} (hI : Reg.I s)
    (hm : tid ∉ s.table.vec) (h : registerType env fuel s tid = some (s', id)) :
    id = s.table.vec.length ∧ s.table.vec.length < s'.table.vec.length := by
  cases fuel with
  | zero => simp [registerType] at h
  | succ fuel =>
    obtain ⟨_, hP, hmem', _⟩ := Reg.registerType_post env (fuel + 1) s tid s' id hI h
    rw [Reg.registerType_unfold_new env fuel hI hm] at h
    split at h
    · cases h
    · simp only [Option.some.injEq, Prod.mk.injEq] at h
      refine ⟨h.2.symm, ?_⟩
      have hle := hP.pre.length_le
      rcases Nat.lt_or_ge s.table.vec.length s'.table.vec.length with hlt | hge
      · exact hlt
      · have heq := hP.pre.eq_of_length (by omega)
        rw [← heq] at hmem'
        exact absurd hmem' hm

/-- in a traversal that still interns something there is a next call that interns something -/
theorem trav_advance (env : Nat → Ty Nat) (fuel : Nat) :
    ∀ (ids : List Nat) (s fin : RegState) (ns : List Nat), Reg.I s →
      travList (registerType env fuel) s ids = some (fin, ns) → s.table.vec.length < fin.table.vec.length →
      ∃ tid ids' s' ns', tid ∉ s.table.vec ∧ registerType env fuel s tid = some (s', s.table.vec.length) ∧
        travList (registerType env fuel) s' ids' = some (fin, ns') := by
  intro ids
  induction ids with
  | nil =>
    intro s fin ns _ h hlt
    simp only [travList, Option.some.injEq, Prod.mk.injEq] at h
    obtain ⟨rfl, _⟩ := h
    omega
  | cons c ids ih =>
    intro s fin ns hI h hlt
    simp only [travList] at h
    split at h
    · cases h
    · next s1 n1 h1 =>
      split at h
      · cases h
      · next sE ns' hrest =>
        simp only [Option.some.injEq, Prod.mk.injEq] at h
        obtain ⟨rfl, _⟩ := h
        by_cases hm : c ∈ s.table.vec
        · cases fuel with
          | zero => simp [registerType] at h1
          | succ fuel =>
            rw [Reg.registerType_unfold_old env fuel hI.inv hm] at h1
            simp only [Option.some.injEq, Prod.mk.injEq] at h1
            obtain ⟨rfl, _⟩ := h1
            exact ih s sE ns' hI hrest hlt
        · obtain ⟨hid, _⟩ := registerType_new hI hm h1
          subst hid
          exact ⟨c, ids, s1, ns', hm, h1, hrest⟩

/-- the loop of `retain` over `j, j+1, …` stays matched with the registration run -/
theorem loop2 {env : Nat → Ty Nat} {V : List Nat} {r : PortableRegistry} (C : RCtx env V r) (fuel fuel2 : Nat)
    (fin : RegState) (hfinV : fin.table.vec = V) :
    ∀ (len j : Nat) (st2 st2' : RetState), Retain.Inv r (Q2 r) st2 → j ≤ st2.map.length → j + len = r.length →
      (∃ ids s ns, Reg.I s ∧ travList (registerType env fuel) s ids = some (fin, ns) ∧
        st2.map = Retain.idmap s.table.vec.length) →
      Retain.retainLoop (fun _ => true) fuel2 (List.range' j len) st2 = some st2' →
      ∃ k, st2'.map = Retain.idmap k ∧ r.length ≤ k := by
  intro len
  induction len with
  | zero =>
    intro j st2 st2' _ hj hjl ⟨ids, s, ns, _, _, hm⟩ h
    simp only [List.range'_zero, Retain.retainLoop, Option.some.injEq] at h
    subst h
    refine ⟨s.table.vec.length, hm, ?_⟩
    rw [hm, Retain.idmap_length] at hj
    omega
  | succ len ih =>
    intro j st2 st2' hi2 hj hjl ⟨ids, s, ns, hI, htrav, hm⟩ h
    rw [List.range'_succ] at h
    simp only [Retain.retainLoop, if_true] at h
    split at h
    · cases h
    · next s21 n21 h21 =>
      have hlen2 : st2.map.length = s.table.vec.length := by rw [hm, Retain.idmap_length]
      by_cases hlt : j < st2.map.length
      · -- already present: nothing happens
        have hl2 : Retain.lookup st2.map j = some j := by
          rw [hm]; exact Retain.lookup_idmap_lt (by omega)
        obtain ⟨rfl, _⟩ := Retain.retainType_hit hl2 h21
        exact ih (j + 1) s21 st2' hi2 (by omega) (by omega) ⟨ids, s, ns, hI, htrav, hm⟩ h
      · -- `j` is the next fresh number: the registration run still has a call that interns something
        have hjk : j = s.table.vec.length := by omega
        have hlast : s.table.vec.length < fin.table.vec.length := by
          rw [hfinV, ← C.len]; omega
        obtain ⟨tid, ids', s', ns', hnm, h1, hrest⟩ := trav_advance env fuel ids s fin ns hI htrav hlast
        obtain ⟨hI', hP', hmem', hid'⟩ := Reg.registerType_post env fuel s tid s' _ hI h1
        obtain ⟨_, hgt⟩ := registerType_new hI hnm h1
        obtain ⟨_, hPr, _, _⟩ := Reg.travList_post env _ (Reg.registerType_post env fuel) ids' s' fin ns' hI' hrest
        have hpre' : s'.table.vec <+: V := by rw [← hfinV]; exact hPr.pre
        have hidx : V.idxOf tid = j := by
          rw [Reg.idxOf_prefix hpre' hmem', hjk]
          exact hid'.symm
        rw [← hidx] at h21
        have hm' := retainType_sim C fuel fuel2 s tid s' _ st2 s21 n21 hI h1 hpre' hi2 hm h21
        have hq : Q2 r (V.idxOf tid) := by
          show V.idxOf tid < r.length
          rw [hidx]; omega
        obtain ⟨hi21, _, _⟩ := Retain.retainType_spec (Q2_closed C.wf) fuel2 st2 _ s21 n21 hi2 hq h21
        refine ih (j + 1) s21 st2' hi21 ?_ (by omega) ⟨ids', s', ns', hI', hrest, hm'⟩ h
        rw [hm', Retain.idmap_length]; omega

/-! ### retaining everything with the identity map gives the registry back -/

theorem retain_idmap_self {r' r'' : PortableRegistry} (hw' : WF r')
    (h2 : Retain.retain r' (fun _ => true) = some (r'', Retain.idmap r'.length)) : r'' = r' := by
  obtain ⟨_, hv2, _, hfin2, _⟩ := Retain.retain_facts hw' (fun _ => true) h2
  have hlen : r''.length = r'.length := by
    have := congrArg List.length hv2
    simpa using this.symm
  apply List.ext_getElem?
  intro n
  by_cases hn : n < r'.length
  · obtain ⟨o, e, f1, f2, f3, _⟩ := hfin2 n (by omega)
    rw [Retain.idmap_getElem? hn] at f1
    simp only [Option.some.injEq, Prod.mk.injEq] at f1
    obtain ⟨rfl, _⟩ := f1
    rw [f3, f2]
    have hwn := hw' n hn
    rw [List.getElem?_eq_getElem hn] at f2
    cases f2
    have hmap : (r'[n]).ty.map (fun x => (Retain.lookup (Retain.idmap r'.length) x).getD 0) = (r'[n]).ty := by
      rw [Ty.map_congr _ _ (fun x => x), Ty.map_id]
      intro c hc
      rw [Retain.lookup_idmap_lt (hwn.2 c hc)]; rfl
    rw [hmap]
    congr 1
    cases hr : r'[n] with
    | mk id ty =>
      rw [hr] at hwn
      simp only at hwn ⊢
      rw [hwn.1]
  · rw [List.getElem?_eq_none (by omega), List.getElem?_eq_none (by omega)]

/-! ### the theorem for one traversal from the empty registry -/

theorem registry_canon_core {env : Nat → Ty Nat} {fuel : Nat} {roots : List Nat} {fin : RegState} {ns : List Nat}
    (hc : Reg.Complete env fin)
    (htrav : travList (registerType env fuel) Registry.empty roots = some (fin, ns)) :
    Retain.retain (toPortable fin) (fun _ => true) =
      some (toPortable fin, Retain.idmap (toPortable fin).length) := by
  have C := RCtx.of_complete hc
  have hw' := hc.wf
  have hsome := Retain.retain_isSome hw' (fun _ => true)
  cases h2 : Retain.retain (toPortable fin) (fun _ => true) with
  | none => rw [h2] at hsome; cases hsome
  | some p =>
    obtain ⟨r'', m2⟩ := p
    have hm2 : m2 = Retain.idmap (toPortable fin).length := by
      have h2' := h2
      simp only [Retain.retain] at h2'
      split at h2'
      · cases h2'
      · next fin2 hfin2l =>
        simp only [Option.some.injEq, Prod.mk.injEq] at h2'
        obtain ⟨_, rfl⟩ := h2'
        have hfin2l' := hfin2l
        rw [List.range_eq_range'] at hfin2l'
        obtain ⟨k, hk, hge⟩ := loop2 C fuel ((toPortable fin).length + 1) fin rfl (toPortable fin).length 0
          { old := toPortable fin, new := [], map := [] } fin2 (Retain.Inv.init _ _) (Nat.zero_le _) (by omega)
          ⟨roots, Registry.empty, ns, Reg.I_empty, htrav, rfl⟩ hfin2l'
        obtain ⟨hi2, _, _⟩ := Retain.retainLoop_spec (Q2_closed hw') (fun _ => true) _ _ _ fin2
          (Retain.Inv.init (toPortable fin) _) (fun c hc _ => List.mem_range.1 hc) hfin2l
        have hle := hi2.map_len_le (fun k hk => hk)
        rw [hk, Retain.idmap_length] at hle
        have : k = (toPortable fin).length := by omega
        rw [hk, this]
    subst hm2
    rw [retain_idmap_self hw' h2]

end RegCanon
end SIM
