/-
  SIM.Lemmas.Glue — helpers for the bridge between the Registry model (identities = numbers) and the
  typing of type expressions (`typeInfoD`, `FaithfulD`): facts that do not mention the coding.
-/
import SIM.Lemmas.Registry
import SIM.Spec.TypingD
import SIM.Props.C16
namespace SIM
namespace Glue
open Spec Impls

/-- `typeInfoD` looks at the declared identity only -/
theorem typeInfoD_identity (docs : Bool) (envD : TyExpr → Option Derive.Decl) (t : TyExpr) :
    typeInfoD docs envD (identity t) = typeInfoD docs envD t := by
  unfold typeInfoD
  rw [C16.identity_idem]

theorem identity_adt (n a) : identity (.adt n a) = .adt n a := by
  simp [identity]

/-- the roots of a history of single registrations -/
theorem histRoots_reg {α : Type} (f : α → Nat) (l : List α) :
    histRoots (l.map (fun t => Registry.Op.reg (f t))) = l.map f := by
  induction l with
  | nil => rfl
  | cons a l ih =>
    simp only [histRoots, List.map_cons, List.flatMap_cons, opRoots] at ih ⊢
    rw [ih]
    rfl

/-- reachability preserves any property that holds of the roots and is inherited along references -/
theorem Reach.invariant {env : Nat → Ty Nat} {roots : List Nat} (P : Nat → Prop)
    (hroot : ∀ r ∈ roots, P r) (hstep : ∀ a c, P a → c ∈ (env a).refs → P c) {x : Nat}
    (h : Reach env roots x) : P x := by
  induction h with
  | root hr => exact hroot _ hr
  | step _ hc ih => exact hstep _ _ ih hc

end Glue
end SIM
