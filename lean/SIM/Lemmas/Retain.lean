/-
  SIM.Lemmas.Retain — the invariant of `retainType` / `retainLoop` and its consequences.

  `Inv r Q st`  : what every state reached from `{old := r, new := [], map := []}` satisfies
                  (`Q` is any edge-closed predicate the requested ids satisfy: it is instantiated with
                  "in range and reachable from an accepted id");
  `Final r m new n` : slot `n` of `new` holds the original of its key with references sent through `m`;
  `Post r st st'`  : `st'` extends `st` (map and new registry are extended at the end) and every slot
                  added is final.
-/
import SIM.Model.Retain
import SIM.Lemmas.Types
namespace SIM

/-- ids reachable in registry `r` from the roots satisfying `p` -/
inductive ReachR (r : PortableRegistry) (p : Nat → Prop) : Nat → Prop
  | root {i} : p i → ReachR r p i
  | step {a c} (e : PType) : ReachR r p a → r[a]? = some e → c ∈ e.ty.refs → ReachR r p c

namespace Retain
open Registry

/-! ### `lookup` -/

theorem lookup_append (m ext : List (Nat × Nat)) (k : Nat) :
    lookup (m ++ ext) k = match lookup m k with | some v => some v | none => lookup ext k := by
  induction m with
  | nil => simp [lookup]
  | cons a m ih =>
    obtain ⟨a, b⟩ := a
    simp only [List.cons_append, lookup]
    split <;> simp_all

theorem lookup_append_some {m : List (Nat × Nat)} {k v : Nat} (ext : List (Nat × Nat)) (h : lookup m k = some v) :
    lookup (m ++ ext) k = some v := by
  rw [lookup_append, h]

theorem lookup_append_none {m : List (Nat × Nat)} {k : Nat} (ext : List (Nat × Nat)) (h : lookup m k = none) :
    lookup (m ++ ext) k = lookup ext k := by
  rw [lookup_append, h]

theorem lookup_eq_none_iff (m : List (Nat × Nat)) (k : Nat) : lookup m k = none ↔ k ∉ m.map (·.1) := by
  induction m with
  | nil => simp [lookup]
  | cons a m ih =>
    obtain ⟨a, b⟩ := a
    simp only [lookup, List.map_cons, List.mem_cons, not_or]
    split
    · next h => simp [h]
    · next h => rw [ih]; constructor
                · intro h'; exact ⟨fun e => h e.symm, h'⟩
                · intro h'; exact h'.2

theorem lookup_isSome_iff (m : List (Nat × Nat)) (k : Nat) : (lookup m k).isSome ↔ k ∈ m.map (·.1) := by
  have := lookup_eq_none_iff m k
  cases h : lookup m k <;> simp_all

theorem mem_of_lookup {m : List (Nat × Nat)} {k v : Nat} (h : lookup m k = some v) : (k, v) ∈ m := by
  induction m with
  | nil => simp [lookup] at h
  | cons a m ih =>
    obtain ⟨a, b⟩ := a
    simp only [lookup] at h
    split at h
    · next e => cases h; subst e; simp
    · next e => exact List.mem_cons_of_mem _ (ih h)

theorem lookup_of_mem {m : List (Nat × Nat)} {k v : Nat} (hn : (m.map (·.1)).Nodup) (h : (k, v) ∈ m) :
    lookup m k = some v := by
  induction m with
  | nil => simp at h
  | cons a m ih =>
    obtain ⟨a, b⟩ := a
    simp only [List.map_cons, List.nodup_cons] at hn
    simp only [lookup]
    rcases List.mem_cons.1 h with e | h'
    · cases e; simp
    · have : a ≠ k := by
        intro e; subst e
        exact hn.1 (List.mem_map.2 ⟨(a, v), h', rfl⟩)
      simp [this, ih hn.2 h']

/-! ### the invariant -/

structure Inv (r : PortableRegistry) (Q : Nat → Prop) (st : RetState) : Prop where
  old_len : st.old.length = r.length
  old_eq : ∀ i, lookup st.map i = none → st.old[i]? = r[i]?
  nodup : (st.map.map (·.1)).Nodup
  vals : st.map.map (·.2) = List.range st.new.length
  keysQ : ∀ k, (lookup st.map k).isSome → Q k

theorem Inv.new_len {r Q st} (h : Inv r Q st) : st.new.length = st.map.length := by
  have := congrArg List.length h.vals
  simpa using this.symm

/-- reserving a slot for a fresh key keeps the invariant -/
theorem Inv.reserve {r Q st} {id : Nat} (hi : Inv r Q st) (hq : Q id) (hnone : lookup st.map id = none) :
    Inv r Q { old := st.old.set id placeholder, new := st.new ++ [placeholder],
              map := st.map ++ [(id, st.new.length)] } := by
  refine ⟨by simp [hi.old_len], ?_, ?_, ?_, ?_⟩
  · intro i hl
    simp only at hl ⊢
    rw [lookup_append] at hl
    cases hli : lookup st.map i with
    | some v => simp [hli] at hl
    | none =>
      simp only [hli, lookup] at hl
      have hne : id ≠ i := by
        intro e; simp [e] at hl
      rw [List.getElem?_set_ne hne]; exact hi.old_eq i hli
  · simp only [List.map_append, List.map_cons, List.map_nil]
    rw [List.nodup_append]
    refine ⟨hi.nodup, by simp, ?_⟩
    intro a ha b hb
    simp only [List.mem_singleton] at hb
    subst hb
    intro e; subst e
    exact (lookup_eq_none_iff st.map a).1 hnone ha
  · simp only [List.map_append, List.map_cons, List.map_nil, List.length_append,
      List.length_singleton]
    rw [hi.vals, List.range_succ]
  · intro k hk
    simp only at hk
    rw [lookup_append] at hk
    cases hlk : lookup st.map k with
    | some v => exact hi.keysQ k (by simp [hlk])
    | none =>
      simp only [hlk, lookup] at hk
      by_cases e : id = k
      · subst e; exact hq
      · simp [e] at hk

/-- slot `n` is final: it holds the original entry of its key, references renumbered through `m`,
    and every reference of that original is a key of `m` -/
def Final (r : PortableRegistry) (m : List (Nat × Nat)) (new : List PType) (n : Nat) : Prop :=
  ∃ o e, m[n]? = some (o, n) ∧ r[o]? = some e ∧
    new[n]? = some { id := n, ty := e.ty.map (fun x => (lookup m x).getD 0) } ∧
    ∀ c ∈ e.ty.refs, (lookup m c).isSome

theorem Final.mono {r m new n} (h : Final r m new n) (ext : List (Nat × Nat)) (t : List PType) :
    Final r (m ++ ext) (new ++ t) n := by
  obtain ⟨o, e, h1, h2, h3, h4⟩ := h
  refine ⟨o, e, ?_, h2, ?_, ?_⟩
  · have hlt : n < m.length := by
      apply Classical.byContradiction; intro hc
      rw [List.getElem?_eq_none (by omega)] at h1; cases h1
    rw [List.getElem?_append_left hlt]; exact h1
  · have hlt : n < new.length := by
      apply Classical.byContradiction; intro hc
      rw [List.getElem?_eq_none (by omega)] at h3; cases h3
    rw [List.getElem?_append_left hlt, h3]
    congr 2
    apply Ty.map_congr
    intro c hc
    have := h4 c hc
    cases hl : lookup m c with
    | none => simp [hl] at this
    | some v => rw [lookup_append_some ext hl]
  · intro c hc
    have := h4 c hc
    cases hl : lookup m c with
    | none => simp [hl] at this
    | some v => rw [lookup_append_some ext hl]; rfl

structure Post (r : PortableRegistry) (st st' : RetState) : Prop where
  map_ext : ∃ ext, st'.map = st.map ++ ext
  new_ext : ∃ t, st'.new = st.new ++ t
  fin : ∀ n, st.new.length ≤ n → n < st'.new.length → Final r st'.map st'.new n

theorem Post.refl (r : PortableRegistry) (st : RetState) : Post r st st :=
  ⟨⟨[], by simp⟩, ⟨[], by simp⟩, fun n h1 h2 => by omega⟩

theorem Post.trans {r st st1 st2} (h1 : Post r st st1) (h2 : Post r st1 st2) : Post r st st2 := by
  obtain ⟨e1, he1⟩ := h1.map_ext
  obtain ⟨t1, ht1⟩ := h1.new_ext
  obtain ⟨e2, he2⟩ := h2.map_ext
  obtain ⟨t2, ht2⟩ := h2.new_ext
  refine ⟨⟨e1 ++ e2, by rw [he2, he1, List.append_assoc]⟩, ⟨t1 ++ t2, by rw [ht2, ht1, List.append_assoc]⟩, ?_⟩
  intro n hn hn'
  by_cases hlt : n < st1.new.length
  · have := (h1.fin n hn hlt).mono e2 t2
    rw [← he2, ← ht2] at this; exact this
  · exact h2.fin n (by omega) hn'

theorem Post.lookup_some {r st st' k v} (h : Post r st st') (hl : lookup st.map k = some v) :
    lookup st'.map k = some v := by
  obtain ⟨e, he⟩ := h.map_ext
  rw [he]; exact lookup_append_some e hl

theorem Post.map_len {r st st'} (h : Post r st st') : st.map.length ≤ st'.map.length := by
  obtain ⟨e, he⟩ := h.map_ext
  rw [he]; simp

/-! ### `travList` over a step function satisfying the specification -/

/-- the specification of one call (of `retainType fuel`) -/
def StepSpec (r : PortableRegistry) (Q : Nat → Prop) (F : RetState → Nat → Option (RetState × Nat)) : Prop :=
  ∀ st id st' n, Inv r Q st → Q id → F st id = some (st', n) →
    Inv r Q st' ∧ Post r st st' ∧ lookup st'.map id = some n

theorem travList_spec {r Q F} (hF : StepSpec r Q F) :
    ∀ (ids : List Nat) (st st' : RetState) (ns : List Nat), Inv r Q st → (∀ c ∈ ids, Q c) →
      travList F st ids = some (st', ns) →
      Inv r Q st' ∧ Post r st st' ∧ ns = ids.map (fun x => (lookup st'.map x).getD 0) ∧
        ∀ c ∈ ids, (lookup st'.map c).isSome := by
  intro ids
  induction ids with
  | nil =>
    intro st st' ns hi _ h
    simp only [travList, Option.some.injEq, Prod.mk.injEq] at h
    obtain ⟨rfl, rfl⟩ := h
    exact ⟨hi, Post.refl r st, by simp, by simp⟩
  | cons c ids ih =>
    intro st st' ns hi hq h
    simp only [travList] at h
    split at h
    · cases h
    · next s1 n1 h1 =>
      split at h
      · cases h
      · next s2 ns' h2 =>
        simp only [Option.some.injEq, Prod.mk.injEq] at h
        obtain ⟨rfl, rfl⟩ := h
        obtain ⟨hi1, hp1, hl1⟩ := hF st c s1 n1 hi (hq c (by simp)) h1
        obtain ⟨hi2, hp2, hns, hall⟩ := ih s1 s2 ns' hi1 (fun c' hc' => hq c' (by simp [hc'])) h2
        have hl2 := hp2.lookup_some hl1
        refine ⟨hi2, hp1.trans hp2, ?_, ?_⟩
        · simp [hl2, hns]
        · intro c' hc'
          rcases List.mem_cons.1 hc' with rfl | hc'
          · simp [hl2]
          · exact hall c' hc'

/-! ### one call -/

theorem retainType_spec {r : PortableRegistry} {Q : Nat → Prop}
    (hQ : ∀ a e c, Q a → r[a]? = some e → c ∈ e.ty.refs → Q c) :
    ∀ fuel, StepSpec r Q (retainType fuel) := by
  intro fuel
  induction fuel with
  | zero => intro st id st' n _ _ h; simp [retainType] at h
  | succ fuel ih =>
    intro st id st' n hi hq h
    simp only [retainType] at h
    split at h
    · next v hv =>
      simp only [Option.some.injEq, Prod.mk.injEq] at h
      obtain ⟨rfl, rfl⟩ := h
      exact ⟨hi, Post.refl r st, hv⟩
    · next hnone =>
      split at h
      · cases h
      · next ty hty =>
        split at h
        · cases h
        · next st2 rs htrav =>
          simp only [Option.some.injEq, Prod.mk.injEq] at h
          obtain ⟨rfl, rfl⟩ := h
          have hlen := hi.new_len
          have hrid : r[id]? = some ty := by rw [← hi.old_eq id hnone]; exact hty
          have hi1 := hi.reserve hq hnone
          have hqrefs : ∀ c ∈ ty.ty.refs, Q c := fun c hc => hQ id ty c hq hrid hc
          obtain ⟨hi2, hp2, hrs, hall⟩ := travList_spec ih ty.ty.refs _ st2 rs hi1 hqrefs htrav
          obtain ⟨ext, hext⟩ := hp2.map_ext
          obtain ⟨t, ht⟩ := hp2.new_ext
          simp only at hext ht
          have hset : st2.new.set st.new.length { id := st.new.length, ty := ty.ty.fill rs }
              = st.new ++ ({ id := st.new.length, ty := ty.ty.fill rs } :: t) := by
            rw [ht, List.append_assoc, List.set_append]
            simp
          refine ⟨⟨hi2.old_len, hi2.old_eq, hi2.nodup, ?_, hi2.keysQ⟩, ⟨⟨[(id, st.new.length)] ++ ext, ?_⟩, ⟨_, hset⟩, ?_⟩, ?_⟩
          · simp only [List.length_set]; exact hi2.vals
          · simp only; rw [hext, List.append_assoc]
          · intro n hn hn'
            simp only [List.length_set] at hn'
            simp only
            by_cases hnn : n = st.new.length
            · subst hnn
              refine ⟨id, ty, ?_, hrid, ?_, hall⟩
              · rw [hext, List.append_assoc, List.getElem?_append_right (by omega)]
                simp [hlen]
              · rw [List.getElem?_set_self hn', hrs, Ty.fill_map]
            · obtain ⟨o, e, f1, f2, f3, f4⟩ := hp2.fin n (by simp; omega) hn'
              refine ⟨o, e, f1, f2, ?_, f4⟩
              rw [List.getElem?_set_ne (Ne.symm hnn)]; exact f3
          · simp only
            rw [hext, List.append_assoc, lookup_append_none _ hnone]
            simp [lookup]

/-! ### totality -/

theorem Inv.map_len_le {r Q st} (h : Inv r Q st) (hlt : ∀ k, Q k → k < r.length) : st.map.length ≤ r.length := by
  have : (st.map.map (·.1)).length ≤ (List.range r.length).length := by
    apply List.Nodup.length_le_of_subset h.nodup
    intro k hk
    exact List.mem_range.2 (hlt k (h.keysQ k ((lookup_isSome_iff _ _).2 hk)))
  simpa using this

theorem travList_total {r Q F} (hF : StepSpec r Q F) (N : Nat)
    (hT : ∀ st id, Inv r Q st → Q id → N ≤ st.map.length → (F st id).isSome) :
    ∀ (ids : List Nat) (st : RetState), Inv r Q st → (∀ c ∈ ids, Q c) → N ≤ st.map.length →
      (travList F st ids).isSome := by
  intro ids
  induction ids with
  | nil => intro st _ _ _; simp [travList]
  | cons c ids ih =>
    intro st hi hq hN
    have h1 := hT st c hi (hq c (by simp)) hN
    simp only [travList]
    cases hf : F st c with
    | none => simp [hf] at h1
    | some p =>
      obtain ⟨s1, n1⟩ := p
      obtain ⟨hi1, hp1, _⟩ := hF st c s1 n1 hi (hq c (by simp)) hf
      have h2 := ih s1 hi1 (fun c' hc' => hq c' (by simp [hc'])) (Nat.le_trans hN hp1.map_len)
      simp only
      cases ht : travList F s1 ids with
      | none => simp [ht] at h2
      | some p2 => simp

theorem retainType_total {r : PortableRegistry} {Q : Nat → Prop}
    (hQ : ∀ a e c, Q a → r[a]? = some e → c ∈ e.ty.refs → Q c) (hlt : ∀ k, Q k → k < r.length) :
    ∀ fuel st id, Inv r Q st → Q id → r.length + 1 ≤ fuel + st.map.length →
      (retainType fuel st id).isSome := by
  intro fuel
  induction fuel with
  | zero =>
    intro st id hi _ hf
    have := hi.map_len_le hlt
    omega
  | succ fuel ih =>
    intro st id hi hq hf
    simp only [retainType]
    split
    · simp
    · next hnone =>
      have hidlt := hlt id hq
      have hold : st.old[id]? = some r[id] := by
        rw [hi.old_eq id hnone]; simp [hidlt]
      rw [hold]
      simp only
      have hrid : r[id]? = some r[id] := by simp [hidlt]
      have hqrefs : ∀ c ∈ (r[id]).ty.refs, Q c := fun c hc => hQ id _ c hq hrid hc
      have hi1 := hi.reserve hq hnone
      have := travList_total (retainType_spec hQ fuel) (r.length + 1 - fuel)
        (fun st id hi hq hN => ih st id hi hq (by omega)) (r[id]).ty.refs _ hi1 hqrefs
        (by simp; omega)
      cases ht : travList (retainType fuel) _ (r[id]).ty.refs with
      | none => simp [ht] at this
      | some p => simp

/-! ### the loop -/

theorem retainLoop_spec {r : PortableRegistry} {Q : Nat → Prop}
    (hQ : ∀ a e c, Q a → r[a]? = some e → c ∈ e.ty.refs → Q c) (keep : Nat → Bool) (fuel : Nat) :
    ∀ (ids : List Nat) (st st' : RetState), Inv r Q st → (∀ c ∈ ids, keep c = true → Q c) →
      retainLoop keep fuel ids st = some st' →
      Inv r Q st' ∧ Post r st st' ∧ ∀ c ∈ ids, keep c = true → (lookup st'.map c).isSome := by
  intro ids
  induction ids with
  | nil =>
    intro st st' hi _ h
    simp only [retainLoop, Option.some.injEq] at h
    subst h
    exact ⟨hi, Post.refl r st, by simp⟩
  | cons c ids ih =>
    intro st st' hi hq h
    simp only [retainLoop] at h
    split at h
    · next hk =>
      split at h
      · cases h
      · next s1 n1 h1 =>
        obtain ⟨hi1, hp1, hl1⟩ := retainType_spec hQ fuel st c s1 n1 hi (hq c (by simp) hk) h1
        obtain ⟨hi2, hp2, hall⟩ := ih s1 st' hi1 (fun c' hc' => hq c' (by simp [hc'])) h
        refine ⟨hi2, hp1.trans hp2, ?_⟩
        intro c' hc' hk'
        rcases List.mem_cons.1 hc' with rfl | hc'
        · simp [hp2.lookup_some hl1]
        · exact hall c' hc' hk'
    · next hk =>
      obtain ⟨hi2, hp2, hall⟩ := ih st st' hi (fun c' hc' => hq c' (by simp [hc'])) h
      refine ⟨hi2, hp2, ?_⟩
      intro c' hc' hk'
      rcases List.mem_cons.1 hc' with rfl | hc'
      · exact absurd hk' hk
      · exact hall c' hc' hk'

theorem retainLoop_total {r : PortableRegistry} {Q : Nat → Prop}
    (hQ : ∀ a e c, Q a → r[a]? = some e → c ∈ e.ty.refs → Q c) (hlt : ∀ k, Q k → k < r.length)
    (keep : Nat → Bool) :
    ∀ (ids : List Nat) (st : RetState), Inv r Q st → (∀ c ∈ ids, keep c = true → Q c) →
      (retainLoop keep (r.length + 1) ids st).isSome := by
  intro ids
  induction ids with
  | nil => intro st _ _; simp [retainLoop]
  | cons c ids ih =>
    intro st hi hq
    simp only [retainLoop]
    split
    · next hk =>
      have h1 := retainType_total hQ hlt (r.length + 1) st c hi (hq c (by simp) hk) (by omega)
      cases hf : retainType (r.length + 1) st c with
      | none => simp [hf] at h1
      | some p =>
        obtain ⟨s1, n1⟩ := p
        obtain ⟨hi1, _, _⟩ := retainType_spec hQ _ st c s1 n1 hi (hq c (by simp) hk) hf
        exact ih s1 hi1 (fun c' hc' => hq c' (by simp [hc']))
    · exact ih st hi (fun c' hc' => hq c' (by simp [hc']))

/-! ### the whole of `retain` -/

/-- the predicate the invariant is instantiated with -/
def RQ (r : PortableRegistry) (keep : Nat → Bool) (k : Nat) : Prop :=
  k < r.length ∧ ReachR r (fun i => i < r.length ∧ keep i = true) k

theorem RQ_closed {r : PortableRegistry} (hw : WF r) (keep : Nat → Bool) :
    ∀ a e c, RQ r keep a → r[a]? = some e → c ∈ e.ty.refs → RQ r keep c := by
  intro a e c ha he hc
  refine ⟨?_, ReachR.step e ha.2 he hc⟩
  have := hw a ha.1
  rw [List.getElem?_eq_getElem ha.1] at he
  cases he
  exact this.2 c hc

theorem Inv.init (r : PortableRegistry) (Q : Nat → Prop) : Inv r Q { old := r, new := [], map := [] } :=
  ⟨rfl, fun _ _ => rfl, by simp, by simp, fun k hk => by simp [lookup] at hk⟩

/-- everything the property file needs about a successful `retain` -/
theorem retain_facts {r : PortableRegistry} (hw : WF r) (keep : Nat → Bool) {r' : PortableRegistry}
    {m : List (Nat × Nat)} (h : retain r keep = some (r', m)) :
    (m.map (·.1)).Nodup ∧ m.map (·.2) = List.range r'.length ∧
    (∀ k, (lookup m k).isSome → RQ r keep k) ∧
    (∀ n, n < r'.length → Final r m r' n) ∧
    (∀ c, c < r.length → keep c = true → (lookup m c).isSome) := by
  simp only [retain] at h
  split at h
  · cases h
  · next st hst =>
    simp only [Option.some.injEq, Prod.mk.injEq] at h
    obtain ⟨rfl, rfl⟩ := h
    obtain ⟨hi, hp, hall⟩ := retainLoop_spec (RQ_closed hw keep) keep _ _ _ st (Inv.init r _)
      (fun c hc hk => ⟨List.mem_range.1 hc, ReachR.root ⟨List.mem_range.1 hc, hk⟩⟩) hst
    exact ⟨hi.nodup, hi.vals, hi.keysQ, fun n hn => hp.fin n (by simp) hn,
      fun c hc hk => hall c (List.mem_range.2 hc) hk⟩

theorem retain_isSome {r : PortableRegistry} (hw : WF r) (keep : Nat → Bool) : (retain r keep).isSome := by
  have := retainLoop_total (RQ_closed hw keep) (fun k hk => hk.1) keep (List.range r.length) _ (Inv.init r _)
    (fun c hc hk => ⟨List.mem_range.1 hc, ReachR.root ⟨List.mem_range.1 hc, hk⟩⟩)
  simp only [retain]
  cases hl : retainLoop keep (r.length + 1) (List.range r.length) { old := r, new := [], map := [] } with
  | none => simp [hl] at this
  | some st => simp

/-- the position of a pair in a map whose values are `0, 1, 2, …` is its value -/
theorem getElem?_of_mem_vals {m : List (Nat × Nat)} {N o n : Nat} (hv : m.map (·.2) = List.range N)
    (h : (o, n) ∈ m) : m[n]? = some (o, n) := by
  obtain ⟨i, hi, hmi⟩ := List.getElem_of_mem h
  have h1 : (m.map (·.2))[i]? = some n := by simp [List.getElem?_map, List.getElem?_eq_getElem hi, hmi]
  rw [hv] at h1
  have hlen : m.length = N := by simpa using congrArg List.length hv
  rw [List.getElem?_range (by omega)] at h1
  cases h1
  rw [List.getElem?_eq_getElem hi, hmi]

end Retain
end SIM
