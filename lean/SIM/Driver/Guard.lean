/-
  SIM.Driver.Guard — a pre-flight for `Value.decodeVal` on bytes that may not match the registry.

  `decodeVal` is the oracle of C03 / C04 (the decoder that knows only the registry). When the registry mis-describes what the codec
  wrote (a seeded defect, or the recorded `encoded_as` finding), the bytes are read as garbage and a "length" of 2^30 zero-sized
  elements sends the structurally recursive `Dec.rep` a billion frames deep: the driver would die instead of reporting the case.
  `preflight` walks the same path (same resolution, same order, same length prefixes) with a step budget and without building
  values; only when it stays within the budget is the real `decodeVal` run. A value the generators can produce needs a few thousand
  steps at most; exceeding the budget is reported as "the decoder cannot read the encoding".
-/
import SIM.Model.Value
namespace SIM
namespace Driver
open Codec Value

abbrev Pre := Bytes → Nat → Option (Bytes × Nat)

def preRep (f : Pre) : Nat → Pre
  | 0, bs, b => some (bs, b)
  | n + 1, bs, b =>
    if b = 0 then none else
    match f bs (b - 1) with
    | none => none
    | some (bs', b') => preRep f n bs' b'

def preEach (f : Nat → Pre) : List Nat → Pre
  | [], bs, b => some (bs, b)
  | t :: ts, bs, b =>
    match f t bs b with
    | none => none
    | some (bs', b') => preEach f ts bs' b'

def preflight (reg : PortableRegistry) : Nat → Nat → Pre
  | 0, _, _, _ => none
  | fuel + 1, id, bs, b =>
    if b = 0 then none else
    match resolve reg id with
    | none => none
    | some t =>
      match t.def_ with
      | .composite fs => preEach (preflight reg fuel) (fs.map (·.ty)) bs (b - 1)
      | .variant vs =>
        (match bs with
        | [] => none
        | x :: rest =>
          match vs.find? (fun v => v.index == x.toNat) with
          | none => none
          | some v => preEach (preflight reg fuel) (v.fields.map (·.ty)) rest (b - 1))
      | .sequence e =>
        (match decCompact bs with
        | none => none
        | some (n, rest) => preRep (preflight reg fuel e) n rest (b - 1))
      | .array n e => preRep (preflight reg fuel e) n bs (b - 1)
      | .tuple ts => preEach (preflight reg fuel) ts bs (b - 1)
      | .bitSequence _ _ =>
        (match decCompact bs with
        | none => none
        | some (n, _) =>
          if n > 8 * bs.length then none
          else match decodeVal reg 1 id bs with
            | none => none
            | some (_, rest) => some (rest, b - 1))
      | _ =>  -- primitive, compact: leaves, no repetition
        (match decodeVal reg 1 id bs with
        | none => none
        | some (_, rest) => some (rest, b - 1))

/-- `decodeVal`, run only when the pre-flight stays within `budget` steps -/
def decodeGuarded (reg : PortableRegistry) (fuel id : Nat) (bs : Bytes) (budget : Nat := 60000) : Option (Val × Bytes) :=
  match preflight reg fuel id bs budget with
  | none => none
  | some _ => decodeVal reg fuel id bs

end Driver
end SIM
