/-
  SIM.Driver.Fp — driver mode for the `fp` stream (C15): the encoded registry of one corpus type under two
  feature sets of scale-info.
-/
import SIM.Driver.Basic
import SIM.Model.Codec
import SIM.Spec.Docs
namespace SIM
namespace Driver

def fpCase : P Verdict := do
  let kind ← P.tok          -- `eq`: both sets without (or both with) docs; `docs`: second set has the docs feature
  let setA ← P.tok
  let setB ← P.tok
  let a ← P.str
  let b ← P.str
  match Codec.decode a, Codec.decode b with
  | some (ra, []), some (rb, []) =>
    if kind == "eq" then
      if a != b then pure (.specfail s!"C15: the encoded registry differs between feature sets {setA} and {setB}")
      else pure (.ok (ra.length > 1))
    else
      if Spec.stripReg ra != Spec.stripReg rb then
        pure (.specfail s!"C15: the docs feature ({setB} vs {setA}) changes more than documentation strings")
      else if !Spec.wf ra || !Spec.wf rb then pure (.specfail "C01: registry not dense and closed")
      else pure (.ok (ra != rb))
  | _, _ => pure (.diff "the V14 layout decoder cannot read a fingerprint registry")

end Driver
end SIM
