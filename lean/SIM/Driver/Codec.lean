/-
  SIM.Driver.Codec — driver mode for the `codec` stream (C06, C07, C14, decode clause of C01).
  For C06 the model *is* the specification ("an independent encoder and decoder written from
  the layout"), so a disagreement with it is a SPECFAIL of C06. Clauses carry the id of the
  property they belong to; ./check filters on it.
-/
import SIM.Driver.Basic
import SIM.Model.Codec
namespace SIM
namespace Driver
open Codec

def showBytes (b : Bytes) : String := Show.str b

/-- memory bound for one decode: proportional to the input (constants reported in the evidence) -/
def memBound (len : Nat) : Nat := 1024 * len + 131072

/-- all failing clauses of a case (so that a failure of one property never masks another's) -/
def verdictOf (errs : List String) (nt : Bool) : Verdict :=
  if errs.isEmpty then .ok nt else .specfail (" ;; ".intercalate errs)

def codec : P Verdict := do
  let kind ← P.tok
  match kind with
  | "enc" => do
    let reg ← P.registry
    let bytes ← P.str
    let rt ← P.bool
    let det ← P.bool
    let model := Codec.encode reg
    let nt := reg.length > 0
    let mut errs : List String := []
    if model != bytes then
      errs := errs ++ [s!"C06: library bytes differ from the V14 layout encoder: layout {showBytes model} library {showBytes bytes}"]
    match Codec.decode bytes with
    | some (r', []) =>
      if r' != reg then errs := errs ++ ["C06: the V14 layout decoder reads the library's bytes back as a different registry"]
      if Spec.wf reg && !Spec.wf r' then errs := errs ++ ["C01: decoding the library's own output of a well-formed registry is not well-formed"]
    | _ => errs := errs ++ ["C06: the V14 layout decoder rejects or over/under-reads the library's bytes"]
    if !rt then errs := errs ++ ["C07: library decode(encode(r)) != r or input not fully consumed"]
    -- the layout decoder reads these bytes back as `reg` (checked above; `C07.decode_encode` for every registry):
    -- a library decoder that does not is in disagreement with the layout
    if !rt then errs := errs ++ ["C06: the library decoder does not read back bytes that the V14 layout decoder reads as the encoded registry"]
    if !rt && Spec.wf reg then errs := errs ++ ["C01: decoding the library's own output of a well-formed registry does not give it back"]
    if !det then errs := errs ++ ["C07: encoding twice gave different bytes"]
    pure (verdictOf errs nt)
  | "coll" => do
    let _a ← P.registry
    let _b ← P.registry
    pure (.specfail "C07: two different registries share an encoding")
  | "dec" => do
    let bytes ← P.str
    let res ← P.tok
    let model := Codec.decode bytes
    match res with
    | "panic" => pure (.specfail "C14: decode panicked")
    | "err" => do
      let peak ← P.nat
      let mut errs : List String := []
      if peak > memBound bytes.length then errs := errs ++ [s!"C14: decode allocated {peak} bytes for {bytes.length} input bytes"]
      if model.isSome then errs := errs ++ ["C06: library rejects bytes the V14 layout decoder accepts"]
      pure (verdictOf errs true)
    | "ok" => do
      let reg ← P.registry
      let rem ← P.nat
      let reenc ← P.bool
      let oob ← P.bool
      let peak ← P.nat
      let consumed := bytes.take (bytes.length - rem)
      let mut errs : List String := []
      if Codec.encode reg != consumed then errs := errs ++ ["C14: decoded registry does not re-encode (layout encoder) to exactly the consumed bytes"]
      if !reenc then errs := errs ++ ["C14: decoded registry does not re-encode (library) to exactly the consumed bytes"]
      if !oob then errs := errs ++ ["C14: resolve of an out-of-range id did not answer None"]
      if peak > memBound bytes.length then errs := errs ++ [s!"C14: decode allocated {peak} bytes for {bytes.length} input bytes"]
      match model with
      | some (r', rest) =>
        if r' != reg || rest.length != rem then errs := errs ++ ["C06: library and V14 layout decoder decode different values / remainders"]
      | none => errs := errs ++ ["C06: library accepts bytes the V14 layout decoder rejects"]
      if !errs.isEmpty then pure (verdictOf errs true)
      else if resolve reg reg.length != none then pure (.diff "model resolve out of range")
      else pure (.ok true)
    | _ => P.fail
  | _ => P.fail

end Driver
end SIM
