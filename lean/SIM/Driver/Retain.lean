/-
  SIM.Driver.Retain — driver mode for the `retain` stream (C10, retain clause of C01).
-/
import SIM.Driver.Basic
import SIM.Model.Retain
import SIM.Spec.Retain
namespace SIM
namespace Driver

def sortPairs (m : List (Nat × Nat)) : List (Nat × Nat) :=
  m.mergeSort (fun a b => a.1 ≤ b.1)

def retain : P Verdict := do
  let r ← P.registry
  let keep ← P.list P.nat
  let res ← P.tok
  let model := Retain.retain r (fun i => keep.contains i)
  match res with
  | "panic" =>
    if Spec.wf r then pure (.specfail "C10: retain panicked on a well-formed registry")
    else if model.isSome then pure (.diff "model returns, implementation panics")
    else pure (.ok true)
  | "ok" => do
    let r' ← P.registry
    let m ← P.list (do let a ← P.nat; let b ← P.nat; pure (a, b))
    let canon ← P.nat
    let errs := if Spec.wf r then Spec.retainOk r keep r' m else []
    -- `C10canon.retain_canonical`: the result of a retain on a well-formed registry is in canonical numbering
    let errs := if Spec.wf r && errs.isEmpty && canon != 1 then
      ["C10: retaining everything from the result once more is not the identity (the result is not in canonical depth-first numbering)"] else errs
    if !errs.isEmpty then pure (.specfail (" ;; ".intercalate errs))
    else match model with
      | none => pure (.diff "model panics / runs out of fuel, implementation returns")
      | some (mr, mm) =>
        if mr != r' then pure (.diff s!"model registry differs: {Show.registry mr}")
        else if sortPairs mm != m then pure (.diff "model map differs")
        else pure (.ok (m.length > 1))
  | _ => P.fail

end Driver
end SIM
