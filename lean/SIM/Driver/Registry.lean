/-
  SIM.Driver.Registry — driver mode for the `registry` stream (C01, C02, C05, C11).
  Spec predicates are evaluated on the implementation's observed output first (SPECFAIL, tagged
  with the property they belong to); then the model's output is compared (DIFF).
-/
import SIM.Driver.Basic
import SIM.Model.Registry
import SIM.Model.Codec
import SIM.Spec.Graph
namespace SIM
namespace Driver
open Registry

structure ObsOp where
  op : Registry.Op
  out : Registry.Out
  roots : List Nat            -- identities the op registers, in order
  ids : List Nat              -- ids the implementation returned for them
  snap : PortableRegistry     -- `Registry::types()` after the op

def pRegOp : P ObsOp := do
  let k ← P.tok
  match k with
  | "rt" => do
    let t ← P.nat; let _a ← P.nat; let id ← P.nat; let snap ← P.registry
    pure { op := .reg t, out := .id id, roots := [t], ids := [id], snap := snap }
  | "rts" => do
    let ks ← P.list (do let k ← P.nat; let _ ← P.nat; pure k)
    let ids ← P.list P.nat
    let snap ← P.registry
    pure { op := .regs ks, out := .ids ids, roots := ks, ids := ids, snap := snap }
  | "mip" => do
    let fs ← P.list P.field
    let outv ← P.list P.field
    let snap ← P.registry
    pure { op := .mip fs, out := .fields outv, roots := fieldRefs fs, ids := fieldRefs outv, snap := snap }
  | _ => P.fail

structure PermObs where
  roots : List Nat
  ids : List Nat
  reg : PortableRegistry

def containsAll (small big : PortableRegistry) : Bool :=
  small.all (fun p => big.any (fun q => q.id == p.id && q.ty == p.ty))

/-- spec checks over the observed history; returns the first failing clause -/
def regSpec (env : List (Ty Nat)) (ops : List ObsOp) (fin : PortableRegistry) (evals : List Nat)
    (same : Bool) (perms : List PermObs) (phantom : Option Nat) : List String := Id.run do
  let mut errs : List String := []
  let g1 := Spec.envGraph env
  let fuel := 4 * (Spec.edgeCount env + Spec.edgeCount (fin.map (·.ty))) + 64
  -- per-op clauses
  let mut prev : PortableRegistry := []
  let mut rootPairs : List (Nat × Nat) := []
  let mut roots : List Nat := []
  for o in ops do
    if o.roots.length != o.ids.length then errs := errs ++ ["C02: an operation returned a different number of ids than it was given types"]
    if !Spec.wf o.snap then errs := errs ++ ["C01: Registry::types() after an operation is not dense and closed"]
    if !containsAll prev o.snap then errs := errs ++ ["C11: an existing entry was renumbered or altered by a later registration"]
    if o.roots.all (fun t => rootPairs.any (fun p => p.1 == t)) && o.snap != prev then
      errs := errs ++ ["C05: re-registering types that are already present changed the registry"]
    match o.op, o.out with
    | .mip fs, .fields outv =>
      if (fillFields fs (fieldRefs outv)).1 != outv then errs := errs ++ ["C02: map_into_portable changed something other than the references of a field"]
    | _, _ => pure ()
    prev := o.snap
    rootPairs := rootPairs ++ o.roots.zip o.ids
    roots := roots ++ o.roots
  if fin != prev && !ops.isEmpty then errs := errs ++ ["C01: PortableRegistry::from(registry) differs from Registry::types()"]
  if !Spec.wf fin then errs := errs ++ ["C01: final registry is not dense and closed"]
  -- C02 / C05: the registry is an isomorphic image of the reachable type graph
  match Spec.iso g1 (Spec.regGraph fin) fuel rootPairs with
  | .error e => errs := errs ++ [s!"C02: {e} (type graph vs final registry, from the returned ids)"]
  | .ok m =>
    let reach := Spec.reach g1 fuel roots
    if m.length != reach.length then errs := errs ++ ["C05: correspondence does not cover exactly the reachable identities"]
    if fin.length != reach.length then
      errs := errs ++ [s!"C05: registry has {fin.length} entries for {reach.length} reachable type identities"]
    -- every definition evaluated at most once, and exactly the reachable ones
    let mut k := 0
    for c in evals do
      -- nodes from index `phantom` on are real std identities (PhantomData, (), str, u8): the harness cannot count their evaluations
      if (phantom.map (fun p => decide (p ≤ k))).getD false then
        k := k + 1
        continue
      if c > 1 then errs := errs ++ [s!"C05: type_info() of identity {k} evaluated {c} times"]
      if (c == 1) != reach.contains k then errs := errs ++ [s!"C05: identity {k}: evaluated {c} times, reachable = {reach.contains k}"]
      k := k + 1
  if !same then errs := errs ++ ["C11: replaying the same history gave different bytes"]
  -- C11: any other order of the same roots gives the same registry up to renaming
  for p in perms do
    if !Spec.wf p.reg then errs := errs ++ ["C01: registry of a permuted history is not dense and closed"]
    if p.reg.length != fin.length then errs := errs ++ ["C11: permuted root order gives a registry of different size"]
    let pairs := p.ids.zip (p.roots.map (fun t => (rootPairs.find? (fun q => q.1 == t)).map (·.2) |>.getD 0))
    match Spec.iso (Spec.regGraph p.reg) (Spec.regGraph fin) fuel pairs with
    | .error e => errs := errs ++ [s!"C11: permuted root order: {e}"]
    | .ok _ => pure ()
  return errs.eraseDups

def registry : P Verdict := do
  let env ← P.list P.ty
  let phantom ← P.opt P.nat
  let ops ← P.list pRegOp
  P.expect "fin"
  let fin ← P.registry
  let bytes ← P.str
  let evals ← P.list P.nat
  let same ← P.bool
  let perms ← P.list (do
    let roots ← P.list P.nat
    let ids ← P.list P.nat
    let reg ← P.registry
    pure ({ roots := roots, ids := ids, reg := reg } : PermObs))
  match regSpec env ops fin evals same perms phantom with
  | e :: es => pure (.specfail (" ;; ".intercalate (e :: es)))
  | [] =>
    -- correspondence with the model
    let envF : Nat → Ty Nat := fun i => env[i]?.getD { path := [], params := [], def_ := .tuple [], docs := [] }
    let fuel := env.length + 2
    let rec go (s : RegState) (k : Nat) : List ObsOp → Except String RegState
      | [] => .ok s
      | o :: rest =>
        match Registry.step envF fuel s o.op with
        | none => .error s!"op {k}: model ran out of fuel"
        | some (s', out) =>
          if out != o.out then .error s!"op {k}: model returns different ids / fields"
          else if toPortable s' != o.snap then .error s!"op {k}: model registry after the op differs: {Show.registry (toPortable s')}"
          else go s' (k + 1) rest
    match go Registry.empty 0 ops with
    | .error e => pure (.diff e)
    | .ok s =>
      if toPortable s != fin then pure (.diff "final registry differs from the model's")
      else if Codec.encode fin != bytes then pure (.diff "C06: library bytes differ from the V14 layout encoder")
      else if (List.range env.length).map (fun k => if (phantom.map (fun p => decide (p ≤ k))).getD false then 0 else s.evals.count k) != evals then pure (.diff "evaluation counts differ from the model's")
      else
        -- permuted histories through the model as well
        let bad := perms.any (fun p =>
          match Registry.run envF fuel Registry.empty (p.roots.map .reg) with
          | none => true
          | some (s', outs) => toPortable s' != p.reg || outs != p.ids.map .id)
        if bad then pure (.diff "a permuted history differs from the model's")
        else
          let nt := fin.any (fun p => !p.ty.refs.isEmpty)
          pure (.ok nt)

end Driver
end SIM
