/-
  SIM.Driver.Std — driver modes for the generated-program streams over built-in types:
  `std` (C04: registry + encodings of values), `meta` (C16, alias clause of C05), `tinfo`
  (shape of every built-in impl; PhantomData clause of C17).
-/
import SIM.Driver.Basic
import SIM.Model.Impls
import SIM.Model.Value
import SIM.Driver.Guard
import SIM.Model.Registry
import SIM.Spec.Alias
import SIM.Spec.Graph
namespace SIM
namespace Driver
open Impls

def wOf : Nat → Option W
  | 8 => some .w8 | 16 => some .w16 | 32 => some .w32 | 64 => some .w64 | 128 => some .w128 | _ => none

def tupleOf : List TyExpr → TyExpr
  | [] => .tuple0
  | h :: t => .tupleCons h (tupleOf t)

partial def pTyExpr : P TyExpr := do
  let t ← P.tok
  let num (pre : String) : Option W := if t.startsWith pre then ((t.drop pre.length).toString.toNat?).bind wOf else none
  match t with
  | "bool" => pure .bool | "char" => pure .char | "str" => pure .str | "string" => pure .string
  | "dur" => pure .duration | "lsb0" => pure .lsb0 | "msb0" => pure .msb0
  | "arr" => do let n ← P.nat; let e ← pTyExpr; pure (.array n e)
  | "tup" => do let l ← P.list pTyExpr; pure (tupleOf l)
  | "slice" => do let e ← pTyExpr; pure (.slice e)
  | "vec" => do let e ← pTyExpr; pure (.vec e)
  | "vecdeque" => do let e ← pTyExpr; pure (.vecDeque e)
  | "opt" => do let e ← pTyExpr; pure (.option e)
  | "res" => do let a ← pTyExpr; let b ← pTyExpr; pure (.result a b)
  | "box" => do let e ← pTyExpr; pure (.box_ e)
  | "rc" => do let e ← pTyExpr; pure (.rc e)
  | "arc" => do let e ← pTyExpr; pure (.arc e)
  | "ref" => do let e ← pTyExpr; pure (.ref_ e)
  | "refmut" => do let e ← pTyExpr; pure (.refMut e)
  | "cow" => do let e ← pTyExpr; pure (.cow e)
  | "map" => do let a ← pTyExpr; let b ← pTyExpr; pure (.btreeMap a b)
  | "set" => do let e ← pTyExpr; pure (.btreeSet e)
  | "heap" => do let e ← pTyExpr; pure (.binaryHeap e)
  | "compact" => do let e ← pTyExpr; pure (.compact e)
  | "range" => do let e ← pTyExpr; pure (.range e)
  | "rangei" => do let e ← pTyExpr; pure (.rangeIncl e)
  | "ph" => do let e ← pTyExpr; pure (.phantom e)
  | "bitvec" => do let a ← pTyExpr; let b ← pTyExpr; pure (.bitVec a b)
  | "adt" => do let n ← P.nat; let l ← P.list pTyExpr; pure (.adt n (tupleOf l))
  | _ =>
    match num "nzu", num "nzi" with
    | some w, _ => pure (.nonZeroU w)
    | _, some w => pure (.nonZeroI w)
    | _, _ =>
      match num "u", num "i" with
      | some w, _ => pure (.uint w)
      | _, some w => pure (.sint w)
      | _, _ => P.fail

def pInt : P Int := do
  let t ← P.tok
  match t.toInt? with | some z => pure z | none => P.fail

partial def pVal : P Val := do
  let t ← P.tok
  let named : P (Option Str × Val) := do let n ← P.opt P.str; let v ← pVal; pure (n, v)
  match t with
  | "u" => do let b ← P.nat; let n ← P.nat; pure (.uint b n)
  | "i" => do let b ← P.nat; let z ← pInt; pure (.sint b z)
  | "b" => do let b ← P.bool; pure (.bool b)
  | "s" => do let s ← P.str; pure (.str s)
  | "seq" => do let l ← P.list pVal; pure (.seq l)
  | "arr" => do let l ← P.list pVal; pure (.array l)
  | "tup" => do let l ← P.list pVal; pure (.tuple l)
  | "comp" => do let l ← P.list named; pure (.composite l)
  | "var" => do let n ← P.str; let i ← P.nat; let l ← P.list named; pure (.variant n i l)
  | "cpt" => do let b ← P.nat; let n ← P.nat; pure (.compact b n)
  | "bits" => do let w ← P.nat; let m ← P.bool; let l ← P.list P.bool; pure (.bits w m l)
  | _ => P.fail

/-- identities reachable from `t` through the modelled impls, in discovery order -/
def closure (docs : Bool) : Nat → List TyExpr → List TyExpr → List TyExpr
  | 0, _, seen => seen
  | _ + 1, [], seen => seen
  | fuel + 1, t :: work, seen =>
    let i := identity t
    if seen.contains i then closure docs fuel work seen
    else match typeInfo docs i with
      | some ty => closure docs fuel (ty.refs ++ work) (seen ++ [i])
      | none => closure docs fuel work (seen ++ [i])

def blankTy : Ty Nat := { path := [], params := [], def_ := .tuple [], docs := [] }

/-- the model's registry for a root expression: Impls.typeInfo as the environment of the Registry model -/
def modelRegistry (docs : Bool) (t : TyExpr) : Option (PortableRegistry × Nat) :=
  let nodes := closure docs 100000 [t] []
  let env : Nat → Ty Nat := fun i =>
    match nodes[i]? with
    | some e => (match typeInfo docs e with
      | some ty => ty.map (fun r => nodes.idxOf (identity r))
      | none => blankTy)
    | none => blankTy
  match Registry.registerType env (nodes.length + 2) Registry.empty (nodes.idxOf (identity t)) with
  | some (s, id) => some (Registry.toPortable s, id)
  | none => none

def stdCase : P Verdict := do
  let docs ← P.bool
  let t ← pTyExpr
  let root ← P.nat
  let reg ← P.registry
  let vals ← P.list (do let v ← pVal; let b ← P.str; pure (v, b))
  let mut errs : List String := []
  if !Spec.wf reg then errs := errs ++ ["C01: registry of a built-in type is not dense and closed"]
  let fuel := reg.length + 64
  let mut k := 0
  for (v, bytes) in vals do
    match decodeGuarded reg fuel root bytes with
    | some (v', []) =>
      if v' != v then errs := errs ++ [s!"C04: value {k}: decoding the bytes from the registry description alone yields a different structure / leaf values"]
    | some (_, _ :: _) => errs := errs ++ [s!"C04: value {k}: the registry-directed decoder does not consume the encoding exactly"]
    | none => errs := errs ++ [s!"C04: value {k}: the registry-directed decoder cannot read the encoding"]
    k := k + 1
  if !errs.isEmpty then return .specfail (" ;; ".intercalate errs.eraseDups)
  -- correspondence
  match modelRegistry docs t with
  | none => return .diff "model: no registry"
  | some (mr, mid) =>
    if mid != root then return .diff s!"model root id {mid}"
    if mr != reg then return .diff s!"model registry differs: {Show.registry mr}"
    for (v, bytes) in vals do
      if Value.encode v != bytes then return .diff "model SCALE encoding of a value differs from parity-scale-codec's"
    return .ok (!vals.isEmpty)

/-- all corpus types registered into ONE registry (identity collisions and order effects show here):
    the registry must be a faithful image of the type graph from every (type, returned id) pair (C02, C05, C16),
    and every value must decode from the shared registry through the id its type was given (C04) -/
def stdAllCase : P Verdict := do
  let docs ← P.bool
  let roots ← P.list (do let t ← pTyExpr; let id ← P.nat; pure (t, id))
  let reg ← P.registry
  let vals ← P.list (do let j ← P.nat; let v ← pVal; let b ← P.str; pure (j, v, b))
  let ids2 ← P.list P.nat
  let reg2 ← P.registry
  let mut errs : List String := []
  if !Spec.wf reg then errs := errs ++ ["C01: the shared registry of the built-in corpus is not dense and closed"]
  if !Spec.wf reg2 then errs := errs ++ ["C01: the shared registry (reverse order) is not dense and closed"]
  -- C11: the same roots in reverse order give the same registry up to a renaming of ids
  if reg2.length != reg.length then errs := errs ++ ["C11: registering the same built-in types in reverse order gives a registry of different size"]
  match Spec.iso (Spec.regGraph reg2) (Spec.regGraph reg) (8 * (Spec.edgeCount (reg.map (·.ty)) + Spec.edgeCount (reg2.map (·.ty))) + 64)
      (ids2.zip (roots.map (·.2))) with
  | .error e => errs := errs ++ [s!"C11: registering the same built-in types in reverse order does not give the same registry up to renaming: {e}"]
  | .ok _ => pure ()
  -- model graph over declared identities
  let nodes := closure docs 1000000 (roots.map (·.1)) []
  let g1 : Nat → Option (Ty Nat) := fun i =>
    match nodes[i]? with
    | some e => (typeInfo docs e).map (fun ty => ty.map (fun r => nodes.idxOf (identity r)))
    | none => none
  let pairs := roots.map (fun p => (nodes.idxOf (identity p.1), p.2))
  let fuel := 8 * (Spec.edgeCount (reg.map (·.ty)) + nodes.length) + 64
  match Spec.iso g1 (Spec.regGraph reg) fuel pairs with
  | .error e => errs := errs ++ [s!"C02: shared registry is not a faithful image of the built-in definitions: {e} ;; C05: {e} ;; C16: {e}"]
  | .ok m =>
    if reg.length != nodes.length then
      errs := errs ++ [s!"C05: shared registry has {reg.length} entries for {nodes.length} distinct declared identities"]
    if m.length != nodes.length then errs := errs ++ ["C05: correspondence does not cover every declared identity"]
  let dfuel := reg.length + 64
  for (j, v, bytes) in vals do
    match roots[j]? with
    | none => errs := errs ++ ["value refers to no root"]
    | some (_, id) =>
      match decodeGuarded reg dfuel id bytes with
      | some (v', []) => if v' != v then errs := errs ++ [s!"C04: value of root {j}: decoding from the shared registry yields a different structure / leaf values"]
      | _ => errs := errs ++ [s!"C04: value of root {j}: the registry-directed decoder cannot read the encoding exactly from the shared registry"]
  if !errs.isEmpty then return .specfail (" ;; ".intercalate errs.eraseDups)
  return .ok true

def metaCase : P Verdict := do
  let a ← pTyExpr
  let b ← pTyExpr
  let eq ← P.bool
  let cmp ← P.bool
  let anti ← P.bool
  let hash ← P.bool
  let tid ← P.bool
  let info ← P.nat
  let pc ← P.bool     -- partial_cmp = Some(cmp) both ways and <, <=, >, >= agree with cmp
  let mut errs : List String := []
  if !pc then errs := errs ++ ["C16: partial_cmp or a comparison operator disagrees with cmp on MetaType"]
  if cmp != eq then errs := errs ++ ["C16: Ord is not consistent with == on MetaType"]
  if !anti then errs := errs ++ ["C16: cmp is not antisymmetric"]
  if eq && !hash then errs := errs ++ ["C16: equal MetaTypes hash differently"]
  if tid != eq then errs := errs ++ ["C16: == differs from equality of the declared identities (type_id)"]
  if eq && info == 0 then errs := errs ++ ["C16: two types declare the same identity but return different definitions"]
  if eq != (Spec.aliasNorm a == Spec.aliasNorm b) then
    errs := errs ++ [if eq then "C05: types that are not aliases of each other share an identity (would share an id)"
                     else "C05: aliases of one type declare different identities (would get different ids)"]
  if !errs.isEmpty then return .specfail (" ;; ".intercalate errs)
  if eq != (identity a == identity b) then return .diff "model identity"
  let rec hasAdt : TyExpr → Bool
    | .adt _ _ => true
    | .array _ t => hasAdt t | .tupleCons h r => hasAdt h || hasAdt r
    | .slice t => hasAdt t | .vec t => hasAdt t | .vecDeque t => hasAdt t | .option t => hasAdt t
    | .result t e => hasAdt t || hasAdt e | .box_ t => hasAdt t | .rc t => hasAdt t | .arc t => hasAdt t
    | .ref_ t => hasAdt t | .refMut t => hasAdt t | .cow t => hasAdt t | .btreeMap k v => hasAdt k || hasAdt v
    | .btreeSet t => hasAdt t | .binaryHeap t => hasAdt t | .compact t => hasAdt t | .range t => hasAdt t
    | .rangeIncl t => hasAdt t | .phantom t => hasAdt t | .bitVec s o => hasAdt s || hasAdt o
    | _ => false
  -- definitions of user types are the derive stream's business: compare definitions for built-in expressions only
  if info != 2 && !hasAdt a && !hasAdt b then
    let ma := (typeInfo false a).map (Ty.map identity)
    let mb := (typeInfo false b).map (Ty.map identity)
    if (ma == mb) != (info == 1) then return .diff "model type_info equality"
  return .ok (eq && a != b)

/-- two distinct user types with the same `type_name` (struct Twin(u8) and struct Twin(u16, bool)), registered in one registry in
    both orders: distinct identities get distinct ids and their own definitions (model: `C05.distinct_ids`, `one_entry_per_identity`) -/
def twinsCase : P Verdict := do
  let ia ← P.nat
  let ib ← P.nat
  let ia2 ← P.nat
  let nBefore ← P.nat
  let n ← P.nat
  let fa ← P.nat
  let fb ← P.nat
  let eq ← P.bool
  let mut errs : List String := []
  if eq then errs := errs ++ ["C16: two distinct types compare equal as MetaTypes"]
  if ia == ib then errs := errs ++ ["C05: two distinct type identities were given the same id"]
  if ia2 != ia then errs := errs ++ ["C05: registering a type again returned a different id"]
  -- Twin(u8), u8, Twin(u16, bool), u16, bool
  if n != 5 || nBefore != 5 then errs := errs ++ [s!"C05: registry has {n} entries for 5 reachable type identities"]
  if fa + fb != 3 || fa == fb then errs := errs ++ ["C02: an id does not resolve to the definition of the type it was handed out for"]
  if errs.isEmpty then pure (.ok true) else pure (.specfail (" ;; ".intercalate errs))

def lookupExpr (m : List (Nat × TyExpr)) (i : Nat) : Option TyExpr := (m.find? (fun p => p.1 == i)).map (·.2)

def tinfoCase : P Verdict := do
  let docs ← P.bool
  let t ← pTyExpr
  let ty ← P.ty
  let m ← P.list (do let i ← P.nat; let e ← pTyExpr; pure (i, e))
  let phantomAt (i : Nat) : Bool := match lookupExpr m i with | some e => isPhantom e | none => false
  let members : List Nat := match ty.def_ with
    | .composite fs => fieldRefs fs
    | .variant vs => variantRefs vs
    | .tuple ts => ts
    | _ => []
  let mut errs : List String := []
  if members.any phantomAt then errs := errs ++ ["C17: a built-in impl lists a PhantomData member as a field or tuple element"]
  match t, ty.def_ with
  | .array n _, .array m _ => if n != m then errs := errs ++ [s!"C04: array length of [T; {n}] is described as {m}"]
  | .array n _, _ => errs := errs ++ [s!"C04: [T; {n}] is not described as an array"]
  | _, _ => pure ()
  if !errs.isEmpty then return .specfail (" ;; ".intercalate errs)
  if ty.refs.any (fun i => (lookupExpr m i).isNone) then return .diff "a reference of the definition is not in the corpus table"
  match typeInfo docs t with
  | none => return .unmodelled "no model for this type expression"
  | some mt =>
    let norm : Ty TyExpr := ty.map (fun i => identity ((lookupExpr m i).getD .tuple0))
    if mt.map identity != norm then return .diff "model type_info differs"
    return .ok (!ty.refs.isEmpty)

end Driver
end SIM
