/-
  SIM.Driver.Schema — driver mode for the `schema` stream (C19). The schema is the one the real code
  generated on this run (SIM.Extracted.Schema); `flag` is the verdict of the python `jsonschema`
  reference validator on the same document and the same (real) schema.
-/
import SIM.Driver.Json
import SIM.Model.Schema
import SIM.Extracted.Schema
namespace SIM
namespace Driver
open JsonM SchemaM

def schemaCase : P Verdict := do
  let flag ← P.bool
  let kind ← P.tok
  match kind with
  | "ser" => do
    let reg ← P.registry
    let j ← pJson
    let mine := validates Extracted.schemaDefs SchemaM.fuel Extracted.schemaRoot j
    if !flag then pure (.specfail "C19: the generated JSON Schema rejects the serialisation of a registry (jsonschema)")
    else if !mine then pure (.specfail "C19: the generated JSON Schema rejects the serialisation of a registry (Lean validator)")
    else if canon (ofRegistry reg) != canon j then pure (.diff "model serialisation differs from serde's")
    else pure (.ok (reg.length > 0))
  | "mut" => do
    let j ← pJson
    let mine := validates Extracted.schemaDefs SchemaM.fuel Extracted.schemaRoot j
    if mine != flag then pure (.diff s!"validators disagree: jsonschema {flag}, Lean {mine}")
    else pure (.ok (!flag))
  | _ => P.fail

end Driver
end SIM
