/-
  SIM.Driver.Build — driver mode for the `build` stream (C17).
-/
import SIM.Driver.Basic
import SIM.Model.Build
import SIM.Spec.Build
namespace SIM
namespace Driver
open Build

def pFree : String → P (Option Free)
  | "tn" => do let s ← P.str; pure (some (.typeName s))
  | "d" => do let l ← P.list P.str; pure (some (.docs l))
  | "da" => do let l ← P.list P.str; pure (some (.docsAlways l))
  | "dp" => do let l ← P.list P.str; pure (some (.docsPortable l))
  | _ => pure none

def pFCall : P (FCall Nat) := do
  let t ← P.tok
  match t with
  | "n" => do let s ← P.str; pure (.name s)
  | "ty" => do let r ← P.nat; pure (.ty r)
  | _ => do
    match (← pFree t) with
    | some f => pure (.free f)
    | none => P.fail

def pFields : P (List (List (FCall Nat))) := do
  let _kind ← P.tok
  P.list (P.list pFCall)

def pVCall : P (VCall Nat) := do
  let t ← P.tok
  match t with
  | "idx" => do let n ← P.nat; pure (.index n)
  | "disc" => do let n ← P.nat; pure (.discriminant n)
  | "fs" => do let fbs ← pFields; pure (.fields fbs)
  | _ => do
    match (← pFree t) with
    | some f => pure (.free f)
    | none => P.fail

def pTCall : P (TCall Nat) := do
  let t ← P.tok
  match t with
  | "path" => do let p ← P.list P.str; pure (.path p)
  | "tp" => do let ps ← P.list P.param; pure (.typeParams ps)
  | _ => do
    match (← pFree t) with
    | some f => pure (.free f)
    | none => P.fail

def pTerm : P (Term Nat) := do
  let t ← P.tok
  match t with
  | "comp" => do let fbs ← pFields; pure (.composite fbs)
  | "var" => do
    let vs ← P.list (do let n ← P.str; let cs ← P.list pVCall; pure (n, cs))
    pure (.variant vs)
  | _ => P.fail

def showOptTy : Option (Ty Nat) → String
  | some t => "ok " ++ Show.ty t
  | none => "panic"

def build : P Verdict := do
  let kind ← P.tok
  match kind with
  | "prog" => do
    let form ← P.tok
    let docs ← P.bool
    let calls ← P.list pTCall
    let term ← pTerm
    let res ← P.tok
    let obs ← (match res with
      | "ok" => do let t ← P.ty; pure (some t)
      | "panic" => pure none
      | _ => P.fail)
    let cfg : Cfg := { docs := docs }
    let isPh : Nat → Bool := if form == "m" then (· == 8) else (fun _ => false)
    let spec := Spec.buildExpected cfg isPh calls term
    let model := Build.run cfg isPh calls term
    if spec != obs then
      pure (.specfail s!"C17: built type differs from what was supplied (order kept, PhantomData dropped, docs gated): expected {showOptTy spec} got {showOptTy obs}")
    else if model != obs then pure (.diff s!"model {showOptTy model}")
    else pure (.ok (match obs with | some t => !t.refs.isEmpty || !t.docs.isEmpty | none => true))
  | "tuple" => do
    let toks ← P.list P.nat
    let obs ← P.ty
    let want := Build.ofDef (Build.tupleNew (fun (r : Nat) => r == 8) toks)
    if obs.def_.refs.any (· == 8) then pure (.specfail "C17: a PhantomData member is listed as a tuple element")
    else if obs != want then pure (.specfail s!"C17: TypeDefTuple::new does not list exactly the non-PhantomData members in order: expected {Show.ty want} got {Show.ty obs}")
    else pure (.ok (toks.any (· == 8)))
  | _ => P.fail

end Driver
end SIM
