/-
  SIM.Driver.Json — driver mode for the `json` stream (C08, JSON half of C14).
-/
import SIM.Driver.Basic
import SIM.Model.Json
import SIM.Spec.JsonShape
namespace SIM
namespace Driver
open JsonM

/-- token form of a JSON value: `n` | `t` | `f` | `i <nat>` | `j` | `s <str>` | `a <list>` | `o <n> (<str key> <value>)*` -/
partial def pJson : P Json := do
  let t ← P.tok
  match t with
  | "n" => pure .null
  | "t" => pure (.bool true)
  | "f" => pure (.bool false)
  | "i" => do let n ← P.nat; pure (.num n)
  | "j" => pure .badnum
  | "s" => do let s ← P.str; pure (.str s)
  | "a" => do let l ← P.list pJson; pure (.arr l)
  | "o" => do
    let kv ← P.list (do let k ← P.str; let v ← pJson; pure (Key.ofText k, v))
    pure (.obj kv)
  | _ => P.fail

/-- canonical form: object members sorted by key text (serde_json's map is ordered by key; order is not part of the property) -/
partial def canon : Json → Json
  | .arr l => .arr (l.map canon)
  | .obj kv => .obj ((kv.map (fun p => (p.1, canon p.2))).mergeSort (fun a b => a.1.text ≤ b.1.text))
  | j => j

def showDe : De PortableRegistry → String
  | .ok r => "ok " ++ Show.registry r
  | .error .reject => "err"
  | .error .unmodelled => "unmodelled"

def json : P Verdict := do
  let kind ← P.tok
  match kind with
  | "ser" => do
    let reg ← P.registry
    let j ← pJson
    let rt ← P.bool
    let mut errs : List String := []
    if !Spec.jsonShape j then errs := errs ++ ["C08: serialised registry does not have the documented JSON shape"]
    if !rt then errs := errs ++ ["C08: from_value(to_value(r)) != r"]
    match toRegistry j with
    | .ok r' => if r' != reg then errs := errs ++ ["C08: an independent reader of the documented shape recovers a different registry"]
    | .error _ => errs := errs ++ ["C08: an independent reader of the documented shape rejects the serialised registry"]
    if !errs.isEmpty then pure (.specfail (" ;; ".intercalate errs))
    else if canon (ofRegistry reg) != canon j then pure (.diff "model serialisation differs from serde's")
    else pure (.ok (reg.length > 0))
  | "pos" => do
    -- the positional form of a whole registry, built by the harness: must be the document `posOfRegistry` writes, and serde must
    -- read it back as the registry (`C08pos.toRegistry_posOfRegistry` says the model reader does)
    let reg ← P.registry
    let j ← pJson
    let res ← P.tok
    if canon j != canon (posOfRegistry reg) then pure (.diff "harness and model write different positional documents")
    else match res with
    | "panic" => pure (.specfail "C14: deserialising JSON panicked")
    | "err" => pure (.diff "serde rejects the positional form of a registry; the model reader accepts it")
    | "ok" => do
      let r' ← P.registry
      if r' != reg then pure (.diff "serde reads the positional form back as a different registry")
      else if toRegistry j != .ok reg then pure (.diff "model reader does not read the positional form back")
      else pure (.ok (reg.length > 0))
    | _ => P.fail
  | "de" => do
    let j ← pJson
    let res ← P.tok
    let model := toRegistry j
    match res with
    | "panic" => pure (.specfail "C14: deserialising JSON panicked")
    | "err" =>
      match model with
      | .error .reject => pure (.ok true)
      | .error .unmodelled => pure (.unmodelled "input form outside the serde model")
      | .ok _ => pure (.diff "model accepts a document serde rejects")
    | "ok" => do
      let reg ← P.registry
      match model with
      | .ok r' => if r' != reg then pure (.diff s!"model reads a different registry: {showDe model}") else pure (.ok true)
      | .error .unmodelled => pure (.unmodelled "input form outside the serde model")
      | .error .reject => pure (.diff "model rejects a document serde accepts")
    | _ => P.fail
  | _ => P.fail

end Driver
end SIM
