/-
  SIM.Driver.Basic — driver modes for the streams `interner`, `builder`, `path`.
  Each function takes the tokens after `<stream> <case>` and returns a verdict:
  `OK`, `DIFF <what>` (model ≠ implementation), `SPECFAIL <clause>` (the property's
  spec predicate is false on the implementation's output), `PARSE`.
-/
import SIM.Model.Proto
import SIM.Model.Interner
import SIM.Model.Builder
import SIM.Model.Path
import SIM.Spec.Basic
namespace SIM
namespace Driver

inductive Verdict
  | ok (nontrivial : Bool)
  | diff (msg : String)
  | specfail (msg : String)
  | unmodelled (msg : String)
  | parse

def Verdict.render : Verdict → String
  | .ok true => "OK nt"
  | .ok false => "OK tr"
  | .diff m => "DIFF " ++ m
  | .specfail m => "SPECFAIL " ++ m
  | .unmodelled m => "UNMODELLED " ++ m
  | .parse => "PARSE"

/-- run a parser on a token list, `PARSE` when it fails or leaves tokens -/
def runP (p : P Verdict) (toks : List String) : Verdict :=
  match p toks with
  | some (.ok nt, []) => .ok nt
  | some (.ok _, _ :: _) => .parse
  | some (v, _) => v     -- a failing verdict ends the case early; the rest of the line is not read
  | none => .parse

/-! ### interner: ops over `Nat` values -/

def internerOps : Nat → Nat → Interner Nat → List Nat → Bool → P Verdict
  | 0, _, _, _, nt => pure (.ok nt)
  | n + 1, k, it, spec, nt => do
    let op ← P.tok
    match op with
    | "i" => do
      let v ← P.nat
      let ins ← P.bool
      let id ← P.nat
      let m := it.internOrGet v
      let s := DL.intern spec v
      if (s.1, s.2.1) != (ins, id) then
        pure (.specfail s!"op {k}: intern_or_get {v}: duplicate-free list gives ({s.1}, {s.2.1}), impl ({ins}, {id})")
      else if (m.1, m.2.1) != (ins, id) then
        pure (.diff s!"op {k}: intern_or_get {v}: model ({m.1}, {m.2.1}) impl ({ins}, {id})")
      else internerOps n (k + 1) m.2.2 s.2.2 (nt || !ins)
    | "g" => do
      let v ← P.nat
      let r ← P.opt P.nat
      if DL.get spec v != r then pure (.specfail s!"op {k}: get {v}: list gives {DL.get spec v}, impl {r}")
      else if it.get v != r then pure (.diff s!"op {k}: get {v}: model {it.get v} impl {r}")
      else internerOps n (k + 1) it spec nt
    | "r" => do
      let sym ← P.nat
      let r ← P.opt P.nat
      if DL.resolve spec sym != r then pure (.specfail s!"op {k}: resolve {sym}: list gives {DL.resolve spec sym}, impl {r}")
      else if it.resolve sym != r then pure (.diff s!"op {k}: resolve {sym}: model {it.resolve sym} impl {r}")
      else internerOps n (k + 1) it spec nt
    | "e" => do
      let l ← P.list P.nat
      if spec != l then pure (.specfail s!"op {k}: elements: list {spec} impl {l}")
      else if it.elements != l then pure (.diff s!"op {k}: elements: model {it.elements} impl {l}")
      else internerOps n (k + 1) it spec nt
    | _ => P.fail

def interner : P Verdict := do
  let n ← P.nat
  internerOps n 0 Interner.empty [] false

/-! ### builder -/

def optTy (o : Option (Ty Nat)) : String := Show.opt Show.ty o

/-- the builder history against the duplicate-free list (C12) and, at every `finish`, against C01: all failing clauses of a history
    are collected (a wrong answer early on does not hide what `finish` then hands out); the list and the model are advanced by
    their own answers, so the clauses after a first deviation still compare like with like -/
def builderOps : Nat → Nat → Builder → List (Ty Nat) → Bool → List String → P Verdict
  | 0, _, _, _, nt, errs => pure (if errs.isEmpty then .ok nt else .specfail (" ;; ".intercalate errs.eraseDups))
  | n + 1, k, b, spec, nt, errs => do
    let op ← P.tok
    match op with
    | "reg" => do
      let t ← P.ty
      let id ← P.nat
      let m := b.registerType t
      let s := DL.intern spec t
      if s.2.1 != id then
        builderOps n (k + 1) m.2 s.2.2 (nt || !s.1) (errs ++ [s!"op {k}: register_type: duplicate-free list gives {s.2.1}, impl {id}"])
      else if m.1 != id then pure (.diff s!"op {k}: register_type: model {m.1} impl {id}")
      else builderOps n (k + 1) m.2 s.2.2 (nt || !s.1) errs
    | "next" => do
      let id ← P.nat
      if spec.length != id then builderOps n (k + 1) b spec nt (errs ++ [s!"op {k}: next_type_id: list length {spec.length}, impl {id}"])
      else if b.nextTypeId != id then pure (.diff s!"op {k}: next_type_id: model {b.nextTypeId} impl {id}")
      else builderOps n (k + 1) b spec nt errs
    | "get" => do
      let i ← P.nat
      let r ← P.opt P.ty
      if spec[i]? != r then builderOps n (k + 1) b spec nt (errs ++ [s!"op {k}: get {i}: list gives {optTy spec[i]?}, impl {optTy r}"])
      else if b.get i != r then pure (.diff s!"op {k}: get {i}: model {optTy (b.get i)} impl {optTy r}")
      else builderOps n (k + 1) b spec nt errs
    | "fin" => do
      let reg ← P.registry
      let mut e : List String := []
      if reg.map (·.ty) != spec then e := e ++ [s!"op {k}: finish: does not list the values at their indices"]
      if !Spec.dense reg then e := e ++ [s!"op {k}: finish: C01 dense: some entry has id != index"]
      -- the caller kept to the protocol of the list model: every reference it registered is below the number of distinct values
      if spec.all (fun t => t.refs.all (· < spec.length)) && !Spec.wf reg then
        e := e ++ [s!"op {k}: finish: C01 closed: all registered references are below next_type_id but the registry is not closed"]
      if e.isEmpty && errs.isEmpty && b.finish != reg then pure (.diff s!"op {k}: finish: model {Show.registry b.finish} impl {Show.registry reg}")
      else builderOps n (k + 1) b spec nt (errs ++ e)
    | _ => P.fail

def builder : P Verdict := do
  let _closed ← P.bool
  let n ← P.nat
  builderOps n 0 Builder.new [] false []

/-! ### path -/

structure PathObs where
  segs : List Str
  ident : Option Str
  ns : List Str
  display : Str

def pathObs : P PathObs := do
  let segs ← P.list P.str
  let ident ← P.opt P.str
  let ns ← P.list P.str
  let d ← P.str
  pure { segs := segs, ident := ident, ns := ns, display := d }

/-- the accessor clauses of C18 on an observed path -/
def accessorsOk (o : PathObs) : Option String :=
  if o.ident != o.segs.getLast? then some "ident is not the last segment"
  else if o.ns != o.segs.dropLast then some "namespace is not the remaining segments"
  else if o.display != PathM.display o.segs then some "display is not the segments joined by ::"
  else none

/-- the spec of `from_segments`, stated with `Spec.isIdent` only -/
def specFromSegments (segs : List Str) : Except PathM.PathError (List Str) :=
  if segs.isEmpty then .error .missingSegments
  else match PathM.position (fun s => !Spec.isIdent s) segs with
    | some i => .error (.invalidIdentifier i)
    | none => .ok segs

def showRes : Except PathM.PathError (List Str) → String
  | .ok p => "ok " ++ Show.list Show.str p
  | .error .missingSegments => "em"
  | .error (.invalidIdentifier i) => s!"ei {i}"

def path : P Verdict := do
  let kind ← P.tok
  match kind with
  | "seg" => do
    let segs ← P.list P.str
    let res ← P.tok
    let model := PathM.fromSegments segs
    let spec := specFromSegments segs
    match res with
    | "panic" => pure (.specfail "from_segments panicked")
    | "em" =>
      if spec != .error .missingSegments then pure (.specfail s!"spec {showRes spec} impl em")
      else if model != .error .missingSegments then pure (.diff s!"model {showRes model} impl em")
      else pure (.ok false)
    | "ei" => do
      let i ← P.nat
      if spec != .error (.invalidIdentifier i) then pure (.specfail s!"spec {showRes spec} impl ei {i}")
      else if model != .error (.invalidIdentifier i) then pure (.diff s!"model {showRes model} impl ei {i}")
      else pure (.ok true)
    | "ok" => do
      let o ← pathObs
      if spec != .ok o.segs then pure (.specfail s!"spec {showRes spec} impl ok {Show.list Show.str o.segs}")
      else if o.segs != segs then pure (.specfail "segment order not kept")
      else match accessorsOk o with
        | some m => pure (.specfail m)
        | none =>
          if model != .ok o.segs then pure (.diff s!"model {showRes model} impl ok {Show.list Show.str o.segs}")
          else pure (.ok true)
    | _ => P.fail
  | "new" => do
    let plain ← P.bool
    let ident ← P.str
    let module ← P.str
    let table0 ← P.list (do let a ← P.str; let b ← P.str; pure (a, b))
    -- `Path::new` takes no replacement table
    let table := if plain then [] else table0
    let res ← P.tok
    let model := PathM.newWithReplace ident module table
    -- spec: segments = module split at "::" ++ [ident], each replaced by its first matching row
    let want := (PathM.splitColons [] module ++ [ident]).map (PathM.replaceSeg table)
    let spec := specFromSegments want
    match res with
    | "panic" =>
      match spec with
      | .ok _ => pure (.specfail "every segment (after replacement) is an identifier but construction failed")
      | .error _ => if model != none then pure (.diff "model accepts, impl panics") else pure (.ok true)
    | "ok" => do
      let o ← pathObs
      if spec != .ok o.segs then pure (.specfail s!"spec {showRes spec} impl ok {Show.list Show.str o.segs}")
      else match accessorsOk o with
        | some m => pure (.specfail m)
        | none =>
          if model != some o.segs then pure (.diff s!"model {Show.opt (Show.list Show.str) model} impl ok {Show.list Show.str o.segs}")
          else pure (.ok true)
    | _ => P.fail
  | _ => P.fail

end Driver
end SIM
