/-
  SIM.Driver.Neg — driver mode for the `neg` stream (C20, C13): programs compiled on their own by rustc;
  the observed verdict (`ok` / `err`) is compared with the typestate / attribute / bounds models.
-/
import SIM.Driver.Std
import SIM.Model.Typestate
import SIM.Model.Bounds
import SIM.Spec.Typestate
namespace SIM
namespace Driver
open Typestate Bounds Spec

def pFStep : P FStep := do
  let t ← P.tok
  match t with
  | "name" => pure .name | "ty" => pure .ty | "tn" => pure .typeName | "docs" => pure .docs
  | "compact" => pure .ty     -- `.compact::<T>()` has the typestate signature of `.ty::<T>()` (TypeNotAssigned → TypeAssigned)
  | _ => P.fail

def pFieldsProg : P FieldsProg := do
  let k ← P.tok
  let kind ← (match k with | "u" => pure FKind.unit | "n" => pure FKind.named | "x" => pure FKind.unnamed | _ => P.fail)
  let fs ← P.list (P.list pFStep)
  pure { kind := kind, fields := fs }

def pVStep : P VStep := do
  let t ← P.tok
  match t with
  | "idx" => pure .index | "disc" => pure .discriminant | "docs" => pure .docs
  | "fs" => do let fp ← pFieldsProg; pure (.fields fp)
  | _ => P.fail

def pTStep : P TStep := do
  let t ← P.tok
  match t with
  | "path" => pure .path | "tp" => pure .typeParams | "docs" => pure .docs
  | "comp" => do let fp ← pFieldsProg; pure (.composite fp)
  | "var" => do let vs ← P.list (P.list pVStep); pure (.variant vs)
  | _ => P.fail

def pAttr : P Attr := do
  let t ← P.tok
  match t with
  | "bounds" => do let l ← P.list P.str; pure (.bounds l)
  | "skip" => do let l ← P.list P.str; pure (.skipTypeParams l)
  | "cap" => do let s ← P.str; pure (.captureDocs s)
  | "crate" => pure .crate_ | "rep" => pure .replaceSegment | "unk" => pure .unknown
  | _ => P.fail

def negCase : P Verdict := do
  let cls ← P.tok
  match cls with
  | "bld" => do
    let _form ← P.tok
    let prog ← P.list pTStep
    let verdict ← P.tok
    let _code ← P.tok
    let ok := verdict == "ok"
    if illFormed prog && ok then
      pure (.specfail "C20: a builder program without a path / with a variant without index / a field without type / a named field among unnamed ones (or the converse) compiles")
    else if accepts prog != ok then pure (.diff s!"typestate model says {accepts prog}, rustc says {verdict}")
    else pure (.ok (!ok))
  | "attr" => do
    let union ← P.bool
    let params ← P.list P.str
    let attrs ← P.list pAttr
    let verdict ← P.tok
    let _code ← P.tok
    let ok := verdict == "ok"
    let acc := deriveAccepts union params attrs
    if !acc && ok then
      pure (.specfail "C20: the derive emitted an implementation for a union / an unknown scale_info attribute / a repeated bounds, skip_type_params, capture_docs or crate attribute / an invalid capture_docs value / a bounds attribute leaving a non-skipped parameter unbound")
    else if acc != ok then pure (.diff s!"attribute model says accept, rustc says {verdict}")
    else pure (.ok (!ok))
  | "gen" => do
    let qself ← P.bool
    let params ← P.list (do let n ← P.str; let s ← P.bool; pure ({ name := n, skipped := s } : GParam))
    let custom ← P.opt (P.list P.nat)
    let fields ← P.list (do let s ← P.bool; let c ← P.bool; let t ← pTyExpr; pure ({ ty := t, skip := s, compact := c } : GField))
    let inst ← P.list pTyExpr
    let verdict ← P.tok
    let _code ← P.tok
    let ok := verdict == "ok"
    let d : GDecl := { params := params, customBounds := custom, fields := fields }
    if Spec.usableSpec d inst && !ok then
      pure (.specfail ((if qself then "[qualified-self] " else "") ++ "C13: the derived impl is not usable for an instantiation in which the non-skipped parameters and the encoded members' types have type info"))
    else if qself then pure (.ok true)   -- the model writes self references with the bare identifier only
    else if usable d inst != ok then pure (.diff s!"bounds model says usable = {usable d inst}, rustc says {verdict}")
    else pure (.ok true)
  | _ => P.fail

end Driver
end SIM
