/-
  SIM.Driver.Derive — driver mode for the `derive` stream (C09, C03, derive clause of C17):
  generated declarations compiled against /repo; per instantiation the real `type_info()`, the real
  registry and the real encodings of a few values.
-/
import SIM.Driver.Std
import SIM.Model.Derive
import SIM.Spec.Derive
namespace SIM
namespace Driver
open Derive

def pFieldD : P FieldD := do
  let ident ← P.opt P.str
  let ty ← pTyExpr
  let text ← P.str
  let skip ← P.bool
  let compact ← P.bool
  let enc ← P.bool
  let rename ← P.opt P.str
  let docs ← P.list P.str
  pure { ident := ident, ty := ty, tyText := text, skip := skip, compact := compact, encodedAs := enc, rename := rename, docs := docs }

def pShapeD : P ShapeD := do
  let t ← P.tok
  match t with
  | "u" => pure .unit
  | "n" => do let fs ← P.list pFieldD; pure (.named fs)
  | "x" => do let fs ← P.list pFieldD; pure (.unnamed fs)
  | _ => P.fail

def pVariantD : P VariantD := do
  let ident ← P.str
  let shape ← pShapeD
  let skip ← P.bool
  let ci ← P.opt P.nat
  let disc ← P.opt P.nat
  let docs ← P.list P.str
  pure { ident := ident, shape := shape, skip := skip, codecIndex := ci, discriminant := disc, docs := docs }

def pDecl : P Decl := do
  let ident ← P.str
  let mp ← P.str
  let params ← P.list (do let n ← P.str; let s ← P.bool; let a ← pTyExpr; pure ({ name := n, skipped := s, arg := a } : TParamD))
  let cap ← P.tok
  let capture ← (match cap with | "n" => pure Capture.never | "d" => pure Capture.default | "a" => pure Capture.always | _ => P.fail)
  let replace ← P.list (do let a ← P.str; let b ← P.str; pure (a, b))
  let docs ← P.list P.str
  let k ← P.tok
  let body ← (match k with
    | "s" => do let s ← pShapeD; pure (BodyD.struct s)
    | "e" => do let vs ← P.list pVariantD; pure (BodyD.enum vs)
    | _ => P.fail)
  pure { ident := ident, modulePath := mp, params := params, capture := capture, replace := replace, docs := docs, body := body }

/-- normal form for comparison: references by declared identity, type names without spaces -/
def normField (f : Field TyExpr) : Field TyExpr :=
  { f with ty := Impls.identity f.ty, typeName := f.typeName.map Spec.stripWs }

def normTy (t : Ty TyExpr) : Ty TyExpr :=
  { path := t.path,
    params := t.params.map (fun p => { p with ty := p.ty.map Impls.identity }),
    def_ := (match t.def_ with
      | .composite fs => .composite (fs.map normField)
      | .variant vs => .variant (vs.map (fun v => { v with fields := v.fields.map normField }))
      | d => d.map Impls.identity),
    docs := t.docs }

def hasEncodedAs (d : Decl) : Bool :=
  let fs := match d.body with
    | .struct s => shapeFields s
    | .enum vs => vs.flatMap (fun (v : VariantD) => shapeFields v.shape)
  fs.any (fun f => f.encodedAs && !f.skip)

def deriveCase : P Verdict := do
  let docs ← P.bool
  let reachesEncodedAs ← P.bool
  let d ← pDecl
  let ty ← P.ty
  let m ← P.list (do let i ← P.nat; let e ← pTyExpr; pure (i, e))
  let root ← P.nat
  let reg ← P.registry
  let vals ← P.list (do let v ← pVal; let b ← P.str; pure (v, b))
  let mut errs : List String := []
  if ty.refs.any (fun i => (lookupExpr m i).isNone) then return .diff "a reference of the definition is not in the program's type table"
  let obs : Ty TyExpr := normTy (ty.map (fun i => (lookupExpr m i).getD .tuple0))
  -- C09: the metadata mirrors the declaration
  match Spec.deriveExpected id docs d with
  | none => errs := errs ++ ["C09: the declaration's path is not a list of identifiers but type_info() returned"]
  | some want =>
    let want := normTy want
    if obs.path != want.path then errs := errs ++ ["C09: path is not module path + identifier with replace_segment applied"]
    if obs.params != want.params then errs := errs ++ ["C09: type parameters are not listed by name in declaration order with the argument's type (none when skipped)"]
    if obs.docs != want.docs then errs := errs ++ ["C09: type docs not captured as specified (capture_docs / docs feature / one leading space)"]
    if obs.def_ != want.def_ then errs := errs ++ ["C09: members / variants do not mirror the declaration (order, names, renames, compact, type names up to whitespace, indices, docs)"]
    -- C17 for the derive: exactly the declared members that are neither `#[codec(skip)]` nor PhantomData markers are listed, in order
    let memberTys : TypeDef TyExpr → List (List TyExpr) := fun d => match d with
      | .composite fs => [fieldRefs fs]
      | .variant vs => vs.map (fun v => fieldRefs v.fields)
      | _ => []
    if memberTys obs.def_ != memberTys want.def_ then
      errs := errs ++ ["C17: the derived definition does not list exactly the declared members that are not PhantomData markers (a data-carrying member is missing, or a marker / skipped member is listed)"]
  -- C17: PhantomData members never listed
  let members : List TyExpr := match obs.def_ with
    | .composite fs => fieldRefs fs
    | .variant vs => variantRefs vs
    | _ => []
  if members.any Impls.isPhantom then errs := errs ++ ["C17: the derive lists a PhantomData member as a field"]
  -- C01 / C03
  if !Spec.wf reg then errs := errs ++ ["C01: registry of a derived type is not dense and closed"]
  let fuel := reg.length + 64
  let mut k := 0
  for (v, bytes) in vals do
    match decodeGuarded reg fuel root bytes with
    | some (v', []) =>
      if v' != v then errs := errs ++ [s!"C03: value {k}: decoding the derived Encode output from the registry alone yields a different variant / field names / order / leaf values"]
    | some (v', r :: rs) => errs := errs ++ [s!"C03: value {k}: the registry-directed decoder does not consume the encoding exactly ({(r :: rs).length} bytes left; read {((toString (repr v')).replace "\n" " ").take 600})"]
    | none => errs := errs ++ [s!"C03: value {k}: the registry-directed decoder cannot read the encoding"]
    match v, bytes with
    | .variant _ idx _, b :: _ => if b.toNat != idx then errs := errs ++ [s!"C03: value {k}: the first byte of the encoding is not the variant index of the metadata"]
    | _, _ => pure ()
    k := k + 1
  if !errs.isEmpty then
    let tag := if hasEncodedAs d || reachesEncodedAs then "[encoded_as] " else ""
    return .specfail (tag ++ " ;; ".intercalate errs.eraseDups)
  -- correspondence with the model of the macro
  match Derive.typeInfo docs d with
  | none => return .diff "model: path constructor panics"
  | some mt =>
    if normTy mt != obs then
      let m := normTy mt
      let what := (if m.path != obs.path then "path " else "") ++ (if m.params != obs.params then "params " else "") ++
        (if m.docs != obs.docs then "docs " else "") ++ (if m.def_ != obs.def_ then "def " else "")
      return .diff s!"model type_info of the derive differs in: {what}"
    for (v, bytes) in vals do
      if Value.encode v != bytes then return .diff "model SCALE encoding of a value differs from the codec derive's"
    return .ok true

end Driver
end SIM
