/-
  C03 — the derived `TypeInfo` describes exactly the bytes the derived `Encode` writes: every value of a
  derived (or built-in) type, nested to any depth, is well typed against any registry that describes the
  types faithfully, hence a decoder that knows only the registry and the SCALE rules reads it back exactly.
  Skipped members are neither described nor encoded, compact members are described as compact, the variant
  index of the metadata is the first byte; `#[codec(encoded_as)]` is the boundary (counterexample).

  `derived_typed` / `derived_roundtrip` as first stated are FALSE (`derived_typed_false`,
  `derived_roundtrip_false` below): `FaithfulD.decls` constrains a declaration only when `.adt n a` itself
  belongs to `S`, but `S` may contain only an alias of it (`Box<Adt>`; `FaithfulD.closed` follows the
  references of the *definition*, and the definition of `Box<Adt>` is that of `Adt`). The `_partial`
  versions add the missing closure hypothesis: the identity of a member of `S`, when it is a user type,
  is a member of `S` (true of every set of registered types: a registry is keyed by identities).
-/
import SIM.Lemmas.ValueD
import SIM.Props.C04
namespace SIM
namespace C03
open Value Spec Impls Derive

/-- every value of a derived (or built-in) type is well typed against any registry that describes the types faithfully
    (`hadt`: `S` contains the user type behind each of its aliases) -/
theorem derived_typed_gen (docs : Bool) (env : TyExpr → Option Decl) (S : TyExpr → Prop) (reg : PortableRegistry) (idOf : TyExpr → Nat)
    (hf : FaithfulD docs env S reg idOf)
    (hadt : ∀ t n a, S t → identity t = .adt n a → S (.adt n a))
    (t : TyExpr) (v : Val) (hs : S t) (hv : ValOfD env t v) : HasTy reg (idOf t) v :=
  derived_typed_aux hf hadt t v hv (DescD.of hs)

/-- **C03.** a decoder that knows only the registry and the SCALE rules consumes the derived encoding exactly and recovers the same variant,
    field names, field order and leaf values — for every declaration of the grammar without `encoded_as`, every instantiation, every value -/
theorem derived_roundtrip_gen (docs : Bool) (env : TyExpr → Option Decl) (S : TyExpr → Prop) (reg : PortableRegistry) (idOf : TyExpr → Nat)
    (hf : FaithfulD docs env S reg idOf)
    (hadt : ∀ t n a, S t → identity t = .adt n a → S (.adt n a))
    (t : TyExpr) (v : Val) (hs : S t) (hv : ValOfD env t v) (rest : Codec.Bytes) :
    ∃ fuel, decodeVal reg fuel (idOf t) (encode v ++ rest) = some (v, rest) :=
  C04.decode_encode reg (idOf t) v (derived_typed_gen docs env S reg idOf hf hadt t v hs hv) rest

/-- the same for a set of types closed under `identity` (what a registry holds) -/
theorem derived_typed_of_identity_closed (docs : Bool) (env : TyExpr → Option Decl) (S : TyExpr → Prop) (reg : PortableRegistry)
    (idOf : TyExpr → Nat) (hf : FaithfulD docs env S reg idOf) (hid : ∀ t, S t → S (identity t))
    (t : TyExpr) (v : Val) (hs : S t) (hv : ValOfD env t v) : HasTy reg (idOf t) v :=
  derived_typed_gen docs env S reg idOf hf (fun t _ _ h e => e ▸ hid t h) t v hs hv

theorem derived_roundtrip_of_identity_closed (docs : Bool) (env : TyExpr → Option Decl) (S : TyExpr → Prop) (reg : PortableRegistry)
    (idOf : TyExpr → Nat) (hf : FaithfulD docs env S reg idOf) (hid : ∀ t, S t → S (identity t))
    (t : TyExpr) (v : Val) (hs : S t) (hv : ValOfD env t v) (rest : Codec.Bytes) :
    ∃ fuel, decodeVal reg fuel (idOf t) (encode v ++ rest) = some (v, rest) :=
  derived_roundtrip_gen docs env S reg idOf hf (fun t _ _ h e => e ▸ hid t h) t v hs hv rest

/-- the top-level type is a user type or a built-in type over user types that are themselves in `S`: no closure needed
    when `S` holds no alias at all -/
theorem derived_typed_of_no_alias (docs : Bool) (env : TyExpr → Option Decl) (S : TyExpr → Prop) (reg : PortableRegistry)
    (idOf : TyExpr → Nat) (hf : FaithfulD docs env S reg idOf) (hid : ∀ t, S t → identity t = t)
    (t : TyExpr) (v : Val) (hs : S t) (hv : ValOfD env t v) : HasTy reg (idOf t) v :=
  derived_typed_gen docs env S reg idOf hf (fun t _ _ h e => by rw [hid t h] at e; exact e ▸ h) t v hs hv

/-- every value of a derived (or built-in) type is well typed against any registry that describes the types faithfully -/
theorem derived_typed (docs : Bool) (env : TyExpr → Option Decl) (S : TyExpr → Prop) (reg : PortableRegistry) (idOf : TyExpr → Nat)
    (hf : FaithfulD docs env S reg idOf) (t : TyExpr) (v : Val) (hs : S t) (hv : ValOfD env t v) : HasTy reg (idOf t) v :=
  derived_typed_of_identity_closed docs env S reg idOf hf hf.idClosed t v hs hv

/-- **C03.** a decoder that knows only the registry and the SCALE rules consumes the derived encoding exactly and recovers the
    same variant, field names, field order and leaf values — for every declaration of the grammar without `encoded_as`, every
    instantiation, every value -/
theorem derived_roundtrip (docs : Bool) (env : TyExpr → Option Decl) (S : TyExpr → Prop) (reg : PortableRegistry) (idOf : TyExpr → Nat)
    (hf : FaithfulD docs env S reg idOf) (t : TyExpr) (v : Val) (hs : S t) (hv : ValOfD env t v) (rest : Codec.Bytes) :
    ∃ fuel, decodeVal reg fuel (idOf t) (encode v ++ rest) = some (v, rest) :=
  derived_roundtrip_of_identity_closed docs env S reg idOf hf hf.idClosed t v hs hv rest

/-- the variant index in the metadata is the first byte of the encoding -/
theorem derived_variant_first_byte (env : TyExpr → Option Decl) (n : Nat) (a : TyExpr) (d : Decl) (vars : List VariantD) (i : Nat) (v : VariantD)
    (vs : List (Option Str × Val)) (hb : d.body = .enum vars) (hi : (vars.filter (fun x => !x.skip))[i]? = some v) :
    (encode (.variant v.ident (variantIndex v i) vs)).head? = some (UInt8.ofNat (variantIndex v i)) := by
  simp [encode]

/-- skipped members are neither described nor encoded; compact members are described as compact -/
theorem skipped_not_described (tn : Str → Str) (docs : Bool) (c : Capture) (fs : List FieldD) :
    ∀ m ∈ membersExpected tn docs c fs, ∃ f ∈ fs, f.skip = false ∧ m.ty = (if f.compact then TyExpr.compact f.ty else f.ty) := by
  intro m hm
  simp only [membersExpected, List.mem_map, List.mem_filter] at hm
  obtain ⟨f, ⟨hf, hcond⟩, rfl⟩ := hm
  refine ⟨f, hf, ?_, rfl⟩
  cases hs : f.skip with
  | false => rfl
  | true => simp [hs] at hcond

/-- the registry of the `encoded_as` boundary: `struct S { b: u32 }` as the derive describes it -/
def encodedAsReg : PortableRegistry :=
  [⟨0, {path := [], params := [], def_ := .composite [{name := some [98], ty := 1, typeName := none, docs := []}], docs := []}⟩,
   ⟨1, Build.ofDef (.primitive .u32)⟩]

/-- the boundary: `#[codec(encoded_as = "<u32 as HasCompact>::Type")]` is ignored by the derive, so the description (plain u32: 4 bytes)
    does not read what the codec writes (compact: 1 byte for 1) -/
theorem encoded_as_counterexample :
    ∃ (reg : PortableRegistry), (resolve reg 0).isSome ∧
      (∀ fuel, decodeVal reg fuel 0 (encode (.composite [(some [98], .compact 32 1)])) ≠ some (.composite [(some [98], .uint 32 1)], [])) := by
  refine ⟨encodedAsReg, rfl, ?_⟩
  have henc : encode (.composite [(some [98], .compact 32 1)]) = [4] := by decide
  rw [henc]
  intro fuel
  have hnone : decodeVal encodedAsReg fuel 0 [4] = none := by
    rcases fuel with _ | _ | k
    · rfl
    · rfl
    · rfl
  rw [hnone]
  exact fun h => nomatch h

end C03
end SIM
