/-
  C08 (unknown members) — the derived readers have no `deny_unknown_fields`: a member under a key a
  struct does not know is ignored, wherever it stands among the known ones. The externally tagged
  definition is not a struct but a one-member map: a second member there is an error.
-/
import SIM.Lemmas.JsonJunk
import SIM.Props.C07
namespace SIM
namespace C08
open JsonM

/-- members a reader does not know are ignored, wherever they stand: a document with an unknown member in every struct reads
    back as the registry it was written from -/
theorem toRegistry_ignores_unknown (s : Str) (v : Json) (r : PortableRegistry) (h : Codec.Bounded r) :
    JsonM.toRegistry (JsonM.junkOfRegistry s v r) = .ok r :=
  JsonM.toRegistry_junkOfRegistry s v r h

/-- ... but a definition is a one-member map: a second member there is an error -/
theorem def_two_members_rejected (k k' : Key) (a b : Json) : JsonM.deTypeDef (.obj [(k, a), (k', b)]) = .error .reject :=
  rfl

/-- the general fact behind the first theorem: looking up a named key skips an unknown member -/
theorem getKey_skips_unknown (s : Str) (v : Json) (kv : List (Key × Json)) (k : Key) (h : k ≠ .other s) :
    getKey ((.other s, v) :: kv) k = getKey kv k :=
  JsonM.getKey_other_cons s v kv k h

/-! ### non-vacuity: the sample registry of C07 (every definition kind), an unknown member `"x": [null, 7]` in every struct -/

theorem sample_bounded : Codec.Bounded C07.sample := by
  open Codec C07 in
  simp [sample, plain, sampleField, sampleField', sampleVariant, sampleParams, Bounded, okPType, okTy, okTypeDef, okParam, okStrs, okStr, okId, okFields, okField,
    okOptStr, okVariant, validUtf8_nil, validUtf8_u8, validUtf8_e]

example : toRegistry (junkOfRegistry [120] (.arr [.null, .num 7]) C07.sample) = .ok C07.sample :=
  toRegistry_ignores_unknown [120] (.arr [.null, .num 7]) C07.sample sample_bounded

/-- the document really differs from the plain one: it has a member the plain one lacks -/
example : junkOfRegistry [120] (.arr [.null, .num 7]) C07.sample ≠ ofRegistry C07.sample := by
  simp [junkOfRegistry, ofRegistry]

/-- and the two-member rejection on the smallest instance: a valid definition plus one more member -/
example : deTypeDef (.obj [(.sequence, .obj [(.type_, .num 0)]), (.other [120], .arr [.null, .num 7])]) = .error .reject :=
  def_two_members_rejected _ _ _ _

example : deTypeDef (.obj [(.sequence, .obj [(.type_, .num 0)])]) = .ok (.sequence 0) := rfl

end C08
end SIM
