/-
  C11 — registering more never disturbs what is registered: ids and entries are stable under
  extension of a history, a history can be run in pieces, and registering the same roots in another
  order gives the same registry up to a renaming of ids.
-/
import SIM.Lemmas.Registry
namespace SIM
namespace C11
open Reg

theorem register_extends (env : Nat → Ty Nat) (fuel : Nat) (ops1 ops2 : List Registry.Op) (s1 s2 : RegState)
    (o1 o2 : List Registry.Out)
    (h1 : Registry.run env fuel Registry.empty ops1 = some (s1, o1))
    (h2 : Registry.run env fuel s1 ops2 = some (s2, o2)) :
    s1.table.vec <+: s2.table.vec ∧
    ∀ i, i < (Registry.toPortable s1).length →
      resolve (Registry.toPortable s2) i = resolve (Registry.toPortable s1) i := by
  have hc1 := run_complete env fuel (Complete.empty env) h1
  have hc2 := run_complete env fuel hc1 h2
  obtain ⟨_, hP, _, _⟩ := run_post env fuel ops2 s1 s2 o2 hc1.inv h2
  refine ⟨hP.pre, ?_⟩
  intro i hi
  rw [hc1.portable_length] at hi
  obtain ⟨d, hd⟩ := hc1.allKeys i hi
  rw [hc1.resolve hd, hc2.resolve (hP.keep _ hd)]

theorem run_append (env : Nat → Ty Nat) (fuel : Nat) (ops1 ops2 : List Registry.Op) (s : RegState) :
    Registry.run env fuel s (ops1 ++ ops2) =
    match Registry.run env fuel s ops1 with
    | none => none
    | some (s1, o1) =>
      match Registry.run env fuel s1 ops2 with
      | none => none
      | some (s2, o2) => some (s2, o1 ++ o2) := by
  induction ops1 generalizing s with
  | nil =>
    simp only [List.nil_append, Registry.run]
    cases Registry.run env fuel s ops2 with
    | none => rfl
    | some r => rfl
  | cons op ops1 ih =>
    simp only [List.cons_append, Registry.run]
    cases Registry.step env fuel s op with
    | none => rfl
    | some r =>
      obtain ⟨s1, o⟩ := r
      simp only [ih]
      cases Registry.run env fuel s1 ops1 with
      | none => rfl
      | some r1 =>
        obtain ⟨s2, os⟩ := r1
        simp only
        cases Registry.run env fuel s2 ops2 with
        | none => rfl
        | some r2 => rfl

theorem perm_iso (env : Nat → Ty Nat) (fuel : Nat) (roots roots' : List Nat) (s s' : RegState)
    (o o' : List Registry.Out)
    (hp : roots.Perm roots')
    (h : Registry.run env fuel Registry.empty (roots.map Registry.Op.reg) = some (s, o))
    (h' : Registry.run env fuel Registry.empty (roots'.map Registry.Op.reg) = some (s', o')) :
    let σ : Nat → Nat := fun i => idOf s' ((s.table.vec[i]?).getD 0)
    s.table.vec.length = s'.table.vec.length ∧
    (∀ t, t ∈ s.table.vec ↔ t ∈ s'.table.vec) ∧
    (∀ t ∈ s.table.vec, σ (idOf s t) = idOf s' t) ∧
    (∀ i j, i < s.table.vec.length → j < s.table.vec.length → σ i = σ j → i = j) ∧
    (∀ t ∈ s.table.vec, resolve (Registry.toPortable s') (idOf s' t) =
      (resolve (Registry.toPortable s) (idOf s t)).map (Ty.map σ)) := by
  intro σ
  have hc := run_complete env fuel (Complete.empty env) h
  have hc' := run_complete env fuel (Complete.empty env) h'
  obtain ⟨_, hP, hr, _⟩ := run_post env fuel _ Registry.empty s o I_empty h
  obtain ⟨_, hP', hr', _⟩ := run_post env fuel _ Registry.empty s' o' I_empty h'
  have hroots : ∀ l : List Nat, histRoots (l.map Registry.Op.reg) = l := by
    intro l
    induction l with
    | nil => rfl
    | cons a l ih => simpa [histRoots, opRoots] using ih
  rw [hroots] at hP hr hP' hr'
  have hmem : ∀ t, t ∈ s.table.vec ↔ t ∈ s'.table.vec := by
    intro t
    constructor
    · intro ht
      rcases hP.reach t ht with h0 | h0
      · simp [Registry.empty, Interner.empty] at h0
      · exact hc'.closed hr' (h0.mono (fun r hr => hp.mem_iff.1 hr))
    · intro ht
      rcases hP'.reach t ht with h0 | h0
      · simp [Registry.empty, Interner.empty] at h0
      · exact hc.closed hr (h0.mono (fun r hr => hp.mem_iff.2 hr))
  have hσ : ∀ t ∈ s.table.vec, σ (idOf s t) = idOf s' t := by
    intro t ht
    have hg := getElem?_idxOf ht
    show idOf s' ((s.table.vec[s.table.vec.idxOf t]?).getD 0) = idOf s' t
    rw [hg]
    rfl
  refine ⟨?_, hmem, hσ, ?_, ?_⟩
  · exact ((List.perm_ext_iff_of_nodup hc.inv.nodup hc'.inv.nodup).2 hmem).length_eq
  · intro i j hi hj hij
    have hi' : s.table.vec[i] ∈ s.table.vec := List.getElem_mem hi
    have hj' : s.table.vec[j] ∈ s.table.vec := List.getElem_mem hj
    have he : s.table.vec[i] = s.table.vec[j] := by
      apply idxOf_inj ((hmem _).1 hi') ((hmem _).1 hj')
      have h1 : σ i = s'.table.vec.idxOf s.table.vec[i] := by
        show idOf s' ((s.table.vec[i]?).getD 0) = _
        rw [List.getElem?_eq_getElem hi]; rfl
      have h2 : σ j = s'.table.vec.idxOf s.table.vec[j] := by
        show idOf s' ((s.table.vec[j]?).getD 0) = _
        rw [List.getElem?_eq_getElem hj]; rfl
      rw [← h1, ← h2]; exact hij
    exact (List.getElem_inj hc.inv.nodup).1 he
  · intro t ht
    have e := hc.entry ht
    have e' := hc'.entry ((hmem t).1 ht)
    rw [hc.resolve e.1, hc'.resolve e'.1, Option.map_some, Ty.map_comp]
    congr 1
    apply Ty.map_congr
    intro c hcr
    exact (hσ c (e.2 c hcr)).symm

end C11
end SIM
