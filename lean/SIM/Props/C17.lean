/-
  C17 — The builders are lossless.

  The interpreter of builder-call sequences `Build.run` (transcription of src/build.rs) equals the declarative
  description `Spec.buildExpected`: every member is the argument of the last call that sets it, fields and
  variants come out in the order supplied, PhantomData members are dropped (MetaForm only), and `docs(..)`
  counts only with the docs feature.
-/
import SIM.Lemmas.Build
namespace SIM
namespace C17
open Build Spec

theorem field_lossless {R} (cfg : Cfg) (calls : List (FCall R)) : fieldOf cfg calls = fieldExpected cfg calls := by
  simp only [fieldOf, fieldExpected, FB.fold_ty, FB.fold_name, FB.fold_typeName, FB.fold_docs, Option.or_none]
  cases lastSome fTyArg calls <;> rfl

theorem fields_lossless {R} (cfg : Cfg) (isPhantom : R → Bool) (fbs : List (List (FCall R))) :
    fieldsOf cfg isPhantom fbs = fieldsExpected cfg isPhantom fbs := by
  have hf : fieldOf (R := R) cfg = fieldExpected cfg := funext (field_lossless cfg)
  rw [fieldsOf_eq_mapM, fieldsExpected, hf]
  cases List.mapM (fieldExpected cfg) fbs <;> rfl

theorem variant_lossless {R} (cfg : Cfg) (isPhantom : R → Bool) (name : Str) (calls : List (VCall R)) :
    variantOf cfg isPhantom name calls = variantExpected cfg isPhantom name calls := by
  simp only [variantOf, variantExpected, VB.fold_index, VB.fold_fields, VB.fold_docs, Option.or_none,
    fields_lossless]
  cases lastSome vIndexArg calls with
  | none => rfl
  | some i =>
    cases lastSome vFieldsArg calls with
    | none => rfl
    | some fbs => cases h : fieldsExpected cfg isPhantom fbs <;> simp [h]

/-- **C17.** the built type contains exactly the path, parameters, fields, variants, indices, type names and docs supplied, in the
    order supplied, minus PhantomData members, docs gated by the feature -/
theorem build_lossless {R} (cfg : Cfg) (isPhantom : R → Bool) (calls : List (TCall R)) (term : Term R) :
    Build.run cfg isPhantom calls term = buildExpected cfg isPhantom calls term := by
  have hv : (fun nc : Str × List (VCall R) => variantOf cfg isPhantom nc.1 nc.2) =
      fun nc => variantExpected cfg isPhantom nc.1 nc.2 := funext fun nc => variant_lossless cfg isPhantom nc.1 nc.2
  simp only [Build.run, buildExpected, TB.fold_path, TB.fold_params, TB.fold_docs, Option.or_none]
  cases lastSome tPathArg calls with
  | none => rfl
  | some p =>
    cases term with
    | composite fbs =>
      simp only [defExpected, fields_lossless]
      cases fieldsExpected cfg isPhantom fbs <;> rfl
    | variant vs =>
      simp only [defExpected, variantsOf_eq_mapM, hv]
      cases List.mapM (fun nc : Str × List (VCall R) => variantExpected cfg isPhantom nc.1 nc.2) vs <;> rfl

/-- a successfully built field list contains no PhantomData member -/
theorem fields_no_phantom {R} (cfg : Cfg) (isPhantom : R → Bool) (fbs : List (List (FCall R))) (fs : List (Field R))
    (h : fieldsOf cfg isPhantom fbs = some fs) : ∀ f ∈ fs, isPhantom f.ty = false := by
  rw [fieldsOf_eq_mapM] at h
  cases hm : List.mapM (fieldOf cfg) fbs with
  | none => simp [hm] at h
  | some all =>
    simp [hm] at h
    subst h
    intro f hf
    simpa using (List.mem_filter.mp hf).2

/-- a successfully built variant lists no PhantomData member -/
theorem variant_no_phantom {R} (cfg : Cfg) (isPhantom : R → Bool) (name : Str) (calls : List (VCall R)) (v : Variant R)
    (h : variantOf cfg isPhantom name calls = some v) : ∀ f ∈ v.fields, isPhantom f.ty = false := by
  simp only [variantOf, VB.fold_index, VB.fold_fields, VB.fold_docs, Option.or_none] at h
  cases hi : lastSome vIndexArg calls with
  | none => simp [hi] at h
  | some i =>
    cases hfs : lastSome vFieldsArg calls with
    | none =>
      simp [hi, hfs] at h
      subst h
      simp
    | some fbs =>
      cases hb : fieldsOf cfg isPhantom fbs with
      | none => simp [hi, hfs, hb] at h
      | some fs =>
        simp [hi, hfs, hb] at h
        subst h
        exact fields_no_phantom cfg isPhantom fbs fs hb

/-- a member whose type is PhantomData is never listed as a field (of a composite or of any variant) -/
theorem phantom_never_listed {R} (cfg : Cfg) (isPhantom : R → Bool) (calls : List (TCall R)) (term : Term R) (t : Ty R)
    (h : Build.run cfg isPhantom calls term = some t) : ∀ r ∈ t.def_.refs, isPhantom r = false := by
  simp only [Build.run] at h
  cases hp : (List.foldl (TB.step cfg) {} calls).path with
  | none => simp [hp] at h
  | some p =>
    cases term with
    | composite fbs =>
      cases hb : fieldsOf cfg isPhantom fbs with
      | none => simp [hp, hb] at h
      | some fs =>
        simp [hp, hb] at h
        subst h
        intro r hr
        simp only [TypeDef.refs, fieldRefs, List.mem_map] at hr
        obtain ⟨f, hf, rfl⟩ := hr
        exact fields_no_phantom cfg isPhantom fbs fs hb f hf
    | variant vs =>
      cases hb : variantsOf cfg isPhantom vs with
      | none => simp [hp, hb] at h
      | some vs' =>
        simp [hp, hb] at h
        subst h
        intro r hr
        simp only [TypeDef.refs, variantRefs, fieldRefs, List.mem_flatMap, List.mem_map] at hr
        obtain ⟨v, hv, f, hf, rfl⟩ := hr
        rw [variantsOf_eq_mapM] at hb
        exact mapM_some_forall (fun nc : Str × List (VCall R) => variantOf cfg isPhantom nc.1 nc.2)
          (fun v => ∀ f ∈ v.fields, isPhantom f.ty = false)
          (fun nc v h => variant_no_phantom cfg isPhantom nc.1 nc.2 v h) vs vs' hb v hv f hf

/-- … nor as a tuple element; the other members keep their order -/
theorem tuple_new_spec {R} (isPhantom : R → Bool) (ts : List R) :
    (tupleNew isPhantom ts).refs = ts.filter (fun t => !isPhantom t) ∧
    (∀ r ∈ (tupleNew isPhantom ts).refs, isPhantom r = false) ∧ (tupleNew isPhantom ts).refs.Sublist ts := by
  refine ⟨rfl, ?_, ?_⟩
  · intro r hr
    simpa using (List.mem_filter.mp hr).2
  · exact List.filter_sublist

/-- the PortableForm builders erase nothing -/
theorem portable_keeps_all {R} (cfg : Cfg) (fbs : List (List (FCall R))) :
    fieldsOf cfg (fun _ => false) fbs = fbs.mapM (fieldOf cfg) := by
  rw [fieldsOf_eq_mapM]
  cases List.mapM (fieldOf cfg) fbs <;> simp

/-- fields come out in the order their builders were supplied -/
theorem fields_order {R} (cfg : Cfg) (isPhantom : R → Bool) (fbs : List (List (FCall R))) (fs : List (Field R))
    (h : fieldsOf cfg isPhantom fbs = some fs) :
    ∃ all, fbs.mapM (fieldOf cfg) = some all ∧ fs = all.filter (fun f => !isPhantom f.ty) ∧ fs.Sublist all := by
  rw [fieldsOf_eq_mapM] at h
  cases hm : List.mapM (fieldOf cfg) fbs with
  | none => simp [hm] at h
  | some all =>
    simp [hm] at h
    subst h
    exact ⟨all, rfl, rfl, List.filter_sublist⟩

/-- docs given through the feature-gated setter are kept only with the docs feature; through the always variant, always -/
theorem docs_gating (cur l : List Str) :
    applyDocs { docs := false } cur (.docs l) = cur ∧ applyDocs { docs := true } cur (.docs l) = l ∧
    applyDocs { docs := false } cur (.docsAlways l) = l ∧ applyDocs { docs := true } cur (.docsAlways l) = l :=
  ⟨rfl, rfl, rfl, rfl⟩

/-- without the docs feature a program's gated docs calls are as if absent -/
theorem docs_feature_off_erases {R} (isPhantom : R → Bool) (calls : List (TCall R)) (term : Term R) (t : Ty R)
    (h : Build.run { docs := false } isPhantom calls term = some t) :
    t.docs = (lastSome (fun c => match c with
      | TCall.free (.docsAlways l) => some l | TCall.free (.docsPortable l) => some l | _ => none) calls).getD [] := by
  have hsel : (fun c : TCall R => match c with
      | TCall.free (.docsAlways l) => some l | TCall.free (.docsPortable l) => some l | _ => none) =
      tDocsArg { docs := false } := by
    funext c
    rcases c with p | ps | f
    · rfl
    · rfl
    · cases f <;> rfl
  rw [hsel]
  rw [build_lossless] at h
  simp only [buildExpected] at h
  cases hp : lastSome tPathArg calls with
  | none => simp [hp] at h
  | some p =>
    cases hd : defExpected { docs := false } isPhantom term with
    | none => simp [hp, hd] at h
    | some d =>
      simp [hp, hd] at h
      subst h
      rfl

/-- `From<TypeDef…> for Type` adds nothing -/
theorem ofDef_spec {R} (d : TypeDef R) : (ofDef d).path = [] ∧ (ofDef d).params = [] ∧ (ofDef d).def_ = d ∧ (ofDef d).docs = [] :=
  ⟨rfl, rfl, rfl, rfl⟩

/-! ### Non-vacuity -/

/-- (1) named composite, three field builders, the middle one PhantomData; `docs` then `docsAlways` on the type -/
example :
    Build.run { docs := true } (· == 8)
      [.path [[97]], .free (.docs [[100]]), .free (.docsAlways [[101]])]
      (.composite [[.name [120], .ty 1, .free (.docs [[102]])], [.name [121], .ty 8], [.name [122], .ty 2, .free (.typeName [116])]])
    = some { path := [[97]], params := [],
             def_ := .composite [{ name := some [120], ty := 1, typeName := none, docs := [[102]] },
                                 { name := some [122], ty := 2, typeName := some [116], docs := [] }],
             docs := [[101]] } := by decide

/-- the same program without the docs feature: the gated field docs vanish, `docsAlways` stays -/
example :
    Build.run { docs := false } (· == 8)
      [.path [[97]], .free (.docs [[100]]), .free (.docsAlways [[101]])]
      (.composite [[.name [120], .ty 1, .free (.docs [[102]])], [.name [121], .ty 8], [.name [122], .ty 2, .free (.typeName [116])]])
    = some { path := [[97]], params := [],
             def_ := .composite [{ name := some [120], ty := 1, typeName := none, docs := [] },
                                 { name := some [122], ty := 2, typeName := some [116], docs := [] }],
             docs := [[101]] } := by decide

example :
    Build.run { docs := false } (· == 8)
      [.path [[97]], .free (.docsAlways [[101]]), .free (.docs [[100]])]
      (.composite [[.name [120], .ty 1, .free (.docs [[102]])], [.name [121], .ty 8], [.name [122], .ty 2]])
    = some { path := [[97]], params := [],
             def_ := .composite [{ name := some [120], ty := 1, typeName := none, docs := [] },
                                 { name := some [122], ty := 2, typeName := none, docs := [] }],
             docs := [[101]] } := by decide

example :
    (Build.run { docs := true } (· == 8)
      [.path [[97]], .free (.docsAlways [[101]]), .free (.docs [[100]])]
      (.composite [[.name [120], .ty 1], [.name [121], .ty 8], [.name [122], .ty 2]])).map (·.docs)
    = some [[100]] := by decide

/-- (2) a variant type whose `fields` are set twice (last wins) with an index -/
example :
    Build.run { docs := true } (· == 8)
      [.path [[97]]]
      (.variant [([65], [.fields [[.ty 1]], .index 3, .fields [[.ty 2], [.ty 8], [.ty 4]]])])
    = some { path := [[97]], params := [],
             def_ := .variant [{ name := [65], index := 3, docs := [],
                                 fields := [{ name := none, ty := 2, typeName := none, docs := [] },
                                            { name := none, ty := 4, typeName := none, docs := [] }] }],
             docs := [] } := by decide

/-- a variant without an index cannot be built (panic in `finalize`) -/
example : Build.run (R := Nat) { docs := true } (· == 8) [.path [[97]]] (.variant [([65], [])]) = none := by decide

end C17
end SIM
