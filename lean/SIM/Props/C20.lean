/-
  C20 — ill-formed constructions are rejected: by the typestate builder API (a type without a path, a variant without an
  index, a field without a type, named/unnamed fields mixed) and by the derive's attribute validator (unions, unknown
  keys, duplicates, bad `capture_docs` values, a type parameter missing from an explicit `bounds(..)`).
-/
import SIM.Spec.Typestate
namespace SIM
namespace C20
open Typestate Spec

/-! ### helpers -/

theorem any_of_filter_length_one {α : Type} (p : α → Bool) (l : List α) (h : (l.filter p).length = 1) :
    l.any p = true := by
  cases hf : l.filter p with
  | nil => rw [hf] at h; cases h
  | cons a t =>
    have ha : a ∈ l.filter p := by rw [hf]; exact List.mem_cons_self
    rcases List.mem_filter.1 ha with ⟨hm, hp⟩
    exact List.any_eq_true.2 ⟨a, hm, hp⟩

theorem filter_length_zero_of_any_false {α : Type} (p : α → Bool) (l : List α) (h : l.any p = false) :
    (l.filter p).length = 0 := by
  cases hf : l.filter p with
  | nil => rfl
  | cons a t =>
    have ha : a ∈ l.filter p := by rw [hf]; exact List.mem_cons_self
    rcases List.mem_filter.1 ha with ⟨hm, hp⟩
    have : l.any p = true := List.any_eq_true.2 ⟨a, hm, hp⟩
    rw [h] at this; cases this

/-- what `accepts` says, as a conjunction -/
theorem accepts_iff (prog : List TStep) (h : accepts prog = true) :
    (prog.filter isPath).length = 1 ∧ (prog.filter isTerminal).length = 1 ∧
    (match prog.getLast? with
     | some (.composite fp) => fieldsOk fp
     | some (.variant vs) => vs.all variantOk
     | _ => false) = true := by
  simp only [accepts, Bool.and_eq_true, beq_iff_eq] at h
  exact ⟨h.1.1, h.1.2, h.2⟩

theorem accepts_composite (prog : List TStep) (fp : FieldsProg) (h : accepts prog = true)
    (hl : prog.getLast? = some (.composite fp)) : fieldsOk fp = true := by
  have := (accepts_iff prog h).2.2
  rw [hl] at this
  exact this

theorem accepts_variant (prog : List TStep) (vs : List (List VStep)) (h : accepts prog = true)
    (hl : prog.getLast? = some (.variant vs)) : ∀ v ∈ vs, variantOk v = true := by
  have := (accepts_iff prog h).2.2
  rw [hl] at this
  exact List.all_eq_true.1 this

theorem fieldsOk_field (fp : FieldsProg) (h : fieldsOk fp = true) : ∀ f ∈ fp.fields, fieldOk fp.kind f = true := by
  intro f hf
  unfold fieldsOk at h
  cases hk : fp.kind with
  | unit =>
    rw [hk] at h
    simp only [List.isEmpty_iff] at h
    rw [h] at hf; cases hf
  | named => rw [hk] at h; exact List.all_eq_true.1 h f hf
  | unnamed => rw [hk] at h; exact List.all_eq_true.1 h f hf

/-! ### builders -/

theorem accepted_has_path (prog : List TStep) (h : accepts prog = true) : prog.any isPath = true :=
  any_of_filter_length_one _ _ (accepts_iff prog h).1

theorem accepted_variant_has_index (prog : List TStep) (vs : List (List VStep)) (h : accepts prog = true)
    (hl : prog.getLast? = some (.variant vs)) : ∀ v ∈ vs, v.any isIndex = true := by
  intro v hv
  have := accepts_variant prog vs h hl v hv
  simp only [variantOk, Bool.and_eq_true, beq_iff_eq] at this
  exact any_of_filter_length_one _ _ this.1

theorem accepted_field_has_type (prog : List TStep) (fp : FieldsProg) (h : accepts prog = true)
    (hl : prog.getLast? = some (.composite fp)) : ∀ f ∈ fp.fields, f.count .ty = 1 := by
  intro f hf
  have := fieldsOk_field fp (accepts_composite prog fp h hl) f hf
  simp only [fieldOk, Bool.and_eq_true, beq_iff_eq] at this
  exact this.1

theorem named_all_named (prog : List TStep) (fp : FieldsProg) (h : accepts prog = true)
    (hl : prog.getLast? = some (.composite fp)) (hk : fp.kind = .named) : ∀ f ∈ fp.fields, f.count .name = 1 := by
  intro f hf
  have := fieldsOk_field fp (accepts_composite prog fp h hl) f hf
  rw [hk] at this
  simp only [fieldOk, Bool.and_eq_true, beq_iff_eq] at this
  exact this.2

theorem unnamed_all_unnamed (prog : List TStep) (fp : FieldsProg) (h : accepts prog = true)
    (hl : prog.getLast? = some (.composite fp)) (hk : fp.kind = .unnamed) : ∀ f ∈ fp.fields, f.count .name = 0 := by
  intro f hf
  have := fieldsOk_field fp (accepts_composite prog fp h hl) f hf
  rw [hk] at this
  simp only [fieldOk, Bool.and_eq_true, beq_iff_eq] at this
  exact this.2

/-- the same inside the fields of every variant -/
theorem variant_fields_ok (prog : List TStep) (vs : List (List VStep)) (h : accepts prog = true)
    (hl : prog.getLast? = some (.variant vs)) : ∀ v ∈ vs, ∀ c ∈ v, ∀ fp, c = VStep.fields fp → fieldsOk fp = true := by
  intro v hv c hc fp hfp
  have := accepts_variant prog vs h hl v hv
  simp only [variantOk, Bool.and_eq_true] at this
  have := List.all_eq_true.1 this.2 c hc
  rw [hfp] at this
  exact this

/-- an ill-formed field list is not accepted -/
theorem fieldsIll_not_ok (fp : FieldsProg) (h : fieldsIll fp = true) : fieldsOk fp = false := by
  cases hok : fieldsOk fp with
  | false => rfl
  | true =>
    rcases List.any_eq_true.1 h with ⟨f, hf, hbad⟩
    have hfo := fieldsOk_field fp hok f hf
    cases hk : fp.kind with
    | unit => rw [hk] at hfo; simp [fieldOk] at hfo
    | named =>
      rw [hk] at hfo hbad
      simp only [fieldOk, Bool.and_eq_true, beq_iff_eq] at hfo
      rw [hfo.1, hfo.2] at hbad
      revert hbad; decide
    | unnamed =>
      rw [hk] at hfo hbad
      simp only [fieldOk, Bool.and_eq_true, beq_iff_eq] at hfo
      rw [hfo.1, hfo.2] at hbad
      revert hbad; decide

/-- an ill-formed variant is not accepted -/
theorem variantIll_not_ok (v : List VStep)
    (h : (!(v.any isIndex) || v.any (fun c => match c with | .fields fp => fieldsIll fp | _ => false)) = true) :
    variantOk v = false := by
  cases hok : variantOk v with
  | false => rfl
  | true =>
    simp only [variantOk, Bool.and_eq_true, beq_iff_eq] at hok
    rcases Bool.or_eq_true_iff.1 h with h | h
    · have := any_of_filter_length_one _ _ hok.1
      rw [this] at h; cases h
    · rcases List.any_eq_true.1 h with ⟨c, hc, hbad⟩
      have := List.all_eq_true.1 hok.2 c hc
      cases c with
      | fields fp =>
        simp only at this hbad
        rw [fieldsIll_not_ok fp hbad] at this; cases this
      | index => cases hbad
      | discriminant => cases hbad
      | docs => cases hbad

/-- a terminal step of a program whose proper prefix has no terminal is the last step -/
theorem terminal_is_last (prog : List TStep) (hterm : ∀ s ∈ prog.dropLast, isTerminal s = false)
    (s : TStep) (hs : s ∈ prog) (ht : isTerminal s = true) : prog.getLast? = some s := by
  cases hl : prog.getLast? with
  | none =>
    rw [List.getLast?_eq_none_iff] at hl
    rw [hl] at hs; cases hs
  | some x =>
    have hsplit : prog = prog.dropLast ++ [x] := by
      have hne : prog ≠ [] := by
        intro hn; rw [hn] at hs; cases hs
      have hx : prog.getLast hne = x := by
        rw [List.getLast?_eq_some_getLast hne] at hl
        exact Option.some.inj hl
      rw [← hx]
      exact (List.dropLast_concat_getLast hne).symm
    rw [hsplit] at hs
    rcases List.mem_append.1 hs with hs | hs
    · have := hterm s hs
      rw [ht] at this; cases this
    · rw [List.mem_singleton] at hs
      rw [hs]

/-- **C20 (builders).** every ill-formed construction the property names is rejected by the typestate API,
    provided the program ends in its (only) terminal call -/
theorem illformed_rejected (prog : List TStep) (hterm : ∀ s ∈ prog.dropLast, isTerminal s = false)
    (h : illFormed prog = true) : accepts prog = false := by
  cases hacc : accepts prog with
  | false => rfl
  | true =>
    rcases Bool.or_eq_true_iff.1 h with h | h
    · rw [accepted_has_path prog hacc] at h; cases h
    · rcases List.any_eq_true.1 h with ⟨s, hs, hbad⟩
      cases s with
      | path => cases hbad
      | typeParams => cases hbad
      | docs => cases hbad
      | composite fp =>
        simp only at hbad
        have hl := terminal_is_last prog hterm _ hs rfl
        have := accepts_composite prog fp hacc hl
        rw [fieldsIll_not_ok fp hbad] at this; cases this
      | variant vs =>
        simp only at hbad
        have hl := terminal_is_last prog hterm _ hs rfl
        rcases List.any_eq_true.1 hbad with ⟨v, hv, hvbad⟩
        have := accepts_variant prog vs hacc hl v hv
        rw [variantIll_not_ok v hvbad] at this; cases this

/-! ### derive attributes -/

/-- **C20 (derive).** -/
theorem attrs_reject_union (ps : List Str) (attrs : List Attr) : deriveAccepts true ps attrs = false := by
  simp [deriveAccepts]

theorem attrs_reject_unknown (u : Bool) (ps : List Str) (attrs : List Attr) (h : Attr.unknown ∈ attrs) :
    deriveAccepts u ps attrs = false := by
  have : attrs.any isUnknown = true := List.any_eq_true.2 ⟨_, h, rfl⟩
  simp [deriveAccepts, this]

theorem attrs_reject_duplicates (u : Bool) (ps : List Str) (attrs : List Attr)
    (h : 2 ≤ (attrs.filter isBounds).length ∨ 2 ≤ (attrs.filter isSkip).length ∨ 2 ≤ (attrs.filter isCapture).length ∨ 2 ≤ (attrs.filter isCrate).length) :
    deriveAccepts u ps attrs = false := by
  cases hacc : deriveAccepts u ps attrs with
  | false => rfl
  | true =>
    simp only [deriveAccepts, Bool.and_eq_true, decide_eq_true_eq] at hacc
    omega

theorem attrs_reject_bad_capture_docs (u : Bool) (ps : List Str) (attrs : List Attr) (v : Str)
    (h : Attr.captureDocs v ∈ attrs) (hv : captureOk v = false) : deriveAccepts u ps attrs = false := by
  cases hacc : deriveAccepts u ps attrs with
  | false => rfl
  | true =>
    simp only [deriveAccepts, Bool.and_eq_true] at hacc
    have := List.all_eq_true.1 hacc.1.2 _ h
    simp only at this
    rw [hv] at this; cases this

theorem attrs_missing_bound (u : Bool) (ps : List Str) (attrs : List Attr) (bs : List Str) (p : Str)
    (hb : boundsParams attrs = some bs) (hp : p ∈ ps) (h1 : bs.contains p = false) (h2 : (skippedParams attrs).contains p = false) :
    deriveAccepts u ps attrs = false := by
  cases hacc : deriveAccepts u ps attrs with
  | false => rfl
  | true =>
    simp only [deriveAccepts, Bool.and_eq_true] at hacc
    have := hacc.2
    rw [hb] at this
    have := List.all_eq_true.1 this p hp
    rw [h1, h2] at this; cases this

/-- and the valid spellings are accepted -/
theorem capture_docs_values : captureOk [65, 108, 119, 97, 121, 115] = true ∧ captureOk [110, 101, 118, 101, 114] = true ∧
    captureOk [68, 69, 70, 65, 85, 76, 84] = true ∧ captureOk [115, 111, 109, 101] = false := by
  decide

/-! ### examples -/

/-- an accepted program -/
example : accepts [.path, .typeParams, .docs, .composite ⟨.named, [[.name, .ty, .typeName], [.ty, .name, .docs]]⟩] = true := by decide
example : accepts [.path, .variant [[.index, .fields ⟨.unnamed, [[.ty]]⟩], [.docs, .index, .fields ⟨.unit, []⟩]]] = true := by decide
/-- no path -/
example : accepts [.typeParams, .composite ⟨.unit, []⟩] = false := by decide
/-- variant without index -/
example : accepts [.path, .variant [[.index], [.fields ⟨.unit, []⟩]]] = false := by decide
/-- field without type -/
example : accepts [.path, .composite ⟨.named, [[.name, .ty], [.name]]⟩] = false := by decide
/-- named field in an unnamed builder -/
example : accepts [.path, .composite ⟨.unnamed, [[.ty], [.name, .ty]]⟩] = false := by decide
/-- and the spec flags exactly those -/
example : illFormed [.typeParams, .composite ⟨.unit, []⟩] = true := by decide
example : illFormed [.path, .variant [[.index], [.fields ⟨.unit, []⟩]]] = true := by decide
example : illFormed [.path, .composite ⟨.named, [[.name, .ty], [.name]]⟩] = true := by decide
example : illFormed [.path, .composite ⟨.unnamed, [[.ty], [.name, .ty]]⟩] = true := by decide

/-- an accepted attribute list -/
example : deriveAccepts false [[84], [85]]
    [.bounds [[84]], .skipTypeParams [[85]], .captureDocs [110, 101, 118, 101, 114], .crate_, .replaceSegment] = true := by decide
/-- the C20 regression: `U` is neither bound nor skipped -/
example : deriveAccepts false [[84], [85]] [.bounds [], .skipTypeParams [[84]]] = false := by decide

end C20
end SIM
