/-
  C19 — the generated JSON Schema accepts every serialised registry.

  `Expected.schemaDefs`/`Expected.schemaRoot` are a committed copy of the schema that
  `schema_for!(PortableRegistry)` generates (translated mechanically); `Extracted.*` is the same text
  regenerated from the real code on every run. `extracted_is_expected` re-checks that they agree, and
  `schema_accepts` shows that draft-07 validation (`SchemaM.validates`) of the JSON serialisation
  `JsonM.ofRegistry r` against that schema succeeds for EVERY registry `r`.
-/
import SIM.Lemmas.Schema
import SIM.Extracted.Schema
import SIM.Props.C07
namespace SIM
namespace C19
open JsonM SchemaM

/-- the schema extracted from the real code on this run is the one the theorem below is about -/
theorem extracted_is_expected :
    Extracted.schemaDefs = Expected.schemaDefs ∧ Extracted.schemaRoot = Expected.schemaRoot :=
  ⟨rfl, rfl⟩

/-- **C19.** the generated JSON Schema validates the JSON serialisation of EVERY registry -/
theorem schema_accepts (r : PortableRegistry) :
    validates Expected.schemaDefs SchemaM.fuel Expected.schemaRoot (ofRegistry r) = true :=
  acc_root SchemaM.fuel (by decide) r

theorem schema_accepts_extracted (r : PortableRegistry) :
    validates Extracted.schemaDefs SchemaM.fuel Extracted.schemaRoot (ofRegistry r) = true := by
  rw [extracted_is_expected.1, extracted_is_expected.2]
  exact schema_accepts r

/-- the result does not depend on the particular fuel: any fuel from 22 up is enough -/
theorem schema_accepts_fuel (f : Nat) (hf : 22 ≤ f) (r : PortableRegistry) :
    validates Expected.schemaDefs f Expected.schemaRoot (ofRegistry r) = true :=
  acc_root f hf r

/-- every entry of a serialised registry is accepted by the `PortableType` definition -/
theorem portableType_accepts (p : PType) :
    validates Expected.schemaDefs SchemaM.fuel Expected.def_PortableType (ofPType p) = true :=
  acc_PortableType SchemaM.fuel (by decide) p

/-- every serialised type definition is accepted by the 8-way `oneOf` of `TypeDef_for_PortableForm` -/
theorem typeDef_accepts (d : TypeDef Nat) :
    validates Expected.schemaDefs SchemaM.fuel Expected.def_TypeDef_for_PortableForm (ofTypeDef d) = true :=
  acc_TypeDef SchemaM.fuel (by decide) d

/-! ### non-vacuity -/

example : validates Expected.schemaDefs SchemaM.fuel Expected.schemaRoot (ofRegistry C07.sample) = true :=
  schema_accepts _

/-- the validator is not vacuous: an object without the required `types` member is rejected -/
example : validates Expected.schemaDefs SchemaM.fuel Expected.schemaRoot (.obj []) = false := by decide

/-- … and so is a registry entry whose `id` is not a number -/
example : validates Expected.schemaDefs SchemaM.fuel Expected.schemaRoot
    (.obj [(.types, .arr [.obj [(.id, .str []), (.type_, ofTy (C07.plain 0 (.primitive .u8)).ty)]])]) = false := by
  decide

/-- … and a definition carrying two tags at once (rejected by `additionalProperties: false`) -/
example : validates Expected.schemaDefs SchemaM.fuel Expected.def_TypeDef_for_PortableForm
    (.obj [(.sequence, .obj [(.type_, .num 0)]), (.compact, .obj [(.type_, .num 0)])]) = false := by
  decide

end C19
end SIM
