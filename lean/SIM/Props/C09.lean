/-
  C09 — The derive mirrors the declaration.

  The `type_info()` body that `#[derive(TypeInfo)]` emits (`Derive.typeInfo`: the builder calls of
  derive/src/lib.rs run through the builder model and the path model) equals the declarative
  description of the declaration (`Spec.deriveExpected`): path = module path + identifier with the
  replace_segment substitutions, type parameters by name in declaration order (no type when skipped),
  members in declaration order minus skipped and PhantomData ones, variant indices after the skip
  filter, docs gated by capture_docs and the docs feature, type names equal to the stringified
  declared type up to spaces (`clean_type_string`, re-extracted, only touches spaces).
-/
import SIM.Lemmas.Derive
import SIM.Props.C17
import SIM.Props.C18
namespace SIM
namespace C09
open Derive Spec

/-- `str::replace` with a pattern and a replacement that differ only in spaces changes nothing but spaces -/
theorem replaceAll_spaces (s pat rep : Str) (h : stripSpaces pat = stripSpaces rep) :
    stripSpaces (replaceAll s pat rep) = stripSpaces s :=
  replaceAllFuel_spaces pat rep h _ s

theorem clean_spaces (pairs : List (Str × Str)) (h : ∀ p ∈ pairs, stripSpaces p.1 = stripSpaces p.2) (s : Str) :
    stripSpaces (cleanWith pairs s) = stripSpaces s := by
  unfold cleanWith
  induction pairs generalizing s with
  | nil => rfl
  | cons p ps ih =>
    rw [List.foldl_cons, ih (fun q hq => h q (List.mem_cons_of_mem _ hq)),
      replaceAll_spaces _ _ _ (h p (List.mem_cons_self ..))]

/-- every pair of the chain as it stands in the source today differs only in spaces -/
theorem extracted_pairs_ok : ∀ p ∈ Extracted.cleanPairs, stripSpaces p.1 = stripSpaces p.2 := by
  decide

/-- hence the reported type name equals the stringified declared type up to spaces, whatever the token printer emits -/
theorem type_name_up_to_spaces (s : Str) : stripSpaces (cleanTypeString s) = stripSpaces s :=
  clean_spaces Extracted.cleanPairs extracted_pairs_ok s

/-- **C09.** the derived `type_info()` is exactly the declarative description of the declaration -/
theorem derive_mirrors (docs : Bool) (d : Decl) : Derive.typeInfo docs d = deriveExpected cleanTypeString docs d := by
  unfold Derive.typeInfo deriveExpected
  cases hp : PathM.newWithReplace d.ident d.modulePath d.replace with
  | none =>
    have hne : ¬ (pathExpected d).all isIdent = true := by
      intro hall
      have := (C18.newWithReplace_some_iff d.ident d.modulePath d.replace (pathExpected d)).2
        ⟨fun s hs => List.all_eq_true.1 hall s hs, rfl⟩
      rw [hp] at this
      cases this
    simp [hne]
  | some p =>
    obtain ⟨hall, rfl⟩ := (C18.newWithReplace_some_iff _ _ _ _).1 hp
    have hall' : (pathExpected d).all isIdent = true := List.all_eq_true.2 hall
    rw [if_pos hall']
    show Build.run _ _ _ _ = _
    rw [C17.build_lossless]
    change buildExpected { docs := docs } Impls.isPhantom
      ([Build.TCall.path (pathExpected d), .typeParams (paramsOf d)] ++
          (docsCall d.capture d.docs).map Build.TCall.free) (term d) = _
    have hdocs : (Build.lastSome (tDocsArg { docs := docs })
        ([Build.TCall.path (pathExpected d), .typeParams (paramsOf d)] ++
          (docsCall d.capture d.docs).map Build.TCall.free)).getD [] = capturedDocs docs d.capture d.docs := by
      cases hds : d.docs <;> cases hc : d.capture <;> cases docs <;> rfl
    have hpath : Build.lastSome tPathArg
        ([Build.TCall.path (pathExpected d), .typeParams (paramsOf d)] ++
          (docsCall d.capture d.docs).map (Build.TCall.free (R := TyExpr))) = some (pathExpected d) := by
      cases hds : d.docs <;> cases hc : d.capture <;> rfl
    have hparams : (Build.lastSome tParamsArg
        ([Build.TCall.path (pathExpected d), .typeParams (paramsOf d)] ++
          (docsCall d.capture d.docs).map (Build.TCall.free (R := TyExpr)))).getD [] = paramsOf d := by
      cases hds : d.docs <;> cases hc : d.capture <;> rfl
    have hdef : defExpected { docs := docs } Impls.isPhantom (term d) =
        some (match d.body with
              | .struct s => .composite (membersExpected cleanTypeString docs d.capture (shapeFields s))
              | .enum vs => .variant (variantsExpected cleanTypeString docs d.capture vs)) := by
      unfold term
      cases d.body with
      | struct s => simp [defExpected, fields_expected]
      | enum vs =>
        simp only [defExpected, variantsCalls]
        rw [List.mapM_map, mapM_eq_some_map
          ((fun nc : Str × List (Build.VCall TyExpr) => variantExpected { docs := docs } Impls.isPhantom nc.1 nc.2) ∘
            (fun iv : Nat × VariantD => variantCalls d.capture iv.2 iv.1)) _ _
          (fun iv _ => variant_expected docs d.capture iv.2 iv.1)]
        rfl
    unfold buildExpected
    rw [hpath, hdef, hparams, hdocs]
    rfl

/-- docs are captured exactly when capture_docs is always, or default with the docs feature; one leading space removed per line -/
theorem docs_captured_iff (ds : List Str) (b : Bool) :
    capturedDocs true .default ds = ds.map stripLead ∧ capturedDocs false .default ds = [] ∧
    capturedDocs b .always ds = ds.map stripLead ∧ capturedDocs b .never ds = [] :=
  ⟨rfl, rfl, rfl, rfl⟩

theorem strip_one_space (s : Str) : stripLead (32 :: s) = s ∧ (s.head? ≠ some 32 → stripLead s = s) := by
  refine ⟨rfl, ?_⟩
  intro h
  unfold stripLead
  split
  · simp at h
  · rfl

/-- members appear in declaration order -/
theorem members_order (tn : Str → Str) (docs : Bool) (c : Capture) (fs : List FieldD) :
    ((membersExpected tn docs c fs).map (·.ty)).Sublist (fs.map (fun f => if f.compact then TyExpr.compact f.ty else f.ty)) := by
  unfold membersExpected
  rw [List.map_map]
  exact List.filter_sublist.map _

/-- type parameters are listed by name in declaration order, with no type when skipped -/
theorem params_order (tn : Str → Str) (docs : Bool) (d : Decl) (t : Ty TyExpr) (h : deriveExpected tn docs d = some t) :
    t.params.map (·.name) = d.params.map (·.name) ∧
    ∀ i (hi : i < d.params.length) (hj : i < t.params.length), t.params[i].ty = (if d.params[i].skipped then none else some d.params[i].arg) := by
  unfold deriveExpected at h
  split at h
  · simp only [Option.some.injEq] at h
    subst h
    refine ⟨by simp [List.map_map, Function.comp_def], ?_⟩
    intro i hi hj
    simp
  · cases h

/-- no skipped and no PhantomData member is ever listed by the derive -/
theorem derive_never_lists_phantom (docs : Bool) (d : Decl) (t : Ty TyExpr) (h : Derive.typeInfo docs d = some t) :
    ∀ r ∈ t.def_.refs, Impls.isPhantom r = false := by
  unfold Derive.typeInfo at h
  split at h
  · cases h
  · exact C17.phantom_never_listed _ _ _ _ t h

/-- the index of a variant: codec(index), else the discriminant, else the position among the NON-SKIPPED variants -/
theorem variant_index_after_filter (tn : Str → Str) (docs : Bool) (c : Capture) (vs : List VariantD) :
    (variantsExpected tn docs c vs).map (·.index) =
      (enumFrom 0 (vs.filter (fun v => !v.skip))).map (fun iv => variantIndex iv.2 iv.1) := by
  unfold variantsExpected
  rw [List.map_map]
  rfl

/-! ### Corollaries -/

/-- the derived type, when the path is valid, reports for every listed member a type name equal to the
    declared type text up to spaces -/
theorem member_type_name_up_to_spaces (docs : Bool) (c : Capture) (fs : List FieldD) :
    ∀ m ∈ membersExpected cleanTypeString docs c fs, ∃ f ∈ fs, f.skip = false ∧
      m.typeName.map stripSpaces = some (stripSpaces f.tyText) := by
  intro m hm
  simp only [membersExpected, List.mem_map, List.mem_filter] at hm
  obtain ⟨f, ⟨hf, hk⟩, rfl⟩ := hm
  refine ⟨f, hf, ?_, ?_⟩
  · simp only [Bool.and_eq_true, Bool.not_eq_true'] at hk
    exact hk.1
  · simp [type_name_up_to_spaces]

/-- the derive fails (panics) exactly when some path segment is not an identifier -/
theorem derive_none_iff (docs : Bool) (d : Decl) :
    Derive.typeInfo docs d = none ↔ (pathExpected d).all isIdent = false := by
  rw [derive_mirrors]
  unfold deriveExpected
  cases (pathExpected d).all isIdent <;> simp

/-! ### Non-vacuity -/

/-- `enum E { A, #[codec(skip)] B, C }` in `my_mod`: `C` gets index 1 — the position counts the non-skipped variants only -/
example :
    (Derive.typeInfo true
      { ident := [69], modulePath := [109, 121, 95, 109, 111, 100], params := [], capture := .default, replace := [], docs := [],
        body := .enum [{ ident := [65], shape := .unit, skip := false, codecIndex := none, discriminant := none, docs := [] },
                       { ident := [66], shape := .unit, skip := true, codecIndex := none, discriminant := none, docs := [] },
                       { ident := [67], shape := .unit, skip := false, codecIndex := none, discriminant := none, docs := [] }] })
    = some { path := [[109, 121, 95, 109, 111, 100], [69]], params := [],
             def_ := .variant [{ name := [65], fields := [], index := 0, docs := [] },
                               { name := [67], fields := [], index := 1, docs := [] }],
             docs := [] } := by decide

example :
    (variantsExpected id true .default
      [{ ident := [65], shape := .unit, skip := true, codecIndex := none, discriminant := none, docs := [] },
       { ident := [66], shape := .unit, skip := false, codecIndex := none, discriminant := none, docs := [] },
       { ident := [67], shape := .unit, skip := false, codecIndex := some 7, discriminant := none, docs := [] },
       { ident := [68], shape := .unit, skip := false, codecIndex := none, discriminant := none, docs := [] }]).map (·.index)
    = [0, 7, 2] := by decide

/-- `stripSpaces (cleanTypeString "Vec < ( u8 , bool ) >") = "Vec<(u8,bool)>"` -/
example :
    stripSpaces (cleanTypeString [86, 101, 99, 32, 60, 32, 40, 32, 117, 56, 32, 44, 32, 98, 111, 111, 108, 32, 41, 32, 62])
      = [86, 101, 99, 60, 40, 117, 56, 44, 98, 111, 111, 108, 41, 62] := by decide

/-- `/// d` `struct S<T> { #[codec(skip)] a: u8, /// x
    b: u8, p: PhantomData<()>, #[codec(compact)] c: u8 }` with `skip_type_params(T)`, docs feature off, default capture_docs:
    skipped and PhantomData members vanish, `compact` wraps, gated docs vanish without the feature -/
example :
    Derive.typeInfo false
      { ident := [83], modulePath := [109], params := [{ name := [84], skipped := true, arg := .bool }],
        capture := .default, replace := [], docs := [[32, 100]],
        body := .struct (.named
          [{ ident := some [97], ty := .uint .w8, tyText := [117, 56], skip := true, compact := false, encodedAs := false, rename := none, docs := [] },
           { ident := some [98], ty := .uint .w8, tyText := [117, 56], skip := false, compact := false, encodedAs := false, rename := none, docs := [[32, 120]] },
           { ident := some [112], ty := .phantom .tuple0, tyText := [80], skip := false, compact := false, encodedAs := false, rename := none, docs := [] },
           { ident := some [99], ty := .uint .w8, tyText := [117, 56], skip := false, compact := true, encodedAs := false, rename := some [100], docs := [] }]) }
    = some { path := [[109], [83]], params := [{ name := [84], ty := none }],
             def_ := .composite [{ name := some [98], ty := .uint .w8, typeName := some [117, 56], docs := [] },
                                 { name := some [100], ty := .compact (.uint .w8), typeName := some [117, 56], docs := [] }],
             docs := [] } := by decide

/-- a segment that is not an identifier: the path constructor panics -/
example :
    Derive.typeInfo true
      { ident := [49], modulePath := [109], params := [], capture := .default, replace := [], docs := [], body := .struct .unit }
    = none := by decide

end C09
end SIM
