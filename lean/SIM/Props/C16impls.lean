/-
  C16 / C05 / C04 / C20 (tie to the source by translation): the `type Identity = ..` declaration and the forwarding body of every
  built-in `impl TypeInfo`, the primitive table, the tuple arities, the NonZero rows and the accepted `capture_docs` values —
  re-extracted from /repo/src/impls.rs and /repo/derive/src/attr.rs on every run (SIM.Extracted.ImplTable) — are the tables the
  model was written from (SIM.Expected.ImplTable), and the model's `Impls.identity`, primitive mapping and `captureOk` are the
  reading of those tables.
-/
import SIM.Extracted.ImplTable
import SIM.Model.ImplTableExpected
import SIM.Model.Impls
import SIM.Model.Json
import SIM.Model.Typestate
namespace SIM
namespace C16
open Impls

/-- what the source says today is what the model was written from -/
theorem extracted_impls_ok :
    Extracted.ImplTable.identities = Expected.ImplTable.identities ∧ Extracted.ImplTable.primImpls = Expected.ImplTable.primImpls ∧
    Extracted.ImplTable.tupleArities = Expected.ImplTable.tupleArities ∧ Extracted.ImplTable.nonZero = Expected.ImplTable.nonZero ∧
    Extracted.ImplTable.captureDocs = Expected.ImplTable.captureDocs ∧
    Extracted.ImplTable.captureLowercased = Expected.ImplTable.captureLowercased ∧
    Extracted.ImplTable.keywords = Expected.ImplTable.keywords := ⟨rfl, rfl, rfl, rfl, rfl, rfl, rfl⟩

/-! the source spellings, as bytes -/
def sSelf : Str := [83, 101, 108, 102]   -- `Self`
def sTId : Str := [84, 58, 58, 73, 100, 101, 110, 116, 105, 116, 121]   -- `T::Identity`
def sSliceT : Str := [91, 84, 93]   -- `[T]`
def sStr : Str := [115, 116, 114]   -- `str`
def sPhId : Str := [80, 104, 97, 110, 116, 111, 109, 73, 100, 101, 110, 116, 105, 116, 121]   -- `PhantomIdentity`
def sFwdId : Str := [83, 101, 108, 102, 58, 58, 73, 100, 101, 110, 116, 105, 116, 121]   -- `Self::Identity`
def sFwdT : Str := [84]   -- `T`
def sNone_ : Str := []   -- ``
def iPrim : Str := [105, 109, 112, 108, 95, 109, 101, 116, 97, 100, 97, 116, 97, 95, 102, 111, 114, 95, 112, 114, 105, 109, 105, 116, 105, 118, 101, 115, 33]   -- `impl_metadata_for_primitives!`
def iTuple : Str := [105, 109, 112, 108, 95, 109, 101, 116, 97, 100, 97, 116, 97, 95, 102, 111, 114, 95, 116, 117, 112, 108, 101, 33]   -- `impl_metadata_for_tuple!`
def iNonZero : Str := [105, 109, 112, 108, 95, 102, 111, 114, 95, 110, 111, 110, 95, 122, 101, 114, 111, 33]   -- `impl_for_non_zero!`
def iArray : Str := [91, 84, 59, 78, 93]   -- `[T;N]`
def iDuration : Str := [68, 117, 114, 97, 116, 105, 111, 110]   -- `Duration`
def iVec : Str := [86, 101, 99, 60, 84, 62]   -- `Vec<T>`
def iVecDeque : Str := [86, 101, 99, 68, 101, 113, 117, 101, 60, 84, 62]   -- `VecDeque<T>`
def iOption : Str := [79, 112, 116, 105, 111, 110, 60, 84, 62]   -- `Option<T>`
def iResult : Str := [82, 101, 115, 117, 108, 116, 60, 84, 44, 69, 62]   -- `Result<T,E>`
def iCow : Str := [67, 111, 119, 60, 39, 115, 116, 97, 116, 105, 99, 44, 84, 62]   -- `Cow<'static,T>`
def iBTreeMap : Str := [66, 84, 114, 101, 101, 77, 97, 112, 60, 75, 44, 86, 62]   -- `BTreeMap<K,V>`
def iBTreeSet : Str := [66, 84, 114, 101, 101, 83, 101, 116, 60, 84, 62]   -- `BTreeSet<T>`
def iBinaryHeap : Str := [66, 105, 110, 97, 114, 121, 72, 101, 97, 112, 60, 84, 62]   -- `BinaryHeap<T>`
def iBox : Str := [66, 111, 120, 60, 84, 62]   -- `Box<T>`
def iRc : Str := [82, 99, 60, 84, 62]   -- `Rc<T>`
def iArc : Str := [65, 114, 99, 60, 84, 62]   -- `Arc<T>`
def iRef : Str := [38, 84]   -- `&T`
def iRefMut : Str := [38, 109, 117, 116, 84]   -- `&mutT`
def iSlice : Str := [91, 84, 93]   -- `[T]`
def iStr : Str := [115, 116, 114]   -- `str`
def iString : Str := [83, 116, 114, 105, 110, 103]   -- `String`
def iPhantom : Str := [80, 104, 97, 110, 116, 111, 109, 68, 97, 116, 97, 60, 84, 62]   -- `PhantomData<T>`
def iCompact : Str := [115, 99, 97, 108, 101, 58, 58, 67, 111, 109, 112, 97, 99, 116, 60, 84, 62]   -- `scale::Compact<T>`
def iRange : Str := [82, 97, 110, 103, 101, 60, 73, 100, 120, 62]   -- `Range<Idx>`
def iRangeIncl : Str := [82, 97, 110, 103, 101, 73, 110, 99, 108, 117, 115, 105, 118, 101, 60, 73, 100, 120, 62]   -- `RangeInclusive<Idx>`
def iBitVec : Str := [98, 105, 116, 118, 101, 99, 58, 58, 118, 101, 99, 58, 58, 66, 105, 116, 86, 101, 99, 60, 84, 44, 79, 62]   -- `bitvec::vec::BitVec<T,O>`
def iLsb0 : Str := [98, 105, 116, 118, 101, 99, 58, 58, 111, 114, 100, 101, 114, 58, 58, 76, 115, 98, 48]   -- `bitvec::order::Lsb0`
def iMsb0 : Str := [98, 105, 116, 118, 101, 99, 58, 58, 111, 114, 100, 101, 114, 58, 58, 77, 115, 98, 48]   -- `bitvec::order::Msb0`

/-- the row of the source table a type expression is an instance of: (impl target or macro, declared identity, forwarding target);
    user types (`adt`) are not built-in -/
def declared : TyExpr → Option (Str × Str × Str)
  | .bool | .char | .uint _ | .sint _ => some (iPrim, sSelf, sNone_)
  | .str => some (iStr, sSelf, sNone_)
  | .string => some (iString, sStr, sFwdId)
  | .array _ _ => some (iArray, sSelf, sNone_)
  | .tuple0 | .tupleCons _ _ => some (iTuple, sSelf, sNone_)
  | .slice _ => some (iSlice, sSelf, sNone_)
  | .vec _ => some (iVec, sSliceT, sFwdId)
  | .vecDeque _ => some (iVecDeque, sSliceT, sFwdId)
  | .option _ => some (iOption, sSelf, sNone_)
  | .result _ _ => some (iResult, sSelf, sNone_)
  | .box_ _ => some (iBox, sTId, sFwdT)
  | .rc _ => some (iRc, sTId, sFwdT)
  | .arc _ => some (iArc, sTId, sFwdT)
  | .ref_ _ => some (iRef, sTId, sFwdT)
  | .refMut _ => some (iRefMut, sTId, sFwdT)
  | .cow _ => some (iCow, sSelf, sNone_)
  | .btreeMap _ _ => some (iBTreeMap, sSelf, sNone_)
  | .btreeSet _ => some (iBTreeSet, sSelf, sNone_)
  | .binaryHeap _ => some (iBinaryHeap, sSelf, sNone_)
  | .compact _ => some (iCompact, sSelf, sNone_)
  | .range _ => some (iRange, sSelf, sNone_)
  | .rangeIncl _ => some (iRangeIncl, sSelf, sNone_)
  | .nonZeroU _ | .nonZeroI _ => some (iNonZero, sSelf, sNone_)
  | .duration => some (iDuration, sSelf, sNone_)
  | .phantom _ => some (iPhantom, sPhId, sNone_)
  | .bitVec _ _ => some (iBitVec, sSelf, sNone_)
  | .lsb0 => some (iLsb0, sSelf, sNone_)
  | .msb0 => some (iMsb0, sSelf, sNone_)
  | .adt _ _ => none

/-- the (first) generic argument `T` of a built-in wrapper -/
def argT : TyExpr → TyExpr
  | .vec t | .vecDeque t | .box_ t | .rc t | .arc t | .ref_ t | .refMut t => t
  | t => t

/-- reading of a declared `type Identity = ..` for the expression `t` -/
def readIdentity (t : TyExpr) (decl : Str) : Option TyExpr :=
  if decl == sSelf then some t
  else if decl == sTId then some (identity (argT t))
  else if decl == sSliceT then some (.slice (argT t))
  else if decl == sStr then some .str
  else if decl == sPhId then some (.phantom .tuple0)
  else none

/-- every built-in type expression is an instance of a row of the source's table -/
theorem declared_in_table (t : TyExpr) (r : Str × Str × Str) (h : declared t = some r) : r ∈ Expected.ImplTable.identities := by
  cases t <;> simp only [declared, reduceCtorEq] at h <;> (cases h; decide)

/-- and there are no other rows: the table has exactly the impls the model knows -/
theorem table_complete : Expected.ImplTable.identities.length = 28 ∧ (Expected.ImplTable.identities.map (·.1)).Nodup := by
  decide

/-- **the model's `identity` is the reading of the source's `type Identity` declarations** -/
theorem identity_is_declared (t : TyExpr) (r : Str × Str × Str) (h : declared t = some r) : readIdentity t r.2.1 = some (identity t) := by
  cases t <;> simp only [declared, reduceCtorEq] at h <;> cases h <;> simp [readIdentity, identity, argT, sSelf, sTId, sSliceT, sStr, sPhId]

/-- user types declare `Identity = Self` (the derive emits it; hand-written impls in the corpus too) -/
theorem identity_adt (n : Nat) (a : TyExpr) : identity (.adt n a) = .adt n a := by
  simp [identity]

/-- **aliases forward their definition**: every impl whose identity is not `Self` answers `type_info()` with the identity's (the
    one-line forwarder), except `PhantomData<T>`, whose identity `PhantomData<()>` is an instance of the same impl -/
theorem aliases_forward : ∀ r ∈ Expected.ImplTable.identities, r.2.1 ≠ sSelf →
    (r.2.2 = sFwdId ∨ (r.2.2 = sFwdT ∧ r.2.1 = sTId) ∨ r.1 = iPhantom) := by
  decide

/-- … and the model forwards where the source does: a row that forwards to `Self::Identity` has the definition of its declared
    identity, a row that forwards to `T` the definition of its argument -/
theorem model_forwards (d : Bool) (t : TyExpr) :
    typeInfo d (.vec t) = typeInfo d (.slice t) ∧ typeInfo d (.vecDeque t) = typeInfo d (.slice t) ∧ typeInfo d .string = typeInfo d .str ∧
    typeInfo d (.box_ t) = typeInfo d t ∧ typeInfo d (.rc t) = typeInfo d t ∧ typeInfo d (.arc t) = typeInfo d t ∧
    typeInfo d (.ref_ t) = typeInfo d t ∧ typeInfo d (.refMut t) = typeInfo d t := by
  simp [typeInfo]

/-- and no impl that declares `Identity = Self` forwards -/
theorem selves_do_not_forward : ∀ r ∈ Expected.ImplTable.identities, r.2.1 = sSelf → r.2.2 = sNone_ := by
  decide

/-- **primitive table (C04)**: the Rust primitive types map to the variant of the same name; the model's mapping is that table -/
theorem prim_impls_match :
    (JsonM.primName .bool, JsonM.primName .bool) ∈ Expected.ImplTable.primImpls ∧
    (JsonM.primName .char, JsonM.primName .char) ∈ Expected.ImplTable.primImpls ∧
    (JsonM.primName .str, JsonM.primName .str) ∈ Expected.ImplTable.primImpls ∧
    (∀ w, (JsonM.primName (primOfUint w), JsonM.primName (primOfUint w)) ∈ Expected.ImplTable.primImpls) ∧
    (∀ w, (JsonM.primName (primOfSint w), JsonM.primName (primOfSint w)) ∈ Expected.ImplTable.primImpls) := by
  refine ⟨by decide, by decide, by decide, ?_, ?_⟩ <;> intro w <;> cases w <;> decide

theorem prim_impls_complete : Expected.ImplTable.primImpls.length = 13 ∧ ∀ r ∈ Expected.ImplTable.primImpls, r.1 = r.2 := by
  decide

/-- tuples of 0 … 20 members are described, nothing else -/
theorem tuple_arities : Expected.ImplTable.tupleArities = List.range 21 := by
  decide

/-- `NonZeroX` is described as a wrapper of the primitive `x` of the same width and sign -/
theorem non_zero_rows :
    (∀ w, (nonZeroUName w, JsonM.primName (primOfUint w)) ∈ Expected.ImplTable.nonZero) ∧
    (∀ w, (nonZeroIName w, JsonM.primName (primOfSint w)) ∈ Expected.ImplTable.nonZero) ∧ Expected.ImplTable.nonZero.length = 10 := by
  refine ⟨?_, ?_, by decide⟩ <;> intro w <;> cases w <;> decide

/-- **accepted `capture_docs` values (C20)**: the model accepts exactly the source's strings, compared after lower-casing -/
theorem capture_values (v : Str) :
    Typestate.captureOk v = (Expected.ImplTable.captureDocs.map (·.1)).contains (Typestate.lower v) ∧ Expected.ImplTable.captureLowercased = true := by
  constructor
  · simp only [Typestate.captureOk, Expected.ImplTable.captureDocs, List.map, List.contains, List.elem]
    cases Typestate.lower v == [100, 101, 102, 97, 117, 108, 116] <;> cases Typestate.lower v == [97, 108, 119, 97, 121, 115] <;>
      cases Typestate.lower v == [110, 101, 118, 101, 114] <;> rfl
  · rfl

/-! non-vacuity: concrete instances -/
example : declared (.vec .bool) = some (iVec, sSliceT, sFwdId) ∧ readIdentity (.vec .bool) sSliceT = some (identity (.vec .bool)) := ⟨rfl, by decide⟩
example : declared (.box_ (.vec .bool)) = some (iBox, sTId, sFwdT) ∧ identity (.box_ (.vec .bool)) = .slice .bool := ⟨rfl, rfl⟩

end C16
end SIM
