/-
  C14 (size) — decoding never yields a value out of proportion to its input: a decoded registry is not bigger
  than the bytes it was decoded from, because every node, every list element and every string byte costs at
  least one input byte.

  The measure (`sizeRegistry` and friends) is defined in `SIM.Lemmas.CodecSize` and re-exported here.
-/
import SIM.Lemmas.CodecSize
import SIM.Props.C14
import SIM.Props.C07
namespace SIM
namespace C14
open Codec

export Codec (sizeStr sizeStrs sizeOptStr sizeField sizeFields sizeVariant sizeTypeDef sizeParam sizeTy
  sizePType sizeRegistry)

/-- the encoding of a registry is at least as long as the registry is big -/
theorem size_le_encode (r : PortableRegistry) : sizeRegistry r ≤ (Codec.encode r).length :=
  sizeRegistry_le r

/-- a decoded registry is never bigger than the bytes it was decoded from: size of the value + bytes left over ≤ input length -/
theorem decoded_size_le_input (bs : Bytes) (r : PortableRegistry) (rest : Bytes)
    (h : Codec.decode bs = some (r, rest)) : sizeRegistry r + rest.length ≤ bs.length := by
  have hc := decode_canonical bs r rest h
  have hs := size_le_encode r
  rw [hc, List.length_append]
  omega

/-- in particular the number of entries is bounded by the input length -/
theorem decoded_entries_le_input (bs : Bytes) (r : PortableRegistry) (rest : Bytes)
    (h : Codec.decode bs = some (r, rest)) : r.length ≤ bs.length := by
  have h1 := decoded_size_le_input bs r rest h
  have h2 := length_le_sizeRegistry r
  omega

/-! ### the measure counts every list element and every string byte -/

/-- total string bytes of a string list are below its measure -/
theorem strs_bytes_le (l : List Str) : l.length + (l.map List.length).sum ≤ sizeStrs l := by
  have h : ∀ l : List Str, l.length + (l.map List.length).sum ≤ (l.map sizeStr).sum := by
    intro l
    induction l with
    | nil => simp
    | cons s l ih =>
      simp only [List.map_cons, List.sum_cons, List.length_cons, Codec.sizeStr]
      omega
  have := h l
  simp only [Codec.sizeStrs]
  omega

/-! ### examples -/

example : sizeRegistry C07.sample ≤ (Codec.encode C07.sample).length := size_le_encode _

example : sizeRegistry C07.sample = 83 ∧ (Codec.encode C07.sample).length = 94 := by decide

/-- tight: the empty registry is one byte and has size one -/
example : Codec.decode [0] = some ([], []) ∧ sizeRegistry [] + ([] : Bytes).length = ([0] : Bytes).length := by
  decide

/-- tight on a non-empty input: one `u8` primitive with no path, parameters or docs is 7 bytes and has size 7
    (`04` one entry, `00` id, `00` path, `00` params, `05 03` primitive u8, `00` docs) -/
example : Codec.decode [4, 0, 0, 0, 5, 3, 0] = some ([C07.plain 0 (.primitive .u8)], []) ∧
    sizeRegistry [C07.plain 0 (.primitive .u8)] = 7 := by
  decide

/-- with trailing bytes: the remainder is accounted for -/
example : Codec.decode [4, 0, 0, 0, 5, 3, 0, 9, 9] = some ([C07.plain 0 (.primitive .u8)], [9, 9]) ∧
    sizeRegistry [C07.plain 0 (.primitive .u8)] + ([9, 9] : Bytes).length = 9 := by
  decide

/-- slack comes only from multi-byte integers: a 2-byte compact string length gives one byte of slack -/
example : sizeStr (List.replicate 64 0) + 1 = (encStr (List.replicate 64 0)).length := by decide

end C14
end SIM
