/-
  C13 — the where clause the derive generates: an explicit `bounds(..)` replaces it, the generated one is minimal,
  skipped members / skipped parameters are not bound, and it is sufficient: the derived impl is usable whenever the
  non-skipped parameters and the encoded members have type info.
-/
import SIM.Model.Bounds
namespace SIM
namespace C13
open Bounds Spec

/-- an explicit bounds attribute replaces the generated bounds (only `'static` is added) -/
theorem bounds_custom (d : GDecl) (ks : List Nat) (h : d.customBounds = some ks) :
    whereClause d = ks.map (fun k => Pred.typeInfo (.adt (1000 + k) .tuple0)) ++ (List.range d.params.length).map Pred.static_ := by
  simp only [whereClause, h]

/-- membership in the generated where clause, spelled out -/
theorem mem_whereClause (d : GDecl) (h : d.customBounds = none) (p : Pred) (hp : p ∈ whereClause d) :
    (∃ f ∈ d.fields, f.skip = false ∧ mentionsParam f.ty = true ∧ mentionsSelf f.ty = false ∧
        p = (if f.compact then Pred.hasCompact f.ty else Pred.typeInfo f.ty)) ∨
    (∃ k, k < d.params.length ∧
        p = (if (d.params[k]?.map (·.skipped)).getD false then Pred.static_ k else Pred.typeInfo (.adt (1000 + k) .tuple0))) := by
  simp only [whereClause, h] at hp
  split at hp
  · cases hp
  · rcases List.mem_append.1 hp with hp | hp
    · left
      rcases List.mem_map.1 hp with ⟨f, hf, rfl⟩
      rcases List.mem_filter.1 hf with ⟨hf, hc⟩
      simp only [Bool.and_eq_true, Bool.not_eq_true'] at hc
      exact ⟨f, hf, hc.1.1, hc.1.2, hc.2, rfl⟩
    · right
      rcases List.mem_map.1 hp with ⟨k, hk, rfl⟩
      exact ⟨k, List.mem_range.1 hk, rfl⟩

/-- every generated predicate is needed by the generated body (or is a `'static` bound): the bounds are minimal -/
theorem bounds_minimal (d : GDecl) (h : d.customBounds = none) :
    ∀ p ∈ whereClause d, (∃ k, p = Pred.static_ k) ∨ p ∈ obligations d := by
  intro p hp
  rcases mem_whereClause d h p hp with ⟨f, hf, hs, _, _, rfl⟩ | ⟨k, hk, rfl⟩
  · right
    refine List.mem_append.2 (Or.inl (List.mem_map.2 ⟨f, List.mem_filter.2 ⟨hf, ?_⟩, rfl⟩))
    simp [hs]
  · cases hsk : (d.params[k]?.map (·.skipped)).getD false with
    | true => left; exact ⟨k, by simp⟩
    | false =>
      right
      refine List.mem_append.2 (Or.inr (List.mem_map.2 ⟨k, List.mem_filter.2 ⟨List.mem_range.2 hk, ?_⟩, ?_⟩))
      · simp [hsk]
      · simp

/-- the type of a `#[codec(skip)]` member is never bound on its account -/
theorem skipped_members_unbound (d : GDecl) (h : d.customBounds = none) (t : TyExpr)
    (hp : Pred.typeInfo t ∈ whereClause d ∨ Pred.hasCompact t ∈ whereClause d) :
    (∃ f ∈ d.fields, f.skip = false ∧ f.ty = t) ∨ (∃ k, t = .adt (1000 + k) .tuple0) := by
  rcases hp with hp | hp
  · rcases mem_whereClause d h _ hp with ⟨f, hf, hs, _, _, he⟩ | ⟨k, _, he⟩
    · left
      refine ⟨f, hf, hs, ?_⟩
      split at he
      · cases he
      · cases he; rfl
    · right
      split at he
      · cases he
      · exact ⟨k, Pred.typeInfo.inj he⟩
  · rcases mem_whereClause d h _ hp with ⟨f, hf, hs, _, _, he⟩ | ⟨k, _, he⟩
    · left
      refine ⟨f, hf, hs, ?_⟩
      split at he
      · cases he; rfl
      · cases he
    · split at he <;> cases he

/-- a parameter named in skip_type_params gets no TypeInfo bound of its own -/
theorem bounds_skip (d : GDecl) (h : d.customBounds = none) (k : Nat) (hk : k < d.params.length)
    (hs : (d.params[k]?.map (·.skipped)).getD false = true)
    (hfield : ∀ f ∈ d.fields, f.skip = false → f.ty ≠ .adt (1000 + k) .tuple0) :
    Pred.typeInfo (.adt (1000 + k) .tuple0) ∉ whereClause d := by
  intro hp
  rcases mem_whereClause d h _ hp with ⟨f, hf, hsk, _, _, he⟩ | ⟨k', _, he⟩
  · apply hfield f hf hsk
    split at he
    · cases he
    · exact (Pred.typeInfo.inj he).symm
  · split at he
    · cases he
    · rename_i hns
      have he := (TyExpr.adt.inj (Pred.typeInfo.inj he)).1
      have : k' = k := by omega
      subst this
      exact hns hs

/-- substituting the `k`-th parameter (`k < 1000`, the range the model's encoding reserves for parameters) -/
theorem subst_param (inst : List TyExpr) (k : Nat) (hk : k < 1000) :
    subst inst (.adt (1000 + k) .tuple0) = inst[k]?.getD .tuple0 := by
  have h1 : (decide (1000 ≤ 1000 + k) && decide (1000 + k < 2000)) = true := by
    simp only [Bool.and_eq_true, decide_eq_true_eq]; omega
  have h2 : 1000 + k - 1000 = k := by omega
  simp only [subst, h1, if_true, h2]

/-- **C13** (with the model's encoding restriction made explicit). The derived impl is usable for every instantiation
    in which the non-skipped parameters and the types of the members that are part of the encoding have type info,
    provided every non-skipped parameter has an index below 1000 (the model writes the `k`-th parameter as
    `adt (1000+k)`, and `adt 2000..2999` are read as associated types by `subst`).
    The unrestricted statement is false in the model: see `bounds_sufficient_counterexample`. -/
theorem bounds_sufficient_partial (d : GDecl) (inst : List TyExpr) (h : d.customBounds = none)
    (henc : ∀ k, k < d.params.length → (d.params[k]?.map (·.skipped)).getD false = false → k < 1000)
    (hs : usableSpec d inst = true) : usable d inst = true := by
  simp only [usableSpec, Bool.and_eq_true, List.all_eq_true] at hs
  obtain ⟨hpar, hfld⟩ := hs
  simp only [usable, List.all_eq_true]
  intro p hp
  rcases mem_whereClause d h p hp with ⟨f, hf, hsk, _, _, rfl⟩ | ⟨k, hk, rfl⟩
  · have := hfld f hf
    simp only [hsk, Bool.false_or] at this
    cases hc : f.compact with
    | true => simpa [hc, holds] using this
    | false => simpa [hc, holds] using this
  · cases hsk : (d.params[k]?.map (·.skipped)).getD false with
    | true => simp [holds]
    | false =>
      have := hpar k (List.mem_range.2 hk)
      simp only [hsk, Bool.false_or] at this
      simp only [Bool.false_eq_true, if_false, holds]
      rw [subst_param inst k (henc k hk hsk)]
      exact this

/-- **C13.** `bounds_sufficient` for every declaration with at most 1000 type parameters -/
theorem bounds_sufficient_le (d : GDecl) (inst : List TyExpr) (h : d.customBounds = none)
    (hlen : d.params.length ≤ 1000)
    (hs : usableSpec d inst = true) : usable d inst = true :=
  bounds_sufficient_partial d inst h (fun _ hk _ => Nat.lt_of_lt_of_le hk hlen) hs

/-- membership in the generated where clause of the bound on a non-skipped parameter -/
theorem param_bound_mem (d : GDecl) (h : d.customBounds = none) (k : Nat) (hk : k < d.params.length)
    (hns : (d.params[k]?.map (·.skipped)).getD false = false) :
    Pred.typeInfo (.adt (1000 + k) .tuple0) ∈ whereClause d := by
  simp only [whereClause, h]
  have hne : d.params.isEmpty = false := by
    cases hp : d.params with
    | nil => rw [hp] at hk; exact absurd hk (Nat.not_lt_zero _)
    | cons a l => rfl
  rw [hne]
  refine List.mem_append.2 (Or.inr (List.mem_map.2 ⟨k, List.mem_range.2 hk, ?_⟩))
  rw [hns]
  rfl

/-- the unrestricted `bounds_sufficient` does not hold in the model: with 1001 non-skipped parameters the bound on
    parameter 1000 is written `adt 2000`, which `subst` reads as the associated type `P_0::A` -/
def cex : GDecl := { params := List.replicate 1001 ⟨[], false⟩, customBounds := none, fields := [] }

theorem replicate_not_skipped (n k : Nat) :
    (((List.replicate n (⟨[], false⟩ : GParam))[k]?).map (·.skipped)).getD false = false := by
  rw [List.getElem?_replicate]
  split <;> rfl

theorem bounds_sufficient_counterexample :
    cex.customBounds = none ∧ usableSpec cex [] = true ∧ usable cex [] = false := by
  have hlen : cex.params.length = 1001 := List.length_replicate ..
  refine ⟨rfl, ?_, ?_⟩
  · simp only [usableSpec, Bool.and_eq_true, List.all_eq_true]
    refine ⟨fun k _ => ?_, fun f hf => by cases hf⟩
    simp [hasInfo]
  · have hns : (cex.params[1000]?.map (·.skipped)).getD false = false :=
      replicate_not_skipped 1001 1000
    have hmem := param_bound_mem cex rfl 1000 (by rw [hlen]; exact Nat.lt_succ_self _) hns
    cases hu : usable cex [] with
    | false => rfl
    | true =>
      simp only [usable, List.all_eq_true] at hu
      have := hu _ hmem
      exact absurd this (by decide)

/-- examples -/
example : usable { params := [⟨[84], false⟩], customBounds := none, fields := [⟨.adt 1000 .tuple0, false, false⟩] }
    [.uint .w8] = true := by decide
example : usable { params := [⟨[84], false⟩], customBounds := none, fields := [⟨.adt 1000 .tuple0, false, false⟩] }
    [.adt 4002 .tuple0] = false := by decide
example : usable { params := [⟨[84], true⟩], customBounds := none, fields := [⟨.adt 1000 .tuple0, true, false⟩] }
    [.adt 4002 .tuple0] = true := by decide

end C13
end SIM
