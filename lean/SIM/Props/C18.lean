/-
  C18 — Paths are non-empty sequences of valid Rust identifiers.

  `Spec.isIdent` is the regular expression `(r#)?[A-Za-z_][A-Za-z0-9_]*` of the statement.
  The model (`SIM.Model.Path`) transcribes src/utils.rs and src/ty/path.rs.
-/
import SIM.Model.Path
namespace SIM
namespace C18
open PathM

theorem headOk_ascii (b : UInt8) (h : headOk b = true) : isAscii b = true := by
  simp only [headOk, isLower, isUpper, isAscii, Bool.or_eq_true, Bool.and_eq_true, decide_eq_true_eq, beq_iff_eq] at *
  rcases h with (h | h) | h
  · subst h; decide
  · have := h.2; exact UInt8.lt_of_le_of_lt this (by decide)
  · have := h.2; exact UInt8.lt_of_le_of_lt this (by decide)

theorem tailOk_ascii (b : UInt8) (h : tailOk b = true) : isAscii b = true := by
  simp only [tailOk, isDigit, isLower, isUpper, isAscii, Bool.or_eq_true, Bool.and_eq_true, decide_eq_true_eq, beq_iff_eq] at *
  rcases h with ((h | h) | h) | h
  · subst h; decide
  · have := h.2; exact UInt8.lt_of_le_of_lt this (by decide)
  · have := h.2; exact UInt8.lt_of_le_of_lt this (by decide)
  · have := h.2; exact UInt8.lt_of_le_of_lt this (by decide)

theorem body_ascii (s : Str) (h : Spec.isIdentBody s = true) : s.all isAscii = true := by
  cases s with
  | nil => simp [Spec.isIdentBody] at h
  | cons a t =>
    simp only [Spec.isIdentBody, Bool.and_eq_true, List.all_eq_true] at h
    simp only [List.all_cons, Bool.and_eq_true, List.all_eq_true]
    exact ⟨headOk_ascii a h.1, fun x hx => tailOk_ascii x (h.2 x hx)⟩

theorem body_eq (s : Str) : identBody s = Spec.isIdentBody s := by
  cases s <;> rfl

/-- a string that starts with `r#` is never an identifier body (`#` is not an identifier character) -/
theorem body_raw_false (rest : Str) : Spec.isIdentBody (114 :: 35 :: rest) = false := by
  simp [Spec.isIdentBody, tailOk, isLower, isUpper, isDigit]

/-- **C18 (identifier).** `is_rust_identifier` accepts exactly `(r#)?[A-Za-z_][A-Za-z0-9_]*`,
    for every byte string. -/
theorem ident_iff (s : Str) : isRustIdentifier s = Spec.isIdent s := by
  unfold isRustIdentifier trimRaw
  by_cases hraw : ∃ rest, s = 114 :: 35 :: rest
  · obtain ⟨rest, rfl⟩ := hraw
    simp only [stripRawOnce, Spec.isIdent, body_eq, body_raw_false, Bool.or_false]
    by_cases hb : Spec.isIdentBody rest = true
    · have := body_ascii rest hb
      simp [isAscii, this, hb]
    · simp only [Bool.not_eq_true] at hb
      simp [hb]
  · have hs : stripRawOnce s = s := by
      unfold stripRawOnce
      split
      · exact absurd ⟨_, rfl⟩ hraw
      · rfl
    have hi : Spec.isIdent s = Spec.isIdentBody s := by
      unfold Spec.isIdent
      split
      · exact absurd ⟨_, rfl⟩ hraw
      · rfl
    rw [hs, hi, body_eq]
    by_cases hb : Spec.isIdentBody s = true
    · simp [body_ascii s hb, hb]
    · simp only [Bool.not_eq_true] at hb
      simp [hb]

/-! ### `from_segments` -/

theorem position_none {α} (p : α → Bool) (l : List α) : position p l = none ↔ ∀ x ∈ l, p x = false := by
  induction l with
  | nil => simp [position]
  | cons a t ih =>
    simp only [position]
    by_cases h : p a = true
    · simp [h]
    · simp only [Bool.not_eq_true] at h
      simp [h, ih]

theorem position_some {α} (p : α → Bool) (l : List α) (i : Nat) :
    position p l = some i ↔ ∃ h : i < l.length, p l[i] = true ∧ ∀ j (hj : j < i), p (l[j]'(by omega)) = false := by
  induction l generalizing i with
  | nil => simp [position]
  | cons a t ih =>
    simp only [position]
    by_cases h : p a = true
    · simp only [h, if_true, Option.some.injEq]
      constructor
      · rintro rfl; exact ⟨by simp, by simpa using h, by intro j hj; omega⟩
      · rintro ⟨hi, hp, hall⟩
        cases i with
        | zero => rfl
        | succ i => have := hall 0 (by omega); simp [h] at this
    · simp only [Bool.not_eq_true] at h
      simp only [h, Bool.false_eq_true, if_false, Option.map_eq_some_iff]
      constructor
      · rintro ⟨k, hk, rfl⟩
        obtain ⟨hk1, hk2, hk3⟩ := (ih k).1 hk
        refine ⟨by simp; omega, by simpa using hk2, ?_⟩
        intro j hj
        cases j with
        | zero => simpa using h
        | succ j => simpa using hk3 j (by omega)
      · rintro ⟨hi, hp, hall⟩
        cases i with
        | zero => simp [h] at hp
        | succ i =>
          refine ⟨i, (ih i).2 ⟨by simpa using hi, by simpa using hp, ?_⟩, rfl⟩
          intro j hj
          simpa using hall (j + 1) (by omega)

/-- **C18 (acceptance).** construction from explicit segments succeeds exactly when there is at
    least one segment and every segment matches the identifier grammar; the path keeps the
    segments in order. -/
theorem fromSegments_ok_iff (segs p : List Str) :
    fromSegments segs = .ok p ↔ (segs ≠ [] ∧ (∀ s ∈ segs, Spec.isIdent s = true) ∧ p = segs) := by
  unfold fromSegments
  cases segs with
  | nil => simp
  | cons a t =>
    simp only [List.isEmpty_cons, Bool.false_eq_true, if_false, ne_eq, reduceCtorEq, not_false_eq_true, true_and]
    cases hpos : position (fun s => !isRustIdentifier s) (a :: t) with
    | none =>
      have := (position_none _ _).1 hpos
      simp only [Bool.not_eq_false'] at this
      simp only [Except.ok.injEq]
      constructor
      · rintro rfl; exact ⟨fun s hs => by rw [← ident_iff]; exact this s hs, rfl⟩
      · rintro ⟨_, rfl⟩; rfl
    | some i =>
      obtain ⟨hi, hp, _⟩ := (position_some _ _ i).1 hpos
      simp only [reduceCtorEq, false_iff, not_and]
      intro hall
      have := hall _ (List.getElem_mem hi)
      rw [← ident_iff] at this
      simp [this] at hp

/-- no segments: `MissingSegments` -/
theorem fromSegments_empty : fromSegments [] = .error .missingSegments := rfl

/-- **C18 (error position).** otherwise the reported position is that of the FIRST segment that
    is not an identifier. -/
theorem fromSegments_first_bad (segs : List Str) (i : Nat) :
    fromSegments segs = .error (.invalidIdentifier i) ↔
      ∃ h : i < segs.length, Spec.isIdent segs[i] = false ∧
        ∀ j (hj : j < i), Spec.isIdent (segs[j]'(by omega)) = true := by
  unfold fromSegments
  cases segs with
  | nil => simp
  | cons a t =>
    simp only [List.isEmpty_cons, Bool.false_eq_true, if_false]
    cases hpos : position (fun s => !isRustIdentifier s) (a :: t) with
    | none =>
      have := (position_none _ _).1 hpos
      simp only [Bool.not_eq_false'] at this
      simp only [reduceCtorEq, false_iff, not_exists, not_and]
      intro hi hbad
      have := this _ (List.getElem_mem hi)
      rw [ident_iff] at this
      simp [this] at hbad
    | some k =>
      simp only [Except.error.injEq, PathError.invalidIdentifier.injEq]
      have hk := (position_some (fun s => !isRustIdentifier s) (a :: t) k).1 hpos
      constructor
      · rintro rfl
        obtain ⟨h1, h2, h3⟩ := hk
        refine ⟨h1, ?_, ?_⟩
        · rw [← ident_iff]; simpa using h2
        · intro j hj; rw [← ident_iff]; simpa using h3 j hj
      · rintro ⟨h1, h2, h3⟩
        have : position (fun s => !isRustIdentifier s) (a :: t) = some i := by
          apply (position_some _ _ i).2
          refine ⟨h1, ?_, ?_⟩
          · rw [ident_iff]; simp [h2]
          · intro j hj; rw [ident_iff]; simp [h3 j hj]
        rw [hpos] at this
        exact Option.some.inj this

/-! ### `Path::new` / `new_with_replace` -/

theorem splitColons_ne_nil (cur m : Str) : splitColons cur m ≠ [] := by
  fun_induction splitColons cur m <;> simp_all

/-- **C18 (module path + ident, with replacement).** succeeds exactly when every segment of
    `module_path.split("::") ++ [ident]`, after the first matching replacement has been applied
    to it once, is an identifier; the segment list is never empty. -/
theorem newWithReplace_some_iff (ident module : Str) (table : List (Str × Str)) (p : List Str) :
    newWithReplace ident module table = some p ↔
      ((∀ s ∈ (splitColons [] module ++ [ident]).map (replaceSeg table), Spec.isIdent s = true) ∧
       p = (splitColons [] module ++ [ident]).map (replaceSeg table)) := by
  unfold newWithReplace
  cases h : fromSegments ((splitColons [] module ++ [ident]).map (replaceSeg table)) with
  | ok q =>
    obtain ⟨_, h2, h3⟩ := (fromSegments_ok_iff _ _).1 h
    simp only [Option.some.injEq]
    constructor
    · rintro rfl; exact ⟨h2, h3⟩
    · rintro ⟨_, rfl⟩; exact h3
  | error e =>
    simp only [reduceCtorEq, false_iff, not_and]
    intro hall hp
    have : fromSegments ((splitColons [] module ++ [ident]).map (replaceSeg table)) = .ok p := by
      apply (fromSegments_ok_iff _ _).2
      exact ⟨by simp, hall, hp⟩
    rw [h] at this
    cases this

/-- a replacement row is applied only when its `search` equals the whole segment, and the first
    such row wins -/
theorem replaceSeg_spec (table : List (Str × Str)) (s : Str) :
    replaceSeg table s = match table.find? (fun r => r.1 == s) with | some r => r.2 | none => s := rfl

theorem replaceSeg_nil (s : Str) : replaceSeg [] s = s := rfl

/-! ### accessors -/

/-- **C18 (accessors).** ident = last segment, namespace = the rest, display = segments joined by `::` -/
theorem path_accessors (p : List Str) :
    ident p = p.getLast? ∧ namespace_ p = p.dropLast ∧ display p = List.intercalate [58, 58] p := by
  refine ⟨rfl, rfl, ?_⟩
  induction p with
  | nil => rfl
  | cons a t ih =>
    cases t with
    | nil => simp [display, List.intercalate]
    | cons b u =>
      simp only [display]
      rw [ih]
      simp [List.intercalate, List.intersperse]

theorem ident_ns (p : List Str) (h : p ≠ []) : ∃ last, ident p = some last ∧ p = namespace_ p ++ [last] := by
  refine ⟨p.getLast h, ?_, ?_⟩
  · simp [ident, List.getLast?_eq_some_getLast h]
  · simp [namespace_, List.dropLast_concat_getLast h]

/-! ### non-vacuity and the boundary the fix commit moved -/
example : isRustIdentifier [114, 35, 116, 121, 112, 101] = true := by decide
example : isRustIdentifier [114, 35, 114, 35, 102, 111, 111] = false := by decide
example : fromSegments [[99, 111, 114, 101], [114, 35, 109, 111, 100], [49, 120], [195, 169]]
    = .error (.invalidIdentifier 2) := by decide
example : newWithReplace [84] [97, 58, 58, 98] [([97], [98]), ([98], [97])]
    = some [[98], [97], [84]] := by decide

end C18
end SIM
