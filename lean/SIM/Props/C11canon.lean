/-
  C11 (continued) — `Registry` and `PortableRegistry::retain` produce the SAME canonical numbering: a registry
  produced by any history of `register_type` / `register_types` / `map_into_portable` is already in the
  depth-first, first-reached numbering `retain` would give it, i.e. retaining everything from it changes neither
  the registry nor any id.
-/
import SIM.Props.C11
import SIM.Props.C01
import SIM.Props.C10canon
import SIM.Lemmas.RegistryCanon
namespace SIM
namespace C11
open Reg

/-- a registry produced by any history of registrations is in canonical depth-first numbering: retaining
    everything from it is the identity (same registry, identity map).  Same hypotheses as `C01.run_wf`. -/
theorem registry_canonical (env : Nat → Ty Nat) (fuel : Nat) (ops : List Registry.Op) (s : RegState)
    (outs : List Registry.Out) (h : Registry.run env fuel Registry.empty ops = some (s, outs)) :
    Retain.retain (Registry.toPortable s) (fun _ => true) =
      some (Registry.toPortable s,
            (List.range (Registry.toPortable s).length).map (fun i => (i, i))) := by
  have hc := run_complete env fuel (Complete.empty env) h
  obtain ⟨ids, hflat⟩ := RegCanon.run_flat env fuel ops Registry.empty s outs h
  exact RegCanon.registry_canon_core hc hflat

/-- the single-operation case, from the empty registry -/
theorem register_type_canonical (env : Nat → Ty Nat) (fuel : Nat) (k : Nat) (s : RegState) (id : Nat)
    (h : Registry.registerType env fuel Registry.empty k = some (s, id)) :
    Retain.retain (Registry.toPortable s) (fun _ => true) =
      some (Registry.toPortable s,
            (List.range (Registry.toPortable s).length).map (fun i => (i, i))) :=
  registry_canonical env fuel [.reg k] s [.id id] (by simp [Registry.run, Registry.step, h])

/-- consequence: the two renumberings agree — retaining everything from a registry produced by `Registry`
    gives back every entry under its own id (`resolve` is unchanged) -/
theorem registry_retain_resolve (env : Nat → Ty Nat) (fuel : Nat) (ops : List Registry.Op) (s : RegState)
    (outs : List Registry.Out) (h : Registry.run env fuel Registry.empty ops = some (s, outs))
    (r' : PortableRegistry) (m : List (Nat × Nat))
    (hr : Retain.retain (Registry.toPortable s) (fun _ => true) = some (r', m)) :
    r' = Registry.toPortable s ∧ ∀ i, i < (Registry.toPortable s).length → Retain.lookup m i = some i := by
  rw [registry_canonical env fuel ops s outs h] at hr
  simp only [Option.some.injEq, Prod.mk.injEq] at hr
  obtain ⟨rfl, rfl⟩ := hr
  exact ⟨rfl, fun i hi => Retain.lookup_idmap_lt hi⟩

/-! ### non-vacuity: three identities with a cycle `0 → 1 → 2 → 0`; the history registers `2` and then `0` -/

/-- the env of `C01`: `0 = struct<T = #2> { f : #1 }`, `1 = enum { V(#2, #0) }`, `2 = [#0; 4]` -/
abbrev envC : Nat → Ty Nat := C01.env3

/-- registering `#2` first numbers `#2 ↦ 0`, `#0 ↦ 1`, `#1 ↦ 2` (not the numbering of `C01.expected3`) -/
def expectedC : PortableRegistry :=
  [ { id := 0, ty := { path := [], params := [], def_ := .array 4 1, docs := [] } },
    { id := 1,
      ty := { path := [[65]], params := [{ name := [84], ty := some 0 }],
              def_ := .composite [{ name := some [102], ty := 2, typeName := none, docs := [] }], docs := [] } },
    { id := 2,
      ty := { path := [[66]], params := [],
              def_ := .variant [{ name := [86], fields := [{ name := none, ty := 0, typeName := none, docs := [] },
                                                            { name := none, ty := 1, typeName := none, docs := [] }],
                                  index := 0, docs := [] }], docs := [] } } ]

/-- the 2-operation history: `register_type(#2)`, then `register_type(#0)` (already interned: id 1) -/
example :
    (Registry.run envC 4 Registry.empty [.reg 2, .reg 0]).map
        (fun r => (Registry.toPortable r.1, r.1.table.vec, r.2)) =
      some (expectedC, [2, 0, 1], [.id 0, .id 1]) := by
  decide

/-- the conclusion of `registry_canonical` on the example, computed -/
example : Retain.retain expectedC (fun _ => true) =
    some (expectedC, (List.range expectedC.length).map (fun i => (i, i))) := by
  decide

/-- … and the same instance obtained from the theorem -/
example : Retain.retain expectedC (fun _ => true) =
    some (expectedC, (List.range expectedC.length).map (fun i => (i, i))) := by
  have hne : Registry.run envC 4 Registry.empty [.reg 2, .reg 0] ≠ none := by decide
  cases hr : Registry.run envC 4 Registry.empty [.reg 2, .reg 0] with
  | none => exact absurd hr hne
  | some r =>
    have hcan := registry_canonical envC 4 [.reg 2, .reg 0] r.1 r.2 hr
    have he : Registry.toPortable r.1 = expectedC := by
      have : (Registry.run envC 4 Registry.empty [.reg 2, .reg 0]).map (fun r => Registry.toPortable r.1) =
          some expectedC := by decide
      rw [hr] at this
      exact Option.some.inj this
    rw [he] at hcan
    exact hcan

/-- a history with a `register_types` and a `map_into_portable` operation: roots `1`, then the field type `0` -/
example :
    (Registry.run envC 4 Registry.empty
        [.regs [1, 1], .mip [{ name := none, ty := 0, typeName := none, docs := [] }]]).map
      (fun r => (r.1.table.vec,
        decide (Retain.retain (Registry.toPortable r.1) (fun _ => true) =
          some (Registry.toPortable r.1, (List.range (Registry.toPortable r.1).length).map (fun i => (i, i)))))) =
      some ([1, 2, 0], true) := by
  decide

/-- the statement has content: a well-formed registry listing the same three definitions in another order
    (`C01.expected3` with entries 1 and 2 exchanged) is NOT in canonical numbering -/
def swapped : PortableRegistry :=
  [ { id := 0,
      ty := { path := [[65]], params := [{ name := [84], ty := some 2 }],
              def_ := .composite [{ name := some [102], ty := 1, typeName := none, docs := [] }], docs := [] } },
    { id := 1,
      ty := { path := [[66]], params := [],
              def_ := .variant [{ name := [86], fields := [{ name := none, ty := 2, typeName := none, docs := [] },
                                                            { name := none, ty := 0, typeName := none, docs := [] }],
                                  index := 0, docs := [] }], docs := [] } },
    { id := 2, ty := { path := [], params := [], def_ := .array 4 0, docs := [] } } ]

example : WF swapped := by
  unfold WF
  decide

example : Retain.retain swapped (fun _ => true) ≠
    some (swapped, (List.range swapped.length).map (fun i => (i, i))) := by
  decide

end C11
end SIM
