/-
  C01 — every registry the library produces is well formed: entry `i` carries id `i` (dense) and
  every reference is below the length (closed). For `Registry` histories, for the
  `PortableRegistryBuilder`, and across the SCALE round trip; `resolve` by index is lookup by id.
-/
import SIM.Lemmas.Registry
import SIM.Props.C07
namespace SIM
namespace C01
open Reg

/-- any history of `register_type` / `register_types` / `map_into_portable` leaves a well-formed registry -/
theorem run_wf (env : Nat → Ty Nat) (fuel : Nat) (ops : List Registry.Op) (s : RegState) (outs : List Registry.Out)
    (h : Registry.run env fuel Registry.empty ops = some (s, outs)) : WF (Registry.toPortable s) :=
  (run_complete env fuel (Complete.empty env) h).wf

/-- on a well-formed registry indexing is lookup by id -/
theorem resolve_dense (r : PortableRegistry) (h : WF r) (i : Nat) (t : Ty Nat) :
    resolve r i = some t ↔ ∃ e ∈ r, e.id = i ∧ e.ty = t := by
  constructor
  · intro hr
    simp only [resolve, Option.map_eq_some_iff] at hr
    obtain ⟨e, he, rfl⟩ := hr
    obtain ⟨hi, rfl⟩ := List.getElem?_eq_some_iff.1 he
    exact ⟨r[i], List.getElem_mem hi, (h i hi).1, rfl⟩
  · rintro ⟨e, he, rfl, rfl⟩
    obtain ⟨j, hj, rfl⟩ := List.getElem_of_mem he
    rw [(h j hj).1]
    simp [resolve, hj]

theorem builder_finish_dense (b : Builder) (i : Nat) (h : i < b.finish.length) : (b.finish[i]).id = i := by
  simp only [Builder.finish] at h ⊢
  rw [enumFrom_getElem]
  simp

theorem builder_finish_wf (b : Builder) (h : ∀ t ∈ b.types.vec, ∀ x ∈ t.refs, x < b.types.vec.length) :
    WF b.finish := by
  intro i hi
  refine ⟨builder_finish_dense b i hi, ?_⟩
  have hlen : b.finish.length = b.types.elements.length := enumFrom_length 0 _
  have hi' : i < b.types.elements.length := hlen ▸ hi
  have he : b.finish[i] = { id := 0 + i, ty := b.types.elements[i] } := enumFrom_getElem 0 _ i hi
  rw [he, hlen]
  intro x hx
  exact h _ (List.getElem_mem hi') x hx

/-- the SCALE round trip hands back a well-formed registry -/
theorem decode_encode_wf (r : PortableRegistry) (hb : Codec.Bounded r) (hw : WF r) :
    ∃ r', Codec.decode (Codec.encode r) = some (r', []) ∧ WF r' :=
  ⟨r, C07.decode_encode_exact r hb, hw⟩

/-! ### non-vacuity: three mutually recursive types, one referenced through a type parameter -/

/-- `0 = struct<T = #2> { f : #1 }`, `1 = enum { V(#2, #0) }`, `2 = [#0; 4]` -/
def env3 : Nat → Ty Nat
  | 0 => { path := [[65]], params := [{ name := [84], ty := some 2 }],
           def_ := .composite [{ name := some [102], ty := 1, typeName := none, docs := [] }], docs := [] }
  | 1 => { path := [[66]], params := [],
           def_ := .variant [{ name := [86], fields := [{ name := none, ty := 2, typeName := none, docs := [] },
                                                         { name := none, ty := 0, typeName := none, docs := [] }],
                               index := 0, docs := [] }], docs := [] }
  | _ => { path := [], params := [], def_ := .array 4 0, docs := [] }

/-- the registry `register_type(#0)` must produce: `#0 ↦ 0`, `#2 ↦ 1` (type parameters first), `#1 ↦ 2` -/
def expected3 : PortableRegistry :=
  [ { id := 0,
      ty := { path := [[65]], params := [{ name := [84], ty := some 1 }],
              def_ := .composite [{ name := some [102], ty := 2, typeName := none, docs := [] }], docs := [] } },
    { id := 1, ty := { path := [], params := [], def_ := .array 4 0, docs := [] } },
    { id := 2,
      ty := { path := [[66]], params := [],
              def_ := .variant [{ name := [86], fields := [{ name := none, ty := 1, typeName := none, docs := [] },
                                                            { name := none, ty := 0, typeName := none, docs := [] }],
                                  index := 0, docs := [] }], docs := [] } } ]

example :
    (Registry.run env3 4 Registry.empty [.reg 0]).map (fun r => (Registry.toPortable r.1, r.1.table.vec, r.2)) =
      some (expected3, [0, 2, 1], [.id 0]) := by
  decide

example : WF expected3 := by
  have h : Registry.run env3 4 Registry.empty [.reg 0] ≠ none := by decide
  cases hr : Registry.run env3 4 Registry.empty [.reg 0] with
  | none => exact absurd hr h
  | some r =>
    have hw := run_wf env3 4 [.reg 0] r.1 r.2 hr
    have he : Registry.toPortable r.1 = expected3 := by
      have : (Registry.run env3 4 Registry.empty [.reg 0]).map (fun r => Registry.toPortable r.1) = some expected3 := by
        decide
      rw [hr] at this
      exact Option.some.inj this
    rw [he] at hw
    exact hw

end C01
end SIM
