/-
  C06 — the wire layout is the V14 layout: primitive tags 0..14 in declaration order, definition tags 0..7,
  array = u32 length then id, bit sequence = store then order, the four compact size classes, and the
  encoding is prefix free (self-delimiting) on the registries the Rust types can hold.
-/
import SIM.Lemmas.Codec
namespace SIM
namespace C06
open Codec

theorem prim_tag_roundtrip (p : Prim) : primOfTag (primTag p) = some p :=
  primOfTag_primTag p

theorem prim_tag_unique (n : Nat) (p : Prim) (h : primOfTag n = some p) : primTag p = n :=
  primTag_of_primOfTag n p h

theorem prim_tag_range (p : Prim) : primTag p < 15 :=
  primTag_lt p

theorem prim_tags :
    [Prim.bool, .char, .str, .u8, .u16, .u32, .u64, .u128, .u256, .i8, .i16, .i32, .i64, .i128, .i256].map primTag
      = List.range 15 := by
  decide

/-- the discriminant of a definition -/
def defTag : TypeDef Nat → Nat
  | .composite _ => 0 | .variant _ => 1 | .sequence _ => 2 | .array _ _ => 3
  | .tuple _ => 4 | .primitive _ => 5 | .compact _ => 6 | .bitSequence _ _ => 7

theorem def_tag_first_byte (d : TypeDef Nat) : (encTypeDef d).head? = some (UInt8.ofNat (defTag d)) := by
  cases d <;> rfl

theorem array_layout (n t : Nat) : encTypeDef (.array n t) = 3 :: (le 4 n ++ encCompact t) := rfl

theorem bitseq_layout (s o : Nat) : encTypeDef (.bitSequence s o) = 7 :: (encCompact s ++ encCompact o) := rfl

theorem compact_classes (n : Nat) :
    (n < 64 → (encCompact n).length = 1) ∧ (64 ≤ n → n < 16384 → (encCompact n).length = 2) ∧
    (16384 ≤ n → n < 1073741824 → (encCompact n).length = 4) ∧ (1073741824 ≤ n → (encCompact n).length = 5) := by
  refine ⟨?_, ?_, ?_, ?_⟩ <;> intros <;> unfold encCompact <;> (repeat' split) <;>
    first | omega | simp [le_length]

theorem encode_prefix_free (a b : PortableRegistry) (x y : Bytes) (ha : Bounded a) (hb : Bounded b)
    (h : encode a ++ x = encode b ++ y) : a = b ∧ x = y :=
  good_registry.prefix_free a b x y ha hb h

end C06
end SIM
