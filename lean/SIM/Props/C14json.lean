/-
  C14 (JSON reader) — numeric ranges.

  Whatever document `toRegistry` accepts - map form, positional form, any members, any junk - every
  id, array length and variant index of the resulting registry is inside the range of its Rust type
  (`u32` / `u8`): an out-of-range number is rejected, never wrapped or truncated.
-/
import SIM.Lemmas.JsonPos
namespace SIM
namespace C14
open JsonM

def numField (f : Field Nat) : Prop := f.ty < 4294967296
def numVariant (v : Variant Nat) : Prop := (∀ f ∈ v.fields, numField f) ∧ v.index < 256
def numTypeDef : TypeDef Nat → Prop
  | .composite fs => ∀ f ∈ fs, numField f
  | .variant vs => ∀ v ∈ vs, numVariant v
  | .sequence t => t < 4294967296
  | .array n t => n < 4294967296 ∧ t < 4294967296
  | .tuple ts => ∀ t ∈ ts, t < 4294967296
  | .primitive _ => True
  | .compact t => t < 4294967296
  | .bitSequence s o => s < 4294967296 ∧ o < 4294967296
def numParam (p : TypeParam Nat) : Prop := match p.ty with | none => True | some t => t < 4294967296
def numTy (t : Ty Nat) : Prop := (∀ p ∈ t.params, numParam p) ∧ numTypeDef t.def_
def numRegistry (r : PortableRegistry) : Prop := ∀ p ∈ r, p.id < 4294967296 ∧ numTy p.ty

theorem deField_num {j : Json} {f : Field Nat} (h : deField j = .ok f) : numField f := deField_ty_ok h

theorem deVariant_num {j : Json} {v : Variant Nat} (h : deVariant j = .ok v) : numVariant v := deVariant_ok h

theorem deParam_num {j : Json} {p : TypeParam Nat} (h : deParam j = .ok p) : numParam p := by
  have := deParam_ok h
  unfold numParam
  split
  · trivial
  · rename_i t ht; exact this t ht

theorem deTypeDef_num {j : Json} {d : TypeDef Nat} (h : deTypeDef j = .ok d) : numTypeDef d := by
  unfold deTypeDef at h
  split at h
  · split at h
    · -- composite
      split at h
      · cases h
      · split at h
        · cases h
        · rename_i fs hfs
          cases h
          exact dflt_arr_ok (fun _ _ => deField_num) hfs
    · -- variant
      split at h
      · cases h
      · split at h
        · cases h
        · rename_i vs hvs
          cases h
          exact dflt_arr_ok (fun _ _ => deVariant_num) hvs
    · -- sequence
      split at h
      · cases h
      · rename_i t ht
        cases h
        exact deTypeOnly_ok ht
    · -- array
      split at h
      · cases h
      · split at h
        · cases h
        · rename_i n hn
          split at h
          · cases h
          · rename_i t ht
            cases h
            obtain ⟨_, h1⟩ := req_ok hn
            obtain ⟨_, h2⟩ := req_ok ht
            exact ⟨deU32_ok h1, deU32_ok h2⟩
    · -- tuple
      split at h
      · cases h
      · rename_i ts hts
        cases h
        exact deArr_ok (fun _ _ => deU32_ok) hts
    · -- primitive
      split at h
      · cases h
      · cases h
        trivial
    · -- compact
      split at h
      · cases h
      · rename_i t ht
        cases h
        exact deTypeOnly_ok ht
    · -- bitsequence
      split at h
      · cases h
      · split at h
        · cases h
        · rename_i s hs
          split at h
          · cases h
          · rename_i o ho
            cases h
            obtain ⟨_, h1⟩ := req_ok hs
            obtain ⟨_, h2⟩ := req_ok ho
            exact ⟨deU32_ok h1, deU32_ok h2⟩
    · cases h
  · cases h
  · cases h

theorem deTy_num {j : Json} {t : Ty Nat} (h : deTy j = .ok t) : numTy t := by
  unfold deTy at h
  split at h
  · cases h
  · split at h
    · cases h
    · split at h
      · cases h
      · rename_i ps hps
        split at h
        · cases h
        · rename_i d hd
          split at h
          · cases h
          · cases h
            obtain ⟨_, h1⟩ := req_ok hd
            exact ⟨dflt_arr_ok (fun _ _ => deParam_num) hps, deTypeDef_num h1⟩

theorem dePType_num {j : Json} {p : PType} (h : dePType j = .ok p) : p.id < 4294967296 ∧ numTy p.ty := by
  unfold dePType at h
  split at h
  · cases h
  · split at h
    · cases h
    · rename_i id hid
      split at h
      · cases h
      · rename_i t ht
        cases h
        obtain ⟨_, h1⟩ := req_ok hid
        obtain ⟨_, h2⟩ := req_ok ht
        exact ⟨deU32_ok h1, deTy_num h2⟩

/-- whatever document the reader accepts (either form, any members, any junk), every id, length and index of the result is in the
    range of its Rust type: out-of-range numbers are rejected, never wrapped or truncated -/
theorem json_in_range (j : Json) (r : PortableRegistry) (h : JsonM.toRegistry j = .ok r) : numRegistry r := by
  unfold toRegistry at h
  split at h
  · cases h
  · obtain ⟨_, h1⟩ := req_ok h
    exact deArr_ok (fun _ _ => dePType_num) h1

/-! ### the boundary, on concrete documents (map form and positional form) -/

/-- `{"types":[{"id":ID,"type":{"def":{"tuple":[]}}}]}` -/
def docId (id : Nat) : Json :=
  .obj [(.types, .arr [.obj [(.id, .num id), (.type_, .obj [(.def_, .obj [(.tuple, .arr [])])])]])]

/-- `{"types":[{"id":0,"type":{"def":{"variant":{"variants":[{"name":"","index":IDX}]}}}}]}` -/
def docIndex (idx : Nat) : Json :=
  .obj [(.types, .arr [.obj [(.id, .num 0), (.type_, .obj [(.def_, .obj [(.variant,
    .obj [(.variants, .arr [.obj [(.name, .str []), (.index, .num idx)]])])])])]])]

/-- `[[[ID,[[],[],{"tuple":[]},[]]]]]` -/
def posDocId (id : Nat) : Json :=
  .arr [.arr [.arr [.num id, .arr [.arr [], .arr [], .obj [(.tuple, .arr [])], .arr []]]]]

/-- `[[[0,[[],[],{"variant":[[["",[],IDX,[]]]]},[]]]]]` -/
def posDocIndex (idx : Nat) : Json :=
  .arr [.arr [.arr [.num 0, .arr [.arr [], .arr [],
    .obj [(.variant, .arr [.arr [.arr [.str [], .arr [], .num idx, .arr []]]])], .arr []]]]]

example : toRegistry (docId 4294967296) = .error .reject := rfl
example : toRegistry (docId 4294967295) =
    .ok [{ id := 4294967295, ty := { path := [], params := [], def_ := .tuple [], docs := [] } }] := rfl
example : toRegistry (docIndex 256) = .error .reject := rfl
example : toRegistry (docIndex 255) =
    .ok [⟨0, ⟨[], [], .variant [{ name := [], fields := [], index := 255, docs := [] }], []⟩⟩] := rfl
example : toRegistry (posDocId 4294967296) = .error .reject := rfl
example : toRegistry (posDocId 4294967295) = toRegistry (docId 4294967295) := rfl
example : toRegistry (posDocIndex 256) = .error .reject := rfl
example : toRegistry (posDocIndex 255) = toRegistry (docIndex 255) := rfl
/-- a length and a reference at the boundary -/
example : toRegistry (.obj [(.types, .arr [.obj [(.id, .num 0), (.type_, .obj [(.def_, .obj [(.array,
    .obj [(.len, .num 4294967296), (.type_, .num 0)])])])]])]) = .error .reject := rfl
example : toRegistry (.obj [(.types, .arr [.obj [(.id, .num 0), (.type_, .obj [(.def_, .obj [(.array,
    .obj [(.len, .num 0), (.type_, .num 4294967296)])])])]])]) = .error .reject := rfl

end C14
end SIM
