/-
  C08 / C19 (tie to the source by translation): the serde attributes that determine the JSON form — renames, `rename_all`,
  `transparent`, `skip_serializing_if`, `default` — re-extracted from /repo/src on every run (SIM.Extracted.Serde) are the
  table the JSON model is written from (SIM.Expected), and the model's writer uses exactly those keys.
-/
import SIM.Extracted.Serde
import SIM.Model.SerdeExpected
import SIM.Model.Json
import SIM.Spec.JsonShape
namespace SIM
namespace C08
open JsonM

/-- what the source says today is what the model was written from -/
theorem extracted_serde_ok :
    Extracted.serdeStructs = Expected.serdeStructs ∧ Extracted.serdeEnums = Expected.serdeEnums := ⟨rfl, rfl⟩

/-- every member that may be omitted when serialising takes a default when deserialising (otherwise the JSON form would not round trip) -/
theorem skip_implies_default :
    ∀ s ∈ Expected.serdeStructs, ∀ m ∈ s.2.2, m.2.1 ≠ [] → m.2.2 = true := by decide

/-- both enums are tagged in lower case -/
theorem enums_lowercase : Expected.serdeEnums.map (·.2) = [[108, 111, 119, 101, 114, 99, 97, 115, 101], [108, 111, 119, 101, 114, 99, 97, 115, 101]] := by decide

def structKeys (name : Str) : List Str :=
  match Expected.serdeStructs.find? (fun s => s.1 == name) with
  | some s => s.2.2.map (·.1)
  | none => []

/-- the keys the model's writer emits for a field / variant / type / parameter / entry / registry are keys of the source's table -/
theorem field_keys (f : Field Nat) : ∃ kv, ofField f = .obj kv ∧ ∀ k ∈ Spec.keysOf kv, k.text ∈ structKeys [70, 105, 101, 108, 100] := by
  refine ⟨_, rfl, ?_⟩
  cases hn : f.name <;> cases ht : f.typeName <;> cases hd : f.docs <;>
    simp [Spec.keysOf, optMember, hn, ht, hd, structKeys, Expected.serdeStructs, Key.text]

theorem variant_keys (v : Variant Nat) : ∃ kv, ofVariant v = .obj kv ∧ ∀ k ∈ Spec.keysOf kv, k.text ∈ structKeys [86, 97, 114, 105, 97, 110, 116] := by
  refine ⟨_, rfl, ?_⟩
  cases hf : v.fields <;> cases hd : v.docs <;>
    simp [Spec.keysOf, ofFields, optMember, hf, hd, structKeys, Expected.serdeStructs, Key.text]

theorem ty_keys (t : Ty Nat) : ∃ kv, ofTy t = .obj kv ∧ ∀ k ∈ Spec.keysOf kv, k.text ∈ structKeys [84, 121, 112, 101] := by
  refine ⟨_, rfl, ?_⟩
  cases hp : t.path <;> cases hq : t.params <;> cases hd : t.docs <;>
    simp [Spec.keysOf, optMember, hp, hq, hd, structKeys, Expected.serdeStructs, Key.text]

theorem param_keys (p : TypeParam Nat) : ∃ kv, ofParam p = .obj kv ∧ (Spec.keysOf kv).map Key.text = structKeys [84, 121, 112, 101, 80, 97, 114, 97, 109, 101, 116, 101, 114] := by
  exact ⟨_, rfl, by simp [Spec.keysOf, structKeys, Expected.serdeStructs, Key.text]⟩

theorem ptype_keys (p : PType) : ∃ kv, ofPType p = .obj kv ∧ (Spec.keysOf kv).map Key.text = structKeys [80, 111, 114, 116, 97, 98, 108, 101, 84, 121, 112, 101] := by
  exact ⟨_, rfl, by simp [Spec.keysOf, structKeys, Expected.serdeStructs, Key.text]⟩

theorem registry_keys (r : PortableRegistry) : ∃ kv, ofRegistry r = .obj kv ∧ (Spec.keysOf kv).map Key.text = structKeys [80, 111, 114, 116, 97, 98, 108, 101, 82, 101, 103, 105, 115, 116, 114, 121] := by
  exact ⟨_, rfl, by simp [Spec.keysOf, structKeys, Expected.serdeStructs, Key.text]⟩

end C08
end SIM
