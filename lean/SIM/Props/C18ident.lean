/-
  C18 (tie to the source by translation): the identifier rule of the model (SIM.Model.Path: ASCII guard, one `r#` prefix stripped,
  `head_ok && tail_ok`, empty string rejected) is the reading of `is_rust_identifier` in /repo/src/utils.rs, whose guard, prefix
  literal and disjuncts are re-extracted on every run (SIM.Extracted.Ident, translators/extract_ident_rule.py).
-/
import SIM.Extracted.Ident
import SIM.Model.IdentExpected
import SIM.Model.Path
import SIM.Lemmas.Ident
namespace SIM
namespace C18
open PathM

/-- what the source says today is what the model was written from -/
theorem extracted_ident_ok :
    Extracted.Ident.asciiGuard = Expected.Ident.asciiGuard ∧ Extracted.Ident.rawPrefix = Expected.Ident.rawPrefix ∧
    Extracted.Ident.headAtoms = Expected.Ident.headAtoms ∧ Extracted.Ident.tailAtoms = Expected.Ident.tailAtoms ∧
    Extracted.Ident.combine = Expected.Ident.combine ∧ Extracted.Ident.emptyResult = Expected.Ident.emptyResult := ⟨rfl, rfl, rfl, rfl, rfl, rfl⟩

/-- the model's head and tail classes are the source's disjunctions (atoms read by `atomHolds`, SIM/Lemmas/Ident.lean: `x == b'c'`, or
    one of Rust's `u8::is_ascii_lowercase / uppercase / digit` classes) -/
theorem head_is_source (b : UInt8) : headOk b = Expected.Ident.headAtoms.any (atomHolds · b) := by
  have e : Expected.Ident.headAtoms = [(aEq, 95), (aLower, 0), (aUpper, 0)] := rfl
  simp [e, headOk, atom_eq, atom_lower, atom_upper, beq95, Bool.or_assoc]

theorem tail_is_source (b : UInt8) : tailOk b = Expected.Ident.tailAtoms.any (atomHolds · b) := by
  have e : Expected.Ident.tailAtoms = [(aEq, 95), (aLower, 0), (aUpper, 0), (aDigit, 0)] := rfl
  simp [e, tailOk, atom_eq, atom_lower, atom_upper, atom_digit, beq95, Bool.or_assoc]

/-- the prefix that is stripped (once) is the source's literal -/
theorem strip_is_source (s : Str) :
    trimRaw s = if Expected.Ident.rawPrefix.isPrefixOf s then s.drop Expected.Ident.rawPrefix.length else s := by
  have e : Expected.Ident.rawPrefix = [114, 35] := rfl
  rw [e]
  unfold trimRaw
  match s with
  | [] => simp [stripRawOnce, List.isPrefixOf]
  | [a] => simp [stripRawOnce, List.isPrefixOf]
  | a :: c :: rest =>
    by_cases h1 : a = 114 <;> by_cases h2 : c = 35 <;> simp [stripRawOnce, List.isPrefixOf, h1, h2]
    all_goals first | (intro h; exact absurd h.symm h2) | (intro h; exact absurd h.symm h1) | (intro h _; exact absurd h.symm h1)

/-- **the whole rule, read from the table**: guard, strip, split_first, `head_ok && tail_ok`, empty -> the table's answer -/
theorem rule_is_source (s : Str) :
    isRustIdentifier s =
      (if Expected.Ident.asciiGuard && !s.all isAscii then false
       else match (if Expected.Ident.rawPrefix.isPrefixOf s then s.drop Expected.Ident.rawPrefix.length else s) with
         | [] => Expected.Ident.emptyResult
         | h :: t => Expected.Ident.headAtoms.any (atomHolds · h) && t.all (fun c => Expected.Ident.tailAtoms.any (atomHolds · c))) := by
  have eg : Expected.Ident.asciiGuard = true := rfl
  have ee : Expected.Ident.emptyResult = false := rfl
  rw [← strip_is_source s, eg, ee]
  unfold isRustIdentifier
  simp only [Bool.true_and]
  split
  · rfl
  · cases trimRaw s with
    | nil => rfl
    | cons h t =>
      simp only [identBody, head_is_source]
      congr 1
      apply List.all_congr rfl
      intro c
      exact tail_is_source c

/-- how the source combines the two, literally -/
theorem combine_is : Expected.Ident.combine = [104, 101, 97, 100, 95, 111, 107, 38, 38, 116, 97, 105, 108, 95, 111, 107] := rfl

example : isRustIdentifier [114, 35, 97] = true ∧ isRustIdentifier [114, 35, 114, 35, 97] = false ∧ isRustIdentifier [] = false := by decide

end C18
end SIM
