/-
  C08 (positional form) — serde's alternative encodings of a portable registry.

  The derived `Deserialize` also accepts every struct as a positional array (members in declaration
  order) and a unit variant as a one-member map `{"name": null}`. For EVERY registry the Rust types can
  hold (`Codec.Bounded`) the reader accepts that form and yields the same registry; a positional array
  longer than the member list is rejected, a shorter one is paired with the leading members.
-/
import SIM.Lemmas.JsonPos
import SIM.Props.C07
namespace SIM
namespace C08
open JsonM

/-- serde's positional form of every struct (and the one-member-map form of unit variants) reads back as the same registry -/
theorem toRegistry_posOfRegistry (r : PortableRegistry) (h : Codec.Bounded r) :
    JsonM.toRegistry (JsonM.posOfRegistry r) = .ok r :=
  JsonM.toRegistry_posOfRegistry r h

/-- a positional array longer than the member list is rejected (serde_json: "fewer elements in array") -/
theorem positional_surplus_rejected (spec : List Key) (l : List Json) (h : spec.length < l.length) :
    JsonM.asStruct spec (.arr l) = .error .reject :=
  JsonM.asStruct_surplus spec l h

/-- a positional array no longer than the member list is paired with the leading members -/
theorem positional_prefix (spec : List Key) (l : List Json) (h : l.length ≤ spec.length) :
    JsonM.asStruct spec (.arr l) = .ok ((spec.take l.length).zip l) :=
  JsonM.asStruct_prefix spec l h

/-! ### non-vacuity: the sample registry of C07 (every definition kind) is read back from its positional form -/

example : toRegistry (posOfRegistry C07.sample) = .ok C07.sample := toRegistry_posOfRegistry C07.sample (by
  open Codec C07 in
  simp [sample, plain, sampleField, sampleField', sampleVariant, sampleParams, Bounded, okPType, okTy, okTypeDef, okParam, okStrs, okStr, okId, okFields, okField,
    okOptStr, okVariant, validUtf8_nil, validUtf8_u8, validUtf8_e])

/-- the positional and the map form are different documents read to the same registry -/
example : posOfRegistry C07.sample ≠ ofRegistry C07.sample := by
  intro h; simp [posOfRegistry, ofRegistry] at h

end C08
end SIM
