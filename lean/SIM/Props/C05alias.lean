/-
  C05 (alias clause) — two type expressions declare the same identity exactly when they are related
  by the transparent-wrapper rules; different generic arguments or different definitions never
  share an identity.
-/
import SIM.Lemmas.Impls
namespace SIM
namespace C05
open Impls Spec

theorem identity_eq_aliasNorm (t : TyExpr) : identity t = aliasNorm t := identity_eq_aliasNorm' t

/-- **C05 aliases.** two type expressions declare the same identity exactly when they are related by
    the transparent-wrapper rules -/
theorem identity_alias (a b : TyExpr) : identity a = identity b ↔ AliasEq a b := by
  constructor
  · intro h
    have hb := aliasEq_identity b
    rw [← h] at hb
    exact .trans (aliasEq_identity a) (.symm hb)
  · exact identity_of_aliasEq

theorem wrappers_share (t : TyExpr) : identity (.box_ t) = identity t ∧ identity (.rc t) = identity t ∧ identity (.arc t) = identity t ∧
    identity (.ref_ t) = identity t ∧ identity (.refMut t) = identity t ∧ identity (.vec t) = identity (.slice t) ∧
    identity (.vecDeque t) = identity (.slice t) ∧ identity .string = identity .str := by
  simp [identity]

theorem phantoms_share (a b : TyExpr) : identity (.phantom a) = identity (.phantom b) := by
  simp [identity]

/-- types with different generic arguments never share an identity (shown for the constructors that are not aliases) -/
theorem distinct_args_distinct (a b : TyExpr) :
    (identity (.option a) = identity (.option b) → a = b) ∧ (identity (.slice a) = identity (.slice b) → a = b) ∧
    (identity (.vec a) = identity (.vec b) → a = b) ∧ (identity (.btreeSet a) = identity (.btreeSet b) → a = b) ∧
    (identity (.compact a) = identity (.compact b) → a = b) ∧ (∀ n m, identity (.array n a) = identity (.array m b) → n = m ∧ a = b) := by
  simp [identity]

theorem cow_distinct (t : TyExpr) : identity (.cow t) ≠ identity t := by
  intro h
  exact identity_ne_cow t (by simpa [identity] using h.symm)

/-- types with different definitions never share an identity: the confusable pairs -/
theorem distinct_defs_distinct (t : TyExpr) :
    identity (.range t) ≠ identity (.rangeIncl t) ∧ identity (.binaryHeap t) ≠ identity (.slice t) ∧
    identity (.btreeSet t) ≠ identity (.binaryHeap t) ∧ identity (.vec t) ≠ identity (.option t) ∧ identity (.cow t) ≠ identity t := by
  refine ⟨?_, ?_, ?_, ?_, cow_distinct t⟩ <;> simp [identity]

example : identity (.box_ (.box_ (.uint .w8))) = .uint .w8 := by decide
example : identity (.box_ (.vec (.uint .w8))) = .slice (.uint .w8) := by decide
example : identity (.ref_ .string) = .str := by decide
example : identity (.vec (.box_ (.uint .w8))) ≠ identity (.vec (.uint .w8)) := by decide

end C05
end SIM
