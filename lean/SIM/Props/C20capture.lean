/-
  C20 (tie to the source by translation): the accepted `capture_docs` values and the attribute keywords of the derive are
  re-extracted from /repo/derive/src/attr.rs on every run; statements and proofs in SIM.Props.C16impls.
-/
import SIM.Props.C16impls
namespace SIM
namespace C20

theorem extracted_capture_ok :
    Extracted.ImplTable.captureDocs = Expected.ImplTable.captureDocs ∧ Extracted.ImplTable.captureLowercased = Expected.ImplTable.captureLowercased ∧
    Extracted.ImplTable.keywords = Expected.ImplTable.keywords :=
  ⟨C16.extracted_impls_ok.2.2.2.2.1, C16.extracted_impls_ok.2.2.2.2.2.1, C16.extracted_impls_ok.2.2.2.2.2.2⟩

/-- the model accepts a `capture_docs` value exactly when its lower-cased form is one of the source's strings -/
theorem capture_values (v : Str) :
    Typestate.captureOk v = (Expected.ImplTable.captureDocs.map (·.1)).contains (Typestate.lower v) := (C16.capture_values v).1

/-- the attribute keys the parser knows: scale_info, bounds, skip_type_params, capture_docs, replace_segment (`crate` is a Rust keyword token) -/
theorem keywords_are : Expected.ImplTable.keywords.length = 5 := by decide

example : Typestate.captureOk [65, 108, 87, 97, 121, 115] = true ∧ Typestate.captureOk [97, 108, 119, 97, 121] = false := by decide

end C20
end SIM
