/-
  C03glue — the bridge between C02 (the Registry is a faithful renumbering of the type graph) and C03/C04
  (a decoder that knows only a faithful registry reads every value back): the registry that `Registry.run`
  produces when type identities are (codes of) type expressions IS `FaithfulD`, hence the end-to-end theorem.
-/
import SIM.Lemmas.Glue
import SIM.Props.C02
import SIM.Props.C03
import SIM.Props.C05
namespace SIM
namespace C03
open Spec Impls

/-- an injective coding of type expressions as type identities (TypeId is an injective name of a type) -/
structure Coding where
  code : TyExpr → Nat
  uncode : Nat → Option TyExpr
  uncode_code : ∀ t, uncode (code t) = some t

def blankTy : Ty Nat := { path := [], params := [], def_ := .tuple [], docs := [] }

/-- the environment of the Registry model induced by `typeInfoD`: identity `code t` has the definition of `t`, references coded by their declared identity
    (`MetaType::new::<T>()` takes the `TypeId` of `T::Identity`) -/
def envOf (docs : Bool) (envD : TyExpr → Option Derive.Decl) (c : Coding) : Nat → Ty Nat := fun n =>
  match c.uncode n with
  | some t => (match typeInfoD docs envD t with
    | some ty => ty.map (fun r => c.code (identity r))
    | none => blankTy)
  | none => blankTy

/-- the id assignment of the produced registry -/
def idOfExpr (c : Coding) (s : RegState) (t : TyExpr) : Nat := idOf s (c.code (identity t))

theorem blankTy_refs : blankTy.refs = [] := rfl

/-- the definition of the identity `code (identity t)` when `t` has a definition -/
theorem envOf_code (docs : Bool) (envD : TyExpr → Option Derive.Decl) (c : Coding) (t : TyExpr) (ty : Ty TyExpr)
    (h : typeInfoD docs envD t = some ty) :
    envOf docs envD c (c.code (identity t)) = ty.map (fun r => c.code (identity r)) := by
  simp only [envOf, c.uncode_code, Glue.typeInfoD_identity, h]

/-- every reference of `envOf … n` is the code of a declared identity -/
theorem envOf_refs_coded (docs : Bool) (envD : TyExpr → Option Derive.Decl) (c : Coding) (n k : Nat)
    (hk : k ∈ (envOf docs envD c n).refs) : ∃ t, k = c.code (identity t) := by
  unfold envOf at hk
  split at hk
  · split at hk
    · rw [Ty.refs_map] at hk
      obtain ⟨r, _, rfl⟩ := List.mem_map.1 hk
      exact ⟨r, rfl⟩
    · simp [blankTy_refs] at hk
  · simp [blankTy_refs] at hk

/-- **bridge.** the registry produced by registering type expressions is faithful for every interned type -/
theorem registry_faithfulD (docs : Bool) (envD : TyExpr → Option Derive.Decl) (c : Coding) (fuel : Nat) (roots : List TyExpr)
    (s : RegState) (outs : List Registry.Out)
    (h : Registry.run (envOf docs envD c) fuel Registry.empty (roots.map (fun t => Registry.Op.reg (c.code (identity t)))) = some (s, outs))
    (hdecls : ∀ n a d, c.code (.adt n a) ∈ s.table.vec → envD (.adt n a) = some d → DistinctIdx d ∧ (Derive.typeInfo docs d).isSome)
    (hcoded : ∀ k ∈ s.table.vec, ∃ t, k = c.code (identity t)) :
    FaithfulD docs envD (fun t => c.code (identity t) ∈ s.table.vec) (Registry.toPortable s) (idOfExpr c s) := by
  have _ := hcoded
  refine ⟨?_, ?_, ?_, ?_, ?_⟩
  · intro t
    simp only [idOfExpr, C16.identity_idem]
  · intro t ht
    simpa only [C16.identity_idem] using ht
  · intro t ty ht hty
    have hf := (C02.register_faithful _ fuel _ s outs h _ ht).1
    rw [envOf_code docs envD c t ty hty, Ty.map_map] at hf
    exact hf
  · intro t ty ht hty r hr
    have hf := (C02.register_faithful _ fuel _ s outs h _ ht).2
    rw [envOf_code docs envD c t ty hty, Ty.refs_map] at hf
    exact hf _ (List.mem_map.2 ⟨r, hr, rfl⟩)
  · intro n a d hS hd
    rw [Glue.identity_adt] at hS
    exact hdecls n a d hS hd

/-- every interned identity is the code of a declared identity when the roots are (so `hcoded` above is dischargeable) -/
theorem interned_are_coded (docs : Bool) (envD : TyExpr → Option Derive.Decl) (c : Coding) (fuel : Nat) (roots : List TyExpr)
    (s : RegState) (outs : List Registry.Out)
    (h : Registry.run (envOf docs envD c) fuel Registry.empty (roots.map (fun t => Registry.Op.reg (c.code (identity t)))) = some (s, outs)) :
    ∀ k ∈ s.table.vec, ∃ t, k = c.code (identity t) := by
  intro k hk
  have hr := (C05.interned_eq_reachable _ fuel _ s outs h k).1 hk
  rw [Glue.histRoots_reg (fun t => c.code (identity t))] at hr
  refine Glue.Reach.invariant (fun k => ∃ t, k = c.code (identity t)) ?_ ?_ hr
  · intro r hr
    obtain ⟨t, _, rfl⟩ := List.mem_map.1 hr
    exact ⟨t, rfl⟩
  · intro a k' _ hk'
    exact envOf_refs_coded docs envD c a k' hk'

/-- every root is interned -/
theorem root_interned (docs : Bool) (envD : TyExpr → Option Derive.Decl) (c : Coding) (fuel : Nat) (roots : List TyExpr)
    (s : RegState) (outs : List Registry.Out)
    (h : Registry.run (envOf docs envD c) fuel Registry.empty (roots.map (fun t => Registry.Op.reg (c.code (identity t)))) = some (s, outs))
    (t : TyExpr) (ht : t ∈ roots) : c.code (identity t) ∈ s.table.vec := by
  refine (C05.interned_eq_reachable _ fuel _ s outs h _).2 (.root ?_)
  rw [Glue.histRoots_reg (fun t => c.code (identity t))]
  exact List.mem_map.2 ⟨t, ht, rfl⟩

/-- **end to end (C02 + C03/C04).** register any type expressions (built-in, derived, nested, recursive) with the Registry; then for every root `t` and every value `v`
    of `t`, a decoder that knows only the produced `PortableRegistry` reads `v` back from its SCALE encoding, starting from the id `register_type` returned -/
theorem end_to_end (docs : Bool) (envD : TyExpr → Option Derive.Decl) (c : Coding) (fuel : Nat) (roots : List TyExpr)
    (s : RegState) (outs : List Registry.Out)
    (h : Registry.run (envOf docs envD c) fuel Registry.empty (roots.map (fun t => Registry.Op.reg (c.code (identity t)))) = some (s, outs))
    (hdecls : ∀ n a d, c.code (.adt n a) ∈ s.table.vec → envD (.adt n a) = some d → DistinctIdx d ∧ (Derive.typeInfo docs d).isSome)
    (t : TyExpr) (ht : t ∈ roots) (v : Val) (hv : ValOfD envD t v) (rest : Codec.Bytes) :
    ∃ fuel', Value.decodeVal (Registry.toPortable s) fuel' (idOfExpr c s t) (Value.encode v ++ rest) = some (v, rest) :=
  C03.derived_roundtrip docs envD _ _ _
    (registry_faithfulD docs envD c fuel roots s outs h hdecls (interned_are_coded docs envD c fuel roots s outs h))
    t v (root_interned docs envD c fuel roots s outs h t ht) hv rest

/-- and that id is the one the registration returned -/
theorem end_to_end_returned_id (docs : Bool) (envD : TyExpr → Option Derive.Decl) (c : Coding) (fuel : Nat) (roots : List TyExpr)
    (s : RegState) (outs : List Registry.Out)
    (h : Registry.run (envOf docs envD c) fuel Registry.empty (roots.map (fun t => Registry.Op.reg (c.code (identity t)))) = some (s, outs)) :
    outs = roots.map (fun t => Registry.Out.id (idOfExpr c s t)) := by
  obtain ⟨hlen, hget⟩ := C02.returned_ids _ fuel _ s outs h
  rw [List.length_map] at hlen
  apply List.ext_getElem
  · rw [hlen, List.length_map]
  · intro i h1 h2
    have hi : i < roots.length := hlen ▸ h1
    have := hget i (by rw [List.length_map]; exact hi) h1
    rw [List.getElem_map] at this ⊢
    revert this
    generalize outs[i] = o
    cases o with
    | id n => intro hh; rw [hh.1]; rfl
    | ids l => exact False.elim
    | fields fs => exact False.elim

end C03
end SIM
