/-
  C05 — one entry per type identity: registering an interned identity again changes nothing, the
  interned identities are exactly those reachable from the registered roots, each is evaluated
  exactly once and has exactly one id.
-/
import SIM.Lemmas.Registry
namespace SIM
namespace C05
open Reg

theorem register_idempotent (env : Nat → Ty Nat) (fuel : Nat) (s : RegState) (t : Nat) (hinv : s.table.Inv)
    (ht : t ∈ s.table.vec) : Registry.registerType env (fuel + 1) s t = some (s, idOf s t) :=
  registerType_unfold_old env fuel hinv ht

theorem interned_eq_reachable (env : Nat → Ty Nat) (fuel : Nat) (ops : List Registry.Op) (s : RegState)
    (outs : List Registry.Out) (h : Registry.run env fuel Registry.empty ops = some (s, outs)) (x : Nat) :
    x ∈ s.table.vec ↔ Reach env (histRoots ops) x := by
  obtain ⟨_, hP, hr, _⟩ := run_post env fuel ops Registry.empty s outs I_empty h
  have hc := run_complete env fuel (Complete.empty env) h
  constructor
  · intro hx
    rcases hP.reach x hx with h | h
    · simp [Registry.empty, Interner.empty] at h
    · exact h
  · exact hc.closed hr

theorem one_entry_per_identity (env : Nat → Ty Nat) (fuel : Nat) (ops : List Registry.Op) (s : RegState)
    (outs : List Registry.Out) (h : Registry.run env fuel Registry.empty ops = some (s, outs)) :
    s.table.vec.Nodup ∧ (Registry.toPortable s).length = s.table.vec.length := by
  have hc := run_complete env fuel (Complete.empty env) h
  exact ⟨hc.inv.nodup, hc.portable_length⟩

theorem eval_once (env : Nat → Ty Nat) (fuel : Nat) (ops : List Registry.Op) (s : RegState)
    (outs : List Registry.Out) (h : Registry.run env fuel Registry.empty ops = some (s, outs)) (t : Nat) :
    s.evals.count t ≤ 1 ∧ (s.evals.count t = 1 ↔ Reach env (histRoots ops) t) := by
  have hc := run_complete env fuel (Complete.empty env) h
  rw [← interned_eq_reachable env fuel ops s outs h t, hc.inv.evals]
  rw [hc.inv.nodup.count]
  by_cases hm : t ∈ s.table.vec <;> simp [hm]

theorem distinct_ids (env : Nat → Ty Nat) (fuel : Nat) (ops : List Registry.Op) (s : RegState)
    (outs : List Registry.Out) (h : Registry.run env fuel Registry.empty ops = some (s, outs))
    (t t' : Nat) (ht : t ∈ s.table.vec) (ht' : t' ∈ s.table.vec) (hne : t ≠ t') : idOf s t ≠ idOf s t' := by
  have _ := h
  exact fun he => hne (idxOf_inj ht ht' he)

end C05
end SIM
