/-
  C02 — registration is a faithful renumbering of the type graph: the entry of an interned identity
  is its definition with every reference replaced by the id of the referenced identity (nothing else
  changes), returned ids are final, and registration of (mutually) recursive types terminates.
-/
import SIM.Lemmas.Registry
namespace SIM
namespace C02
open Reg

theorem register_faithful (env : Nat → Ty Nat) (fuel : Nat) (ops : List Registry.Op) (s : RegState)
    (outs : List Registry.Out) (h : Registry.run env fuel Registry.empty ops = some (s, outs))
    (t : Nat) (ht : t ∈ s.table.vec) :
    resolve (Registry.toPortable s) (idOf s t) = some ((env t).map (idOf s)) ∧ ∀ c ∈ (env t).refs, c ∈ s.table.vec := by
  have hc := run_complete env fuel (Complete.empty env) h
  have he := hc.entry ht
  exact ⟨hc.resolve he.1, he.2⟩

/-- the id returned by an operation is the final id of that type (ids never change afterwards) -/
theorem returned_ids (env : Nat → Ty Nat) (fuel : Nat) (ops : List Registry.Op) (s : RegState)
    (outs : List Registry.Out) (h : Registry.run env fuel Registry.empty ops = some (s, outs)) :
    outs.length = ops.length ∧ ∀ i (hi : i < ops.length) (ho : i < outs.length),
      match ops[i], outs[i] with
      | .reg t, .id n => n = idOf s t ∧ t ∈ s.table.vec
      | .regs ts, .ids ns => ns = ts.map (idOf s) ∧ ∀ t ∈ ts, t ∈ s.table.vec
      | .mip fs, .fields gs => gs = fs.map (Field.map (idOf s)) ∧ ∀ t ∈ fieldRefs fs, t ∈ s.table.vec
      | _, _ => False := by
  obtain ⟨_, _, _, hok⟩ := run_post env fuel ops Registry.empty s outs I_empty h
  refine ⟨hok.length, ?_⟩
  intro i hi ho
  have := hok.get i hi ho
  revert this
  generalize ops[i] = op
  generalize outs[i] = o
  cases op <;> cases o <;> exact id

/-- `map` changes nothing but references -/
theorem map_shape (t : Ty Nat) (g : Nat → Nat) : (t.map g).map (fun _ => ()) = t.map (fun _ => ()) :=
  Ty.map_comp g (fun _ => ()) t

/-- registration of (mutually) recursive types terminates: fuel `N + 1` always suffices for a graph closed over `N` identities -/
theorem register_total (env : Nat → Ty Nat) (N : Nat) (hclosed : ∀ t < N, ∀ c ∈ (env t).refs, c < N)
    (ops : List Registry.Op) (hroots : ∀ t ∈ histRoots ops, t < N) :
    (Registry.run env (N + 1) Registry.empty ops).isSome :=
  run_total env N hclosed ops Registry.empty (below_empty N) hroots

theorem fuel_irrelevant (env : Nat → Ty Nat) (f k : Nat) (ops : List Registry.Op) (r : RegState × List Registry.Out)
    (h : Registry.run env f Registry.empty ops = some r) :
    Registry.run env (f + k) Registry.empty ops = some r :=
  run_mono_add env f k ops Registry.empty r h

end C02
end SIM
