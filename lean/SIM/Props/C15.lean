/-
  C15 — The docs feature changes documentation strings only.

  `stripDocs` erases every documentation string of a type description. Erasing commutes with everything the
  registry does (references, filling, interning, ids), so ids never depend on documentation; and the built-in
  impls and the derive, evaluated with the docs feature on and off, agree after erasing.
-/
import SIM.Lemmas.Docs
import SIM.Props.C09
namespace SIM
namespace C15
open Spec DocsL

/-- erasing docs does not touch references -/
theorem strip_refs {R} (t : Ty R) : (stripDocs t).refs = t.refs := by
  unfold Ty.refs stripDocs
  simp only [stripDef_refs]

theorem strip_fill (t : Ty Nat) (rs : List Nat) : (stripDocs t).fill rs = stripDocs (t.fill rs) := by
  unfold Ty.fill stripDocs
  simp only [stripDef_fill]

theorem strip_idem {R} (t : Ty R) : stripDocs (stripDocs t) = stripDocs t := by
  unfold stripDocs
  simp only [stripDef_idem]

/-- **ids never depend on documentation**: registering a type graph whose definitions have their docs erased gives, step for step, the
    same interner, the same ids, and the docs-erased definitions -/
theorem register_strip (env : Nat → Ty Nat) (fuel : Nat) (s : RegState) (tid : Nat) :
    Registry.registerType (fun t => stripDocs (env t)) fuel (stripState s) tid =
      (Registry.registerType env fuel s tid).map (fun r => (stripState r.1, r.2)) := by
  induction fuel generalizing s tid with
  | zero => rfl
  | succ fuel ih =>
    simp only [Registry.registerType]
    have ht : (stripState s).table = s.table := rfl
    rw [ht]
    cases hb : (s.table.internOrGet tid).1 with
    | false => rfl
    | true =>
      simp only [if_true, strip_refs]
      have hs : ({ table := (s.table.internOrGet tid).2.2, types := (stripState s).types,
                   evals := (stripState s).evals ++ [tid] } : RegState) =
          stripState { table := (s.table.internOrGet tid).2.2, types := s.types, evals := s.evals ++ [tid] } := rfl
      rw [hs, travList_strip (Registry.registerType env fuel) _ ih]
      cases Registry.travList (Registry.registerType env fuel)
          { table := (s.table.internOrGet tid).2.2, types := s.types, evals := s.evals ++ [tid] } (env tid).refs with
      | none => rfl
      | some x =>
        obtain ⟨s', rs⟩ := x
        simp only [Option.map_some, strip_fill]
        congr 2
        show RegState.mk _ _ _ = RegState.mk _ _ _
        congr 1
        exact insertSorted_strip _ _ _

/-- the same along a whole history of `register_type` calls, from any start state -/
theorem run_strip_state (env : Nat → Ty Nat) (fuel : Nat) (s : RegState) (roots : List Nat) :
    Registry.run (fun t => stripDocs (env t)) fuel (stripState s) (roots.map Registry.Op.reg) =
      (Registry.run env fuel s (roots.map Registry.Op.reg)).map (fun r => (stripState r.1, r.2)) := by
  induction roots generalizing s with
  | nil => rfl
  | cons t ts ih =>
    simp only [List.map_cons, Registry.run, Registry.step, register_strip]
    cases Registry.registerType env fuel s t with
    | none => rfl
    | some x =>
      obtain ⟨s1, n⟩ := x
      simp only [Option.map_some, ih]
      cases Registry.run env fuel s1 (ts.map Registry.Op.reg) with
      | none => rfl
      | some y => rfl

theorem run_strip (env : Nat → Ty Nat) (fuel : Nat) (roots : List Nat) :
    (Registry.run (fun t => stripDocs (env t)) fuel Registry.empty (roots.map Registry.Op.reg)).map (fun r => (Registry.toPortable r.1, r.2)) =
      (Registry.run env fuel Registry.empty (roots.map Registry.Op.reg)).map (fun r => (stripReg (Registry.toPortable r.1), r.2)) := by
  have h : Registry.empty = stripState Registry.empty := rfl
  rw [show Registry.run (fun t => stripDocs (env t)) fuel Registry.empty (roots.map Registry.Op.reg) =
    Registry.run (fun t => stripDocs (env t)) fuel (stripState Registry.empty) (roots.map Registry.Op.reg) from by rw [← h]]
  rw [run_strip_state, Option.map_map]
  congr 1
  funext r
  simp only [Function.comp, toPortable_strip]

/-- the built-in impls depend on the docs feature in documentation strings only -/
theorem impls_docs_only (t : TyExpr) : (Impls.typeInfo true t).map stripDocs = (Impls.typeInfo false t).map stripDocs := by
  induction t with
  | box_ t ih => exact ih
  | rc t ih => exact ih
  | arc t ih => exact ih
  | ref_ t ih => exact ih
  | refMut t ih => exact ih
  | _ => rfl

/-- the derive depends on the docs feature in documentation strings only -/
theorem derive_docs_only (d : Derive.Decl) : (Derive.typeInfo true d).map stripDocs = (Derive.typeInfo false d).map stripDocs := by
  rw [C09.derive_mirrors, C09.derive_mirrors]
  unfold deriveExpected
  split
  · simp only [Option.map_some, Option.some.injEq]
    unfold stripDocs
    simp only [Ty.mk.injEq, true_and, and_true]
    cases d.body with
    | struct s => simp only [stripDef, members_strip]
    | enum vs => simp only [stripDef, variants_strip]
  · rfl

/-- without captured docs and without `always` docs the two builds give the very same definition -/
theorem derive_docs_off_eq (d : Derive.Decl) (h : d.capture = .never) : Derive.typeInfo true d = Derive.typeInfo false d := by
  rw [C09.derive_mirrors, C09.derive_mirrors]
  unfold deriveExpected
  rw [h]
  rfl

/-- erasing docs keeps a registry dense and closed, with the same ids -/
theorem strip_wf (r : PortableRegistry) (h : WF r) : WF (stripReg r) := by
  intro i hi
  have hl : (stripReg r).length = r.length := List.length_map ..
  have hi' : i < r.length := hl ▸ hi
  have hg : (stripReg r)[i] = { id := r[i].id, ty := stripDocs r[i].ty } := by
    exact List.getElem_map (l := r) (fun p => ({ id := p.id, ty := stripDocs p.ty } : PType))
  rw [hg, hl]
  simp only [strip_refs]
  exact h i hi'

theorem strip_ids (r : PortableRegistry) : (stripReg r).map (·.id) = r.map (·.id) := by
  unfold stripReg
  rw [List.map_map]
  rfl

/-! ### Corollaries and non-vacuity -/

/-- ids of the registered roots do not depend on documentation -/
theorem run_strip_ids (env : Nat → Ty Nat) (fuel : Nat) (roots : List Nat) :
    (Registry.run (fun t => stripDocs (env t)) fuel Registry.empty (roots.map Registry.Op.reg)).map (·.2) =
      (Registry.run env fuel Registry.empty (roots.map Registry.Op.reg)).map (·.2) := by
  have h := congrArg (Option.map (fun r : PortableRegistry × List Registry.Out => r.2)) (run_strip env fuel roots)
  simpa only [Option.map_map, Function.comp_def] using h

/-- the docs feature does make a difference before erasing (`PhantomData` carries a doc line only with the feature) -/
example : Impls.typeInfo true (.phantom .tuple0) ≠ Impls.typeInfo false (.phantom .tuple0) := by decide

/-- and the derive with default capture differs before erasing, agrees after -/
example :
    let d : Derive.Decl := { ident := [83], modulePath := [109], params := [], capture := .default, replace := [],
                             docs := [[32, 100]], body := .struct .unit }
    Derive.typeInfo true d ≠ Derive.typeInfo false d ∧
      (Derive.typeInfo true d).map stripDocs = (Derive.typeInfo false d).map stripDocs := by decide

end C15
end SIM
