/-
  C07 — SCALE round trip of a portable registry.

  For EVERY registry the Rust types can hold (`Bounded`: u32 ids and lengths, u8 variant indices,
  UTF-8 strings) decoding the encoding gives the registry back and consumes exactly the encoding;
  hence the encoder is injective on such registries.
-/
import SIM.Lemmas.Codec
namespace SIM
namespace C07
open Codec

theorem decode_encode (r : PortableRegistry) (h : Bounded r) (rest : Bytes) :
    decode (encode r ++ rest) = some (r, rest) :=
  good_registry.rt r rest h

theorem decode_encode_exact (r : PortableRegistry) (h : Bounded r) : decode (encode r) = some (r, []) := by
  simpa using decode_encode r h []

theorem encode_injective (a b : PortableRegistry) (ha : Bounded a) (hb : Bounded b)
    (h : encode a = encode b) : a = b :=
  good_registry.inj a b ha hb h

/-! ### non-vacuity: a concrete registry with every kind of definition is `Bounded` -/

def plain (id : Nat) (d : TypeDef Nat) : PType :=
  { id := id, ty := { path := [], params := [], def_ := d, docs := [] } }

def sampleField : Field Nat := { name := some [117, 56], ty := 0, typeName := none, docs := [[]] }
def sampleField' : Field Nat := { name := none, ty := 1, typeName := some [], docs := [] }
def sampleVariant : Variant Nat := { name := [], fields := [sampleField'], index := 255, docs := [] }
def sampleParams : List (TypeParam Nat) := [{ name := [], ty := some 0 }, { name := [], ty := none }]

def sample : PortableRegistry :=
  [ plain 0 (.primitive .u8),
    { id := 1, ty := { path := [[117, 56], [0xC3, 0xA9]], params := sampleParams, def_ := .composite [sampleField], docs := [[]] } },
    plain 2 (.variant [sampleVariant]),
    plain 3 (.sequence 70000),
    plain 4 (.array 4294967295 2),
    plain 5 (.tuple [0, 1, 1073741824]),
    plain 6 (.compact 100),
    plain 7 (.bitSequence 0 3) ]

theorem validUtf8_nil : validUtf8 [] = true := by decide
theorem validUtf8_u8 : validUtf8 [117, 56] = true := by decide
theorem validUtf8_e : validUtf8 [0xC3, 0xA9] = true := by decide

example : Bounded sample := by
  simp [sample, plain, sampleField, sampleField', sampleVariant, sampleParams, Bounded, okPType, okTy, okTypeDef, okParam, okStrs, okStr, okId, okFields, okField,
    okOptStr, okVariant, validUtf8_nil, validUtf8_u8, validUtf8_e]

example : decode (encode sample) = some (sample, []) := decode_encode_exact sample (by
  simp [sample, plain, sampleField, sampleField', sampleVariant, sampleParams, Bounded, okPType, okTy, okTypeDef, okParam, okStrs, okStr, okId, okFields, okField,
    okOptStr, okVariant, validUtf8_nil, validUtf8_u8, validUtf8_e])

end C07
end SIM
