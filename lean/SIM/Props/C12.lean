/-
  C12 — Runtime builder and interner behave as an append-only duplicate-free table.

  For EVERY finite sequence of operations the observable results of the interner
  (`map`+`vec` as in src/interner.rs) and of the builder (src/portable.rs:262-303)
  equal those of the specification `DL`: a duplicate-free list.
-/
import SIM.Lemmas.Interner
namespace SIM
namespace C12
variable {α : Type} [DecidableEq α]

/-! ### Interner: operations, outputs, the two step functions -/

inductive Op (α : Type)
  | intern (x : α) | get (x : α) | resolve (sym : Nat) | elements

inductive Out (α : Type)
  | interned (inserted : Bool) (id : Nat)
  | sym (o : Option Nat)
  | val (o : Option α)
  | elems (l : List α)
  deriving DecidableEq

/-- the implementation model -/
def implStep (it : Interner α) : Op α → Interner α × Out α
  | .intern x => let r := it.internOrGet x; (r.2.2, .interned r.1 r.2.1)
  | .get x => (it, .sym (it.get x))
  | .resolve i => (it, .val (it.resolve i))
  | .elements => (it, .elems it.elements)

/-- the specification: a duplicate-free list -/
def specStep (l : List α) : Op α → List α × Out α
  | .intern x => let r := DL.intern l x; (r.2.2, .interned r.1 r.2.1)
  | .get x => (l, .sym (DL.get l x))
  | .resolve i => (l, .val (DL.resolve l i))
  | .elements => (l, .elems l)

def run {σ : Type} (step : σ → Op α → σ × Out α) : σ → List (Op α) → σ × List (Out α)
  | s, [] => (s, [])
  | s, op :: ops => let r := step s op; let rest := run step r.1 ops; (rest.1, r.2 :: rest.2)

/-- one step: same output, abstraction commutes, invariant kept -/
theorem interner_step_refines (it : Interner α) (h : it.Inv) (op : Op α) :
    (implStep it op).2 = (specStep it.vec op).2 ∧
    (implStep it op).1.vec = (specStep it.vec op).1 ∧
    (implStep it op).1.Inv := by
  cases op with
  | intern x =>
    obtain ⟨h1, h2, h3, h4⟩ := Interner.internOrGet_spec it h x
    simp only [implStep, specStep]
    exact ⟨by rw [h1, h2], h3, h4⟩
  | get x => exact ⟨by simp only [implStep, specStep, Interner.get_spec it h x], rfl, h⟩
  | resolve i => exact ⟨by simp only [implStep, specStep, Interner.resolve_spec it i], rfl, h⟩
  | elements => exact ⟨rfl, rfl, h⟩

/-- **C12 (interner).** every operation sequence, from any consistent state: outputs equal the
    spec's, and the final `vec` is the spec's final list. -/
theorem interner_refines (ops : List (Op α)) (it : Interner α) (h : it.Inv) :
    (run implStep it ops).2 = (run specStep it.vec ops).2 ∧
    (run implStep it ops).1.vec = (run specStep it.vec ops).1 ∧
    (run implStep it ops).1.Inv := by
  induction ops generalizing it with
  | nil => exact ⟨rfl, rfl, h⟩
  | cons op ops ih =>
    obtain ⟨h1, h2, h3⟩ := interner_step_refines it h op
    obtain ⟨i1, i2, i3⟩ := ih (implStep it op).1 h3
    simp only [run]
    rw [h2] at i1 i2
    exact ⟨by rw [h1, i1], i2, i3⟩

/-- from the empty interner -/
theorem interner_refines_empty (ops : List (Op α)) :
    (run implStep (Interner.empty : Interner α) ops).2 = (run specStep [] ops).2 :=
  (interner_refines ops Interner.empty Interner.inv_empty).1

/-! ### What the specification says (so the refinement means what C12 states) -/

/-- the spec list never holds a duplicate -/
theorem spec_nodup (ops : List (Op α)) (l : List α) (h : l.Nodup) : (run specStep l ops).1.Nodup := by
  induction ops generalizing l with
  | nil => exact h
  | cons op ops ih =>
    simp only [run]
    apply ih
    cases op with
    | intern x => exact DL.intern_nodup l x h
    | get x => exact h
    | resolve i => exact h
    | elements => exact h

/-- a new value gets the next free index and is appended -/
theorem spec_intern_new (l : List α) (x : α) (h : x ∉ l) :
    DL.intern l x = (true, l.length, l ++ [x]) := by
  simp [DL.intern, h]

/-- an equal value gets its first index; nothing changes -/
theorem spec_intern_old (l : List α) (x : α) (h : x ∈ l) :
    DL.intern l x = (false, l.idxOf x, l) ∧ l[l.idxOf x]? = some x := by
  refine ⟨by simp [DL.intern, h], ?_⟩
  have hlt := List.idxOf_lt_length_of_mem h
  rw [List.getElem?_eq_getElem hlt, List.getElem_idxOf hlt]

/-- the spec list only grows: append-only -/
theorem spec_append_only (l : List α) (op : Op α) : l <+: (specStep l op).1 := by
  cases op with
  | intern x =>
    simp only [specStep, DL.intern]
    split
    · exact List.prefix_refl l
    · exact List.prefix_append l [x]
  | get x => exact List.prefix_refl l
  | resolve i => exact List.prefix_refl l
  | elements => exact List.prefix_refl l

/-! ### Builder -/

inductive BOp
  | register (t : Ty Nat) | next | get (id : Nat) | finish

inductive BOut
  | id (n : Nat) | ty (o : Option (Ty Nat)) | reg (r : PortableRegistry)
  deriving DecidableEq

def bImplStep (b : Builder) : BOp → Builder × BOut
  | .register t => let r := b.registerType t; (r.2, .id r.1)
  | .next => (b, .id b.nextTypeId)
  | .get i => (b, .ty (b.get i))
  | .finish => (b, .reg b.finish)

def bSpecStep (l : List (Ty Nat)) : BOp → List (Ty Nat) × BOut
  | .register t => let r := DL.intern l t; (r.2.2, .id r.2.1)
  | .next => (l, .id l.length)
  | .get i => (l, .ty l[i]?)
  | .finish => (l, .reg (Builder.enumFrom 0 l))

def bRun {σ : Type} (step : σ → BOp → σ × BOut) : σ → List BOp → σ × List BOut
  | s, [] => (s, [])
  | s, op :: ops => let r := step s op; let rest := bRun step r.1 ops; (rest.1, r.2 :: rest.2)

theorem builder_step_refines (b : Builder) (h : b.types.Inv) (op : BOp) :
    (bImplStep b op).2 = (bSpecStep b.types.vec op).2 ∧
    (bImplStep b op).1.types.vec = (bSpecStep b.types.vec op).1 ∧
    (bImplStep b op).1.types.Inv := by
  cases op with
  | register t =>
    obtain ⟨_, h2, h3, h4⟩ := Interner.internOrGet_spec b.types h t
    simp only [bImplStep, bSpecStep, Builder.registerType]
    exact ⟨by rw [h2], h3, h4⟩
  | next => exact ⟨rfl, rfl, h⟩
  | get i => exact ⟨rfl, rfl, h⟩
  | finish => exact ⟨rfl, rfl, h⟩

/-- **C12 (builder).** every sequence of `register_type / next_type_id / get / finish`. -/
theorem builder_refines (ops : List BOp) (b : Builder) (h : b.types.Inv) :
    (bRun bImplStep b ops).2 = (bRun bSpecStep b.types.vec ops).2 ∧
    (bRun bImplStep b ops).1.types.vec = (bRun bSpecStep b.types.vec ops).1 ∧
    (bRun bImplStep b ops).1.types.Inv := by
  induction ops generalizing b with
  | nil => exact ⟨rfl, rfl, h⟩
  | cons op ops ih =>
    obtain ⟨h1, h2, h3⟩ := builder_step_refines b h op
    obtain ⟨i1, i2, i3⟩ := ih (bImplStep b op).1 h3
    simp only [bRun]
    rw [h2] at i1 i2
    exact ⟨by rw [h1, i1], i2, i3⟩

theorem builder_refines_new (ops : List BOp) :
    (bRun bImplStep Builder.new ops).2 = (bRun bSpecStep [] ops).2 :=
  (builder_refines ops Builder.new Interner.inv_empty).1

/-- registering a new value returns exactly what `next_type_id` announced -/
theorem next_announces (b : Builder) (h : b.types.Inv) (t : Ty Nat) (hn : t ∉ b.types.vec) :
    (b.registerType t).1 = b.nextTypeId := by
  obtain ⟨_, h2, _, _⟩ := Interner.internOrGet_spec b.types h t
  simp only [Builder.registerType, Builder.nextTypeId, Interner.elements, h2, DL.intern, hn, if_false]

theorem enumFrom_getElem? (l : List (Ty Nat)) (k i : Nat) :
    (Builder.enumFrom k l)[i]? = (l[i]?).map (fun t => { id := k + i, ty := t }) := by
  induction l generalizing k i with
  | nil => simp [Builder.enumFrom]
  | cons t ts ih =>
    cases i with
    | zero => simp [Builder.enumFrom]
    | succ i => simp only [Builder.enumFrom, List.getElem?_cons_succ, ih]; congr; funext t; congr 1; omega

/-- `finish` lists the values at their indices -/
theorem finish_lists (b : Builder) (i : Nat) :
    (b.finish)[i]? = (b.types.vec[i]?).map (fun t => { id := i, ty := t }) := by
  simp [Builder.finish, Interner.elements, enumFrom_getElem?]

/-! ### non-vacuity: a concrete history (duplicate after unrelated insertions) -/
example : (run implStep (Interner.empty : Interner Nat)
    [.intern 7, .intern 9, .intern 7, .get 9, .get 3, .resolve 1, .resolve 5, .elements]).2 =
    [.interned true 0, .interned true 1, .interned false 0, .sym (some 1), .sym none,
     .val (some 9), .val none, .elems [7, 9]] := by decide

end C12
end SIM
