/-
  C10 (continued) — `PortableRegistry::retain`: nothing accepted gives the empty registry; the result never
  grows; accepted ids are retained; and the result is in canonical depth-first numbering, i.e. retaining
  everything from the result again changes neither the registry nor any id.
-/
import SIM.Props.C10
import SIM.Lemmas.RetainCanon
namespace SIM
namespace C10
open Retain

/-- nothing accepted: the empty registry and the empty map -/
theorem retain_none_kept (r : PortableRegistry) : retain r (fun _ => false) = some ([], []) := by
  simp only [retain, retainLoop_none]

/-- the result is never longer than the input, and every key of the map is an id of the input -/
theorem retain_shrinks (r : PortableRegistry) (hw : WF r) (keep : Nat → Bool) (r' : PortableRegistry)
    (m : List (Nat × Nat)) (h : retain r keep = some (r', m)) :
    r'.length ≤ r.length ∧ ∀ p ∈ m, p.1 < r.length := by
  obtain ⟨hnd, hv, hq, _, _⟩ := retain_facts hw keep h
  have hkeys : ∀ k ∈ m.map (·.1), k < r.length := fun k hk => (hq k ((lookup_isSome_iff m k).2 hk)).1
  constructor
  · have hlen : m.length = r'.length := by simpa using congrArg List.length hv
    have : (m.map (·.1)).length ≤ (List.range r.length).length :=
      List.Nodup.length_le_of_subset hnd (fun k hk => List.mem_range.2 (hkeys k hk))
    simp only [List.length_map, List.length_range] at this
    omega
  · intro p hp
    exact hkeys p.1 (List.mem_map.2 ⟨p, hp, rfl⟩)

/-- an accepted id is always retained -/
theorem retain_keeps_accepted (r : PortableRegistry) (hw : WF r) (keep : Nat → Bool) (r' : PortableRegistry)
    (m : List (Nat × Nat)) (h : retain r keep = some (r', m)) (i : Nat) (hi : i < r.length) (hk : keep i = true) :
    ∃ n, lookup m i = some n := by
  have := (retain_facts hw keep h).2.2.2.2 i hi hk
  cases hl : lookup m i with
  | none => simp [hl] at this
  | some v => exact ⟨v, rfl⟩

/-- the result of `retain` is in canonical depth-first numbering: retaining everything from it again is the identity -/
theorem retain_canonical (r : PortableRegistry) (hw : WF r) (keep : Nat → Bool) (r' : PortableRegistry)
    (m : List (Nat × Nat)) (h : retain r keep = some (r', m)) :
    retain r' (fun _ => true) = some (r', (List.range r'.length).map (fun i => (i, i))) :=
  retain_canon_core hw keep h (retain_wf r hw keep r' m h)

/-! ### non-vacuity: three entries, a cycle `1 → 2 → 1`, only id 2 accepted -/

private def prim' (p : Prim) : Ty Nat := { path := [], params := [], def_ := .primitive p, docs := [] }

/-- 0: `bool` (dropped); 1: composite `A { b: #2, u: #0 }`; 2: sequence of `#1`. -/
def demo3 : PortableRegistry :=
  [ { id := 0, ty := prim' .bool },
    { id := 1, ty := { path := [[65]], params := [],
                        def_ := .composite [{ name := some [98], ty := 2, typeName := none, docs := [] },
                                            { name := some [117], ty := 0, typeName := none, docs := [] }], docs := [] } },
    { id := 2, ty := { path := [], params := [], def_ := .sequence 1, docs := [] } } ]

/-- the retained registry: the accepted id 2 comes first, then 1, then 0 — a genuine renumbering -/
def demo3' : PortableRegistry :=
  [ { id := 0, ty := { path := [], params := [], def_ := .sequence 1, docs := [] } },
    { id := 1, ty := { path := [[65]], params := [],
                        def_ := .composite [{ name := some [98], ty := 0, typeName := none, docs := [] },
                                            { name := some [117], ty := 2, typeName := none, docs := [] }], docs := [] } },
    { id := 2, ty := prim' .bool } ]

example : WF demo3 := by
  unfold WF
  decide

example : retain demo3 (fun i => i == 2) = some (demo3', [(2, 0), (1, 1), (0, 2)]) := by
  decide

/-- the conclusion of `retain_canonical` on the example, computed -/
example : retain demo3' (fun _ => true) = some (demo3', (List.range demo3'.length).map (fun i => (i, i))) := by
  decide

/-- … and the same instance obtained from the theorem -/
example : retain demo3' (fun _ => true) = some (demo3', (List.range demo3'.length).map (fun i => (i, i))) :=
  retain_canonical demo3 (by unfold WF; decide) (fun i => i == 2) demo3' [(2, 0), (1, 1), (0, 2)] (by decide)

/-- a filter that drops an entry: accepting only id 0 (`bool`, no references) keeps one entry -/
example : retain demo3 (fun i => i == 0) = some ([{ id := 0, ty := prim' .bool }], [(0, 0)]) := by
  decide

/-- the input itself is not canonical for the filter `{2}`: the numbering really changes -/
example : retain demo3 (fun i => i == 2) ≠ some (demo3, (List.range demo3.length).map (fun i => (i, i))) := by
  decide

end C10
end SIM
