/-
  C05 (tie to the source by translation): the alias rules of the model (`Impls.identity`) are the reading of the
  `type Identity = ..` declarations of /repo/src/impls.rs, re-extracted on every run; statements and proofs in SIM.Props.C16impls.
-/
import SIM.Props.C16impls
namespace SIM
namespace C05
open Impls

theorem extracted_identities_ok : Extracted.ImplTable.identities = Expected.ImplTable.identities := C16.extracted_impls_ok.1

/-- the model's identity of a built-in type expression is what the source declares for the impl it is an instance of -/
theorem identity_is_declared (t : TyExpr) (r : Str × Str × Str) (h : C16.declared t = some r) :
    r ∈ Expected.ImplTable.identities ∧ C16.readIdentity t r.2.1 = some (identity t) :=
  ⟨C16.declared_in_table t r h, C16.identity_is_declared t r h⟩

example : C16.declared (.vec (.box_ .bool)) = some (C16.iVec, C16.sSliceT, C16.sFwdId) ∧ identity (.vec (.box_ .bool)) = .slice (.box_ .bool) := ⟨rfl, rfl⟩

end C05
end SIM
