/-
  C03/C04 — a decoder that knows only a `PortableRegistry` and the SCALE rules (`decodeVal`) inverts
  the SCALE encoder on every well-typed value, and every value of a built-in (std) type is well typed
  against any registry that describes the type faithfully: the built-in `TypeInfo` impls describe the
  real SCALE encoding, nested to any depth. Also the documented shapes of the types that have no codec
  encoding of their own (`char`), of tuples, wrappers, and the `N as u32` array length.
-/
import SIM.Lemmas.Value
namespace SIM
namespace C04
open Value Spec Impls

/-- **C03/C04 core.** a decoder that knows only the registry and the SCALE rules consumes the encoding of a well-typed value exactly and
    recovers the same structure (variant, field names, field order) and leaf values -/
theorem decode_encode (reg : PortableRegistry) (id : Nat) (v : Val) (h : HasTy reg id v) (rest : Codec.Bytes) :
    ∃ fuel, decodeVal reg fuel id (encode v ++ rest) = some (v, rest) :=
  hasTy_decodes reg id v h rest

/-- more fuel never changes an answer -/
theorem decode_fuel_mono (reg : PortableRegistry) (f k id : Nat) (bs : Codec.Bytes) (r : Val × Codec.Bytes)
    (h : decodeVal reg f id bs = some r) : decodeVal reg (f + k) id bs = some r :=
  decodeVal_add reg f k id bs r h

/-- the variant index in the metadata is the first byte of the encoding -/
theorem variant_index_first_byte (name : Str) (idx : Nat) (fs : List (Option Str × Val)) :
    (encode (.variant name idx fs)).head? = some (UInt8.ofNat idx) := by
  simp [encode]

/-- every value of a built-in type is well typed against any registry that describes the type faithfully -/
theorem builtin_typed (docs : Bool) (S : TyExpr → Prop) (reg : PortableRegistry) (idOf : TyExpr → Nat)
    (hf : Faithful docs S reg idOf) (t : TyExpr) (v : Val) (hs : S t) (hv : ValOf t v) : HasTy reg (idOf t) v :=
  builtin_typed_aux hf t v hv (Desc.of hs)

/-- **C04.** built-in impls describe the real SCALE encoding of std types, nested to any depth -/
theorem builtin_roundtrip (docs : Bool) (S : TyExpr → Prop) (reg : PortableRegistry) (idOf : TyExpr → Nat)
    (hf : Faithful docs S reg idOf) (t : TyExpr) (v : Val) (hs : S t) (hv : ValOf t v) (rest : Codec.Bytes) :
    ∃ fuel, decodeVal reg fuel (idOf t) (encode v ++ rest) = some (v, rest) :=
  decode_encode reg (idOf t) v (builtin_typed docs S reg idOf hf t v hs hv) rest

/-- documented shapes of types without a codec encoding, and of the wrappers -/
theorem tuple_shape (docs : Bool) (h r : TyExpr) :
    typeInfo docs (.tupleCons h r) = some (Build.ofDef (.tuple ((h :: elems r).filter (fun t => !isPhantom t)))) := rfl

theorem char_shape (docs : Bool) : typeInfo docs .char = some (Build.ofDef (.primitive .char)) := rfl

theorem nonzero_shape (docs : Bool) (w : W) :
    typeInfo docs (.nonZeroU w) = some (mk [nonZeroUName w] [] (.composite [uf (.uint w)])) ∧
    typeInfo docs (.nonZeroI w) = some (mk [nonZeroIName w] [] (.composite [uf (.sint w)])) := by
  constructor
  · simp only [typeInfo, pushed_one _ (isPhantom_uint w)]
  · simp only [typeInfo, pushed_one _ (isPhantom_sint w)]

theorem duration_shape (docs : Bool) : ∃ ty, typeInfo docs .duration = some ty ∧ ty.path = [sDuration] ∧
    ty.def_.refs = [.uint .w64, .uint .w32] := by
  refine ⟨_, rfl, rfl, ?_⟩
  simp [mk, TypeDef.refs, fieldRefs, pushed, isPhantom_uint]

/-- the one point where the description cannot follow the type: array lengths are stored as u32 -/
theorem array_len_mod (docs : Bool) (n : Nat) (t : TyExpr) :
    typeInfo docs (.array n t) = some (Build.ofDef (.array (n % 4294967296) t)) := rfl

end C04
end SIM
