/-
  C10 — `PortableRegistry::retain(filter)` on a well-formed registry never panics and returns a
  well-formed registry together with a map `old id ↦ new id` whose keys are exactly the ids reachable
  from the accepted ids, which is a bijection onto the new ids, and under which every retained entry
  is its original with every reference sent through the map.
-/
import SIM.Lemmas.Retain
namespace SIM
namespace C10
open Retain

theorem retain_total (r : PortableRegistry) (hw : WF r) (keep : Nat → Bool) : (retain r keep).isSome :=
  retain_isSome hw keep

theorem retain_bij (r : PortableRegistry) (hw : WF r) (keep : Nat → Bool) (r' : PortableRegistry)
    (m : List (Nat × Nat)) (h : retain r keep = some (r', m)) :
    (m.map (·.1)).Nodup ∧ m.map (·.2) = List.range r'.length :=
  ⟨(retain_facts hw keep h).1, (retain_facts hw keep h).2.1⟩

/-- the lookup used in `retain_entry` is the map itself -/
theorem retain_lookup (r : PortableRegistry) (hw : WF r) (keep : Nat → Bool) (r' : PortableRegistry)
    (m : List (Nat × Nat)) (h : retain r keep = some (r', m)) (o n : Nat) :
    (o, n) ∈ m ↔ lookup m o = some n :=
  ⟨lookup_of_mem (retain_facts hw keep h).1, mem_of_lookup⟩

theorem retain_entry (r : PortableRegistry) (hw : WF r) (keep : Nat → Bool) (r' : PortableRegistry)
    (m : List (Nat × Nat)) (h : retain r keep = some (r', m)) (o n : Nat) (hm : (o, n) ∈ m) :
    ∃ e, r[o]? = some e ∧ r'[n]? = some { id := n, ty := e.ty.map (fun x => (lookup m x).getD 0) } := by
  obtain ⟨_, hv, _, hfin, _⟩ := retain_facts hw keep h
  have hn : n < r'.length := by
    have : n ∈ m.map (·.2) := List.mem_map.2 ⟨(o, n), hm, rfl⟩
    rw [hv] at this; exact List.mem_range.1 this
  obtain ⟨o', e, h1, h2, h3, _⟩ := hfin n hn
  rw [getElem?_of_mem_vals hv hm] at h1
  cases h1
  exact ⟨e, h2, h3⟩

theorem retain_wf (r : PortableRegistry) (hw : WF r) (keep : Nat → Bool) (r' : PortableRegistry)
    (m : List (Nat × Nat)) (h : retain r keep = some (r', m)) : WF r' := by
  obtain ⟨_, hv, _, hfin, _⟩ := retain_facts hw keep h
  intro n hn
  obtain ⟨o, e, _, _, h3, h4⟩ := hfin n hn
  rw [List.getElem?_eq_getElem hn] at h3
  have h3 := Option.some.inj h3
  rw [h3]
  refine ⟨rfl, ?_⟩
  intro x hx
  simp only [Ty.refs_map, List.mem_map] at hx
  obtain ⟨c, hc, rfl⟩ := hx
  have := h4 c hc
  cases hl : lookup m c with
  | none => simp [hl] at this
  | some v =>
    have hmem : v ∈ m.map (·.2) := List.mem_map.2 ⟨(c, v), mem_of_lookup hl, rfl⟩
    rw [hv] at hmem
    simpa using List.mem_range.1 hmem

theorem retain_keys (r : PortableRegistry) (hw : WF r) (keep : Nat → Bool) (r' : PortableRegistry)
    (m : List (Nat × Nat)) (h : retain r keep = some (r', m)) (k : Nat) :
    (∃ n, (k, n) ∈ m) ↔ ReachR r (fun i => i < r.length ∧ keep i = true) k := by
  obtain ⟨hnd, hv, hq, hfin, hroots⟩ := retain_facts hw keep h
  constructor
  · rintro ⟨n, hn⟩
    exact (hq k (by simp [lookup_of_mem hnd hn])).2
  · intro hr
    induction hr with
    | @root i hp =>
      have := hroots i hp.1 hp.2
      cases hl : lookup m i with
      | none => simp [hl] at this
      | some v => exact ⟨v, mem_of_lookup hl⟩
    | @step a c e _ he hc ih =>
      obtain ⟨n, hn⟩ := ih
      have hlt : n < r'.length := by
        have : n ∈ m.map (·.2) := List.mem_map.2 ⟨(_, n), hn, rfl⟩
        rw [hv] at this; exact List.mem_range.1 this
      obtain ⟨o', e', h1, h2, _, h4⟩ := hfin n hlt
      rw [getElem?_of_mem_vals hv hn] at h1
      cases h1
      rw [he] at h2
      cases h2
      have := h4 c hc
      cases hl : lookup m c with
      | none => simp [hl] at this
      | some v => exact ⟨v, mem_of_lookup hl⟩

/-! ### non-vacuity: a self-referential type reachable only through a type parameter -/

private def prim (p : Prim) : Ty Nat := { path := [], params := [], def_ := .primitive p, docs := [] }

/-- 0: composite `Wrapper<T = #3>` with a single `u8` field (so `#3` is referenced by the parameter only);
    1: `u8`; 2: `bool` (unreachable from 0); 3: composite `Node { next: Vec<Node> = #4, parent: Node = #3, tag: #1 }` (refers to itself);
    4: sequence of `#3` (a second cycle 3 → 4 → 3). -/
def demo : PortableRegistry :=
  [ { id := 0, ty := { path := [[87]], params := [{ name := [84], ty := some 3 }],
                        def_ := .composite [{ name := none, ty := 1, typeName := none, docs := [] }], docs := [] } },
    { id := 1, ty := prim .u8 },
    { id := 2, ty := prim .bool },
    { id := 3, ty := { path := [[78]], params := [],
                        def_ := .composite [{ name := some [110], ty := 4, typeName := none, docs := [] },
                                            { name := some [112], ty := 3, typeName := none, docs := [] },
                                            { name := some [116], ty := 1, typeName := none, docs := [] }], docs := [] } },
    { id := 4, ty := { path := [], params := [], def_ := .sequence 3, docs := [] } } ]

example : WF demo := by
  unfold WF
  decide

/-- keeping only id 0 retains 0, 3, 4, 1 (in visiting order: the parameter before the field) and drops 2 -/
example : retain demo (fun i => i == 0) = some
    ([ { id := 0, ty := { path := [[87]], params := [{ name := [84], ty := some 1 }],
                          def_ := .composite [{ name := none, ty := 3, typeName := none, docs := [] }], docs := [] } },
       { id := 1, ty := { path := [[78]], params := [],
                          def_ := .composite [{ name := some [110], ty := 2, typeName := none, docs := [] },
                                              { name := some [112], ty := 1, typeName := none, docs := [] },
                                              { name := some [116], ty := 3, typeName := none, docs := [] }], docs := [] } },
       { id := 2, ty := { path := [], params := [], def_ := .sequence 1, docs := [] } },
       { id := 3, ty := prim .u8 } ],
     [(0, 0), (3, 1), (4, 2), (1, 3)]) := by
  decide

end C10
end SIM
