/-
  C16 — MetaType: equality, ordering and hashing go through the declared identity only, and any two
  types declaring the same identity return the same definition, so it never matters which alias a
  registry meets first. No built-in impl lists a PhantomData member.
-/
import SIM.Lemmas.Impls
namespace SIM
namespace C16
open Impls

/-- MetaType equality is equality of the declared identities -/
theorem eq_iff_identity (docs : Bool) (a b : TyExpr) :
    metaEq (metaOf docs a) (metaOf docs b) = true ↔ identity a = identity b := by
  simp [metaEq, metaOf]

theorem identity_idem (t : TyExpr) : identity (identity t) = identity t := identity_idem' t

/-- an alias returns the definition of its identity -/
theorem typeInfo_identity (docs : Bool) (t : TyExpr) : typeInfo docs (identity t) = typeInfo docs t :=
  typeInfo_identity' docs t

/-- **C16 coherence.** any two types declaring the same identity return equal definitions
    (wrappers of wrappers to any depth) -/
theorem identity_coherent (docs : Bool) (a b : TyExpr) (h : identity a = identity b) :
    typeInfo docs a = typeInfo docs b := by
  rw [← typeInfo_identity docs a, ← typeInfo_identity docs b, h]

/-- hence equal MetaTypes are equal as (identity, definition) pairs: it never matters which alias a
    registry meets first -/
theorem meta_eq_full (docs : Bool) (a b : TyExpr) (h : metaEq (metaOf docs a) (metaOf docs b) = true) :
    metaOf docs a = metaOf docs b := by
  have hid := (eq_iff_identity docs a b).1 h
  simp only [metaOf, hid, identity_coherent docs a b hid]

/-- any total order / hash computed from the identity is consistent with equality -/
theorem ord_hash_consistent {β} (key : TyExpr → β) (docs : Bool) (a b : TyExpr)
    (h : metaEq (metaOf docs a) (metaOf docs b) = true) : key (metaOf docs a).id = key (metaOf docs b).id := by
  rw [meta_eq_full docs a b h]

/-- no built-in impl lists a PhantomData member as a field or tuple element (type parameters may name it) -/
theorem impls_never_list_phantom (docs : Bool) (t : TyExpr) (ty : Ty TyExpr) (h : typeInfo docs t = some ty) :
    match ty.def_ with
    | .composite fs => ∀ f ∈ fs, isPhantom f.ty = false
    | .variant vs => ∀ v ∈ vs, ∀ f ∈ v.fields, isPhantom f.ty = false
    | .tuple ts => ∀ r ∈ ts, isPhantom r = false
    | _ => True := by
  induction t generalizing ty with
  | box_ t ih => exact ih ty (by simpa [typeInfo] using h)
  | rc t ih => exact ih ty (by simpa [typeInfo] using h)
  | arc t ih => exact ih ty (by simpa [typeInfo] using h)
  | ref_ t ih => exact ih ty (by simpa [typeInfo] using h)
  | refMut t ih => exact ih ty (by simpa [typeInfo] using h)
  | adt n args => simp [typeInfo] at h
  | tuple0 =>
    simp only [typeInfo, Option.some.injEq] at h
    subst h
    simp [Build.ofDef, Build.tupleNew]
  | tupleCons a r =>
    simp only [typeInfo, Option.some.injEq] at h
    subst h
    exact tupleNew_not_phantom _
  | option t =>
    simp only [typeInfo, Option.some.injEq] at h
    subst h
    intro v hv f hf
    simp only [List.mem_cons, List.not_mem_nil, or_false] at hv
    rcases hv with rfl | rfl
    · simp at hf
    · exact pushed_not_phantom _ f hf
  | result t e =>
    simp only [typeInfo, Option.some.injEq] at h
    subst h
    intro v hv f hf
    simp only [List.mem_cons, List.not_mem_nil, or_false] at hv
    rcases hv with rfl | rfl
    · exact pushed_not_phantom _ f hf
    · exact pushed_not_phantom _ f hf
  | _ =>
    simp only [typeInfo, Option.some.injEq] at h
    subst h
    first
      | exact pushed_not_phantom _
      | exact trivial
      | simp [mk]

end C16
end SIM
