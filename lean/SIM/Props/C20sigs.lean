/-
  C20 (tie to the source by translation): the typestate model is the reading of the builder *signatures* of /repo/src/build.rs.
  translators/extract_typestate.py re-extracts, on every run, every inherent `impl<..> Builder<args> { pub fn m(self, ..) -> Ret }`
  (SIM.Extracted.Typestate.sigs). A generic automaton runs over that table: a call `m` on a value of type `B<args>` is allowed when a
  row for `B` and `m` unifies with `args` (`?X` is a generic parameter of the impl), and yields the row's result type. The theorems
  say that, for EVERY sequence of calls, the automaton reaches the type the closure bound / the terminal demands exactly when the
  counting predicates of SIM.Model.Typestate hold.
-/
import SIM.Extracted.Typestate
import SIM.Model.TypestateExpected
import SIM.Model.Typestate
import SIM.Lemmas.Sigs
namespace SIM
namespace C20
open Typestate

/-- what the source says today is what the model was written from -/
theorem extracted_sigs_ok :
    Extracted.Typestate.sigs = Expected.Typestate.sigs ∧ Extracted.Typestate.defaults = Expected.Typestate.defaults := ⟨rfl, rfl⟩

/-- the closure bounds of `field` / `field_portable`: from a fresh `FieldBuilder` to name (not) assigned + type assigned -/
theorem field_closure_bounds :
    closureOf (bFields, [fMeta, kNamed]) mField = some ((bField, [fMeta, nNo, tNo]), (bField, [fMeta, nYes, tYes])) ∧
    closureOf (bFields, [fMeta, kUnnamed]) mField = some ((bField, [fMeta, nNo, tNo]), (bField, [fMeta, nNo, tYes])) ∧
    closureOf (bFields, [fPortable, kNamed]) mFieldPortable = some ((bField, [fPortable, nNo, tNo]), (bField, [fPortable, nYes, tYes])) ∧
    closureOf (bFields, [fPortable, kUnnamed]) mFieldPortable = some ((bField, [fPortable, nNo, tNo]), (bField, [fPortable, nNo, tYes])) ∧
    closureOf (bFields, [fMeta, kNone]) mField = none ∧ closureOf (bFields, [fPortable, kNone]) mFieldPortable = none := by
  refine ⟨?_, ?_, ?_, ?_, ?_, ?_⟩ <;> decide

/-- **members**: for every call sequence, the signatures let the closure return the type its bound demands exactly when the
    model's `fieldOk` holds -/
theorem field_sigs_iff_fieldOk (portable : Bool) (calls : List FStep) :
    (runSig Expected.Typestate.sigs (bField, [form portable, nNo, tNo]) (calls.map (fMethod portable)) = some (bField, [form portable, nYes, tYes])
      ↔ fieldOk .named calls = true) ∧
    (runSig Expected.Typestate.sigs (bField, [form portable, nNo, tNo]) (calls.map (fMethod portable)) = some (bField, [form portable, nNo, tYes])
      ↔ fieldOk .unnamed calls = true) := by
  have h0 : (bField, [form portable, nNo, tNo]) = fEnc portable (false, false) := rfl
  have h1 : (bField, [form portable, nYes, tYes]) = fEnc portable (true, true) := rfl
  have h2 : (bField, [form portable, nNo, tYes]) = fEnc portable (false, true) := rfl
  rw [h0, h1, h2, fRun_eq, fEnc_map, fEnc_map, fRun_spec, fRun_spec]
  simp only [fieldOk, Bool.toNat_false, Bool.toNat_true, Nat.zero_add, Bool.and_eq_true, beq_iff_eq]
  constructor <;> constructor <;> intro h <;> exact ⟨h.2, h.1⟩

/-- `compact` has the signature of `ty` (MetaForm only) -/
theorem compact_like_ty (n : Str) :
    stepSig Expected.Typestate.sigs (bField, [fMeta, n, tNo]) mCompact = stepSig Expected.Typestate.sigs (bField, [fMeta, n, tNo]) mTy ∧
    stepSig Expected.Typestate.sigs (bField, [fMeta, n, tYes]) mCompact = none ∧
    stepSig Expected.Typestate.sigs (bField, [fPortable, n, tNo]) mCompact = none := by
  exact ⟨rfl, rfl, rfl⟩

theorem variant_closure_bound (f : Str) (hf : f = fMeta ∨ f = fPortable) :
    stepSig Expected.Typestate.sigs (bVariant, [f, iNo]) mIndex = some (bVariant, [f, iYes]) ∧
    stepSig Expected.Typestate.sigs (bVariant, [f, iYes]) mIndex = none ∧
    stepSig Expected.Typestate.sigs (bVariant, [f, iYes]) mFinalize = some (bVariantT, [f]) ∧
    stepSig Expected.Typestate.sigs (bVariant, [f, iNo]) mFinalize = none := by
  rcases hf with rfl | rfl <;> refine ⟨?_, ?_, ?_, ?_⟩ <;> decide

/-- **variants**: the closure can return `VariantBuilder<F, IndexAssigned>` exactly when `index` is called exactly once -/
theorem variant_sigs_iff (portable : Bool) (calls : List VStep) :
    runSig Expected.Typestate.sigs (bVariant, [form portable, iNo]) (calls.map (vMethod portable)) = some (bVariant, [form portable, iYes])
      ↔ (calls.filter isIndex).length = 1 := by
  have h0 : (bVariant, [form portable, iNo]) = vEnc portable false := rfl
  have h1 : (bVariant, [form portable, iYes]) = vEnc portable true := rfl
  rw [h0, h1, vRun_eq, vEnc_map, vRun_spec]
  simp only [Bool.toNat_false, Bool.toNat_true, Nat.zero_add]

/-- **types**: a chain yields a `Type` exactly when it has one `path`, one terminal, and the terminal comes last -/
theorem type_sigs_iff (portable : Bool) (prog : List TStep) :
    runSig Expected.Typestate.sigs (bType, [form portable, pNo]) (prog.map (tMethod portable)) = some (bTy, [form portable])
      ↔ ((prog.filter isPath).length = 1 ∧ (prog.filter isTerminal).length = 1 ∧ (prog.getLast?.map isTerminal) = some true) := by
  have h0 : (bType, [form portable, pNo]) = tEnc portable .no := rfl
  have h1 : (bTy, [form portable]) = tEnc portable .done := rfl
  rw [h0, h1, tRun_eq, tEnc_map, (tRun_spec prog).2]
  exact Iff.rfl

/-- every chain the model accepts type checks against the extracted signatures (the model also demands well-formed inner lists) -/
theorem accepts_runs (portable : Bool) (prog : List TStep) (h : accepts prog = true) :
    runSig Expected.Typestate.sigs (bType, [form portable, pNo]) (prog.map (tMethod portable)) = some (bTy, [form portable]) := by
  rw [type_sigs_iff]
  simp only [accepts, Bool.and_eq_true, beq_iff_eq] at h
  refine ⟨h.1.1, h.1.2, ?_⟩
  cases hl : prog.getLast? with
  | none => simp [hl] at h
  | some c => cases c <;> simp [hl, isTerminal] at h ⊢

/-! ### the whole model, layer by layer, read from the table

`typechecks` below is defined from the extracted table only: which `field` method exists on a `FieldsBuilder<F, K>`, what its closure
bound demands, and which calls the signatures allow inside the closure; likewise for variants and for the type builder. -/

def kindName : FKind → Str | .unit => kNone | .named => kNamed | .unnamed => kUnnamed
def fieldMethod (portable : Bool) : Str := if portable then mFieldPortable else mField

/-- every member of the list is added by a `field` call whose closure bound the member's calls satisfy -/
def fieldsTypecheck (portable : Bool) (fp : FieldsProg) : Prop :=
  ∀ calls ∈ fp.fields, ∃ init tgt, closureOf (bFields, [form portable, kindName fp.kind]) (fieldMethod portable) = some (init, tgt) ∧
    runSig Expected.Typestate.sigs init (calls.map (fMethod portable)) = some tgt

/-- **member lists**: the table admits the list exactly when the model's `fieldsOk` does -/
theorem fields_typecheck_iff (portable : Bool) (fp : FieldsProg) : fieldsTypecheck portable fp ↔ fieldsOk fp = true := by
  obtain ⟨kind, fields⟩ := fp
  obtain ⟨h1, h2, h3, h4, h5, h6⟩ := field_closure_bounds
  have hc : ∀ k, closureOf (bFields, [form portable, kindName k]) (fieldMethod portable) =
      match k with
      | .unit => none
      | .named => some ((bField, [form portable, nNo, tNo]), (bField, [form portable, nYes, tYes]))
      | .unnamed => some ((bField, [form portable, nNo, tNo]), (bField, [form portable, nNo, tYes])) := by
    intro k
    cases portable <;> cases k
    · exact h5
    · exact h1
    · exact h2
    · exact h6
    · exact h3
    · exact h4
  unfold fieldsTypecheck
  simp only [hc]
  cases kind
  · simp only [fieldsOk]
    cases fields with
    | nil => simp
    | cons c cs =>
      simp only [List.isEmpty_cons, Bool.false_eq_true, iff_false]
      intro h
      obtain ⟨_, _, he, _⟩ := h c (List.mem_cons_self ..)
      cases he
  · simp only [fieldsOk, List.all_eq_true]
    constructor
    · intro h calls hm
      obtain ⟨init, tgt, he, hr⟩ := h calls hm
      cases he
      exact (field_sigs_iff_fieldOk portable calls).1.1 hr
    · intro h calls hm
      exact ⟨_, _, rfl, (field_sigs_iff_fieldOk portable calls).1.2 (h calls hm)⟩
  · simp only [fieldsOk, List.all_eq_true]
    constructor
    · intro h calls hm
      obtain ⟨init, tgt, he, hr⟩ := h calls hm
      cases he
      exact (field_sigs_iff_fieldOk portable calls).2.1 hr
    · intro h calls hm
      exact ⟨_, _, rfl, (field_sigs_iff_fieldOk portable calls).2.2 (h calls hm)⟩

/-- the closure of `Variants::variant` returns `VariantBuilder<F, IndexAssigned>`, and every `fields(..)` argument is admitted -/
def variantTypechecks (portable : Bool) (calls : List VStep) : Prop :=
  runSig Expected.Typestate.sigs (bVariant, [form portable, iNo]) (calls.map (vMethod portable)) = some (bVariant, [form portable, iYes]) ∧
  ∀ c ∈ calls, match c with | .fields fp => fieldsTypecheck portable fp | _ => True

theorem variant_typechecks_iff (portable : Bool) (calls : List VStep) : variantTypechecks portable calls ↔ variantOk calls = true := by
  unfold variantTypechecks variantOk
  rw [variant_sigs_iff, Bool.and_eq_true, beq_iff_eq, List.all_eq_true]
  refine and_congr Iff.rfl (forall_congr' fun c => imp_congr_right fun _ => ?_)
  cases c <;> simp [fields_typecheck_iff]

/-- a chain yields a `Type` and the argument of its terminal is admitted -/
def progTypechecks (portable : Bool) (prog : List TStep) : Prop :=
  runSig Expected.Typestate.sigs (bType, [form portable, pNo]) (prog.map (tMethod portable)) = some (bTy, [form portable]) ∧
  (match prog.getLast? with
   | some (.composite fp) => fieldsTypecheck portable fp
   | some (.variant vs) => ∀ v ∈ vs, variantTypechecks portable v
   | _ => True)

/-- **the typestate model is the reading of the signatures**: for every builder program, in either form -/
theorem typechecks_iff_accepts (portable : Bool) (prog : List TStep) : progTypechecks portable prog ↔ accepts prog = true := by
  unfold progTypechecks accepts
  rw [type_sigs_iff]
  simp only [Bool.and_eq_true, beq_iff_eq]
  cases hl : prog.getLast? with
  | none => simp
  | some c => cases c <;> simp [isTerminal, fields_typecheck_iff, variant_typechecks_iff, and_assoc]

/-! non-vacuity -/
example : runSig Expected.Typestate.sigs (bField, [fMeta, nNo, tNo]) [mTy, mName, mTypeName, mDocs] = some (bField, [fMeta, nYes, tYes]) := by decide
example : runSig Expected.Typestate.sigs (bField, [fMeta, nNo, tNo]) [mTy, mTy] = none := by decide
example : runSig Expected.Typestate.sigs (bType, [fMeta, pNo]) [mDocs, mPath, mTypeParams, mComposite] = some (bTy, [fMeta]) := by decide
example : runSig Expected.Typestate.sigs (bType, [fMeta, pNo]) [mComposite] = none := by decide


end C20
end SIM
