/-
  C06 (tie to the source by translation): the `#[codec(index = N)]` attributes of `TypeDef` and `TypeDefPrimitive`, the
  declaration order of the members of every wire struct and their `#[codec(compact)]` markers — re-extracted from
  /repo/src on every run (SIM.Extracted.Tags) — are the tables the layout model is written from (SIM.Expected), and those
  tables are what `Codec.primTag` / `C06.defTag` / the member order of `Codec.enc*` implement.
-/
import SIM.Extracted.Tags
import SIM.Model.TagsExpected
import SIM.Model.Json
import SIM.Props.C06
namespace SIM
namespace C06
open Codec

/-- what the source says today is what the model was written from -/
theorem extracted_tags_ok :
    Extracted.defTags = Expected.defTags ∧ Extracted.primTags = Expected.primTags ∧
    Extracted.structMembers = Expected.structMembers := ⟨rfl, rfl, rfl⟩

/-- the model's primitive tags are the source's: variant `p` (lower-cased name) has index `primTag p` -/
theorem prim_tags_match (p : Prim) : (JsonM.primName p, primTag p) ∈ Expected.primTags := by
  cases p <;> decide

/-- … and there is nothing else in the source's table -/
theorem prim_tags_complete : Expected.primTags.length = 15 ∧ (Expected.primTags.map (·.2)) = List.range 15 := by decide

/-- the first byte of a definition is the index the source gives its variant -/
def tagName : TypeDef Nat → Str
  | .composite _ => [99, 111, 109, 112, 111, 115, 105, 116, 101]
  | .variant _ => [118, 97, 114, 105, 97, 110, 116]
  | .sequence _ => [115, 101, 113, 117, 101, 110, 99, 101]
  | .array _ _ => [97, 114, 114, 97, 121]
  | .tuple _ => [116, 117, 112, 108, 101]
  | .primitive _ => [112, 114, 105, 109, 105, 116, 105, 118, 101]
  | .compact _ => [99, 111, 109, 112, 97, 99, 116]
  | .bitSequence _ _ => [98, 105, 116, 115, 101, 113, 117, 101, 110, 99, 101]

theorem def_tags_match (d : TypeDef Nat) : (tagName d, defTag d) ∈ Expected.defTags := by
  cases d <;> simp only [tagName, defTag] <;> decide

theorem def_tags_complete : Expected.defTags.length = 8 ∧ (Expected.defTags.map (·.2)) = List.range 8 := by decide

/-- the ids that travel compact on the wire are exactly `PortableType.id` and `UntrackedSymbol.id` -/
theorem compact_members :
    (Expected.structMembers.flatMap (fun s => (s.2.filter (·.2)).map (fun m => (s.1, m.1)))) =
      [([80, 111, 114, 116, 97, 98, 108, 101, 84, 121, 112, 101], [105, 100]),
       ([85, 110, 116, 114, 97, 99, 107, 101, 100, 83, 121, 109, 98, 111, 108], [105, 100])] := by decide

end C06
end SIM
