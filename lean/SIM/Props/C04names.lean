/-
  C04 (tie to the source by translation): the names the built-in definitions carry — path, variant names and indices, member names,
  type names, the marker's doc line — are the string literals and `.index(n)` arguments that the `type_info()` bodies of
  /repo/src/impls.rs write, re-extracted on every run (SIM.Extracted.ImplTable.literals, translators/extract_impl_tables.py).
-/
import SIM.Props.C16impls
namespace SIM
namespace C04
open Impls

theorem extracted_literals_ok : Extracted.ImplTable.literals = Expected.ImplTable.literals := rfl

/-- the literals of a path as the source writes it: `Path::prelude(ident)` is one literal, `Path::new(ident, module_path)` two -/
def pathLits (p : List Str) : List Str :=
  match p.reverse with
  | [] => []
  | [i] => [i]
  | i :: ns => [i, ([58, 58] : Str).intercalate ns.reverse]

def fieldLits (f : Field TyExpr) : List Str := f.name.toList ++ f.typeName.toList

/-- every string of a definition in the order the builder calls of the source mention them (parameter names are written through
    the `type_params!` macro, not as string literals) -/
def lits (t : Ty TyExpr) : List Str :=
  pathLits t.path ++ t.docs ++
  (match t.def_ with
   | .composite fs => fs.flatMap fieldLits
   | .variant vs => vs.flatMap (fun v => v.name :: v.fields.flatMap fieldLits)
   | _ => [])

def indices (t : Ty TyExpr) : List Nat :=
  match t.def_ with
  | .variant vs => vs.map (·.index)
  | _ => []

/-- the table row of an impl target -/
def row (target : Str) : Option (List Str × List Nat) := (Expected.ImplTable.literals.find? (·.1 == target)).map (·.2)

/-- **the model's names are the source's literals**, for every instantiation whose arguments are not markers (a marker argument
    makes `push_field` drop the member, with its names) -/
theorem names_are_literals (t e : TyExpr) (ht : isPhantom t = false) (he : isPhantom e = false) :
    ((typeInfo true (.option t)).map (fun d => (lits d, indices d))) = row C16.iOption ∧
    ((typeInfo true (.result t e)).map (fun d => (lits d, indices d))) = row C16.iResult ∧
    ((typeInfo true (.cow t)).map (fun d => (lits d, indices d))) = row C16.iCow ∧
    ((typeInfo true (.btreeMap t e)).map (fun d => (lits d, indices d))) = row C16.iBTreeMap ∧
    ((typeInfo true (.btreeSet t)).map (fun d => (lits d, indices d))) = row C16.iBTreeSet ∧
    ((typeInfo true (.binaryHeap t)).map (fun d => (lits d, indices d))) = row C16.iBinaryHeap ∧
    ((typeInfo true (.range t)).map (fun d => (lits d, indices d))) = row C16.iRange ∧
    ((typeInfo true (.rangeIncl t)).map (fun d => (lits d, indices d))) = row C16.iRangeIncl ∧
    ((typeInfo true .duration).map (fun d => (lits d, indices d))) = row C16.iDuration ∧
    ((typeInfo true (.phantom t)).map (fun d => (lits d, indices d))) = row C16.iPhantom ∧
    ((typeInfo true .lsb0).map (fun d => (lits d, indices d))) = row C16.iLsb0 ∧
    ((typeInfo true .msb0).map (fun d => (lits d, indices d))) = row C16.iMsb0 := by
  have hs : ∀ x : TyExpr, isPhantom (.slice x) = false := by intro x; simp [isPhantom, identity]
  have hu : ∀ w : W, isPhantom (.uint w) = false := by intro w; simp [isPhantom, identity]
  refine ⟨?_, ?_, ?_, ?_, ?_, ?_, ?_, ?_, ?_, ?_, ?_, ?_⟩
  all_goals simp [typeInfo, mk, pushed, uf, ht, he, hs, hu, lits, indices, pathLits, fieldLits, tp, phantomDocs]
  all_goals decide

/-- the impls with literals are exactly these twelve; all other built-in definitions are path-less and name-less -/
theorem literal_rows : Expected.ImplTable.literals.length = 12 := by decide

theorem others_have_no_names (t : TyExpr) (n : Nat) (w : W) :
    (typeInfo true (.slice t)).map lits = some [] ∧ (typeInfo true (.array n t)).map lits = some [] ∧
    (typeInfo true (.compact t)).map lits = some [] ∧ (typeInfo true (.uint w)).map lits = some [] ∧
    (typeInfo true .str).map lits = some [] ∧ (typeInfo true .tuple0).map lits = some [] := by
  refine ⟨?_, ?_, ?_, ?_, ?_, ?_⟩
  all_goals simp [typeInfo, Build.ofDef, lits, pathLits, Build.tupleNew]

theorem extracted_params_ok : Extracted.ImplTable.typeParams = Expected.ImplTable.typeParams := rfl

def paramRow (target : Str) : Option (List Str) := (Expected.ImplTable.typeParams.find? (·.1 == target)).map (·.2)

/-- **the model's type parameters are the source's `type_params![..]`**: their names are the macro's arguments, in order, and each
    stands for the generic argument of that name -/
theorem params_are_source (t e : TyExpr) :
    ((typeInfo true (.option t)).map (fun d => d.params.map (·.name)) = paramRow C16.iOption ∧
      (typeInfo true (.option t)).map (fun d => d.params.map (·.ty)) = some [some t]) ∧
    ((typeInfo true (.result t e)).map (fun d => d.params.map (·.name)) = paramRow C16.iResult ∧
      (typeInfo true (.result t e)).map (fun d => d.params.map (·.ty)) = some [some t, some e]) ∧
    ((typeInfo true (.cow t)).map (fun d => d.params.map (·.name)) = paramRow C16.iCow ∧
      (typeInfo true (.cow t)).map (fun d => d.params.map (·.ty)) = some [some t]) ∧
    ((typeInfo true (.btreeMap t e)).map (fun d => d.params.map (·.name)) = paramRow C16.iBTreeMap ∧
      (typeInfo true (.btreeMap t e)).map (fun d => d.params.map (·.ty)) = some [some t, some e]) ∧
    ((typeInfo true (.btreeSet t)).map (fun d => d.params.map (·.name)) = paramRow C16.iBTreeSet ∧
      (typeInfo true (.btreeSet t)).map (fun d => d.params.map (·.ty)) = some [some t]) ∧
    ((typeInfo true (.binaryHeap t)).map (fun d => d.params.map (·.name)) = paramRow C16.iBinaryHeap ∧
      (typeInfo true (.binaryHeap t)).map (fun d => d.params.map (·.ty)) = some [some t]) ∧
    ((typeInfo true (.range t)).map (fun d => d.params.map (·.name)) = paramRow C16.iRange ∧
      (typeInfo true (.range t)).map (fun d => d.params.map (·.ty)) = some [some t]) ∧
    ((typeInfo true (.rangeIncl t)).map (fun d => d.params.map (·.name)) = paramRow C16.iRangeIncl ∧
      (typeInfo true (.rangeIncl t)).map (fun d => d.params.map (·.ty)) = some [some t]) := by
  refine ⟨⟨?_, ?_⟩, ⟨?_, ?_⟩, ⟨?_, ?_⟩, ⟨?_, ?_⟩, ⟨?_, ?_⟩, ⟨?_, ?_⟩, ⟨?_, ?_⟩, ⟨?_, ?_⟩⟩
  all_goals simp [typeInfo, mk, tp]
  all_goals decide

/-- eight impls use `type_params!`; every other built-in definition has no type parameters -/
theorem param_rows : Expected.ImplTable.typeParams.length = 8 := by decide

theorem others_have_no_params (t : TyExpr) (n : Nat) (w : W) (d : Bool) :
    (typeInfo d .duration).map (·.params) = some [] ∧ (typeInfo d (.phantom t)).map (·.params) = some [] ∧
    (typeInfo d (.nonZeroU w)).map (·.params) = some [] ∧ (typeInfo d (.nonZeroI w)).map (·.params) = some [] ∧
    (typeInfo d .lsb0).map (·.params) = some [] ∧ (typeInfo d .msb0).map (·.params) = some [] ∧
    (typeInfo d (.slice t)).map (·.params) = some [] ∧ (typeInfo d (.array n t)).map (·.params) = some [] ∧
    (typeInfo d (.compact t)).map (·.params) = some [] ∧ (typeInfo d (.uint w)).map (·.params) = some [] ∧
    (typeInfo d .tuple0).map (·.params) = some [] := by
  refine ⟨?_, ?_, ?_, ?_, ?_, ?_, ?_, ?_, ?_, ?_, ?_⟩
  all_goals simp [typeInfo, mk, Build.ofDef]

/-! non-vacuity -/
example : isPhantom TyExpr.bool = false ∧ row C16.iOption = some ([sOption, sNone, sSome], [0, 1]) ∧
    row C16.iLsb0 = some ([sLsb0, [98, 105, 116, 118, 101, 99, 58, 58, 111, 114, 100, 101, 114]], []) := by decide

end C04
end SIM
