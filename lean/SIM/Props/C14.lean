/-
  C14 — the decoder is strict: whatever it accepts is the canonical encoding of a registry the Rust types
  can hold, followed by the untouched remainder; out-of-range ids do not resolve; non-canonical compact
  integers, bad `Option` bytes and unknown tags are rejected.
-/
import SIM.Lemmas.Codec
namespace SIM
namespace C14
open Codec

theorem decode_canonical (bs : Bytes) (r : PortableRegistry) (rest : Bytes)
    (h : decode bs = some (r, rest)) : bs = encode r ++ rest :=
  (good_registry.canon bs r rest h).2

theorem decode_bounded (bs : Bytes) (r : PortableRegistry) (rest : Bytes)
    (h : decode bs = some (r, rest)) : Bounded r :=
  (good_registry.canon bs r rest h).1

theorem decode_consumes_prefix (bs : Bytes) (r : PortableRegistry) (rest : Bytes)
    (h : decode bs = some (r, rest)) : ∃ pre, bs = pre ++ rest ∧ pre = encode r :=
  ⟨encode r, decode_canonical bs r rest h, rfl⟩

theorem resolve_oob (r : PortableRegistry) (i : Nat) (h : r.length ≤ i) : resolve r i = none := by
  simp [resolve, h]

theorem noncanonical_compact_rejected :
    decCompact [1, 0] = none ∧ decCompact [2, 0, 0, 0] = none ∧ decCompact [3, 0, 0, 0, 0] = none ∧
      decCompact [7, 1, 1, 1, 1, 1] = none := by
  decide

theorem bad_option_byte_rejected (d : Dec Nat) (b : UInt8) (rest : Bytes) (h : 2 ≤ b.toNat) :
    decOpt d (b :: rest) = none := by
  have h0 : b.toNat ≠ 0 := by omega
  have h1 : b.toNat ≠ 1 := by omega
  simp [decOpt, h0, h1]

theorem bad_def_tag_rejected (b : UInt8) (rest : Bytes) (h : 8 ≤ b.toNat) : decTypeDef (b :: rest) = none := by
  rw [decTypeDef_cons]
  repeat' split
  all_goals first | omega | rfl

theorem bad_prim_tag_rejected (b : UInt8) (rest : Bytes) (h : 15 ≤ b.toNat) : decPrim (b :: rest) = none := by
  simp [decPrim, decU8, decLe, primOfTag_none _ h]

end C14
end SIM
