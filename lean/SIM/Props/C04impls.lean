/-
  C04 (tie to the source by translation): the built-in impls the model describes are the ones /repo/src/impls.rs declares —
  the primitive table, the tuple arities 0 … 20 and the NonZero rows are re-extracted on every run (SIM.Extracted.ImplTable,
  translators/extract_impl_tables.py); statements and proofs in SIM.Props.C16impls.
-/
import SIM.Props.C16impls
namespace SIM
namespace C04
open Impls

/-- what the source says today is what the model was written from -/
theorem extracted_impls_ok :
    Extracted.ImplTable.primImpls = Expected.ImplTable.primImpls ∧ Extracted.ImplTable.tupleArities = Expected.ImplTable.tupleArities ∧
    Extracted.ImplTable.nonZero = Expected.ImplTable.nonZero ∧ Extracted.ImplTable.identities = Expected.ImplTable.identities :=
  ⟨C16.extracted_impls_ok.2.1, C16.extracted_impls_ok.2.2.1, C16.extracted_impls_ok.2.2.2.1, C16.extracted_impls_ok.1⟩

/-- every Rust primitive is described by the `TypeDefPrimitive` variant of the same name, and the model's mapping is that table -/
theorem prim_table :
    (∀ w, (JsonM.primName (primOfUint w), JsonM.primName (primOfUint w)) ∈ Expected.ImplTable.primImpls) ∧
    (∀ w, (JsonM.primName (primOfSint w), JsonM.primName (primOfSint w)) ∈ Expected.ImplTable.primImpls) ∧
    Expected.ImplTable.primImpls.length = 13 ∧ (∀ r ∈ Expected.ImplTable.primImpls, r.1 = r.2) :=
  ⟨C16.prim_impls_match.2.2.2.1, C16.prim_impls_match.2.2.2.2, C16.prim_impls_complete.1, C16.prim_impls_complete.2⟩

/-- tuples of 0 … 20 members have an impl, no others -/
theorem tuple_arities : Expected.ImplTable.tupleArities = List.range 21 := C16.tuple_arities

/-- `NonZeroX` wraps the primitive of the same width and sign -/
theorem non_zero_rows :
    (∀ w, (nonZeroUName w, JsonM.primName (primOfUint w)) ∈ Expected.ImplTable.nonZero) ∧
    (∀ w, (nonZeroIName w, JsonM.primName (primOfSint w)) ∈ Expected.ImplTable.nonZero) := ⟨C16.non_zero_rows.1, C16.non_zero_rows.2.1⟩

end C04
end SIM
