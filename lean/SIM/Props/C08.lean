/-
  C08 — the JSON form of a portable registry.

  For EVERY registry the Rust types can hold (`Codec.Bounded`) reading back the serialised JSON value
  gives the registry (so serialisation is injective and carries the same information as the SCALE
  form); the serialised value of ANY registry has the documented shape (`Spec.jsonShape`): the
  documented keys and lower-case definition tags, empty parts and absent names omitted.
-/
import SIM.Lemmas.Json
import SIM.Props.C07
namespace SIM
namespace C08
open JsonM

theorem toRegistry_ofRegistry (r : PortableRegistry) (h : Codec.Bounded r) : toRegistry (ofRegistry r) = .ok r :=
  JsonM.toRegistry_ofRegistry r h

theorem ofRegistry_shape (r : PortableRegistry) : Spec.jsonShape (ofRegistry r) = true :=
  JsonM.jsonShape_ofRegistry r

/-- the JSON and SCALE forms of one registry carry the same information: each recovers the registry -/
theorem json_scale_same_info (r : PortableRegistry) (h : Codec.Bounded r) :
    toRegistry (ofRegistry r) = .ok r ∧ Codec.decode (Codec.encode r) = some (r, []) :=
  ⟨toRegistry_ofRegistry r h, C07.decode_encode_exact r h⟩

theorem ofRegistry_injective (a b : PortableRegistry) (ha : Codec.Bounded a) (hb : Codec.Bounded b)
    (h : ofRegistry a = ofRegistry b) : a = b := by
  have h1 := toRegistry_ofRegistry a ha
  rw [h, toRegistry_ofRegistry b hb] at h1
  exact (Except.ok.inj h1).symm

theorem prim_name_roundtrip (p : Prim) : primOfName (primName p) = some p :=
  primOfName_primName p

/-- definitions are externally tagged with exactly the documented lower-case tags -/
theorem def_tag (d : TypeDef Nat) : ∃ k v, ofTypeDef d = .obj [(k, v)] ∧
    k.text = (match d with
      | .composite _ => [99,111,109,112,111,115,105,116,101]       -- "composite"
      | .variant _ => [118,97,114,105,97,110,116]                  -- "variant"
      | .sequence _ => [115,101,113,117,101,110,99,101]            -- "sequence"
      | .array _ _ => [97,114,114,97,121]                          -- "array"
      | .tuple _ => [116,117,112,108,101]                          -- "tuple"
      | .primitive _ => [112,114,105,109,105,116,105,118,101]      -- "primitive"
      | .compact _ => [99,111,109,112,97,99,116]                   -- "compact"
      | .bitSequence _ _ => [98,105,116,115,101,113,117,101,110,99,101]) := by  -- "bitsequence"
  cases d <;> exact ⟨_, _, rfl, rfl⟩

/-- the parser/printer of keys used by the driver are inverse on the known keys -/
theorem key_text_roundtrip (k : Key) (h : ∀ s, k ≠ .other s) : Key.ofText k.text = k := by
  cases k <;> first | rfl | exact absurd rfl (h _)

/-- empty parts are omitted, non-empty ones present (type level) -/
theorem ty_members (t : Ty Nat) : ∃ kv, ofTy t = .obj kv ∧
    ((getKey kv .path).isSome = !t.path.isEmpty) ∧ ((getKey kv .params).isSome = !t.params.isEmpty) ∧
    ((getKey kv .docs).isSome = !t.docs.isEmpty) ∧ (getKey kv .def_).isSome = true := by
  refine ⟨_, rfl, ?_⟩
  obtain ⟨path, params, d, docs⟩ := t
  cases path <;> cases params <;> cases docs <;> exact ⟨rfl, rfl, rfl, rfl⟩

/-- absent names are omitted (field level) -/
theorem field_members (f : Field Nat) : ∃ kv, ofField f = .obj kv ∧
    ((getKey kv .name).isSome = f.name.isSome) ∧ ((getKey kv .typeName).isSome = f.typeName.isSome) ∧
    ((getKey kv .docs).isSome = !f.docs.isEmpty) ∧ (getKey kv .type_).isSome = true := by
  refine ⟨_, rfl, ?_⟩
  obtain ⟨name, ty, typeName, docs⟩ := f
  cases name <;> cases typeName <;> cases docs <;> exact ⟨rfl, rfl, rfl, rfl⟩

/-! ### non-vacuity: the sample registry of C07 (every definition kind) round-trips and has the shape -/

example : toRegistry (ofRegistry C07.sample) = .ok C07.sample := toRegistry_ofRegistry C07.sample (by
  open Codec C07 in
  simp [sample, plain, sampleField, sampleField', sampleVariant, sampleParams, Bounded, okPType, okTy, okTypeDef, okParam, okStrs, okStr, okId, okFields, okField,
    okOptStr, okVariant, validUtf8_nil, validUtf8_u8, validUtf8_e])

example : Spec.jsonShape (ofRegistry C07.sample) = true := ofRegistry_shape C07.sample

end C08
end SIM
