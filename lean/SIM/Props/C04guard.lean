/-
  C04 (guard) — the pre-flight `Driver.preflight` that protects the compiled driver from garbage lengths never rejects an input the
  registry-only decoder `decodeVal` accepts (given enough budget), and `Driver.decodeGuarded` never answers anything `decodeVal`
  does not. The budget needed is `Driver.steps v`: one unit per node of the decoded value plus one per element of a sequence / array.
-/
import SIM.Lemmas.Guard
namespace SIM
namespace C04
open Driver Value Codec

/-- quantitative form: the pre-flight spends exactly `steps v` units on what `decodeVal` reads as `v` -/
theorem preflight_cost (reg : PortableRegistry) (fuel id : Nat) (bs : Bytes) (v : Val) (rest : Bytes)
    (h : decodeVal reg fuel id bs = some (v, rest)) (b : Nat) (hb : steps v ≤ b) :
    preflight reg fuel id bs b = some (rest, b - steps v) :=
  preflight_follows reg fuel id bs v rest h b hb

/-- monotonicity in the budget, on the inputs the decoder accepts -/
theorem preflight_budget_mono (reg : PortableRegistry) (fuel id : Nat) (bs : Bytes) (v : Val) (rest : Bytes)
    (h : decodeVal reg fuel id bs = some (v, rest)) (b k : Nat) (hb : steps v ≤ b) :
    preflight reg fuel id bs (b + k) = some (rest, b - steps v + k) := by
  rw [preflight_cost reg fuel id bs v rest h (b + k) (by omega)]
  congr 2
  omega

/-- completeness of the pre-flight: whatever `decodeVal` reads, the pre-flight walks too - with the same remainder - as soon as
    the budget is large enough -/
theorem preflight_complete (reg : PortableRegistry) (fuel id : Nat) (bs : Bytes) (v : Val) (rest : Bytes)
    (h : decodeVal reg fuel id bs = some (v, rest)) :
    ∃ b0, ∀ b, b0 ≤ b → ∃ b', preflight reg fuel id bs b = some (rest, b') :=
  ⟨steps v, fun b hb => ⟨b - steps v, preflight_cost reg fuel id bs v rest h b hb⟩⟩

/-- the guarded decoder agrees with the decoder once the budget reaches `steps v` -/
theorem decodeGuarded_of_budget (reg : PortableRegistry) (fuel id : Nat) (bs : Bytes) (v : Val) (rest : Bytes)
    (h : decodeVal reg fuel id bs = some (v, rest)) (b : Nat) (hb : steps v ≤ b) :
    decodeGuarded reg fuel id bs b = some (v, rest) := by
  simp only [decodeGuarded, preflight_cost reg fuel id bs v rest h b hb, h]

/-- hence the guarded decoder agrees with the decoder on everything the decoder accepts, for a large enough budget -/
theorem decodeGuarded_complete (reg : PortableRegistry) (fuel id : Nat) (bs : Bytes) (v : Val) (rest : Bytes)
    (h : decodeVal reg fuel id bs = some (v, rest)) :
    ∃ b0, ∀ b, b0 ≤ b → decodeGuarded reg fuel id bs b = some (v, rest) :=
  ⟨steps v, fun b hb => decodeGuarded_of_budget reg fuel id bs v rest h b hb⟩

/-- and it never answers anything the decoder does not -/
theorem decodeGuarded_sound (reg : PortableRegistry) (fuel id : Nat) (bs : Bytes) (b : Nat) (r : Val × Bytes)
    (h : decodeGuarded reg fuel id bs b = some r) : decodeVal reg fuel id bs = some r := by
  simp only [decodeGuarded] at h
  split at h
  · cases h
  · exact h

/-! ## non-vacuity: `struct S(u8, Vec<u16>)` -/

private def ty (d : TypeDef Nat) : Ty Nat := { path := [], params := [], def_ := d, docs := [] }
private def fld (t : Nat) : Field Nat := { name := none, ty := t, typeName := none, docs := [] }

/-- 0: the struct, 1: `u8`, 2: `u16`, 3: `Vec<u16>`, 4: `()`, 5: `Vec<()>` -/
def exReg : PortableRegistry :=
  [ { id := 0, ty := ty (.composite [fld 1, fld 3]) },
    { id := 1, ty := ty (.primitive .u8) },
    { id := 2, ty := ty (.primitive .u16) },
    { id := 3, ty := ty (.sequence 2) },
    { id := 4, ty := ty (.tuple []) },
    { id := 5, ty := ty (.sequence 4) } ]

/-- `S(7, vec![1, 513])` followed by one byte that is not part of it -/
def exBytes : Bytes := [7, 8, 1, 0, 1, 2, 255]

def exVal : Val := .composite [(none, .uint 8 7), (none, .seq [.uint 16 1, .uint 16 513])]

example : decodeVal exReg 3 0 exBytes = some (exVal, [255]) := by rfl
example : decodeGuarded exReg 3 0 exBytes 100 = some (exVal, [255]) := by rfl
example : steps exVal = 7 := by rfl
example : preflight exReg 3 0 exBytes 100 = some ([255], 93) := by rfl
/-- the budget bound is sharp here: one unit less and the guard gives up -/
example : decodeGuarded exReg 3 0 exBytes 7 = some (exVal, [255]) := by rfl
example : preflight exReg 3 0 exBytes 6 = none := by rfl
/-- the garbage length the guard exists for: 2^30 - 1 zero-sized elements announced; the guard gives up after 100 steps
    instead of recursing 2^30 frames deep -/
example : decCompact [254, 255, 255, 255] = some (1073741823, []) := by rfl
example : decodeGuarded exReg 3 5 [254, 255, 255, 255] 100 = none := by rfl

end C04
end SIM
