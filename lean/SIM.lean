import SIM.Model.Types
