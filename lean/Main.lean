/-
  Line-protocol driver. Reads case lines `<stream> <case> ...` on stdin and answers
  one verdict line per case: `<stream> <case> OK nt|tr | DIFF .. | SPECFAIL .. | UNMODELLED .. | PARSE`.
  Imports model and spec files only (no Mathlib, no proofs), so it links as a `lean_exe`.
-/
import SIM.Driver.Basic
import SIM.Driver.Codec
import SIM.Driver.Registry
import SIM.Driver.Retain
import SIM.Driver.Json
import SIM.Driver.Build
import SIM.Driver.Std
import SIM.Driver.Derive
import SIM.Driver.Schema
import SIM.Driver.Neg
import SIM.Driver.Fp
open SIM SIM.Driver

/-- diagnostic: `decdbg <case> <root> <registry> <hexbytes>` prints what the registry-directed decoder reads -/
def decdbg : P Verdict := do
  let root ← P.nat
  let reg ← P.registry
  let bytes ← P.str
  pure (.unmodelled (toString (repr (Value.decodeVal reg (reg.length + 64) root bytes))))

def dispatch (stream : String) (toks : List String) : Verdict :=
  match stream with
  | "interner" => runP interner toks
  | "builder" => runP builder toks
  | "path" => runP path toks
  | "codec" => runP codec toks
  | "registry" => runP registry toks
  | "retain" => runP retain toks
  | "json" => runP json toks
  | "build" => runP build toks
  | "std" => runP stdCase toks
  | "stdall" => runP stdAllCase toks
  | "twins" => runP twinsCase toks
  | "meta" => runP metaCase toks
  | "tinfo" => runP tinfoCase toks
  | "derive" => runP deriveCase toks
  | "schema" => runP schemaCase toks
  | "decdbg" => runP decdbg toks
  | "neg" => runP negCase toks
  | "fp" => runP fpCase toks
  | _ => .unmodelled ("unknown stream " ++ stream)

partial def loop (h : IO.FS.Stream) (out : IO.FS.Stream) : IO Unit := do
  let line ← h.getLine
  if line.isEmpty then return ()
  let toks := (line.trimAscii.toString.splitOn " ").filter (· ≠ "")
  match toks with
  | stream :: case :: rest =>
    let v := dispatch stream rest
    out.putStrLn (stream ++ " " ++ case ++ " " ++ v.render)
  | _ => out.putStrLn "? ? PARSE"
  loop h out

def main : IO Unit := do
  let out ← IO.getStdout
  loop (← IO.getStdin) out
