#!/usr/bin/env python3
"""Run under python3-vt (has jsonschema). stdin: lines `doc <k> <wf> <registry proto> ;; <json text>` from `sch docs`;
argv[1]: file with the real schema; argv[2]: seed. stdout: case lines of the `schema` stream:
  schema <k> <jsonschema verdict 0|1> ser <registry proto> <json tokens>
  schema <k>m<i> <verdict> mut <json tokens>          (structural mutations of the document)"""
import sys, json, random, copy
import jsonschema


def hexs(s):
    return 'x' + s.encode().hex()


def tok(v):
    if v is None:
        return 'n'
    if v is True:
        return 't'
    if v is False:
        return 'f'
    if isinstance(v, int):
        return f'i {v}' if v >= 0 else 'j'
    if isinstance(v, float):
        return 'j'
    if isinstance(v, str):
        return 's ' + hexs(v)
    if isinstance(v, list):
        return 'a ' + str(len(v)) + ''.join(' ' + tok(x) for x in v)
    return 'o ' + str(len(v)) + ''.join(' ' + hexs(k) + ' ' + tok(x) for k, x in v.items())


def nodes(v, path, out):
    out.append(list(path))
    if isinstance(v, list):
        for i, x in enumerate(v):
            nodes(x, path + [i], out)
    elif isinstance(v, dict):
        for k, x in v.items():
            nodes(x, path + [k], out)


KEYS = ['types', 'id', 'type', 'path', 'params', 'def', 'docs', 'name', 'typeName', 'index', 'fields', 'variants', 'len', 'composite', 'variant',
        'sequence', 'array', 'tuple', 'primitive', 'compact', 'bitsequence', 'bit_store_type', 'bit_order_type', 'extra', 'bitSequence']


def mutate(r, doc):
    d = copy.deepcopy(doc)
    ps = []
    nodes(d, [], ps)
    p = r.choice(ps)
    if not p:
        return d
    parent = d
    for k in p[:-1]:
        parent = parent[k]
    last = p[-1]
    c = r.randrange(8)
    if c == 0:
        parent[last] = None
    elif c == 1:
        parent[last] = r.choice([0, 255, 256, -1, 1.5, 'x', True, [], {}, 'u8', 'U8'])
    elif c == 2 and isinstance(parent, dict):
        del parent[last]
    elif c == 3 and isinstance(parent[last], dict):
        parent[last][r.choice(KEYS)] = r.choice([None, [], 's', 3, {}, ['a']])
    elif c == 4 and isinstance(parent, dict):
        parent[r.choice(KEYS)] = parent.pop(last)
    elif c == 5 and isinstance(parent[last], list) and parent[last]:
        parent[last].pop(r.randrange(len(parent[last])))
    elif c == 6 and isinstance(parent[last], str):
        parent[last] = r.choice(['', 'bool', 'u512', 'é'])
    else:
        parent[last] = [parent[last]]
    return d


def main():
    schema = json.load(open(sys.argv[1]))
    r = random.Random(int(sys.argv[2]))
    muts = int(sys.argv[3]) if len(sys.argv) > 3 else 3
    v = jsonschema.Draft7Validator(schema)
    for line in sys.stdin:
        if not line.startswith('doc '):
            continue
        head, js = line.rstrip('\n').split(' ;; ', 1)
        _, k, wf, reg = head.split(' ', 3)
        doc = json.loads(js)
        print(f'schema {k} {int(v.is_valid(doc))} ser {reg} {tok(doc)}')
        for i in range(muts):
            m = mutate(r, doc)
            if r.random() < 0.3:
                m = mutate(r, m)
            print(f'schema {k}m{i} {int(v.is_valid(m))} mut {tok(m)}')


if __name__ == '__main__':
    main()
