"""C13 / C20: programs compiled on their own (one cargo bin target each) against /repo; rustc's verdict per program is
compared with the Lean models (typestate automaton, attribute validator, where-clause generator)."""
import os, sys, subprocess, shutil, json, time



def main(ck, pid, cfg, tier, seed, replay):
    NG_DIR = os.path.join(ck.VERIF, 'harness', 'progs', 'ng')
    ngenv = dict(ck.ENV, CARGO_TARGET_DIR=os.path.join(ck.BUILD, 'ng'))
    t0 = time.time()
    failures, stats, seen, samples = [], dict(evaluations=0, by_verdict={}, unmodelled=0), set(), []
    build_fail = None
    lean = ck.lean_side(pid, cfg)
    if replay:
        rp = json.load(open(replay))
        print('replay: re-generating the programs with the recorded seed; the failing case was:', (rp.get('case') or '')[:400])
        seed, tier = rp.get('seed', seed), rp.get('tier', tier)
    n = cfg['n'][tier]
    with ck.Lock('ng'):
        g = ck.sh([sys.executable, os.path.join(ck.GEN_DIR, 'gen_neg.py'), '--seed', str(seed), '--n', str(n), '--classes', cfg['classes'], '--out', NG_DIR], cwd=ck.VERIF)
        if g.returncode != 0:
            build_fail = 'generator failed: ' + g.stdout[-2000:]
        else:
            if os.path.exists('/repo/Cargo.lock'):
                shutil.copyfile('/repo/Cargo.lock', os.path.join(NG_DIR, 'Cargo.lock'))
            # the library part (dependencies incl. scale-info from /repo) must build; then every bin on its own
            lib = ck.sh(['cargo', 'check', '--offline', '--lib', '--quiet'], cwd=NG_DIR, timeout=3600, env=ngenv)
            if lib.returncode != 0:
                build_fail = 'scale-info does not build: ' + lib.stdout[-3000:]
            else:
                p = subprocess.run(['cargo', 'check', '--offline', '--bins', '--keep-going', '--message-format=json'], cwd=NG_DIR,
                                   stdout=subprocess.PIPE, stderr=subprocess.DEVNULL, text=True, env=ngenv, timeout=7200)
                errs = {}
                finished = set()
                for l in p.stdout.splitlines():
                    try:
                        m = json.loads(l)
                    except ValueError:
                        continue
                    if m.get('reason') == 'compiler-message' and m['message']['level'] == 'error':
                        t = m['target']['name']
                        code = (m['message'].get('code') or {}).get('code') or 'macro'
                        errs.setdefault(t, code)
                    if m.get('reason') == 'compiler-artifact':
                        finished.add(m['target']['name'])
                lines = []
                for l in open(os.path.join(NG_DIR, 'cases.txt')):
                    l = l.rstrip('\n')
                    k = l.split(' ')[1]
                    k = k if k.startswith('x') else 'c' + k
                    if k in errs:
                        lines.append(f'{l} err {errs[k]}')
                    elif k in finished:
                        lines.append(f'{l} ok -')
                    else:
                        failures.append(dict(stream='neg', kind='BUILD', case=l, detail='no verdict from cargo for this program'))
                c, v = ck.run_lines(pid, 'neg', lines, tier)
                ck.tally(c, v, stats, failures, seen, samples, 'neg', cfg.get('filter'))
    ck.finish(pid, cfg, tier, seed, t0, lean, build_fail, failures, stats, seen, samples,
              extra_cov=dict(programs=stats['evaluations'], compiled_each_on_its_own=True))
