"""C15: produced metadata does not depend on the enabled crate features. A fingerprint program over a generated corpus
(built-in + derived types, no BitVec) is built once per feature set of scale-info; the encoded registries must be byte-identical
across all sets without docs, across all sets with docs, and differ between the two groups in documentation strings only."""
import os, sys, subprocess, shutil, json, time, itertools
from concurrent.futures import ThreadPoolExecutor

FEATS = ['f_std', 'f_serde', 'f_decode', 'f_bitvec', 'f_schema', 'f_docs']
QUICK = [[], ['f_std'], ['f_decode'], ['f_std', 'f_serde', 'f_decode'], ['f_std', 'f_serde', 'f_bitvec', 'f_schema'], ['f_serde', 'f_bitvec'],
         ['f_docs'], ['f_std', 'f_docs'], ['f_std', 'f_serde', 'f_decode', 'f_bitvec', 'f_schema', 'f_docs']]


def name(fs):
    return '+'.join(f[2:] for f in fs) or 'none'


def main(ck, pid, cfg, tier, seed, replay):
    FP_DIR = os.path.join(ck.VERIF, 'harness', 'progs', 'fp')
    t0 = time.time()
    failures, stats, seen, samples = [], dict(evaluations=0, by_verdict={}, unmodelled=0), set(), []
    build_fail = None
    lean = ck.lean_side(pid, cfg)
    if replay:
        rp = json.load(open(replay))
        print('replay: rebuilding the fingerprint program for the recorded feature sets; failing case was:', (rp.get('case') or '')[:300])
        seed, tier = rp.get('seed', seed), rp.get('tier', tier)
    sets = QUICK if tier == 'quick' else [list(c) for k in range(len(FEATS) + 1) for c in itertools.combinations(FEATS, k)]
    n = cfg['n'][tier]
    outputs = {}
    with ck.Lock('fp'):
        for script, out, nn in (('gen_std.py', 'gen_std.rs', n), ('gen_derive.py', 'gen_derive.rs', max(10, n // 3))):
            g = ck.sh([sys.executable, os.path.join(ck.GEN_DIR, script), '--seed', str(seed), '--n', str(nn), '--fp', '--out', os.path.join(FP_DIR, 'src', out)], cwd=ck.VERIF)
            if g.returncode != 0:
                build_fail = f'generator {script} failed: ' + g.stdout[-1500:]
        if os.path.exists('/repo/Cargo.lock'):
            shutil.copyfile('/repo/Cargo.lock', os.path.join(FP_DIR, 'Cargo.lock'))

        def build(fs):
            env = dict(ck.ENV, CARGO_TARGET_DIR=os.path.join(ck.BUILD, 'fp', name(fs)), CARGO_BUILD_JOBS='4')
            cmd = ['cargo', 'build', '--offline', '--quiet'] + (['--features', ','.join(fs)] if fs else [])
            r = subprocess.run(cmd, cwd=FP_DIR, env=env, stdout=subprocess.PIPE, stderr=subprocess.STDOUT, text=True, timeout=3600)
            if r.returncode != 0:
                return fs, None, r.stdout[-1500:]
            o = subprocess.run([os.path.join(ck.BUILD, 'fp', name(fs), 'debug', 'fp')], stdout=subprocess.PIPE, text=True)
            return fs, (o.stdout if o.returncode == 0 else None), f'exit {o.returncode}'
        if not build_fail:
            with ThreadPoolExecutor(max_workers=4) as ex:
                for fs, out, msg in ex.map(build, sets):
                    if out is None:
                        failures.append(dict(stream='fp', kind='BUILD', case='features ' + name(fs),
                                             detail=f'the fingerprint program does not build / run with scale-info features [{name(fs)}]: {msg}'))
                    else:
                        outputs[name(fs)] = dict(l.split(' ', 2)[1:] for l in out.splitlines() if l.startswith('fp '))
    lines = []
    # a type on which the library panics under some feature sets: the expression of the type is the failing input
    keys = sorted({k for o in outputs.values() for k in o})
    for k in keys:
        pan = sorted(s for s, o in outputs.items() if o.get(k, '').startswith('panic'))
        if pan:
            fine = sorted(s for s in outputs if s not in pan)
            expr = outputs[pan[0]][k][6:]
            failures.append(dict(stream='fp', kind='SPECFAIL', case=f'fp-item {k} {expr}',
                                 detail=f'C15: registering `{expr}` (corpus item {k}, seed {seed}) panics with scale-info features {pan}' +
                                        (f' and yields a registry with {fine}' if fine else ' (every feature set built)')))
            for o in outputs.values():
                o.pop(k, None)
    plain = [s for s in outputs if 'docs' not in s.split('+')]
    docs = [s for s in outputs if 'docs' in s.split('+')]
    if plain:
        base = plain[0]
        for s in plain[1:]:
            for k, hx in outputs[base].items():
                lines.append(f'fp {s}:{k} eq {base} {s} {hx} {outputs[s].get(k, "x")}')
        if docs:
            dbase = docs[0]
            for k, hx in outputs[base].items():
                lines.append(f'fp {dbase}:{k} docs {base} {dbase} {hx} {outputs[dbase].get(k, "x")}')
            for s in docs[1:]:
                for k, hx in outputs[dbase].items():
                    lines.append(f'fp {s}:{k} eq {dbase} {s} {hx} {outputs[s].get(k, "x")}')
    if lines:
        c, v = ck.run_lines(pid, 'fp', lines, tier)
        ck.tally(c, v, stats, failures, seen, samples, 'fp', cfg.get('filter'))
    ck.finish(pid, cfg, tier, seed, t0, lean, build_fail, failures, stats, seen, samples,
              extra_cov=dict(feature_sets=sorted(outputs), feature_sets_built=len(outputs), corpus_types=len(next(iter(outputs.values()))) if outputs else 0,
                             exhaustive=(tier == 'thorough')))
