#!/usr/bin/env python3
"""Regenerates MANIFEST.json from checks/props.py + checks/manifest_text.py."""
import json, os, sys
sys.path.insert(0, os.path.dirname(os.path.abspath(__file__)))
from props import PROPS
from manifest_text import TEXT, NOT_APPLICABLE
V = os.path.dirname(os.path.dirname(os.path.abspath(__file__)))
checks = []
CLAIMED = [p for p in sorted(PROPS) if p in TEXT]
for pid in CLAIMED:
    t = TEXT[pid]
    checks.append(dict(
        property_id=pid,
        quick_cmd=f'./check {pid} --tier quick',
        thorough_cmd=f'./check {pid} --tier thorough',
        evidence_file=f'/verif/evidence/{pid}.json',
        replay_cmd_template=f'./check {pid} --replay {{path}}',
        engine='lean-model+correspondence',
        level_claimed=dict(category='proof', text=t['level'], design_ref=t['design_ref']),
        level_note=t['note'],
        technique=t['technique'],
    ))
m = dict(
    version=1,
    setup_cmd='./setup.sh',
    hooks=dict(guard='scale_info_verif', enable='RUSTFLAGS="--cfg scale_info_verif" (no hook is needed or present: every observation uses public API)',
               baseline_off_cmd='cd /repo && cargo test --workspace --no-fail-fast --offline',
               source_commits=[], add_only=True),
    engines=[dict(name='lean-model+correspondence', path='/verif/check',
                  serves_properties=CLAIMED,
                  kind_free_text='Lean 4 theorems over a hand-written model (lean/SIM), tied to /repo on every run by differential runs of the real code (harness/rt) against the model and the spec predicates (lean driver)')],
    checks=checks,
    notes='Fix commits in /repo: see KNOWN_FINDINGS.json (fixed: entries). DESIGN.md explains every check.',
    not_applicable=[dict(property_id=p, reason=r) for p, r in sorted(NOT_APPLICABLE.items()) if p not in CLAIMED],
)
json.dump(m, open(os.path.join(V, 'MANIFEST.json'), 'w'), indent=1)
print('claimed', len(checks), 'not_applicable', len(m['not_applicable']))
